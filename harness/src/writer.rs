//! Stream `writer`: the real BufferedWriter with a chosen flush threshold (C08).
//!   <max> <batch sizes b1,b2,...> <well-framed input hex>
//! The input is cut into CDPs by a chain walk, grouped into batches of the given sizes (the last
//! size repeats), pushed with push_cdp_arr, the writer is dropped; output = "<length> <crc32>" of the file.
use crate::scan::crc32;
use crate::util::*;
use alice_protocol_reader::cdp_wrapper::cdp_array::CdpArray;
use alice_protocol_reader::prelude::*;
use fastpasta::config::test_util::MockConfig;
use fastpasta::write::writer::{BufferedWriter, Writer};

static COUNTER: std::sync::atomic::AtomicUsize = std::sync::atomic::AtomicUsize::new(0);

pub fn run_case(line: &str) -> String {
    let t: Vec<&str> = line.split_whitespace().collect();
    let max: usize = t[0].parse().unwrap();
    let sizes: Vec<usize> = t[1].split(',').map(|x| x.parse().unwrap()).collect();
    let data = if t[2] == "-" { Vec::new() } else { unhex(t[2]) };
    let n = COUNTER.fetch_add(1, std::sync::atomic::Ordering::SeqCst);
    let dir = if std::path::Path::new("/dev/shm").is_dir() { "/dev/shm".to_string() } else { std::env::temp_dir().display().to_string() };
    let path = format!("{}/fv_writer_{}_{}.raw", dir, std::process::id(), n);
    let p2 = path.clone();
    let res = std::panic::catch_unwind(std::panic::AssertUnwindSafe(move || {
        let mut cfg = MockConfig::new();
        cfg.output = Some(std::path::PathBuf::from(&p2));
        let mut cdps: Vec<(RdhCru, Vec<u8>, u64)> = Vec::new();
        let mut off = 0usize;
        while off + 64 <= data.len() {
            let rdh = RdhCru::load(&mut &data[off..off + 64]).unwrap();
            let ps = rdh.payload_size() as usize;
            let payload = data[off + 64..(off + 64 + ps).min(data.len())].to_vec();
            let next = rdh.offset_to_next() as usize;
            cdps.push((rdh, payload, off as u64));
            if next < 64 {
                break;
            }
            off += next;
        }
        {
            let mut w: BufferedWriter<RdhCru> = BufferedWriter::new(&cfg, max);
            let mut it = cdps.into_iter().peekable();
            let mut k = 0;
            while it.peek().is_some() {
                let sz = sizes[k.min(sizes.len() - 1)].min(100).max(1);
                k += 1;
                let mut arr: CdpArray<RdhCru, 100> = CdpArray::new();
                for _ in 0..sz {
                    if let Some((r, p, o)) = it.next() {
                        arr.push(r, p, o);
                    }
                }
                w.push_cdp_arr(arr);
            }
        }
        let out = std::fs::read(&p2).unwrap_or_default();
        format!("{} {:08X}", out.len(), crc32(&out, 0))
    }));
    let _ = std::fs::remove_file(&path);
    match res {
        Ok(s) => s,
        Err(_) => "PANIC writer".to_string(),
    }
}
