//! Stream `words`: word-level predicates (C11).
//!   ihw|tdh|tdt|ddw0 <20 hex>            -> ok | err <escaped message>
//!   data <20 hex> <lanes hex> <running>  -> codes of the errors CdpRunningValidator reports for
//!                                           this word after IHW(active lanes) + TDH, `-` if none
use crate::util::*;
use alice_protocol_reader::prelude::*;
use fastpasta::analyze::validators::its::cdp_running::CdpRunningValidator;
use fastpasta::analyze::validators::its::status_word::StatusWordSanityChecker;
use fastpasta::config::check::{CheckCommands, CheckModeArgs, System};
use fastpasta::config::test_util::MockConfig;
use fastpasta::stats::StatType;
use fastpasta::words::its::status_words::{ddw::Ddw0, ihw::Ihw, tdh::Tdh, tdt::Tdt, StatusWord};
use std::sync::OnceLock;

static CFG_ALL: OnceLock<MockConfig> = OnceLock::new();
static CFG_SANITY: OnceLock<MockConfig> = OnceLock::new();

fn cfg(running: bool) -> &'static MockConfig {
    if running {
        CFG_ALL.get_or_init(|| {
            let mut c = MockConfig::new();
            c.check = Some(CheckCommands::All(CheckModeArgs {
                target: Some(System::ITS),
                ..Default::default()
            }));
            c
        })
    } else {
        CFG_SANITY.get_or_init(|| {
            let mut c = MockConfig::new();
            c.check = Some(CheckCommands::Sanity(CheckModeArgs {
                target: Some(System::ITS),
                ..Default::default()
            }));
            c
        })
    }
}

fn res(r: Result<(), String>) -> String {
    match r {
        Ok(()) => "ok".to_string(),
        Err(e) => format!("err {}", esc(&e)),
    }
}

pub fn base_rdh() -> RdhCru {
    // a plain v7 ITS RDH, page 0, stop 0, data format 2
    let mut b = [0u8; 64];
    b[0] = 7;
    b[1] = 0x40;
    b[2] = 0x2A;
    b[3] = 0x50;
    b[5] = 0x20;
    b[8] = 0x40;
    b[9] = 0x01; // offset 0x140
    b[10] = 0x40;
    b[11] = 0x01;
    b[24] = 2; // data format
    b[32] = 0x03;
    b[33] = 0x6A; // trigger type
    RdhCru::load(&mut &b[..]).unwrap()
}

pub fn run_case(line: &str) -> String {
    let mut it = line.split_whitespace();
    let kind = it.next().unwrap().to_string();
    let w = unhex(it.next().unwrap());
    match kind.as_str() {
        "ihw" => catch(move || res(StatusWordSanityChecker::check_ihw(&Ihw::load(&mut &w[..]).unwrap()))),
        "tdh" => catch(move || res(StatusWordSanityChecker::check_tdh(&Tdh::load(&mut &w[..]).unwrap()))),
        "tdt" => catch(move || res(StatusWordSanityChecker::check_tdt(&Tdt::load(&mut &w[..]).unwrap()))),
        "ddw0" => catch(move || res(StatusWordSanityChecker::check_ddw0(&Ddw0::load(&mut &w[..]).unwrap()))),
        "data" => {
            let lanes = u32::from_str_radix(it.next().unwrap(), 16).unwrap();
            let running = it.next().unwrap() == "1";
            catch(move || {
                let (tx, rx) = flume::unbounded();
                let mut v: CdpRunningValidator<RdhCru, MockConfig> = CdpRunningValidator::new(cfg(running), tx);
                let rdh = base_rdh();
                v.set_current_rdh(&rdh, 0);
                let l = lanes.to_le_bytes();
                let ihw = [l[0], l[1], l[2], l[3], 0, 0, 0, 0, 0, 0xE0];
                // TDH: internal trigger, orbit 0, bc 0, trigger type = RDH's 12 lsb
                let tdh = [0x03, 0x1A, 0, 0, 0, 0, 0, 0, 0, 0xE8];
                v.check(&ihw);
                v.check(&tdh);
                let before: Vec<_> = rx.try_iter().collect();
                v.check(&w);
                let mut codes = Vec::new();
                for m in rx.try_iter() {
                    if let StatType::Error(msg) = m {
                        codes.push(esc(&msg));
                    }
                }
                let pre = before.len();
                if codes.is_empty() {
                    format!("pre{pre} -")
                } else {
                    format!("pre{pre} {}", codes.join(" || "))
                }
            })
        }
        _ => "unknown".to_string(),
    }
}
