//! Stream `prep`: preprocess_payload on one payload (C12).
//!   <payload hex | ->   ->  err | ok <slot> <w1>,<w2>,...   (the 10 bytes handed to the checker)
use crate::util::*;
use fastpasta::analyze::validators::lib::preprocess_payload;

pub fn run_case(line: &str) -> String {
    let p = if line.trim() == "-" { Vec::new() } else { unhex(line.trim()) };
    catch(move || match preprocess_payload(&p) {
        Err(_) => "err".to_string(),
        Ok(chunks) => {
            let mut slot = 0;
            let mut ws = Vec::new();
            for c in chunks {
                slot = c.len();
                ws.push(hex(&c[..10]));
            }
            if ws.is_empty() {
                "ok 0 -".to_string()
            } else {
                format!("ok {} {}", slot, ws.join(","))
            }
        }
    })
}
