//! Stream `collector`: the real StatsCollector fed with one interleaving of per-sender message streams.
//!   <mute 0|1> <schedule i,j,k,...> ; <stream 0 tokens> | <stream 1 tokens> | ...
//! tokens: S<n> R<n> P<n> H<n> (sums)  T<hex> (trigger type)  A<7 counters a.b.c.d.e.f.g> (ALPIDE stats)
//!         L<link> F<fee> Y<layer>.<stave>  V<version> D<format> I<system id> G<run trigger>
//!         E<off hex>.<code>.<body>[.<fee>]  (error message)   X<body> (fatal)
//! The schedule names, step by step, the stream whose next message arrives.  Output: the
//! finalised collector as one line of JSON.
use crate::util::*;
use fastpasta::stats::stats_collector::StatsCollector;
use fastpasta::stats::{StatType, SystemId};

fn parse_tok(t: &str) -> StatType {
    let (k, v) = t.split_at(1);
    match k {
        "S" => StatType::RDHSeen(v.parse().unwrap()),
        "R" => StatType::RDHFiltered(v.parse().unwrap()),
        "P" => StatType::PayloadSize(v.parse().unwrap()),
        "H" => StatType::HBFsSeen(v.parse().unwrap()),
        "T" => StatType::TriggerType(u32::from_str_radix(v, 16).unwrap()),
        "A" => {
            let n: Vec<u32> = v.split('.').map(|x| x.parse().unwrap()).collect();
            let js = format!(
                "{{\"readout_flags\":{{\"chip_trailers_seen\":{},\"busy_violations\":{},\"data_overrun\":{},\"transmission_in_fatal\":{},\"flushed_incomplete\":{},\"strobe_extended\":{},\"busy_transitions\":{}}}}}",
                n[0], n[1], n[2], n[3], n[4], n[5], n[6]
            );
            StatType::AlpideStats(serde_json::from_str(&js).unwrap())
        }
        "L" => StatType::LinksObserved(v.parse().unwrap()),
        "F" => StatType::FeeId(v.parse().unwrap()),
        "Y" => {
            let (l, s) = v.split_once('.').unwrap();
            StatType::LayerStaveSeen { layer: l.parse().unwrap(), stave: s.parse().unwrap() }
        }
        "V" => StatType::RdhVersion(v.parse().unwrap()),
        "D" => StatType::DataFormat(v.parse().unwrap()),
        "I" => StatType::SystemId(SystemId::from_system_id(v.parse().unwrap()).unwrap()),
        "G" => {
            let t: u32 = v.parse().unwrap();
            StatType::RunTriggerType((t, "x".into()))
        }
        "E" => {
            let f: Vec<&str> = v.split('.').collect();
            let off = u64::from_str_radix(f[0], 16).unwrap();
            let mut msg = format!("{off:#X}: [E{}] body{}", f[1], f[2]);
            if f.len() > 3 {
                msg.push_str(&format!(" FEE ID:{}", f[3]));
            }
            StatType::Error(msg.into())
        }
        "X" => StatType::Fatal(format!("fatal{v}").into()),
        _ => panic!("token {t}"),
    }
}

pub fn run_case(line: &str) -> String {
    let (head, body) = line.split_once(';').unwrap();
    let h: Vec<&str> = head.split_whitespace().collect();
    let mute = h[0] == "1";
    let sched: Vec<usize> = if h.len() > 1 && h[1] != "-" { h[1].split(',').map(|x| x.parse().unwrap()).collect() } else { vec![] };
    let alpide = h.len() > 2 && h[2] == "alpide";
    let mut streams: Vec<std::collections::VecDeque<StatType>> =
        body.split('|').map(|s| s.split_whitespace().map(parse_tok).collect()).collect();
    catch(move || {
        let mut c = if alpide { StatsCollector::with_alpide_stats() } else { StatsCollector::default() };
        for i in sched {
            if let Some(m) = streams[i].pop_front() {
                c.collect(m);
            }
        }
        // whatever the schedule left over, stream by stream
        for s in streams.iter_mut() {
            while let Some(m) = s.pop_front() {
                c.collect(m);
            }
        }
        c.finalize(mute);
        serde_json::to_string(&c).unwrap()
    })
}
