//! Stream `fsm`: ItsPayloadFsmContinuous::advance over a word sequence, with hook H1.
//!   <w1hex>,<w2hex>,...   ->  "<res>:<state>" per word, space separated
use crate::util::*;
use fastpasta::analyze::validators::its::its_payload_fsm_cont::{AmbigiousError, ItsPayloadFsmContinuous};
use fastpasta::analyze::validators::its::lib::ItsPayloadWord;

pub fn word_id(w: &Result<ItsPayloadWord, AmbigiousError>) -> u8 {
    match w {
        Ok(ItsPayloadWord::IHW) => 0,
        Ok(ItsPayloadWord::IHW_continuation) => 1,
        Ok(ItsPayloadWord::TDH) => 2,
        Ok(ItsPayloadWord::TDH_continuation) => 3,
        Ok(ItsPayloadWord::TDH_after_packet_done) => 4,
        Ok(ItsPayloadWord::TDT) => 5,
        Ok(ItsPayloadWord::CDW) => 6,
        Ok(ItsPayloadWord::DataWord) => 7,
        Ok(ItsPayloadWord::DDW0) => 8,
        Err(AmbigiousError::TDH_or_DDW0) => 10,
        Err(AmbigiousError::DW_or_TDT_CDW) => 11,
        Err(AmbigiousError::DDW0_or_TDH_IHW) => 12,
    }
}

pub fn run_case(line: &str) -> String {
    let words: Vec<Vec<u8>> = line.split(',').map(unhex).collect();
    catch(move || {
        let mut fsm = ItsPayloadFsmContinuous::new();
        let mut out = Vec::with_capacity(words.len());
        for w in &words {
            let r = fsm.advance(w);
            out.push(format!("{}:{}", word_id(&r), fsm.verif_state_id()));
        }
        out.join(" ")
    })
}
