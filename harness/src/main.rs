//! In-process correspondence harness: links the real fastpasta / alice_protocol_reader
//! libraries from /repo and prints canonical-isable results, one line per case.
use std::io::{self, BufRead, Write};

mod util;
mod words;
mod fsm;
mod link;
mod prep;
mod scan;
mod writer;
mod collector;

fn main() {
    let args: Vec<String> = std::env::args().collect();
    if args.len() < 2 {
        eprintln!("usage: fp_harness <stream>");
        std::process::exit(2);
    }
    // keep panics from printing backtraces all over stderr; they are reported per case
    std::panic::set_hook(Box::new(|_| {}));
    let stdin = io::stdin();
    let stdout = io::stdout();
    let mut out = io::BufWriter::with_capacity(1 << 20, stdout.lock());
    let stream = args[1].as_str();
    if stream == "scan-child" {
        scan::child_main(&args[2], &args[3]);
        return;
    }
    link::init_global_cfg();
    for line in stdin.lock().lines() {
        let line = line.expect("read stdin");
        let line = line.trim_end();
        if line.is_empty() || line.starts_with('#') {
            continue;
        }
        let res = match stream {
            "words" => words::run_case(line),
            "fsm" => fsm::run_case(line),
            "link" => link::run_case(line),
            "prep" => prep::run_case(line),
            "scan" => scan::run_case(line),
            "rdhrt" => scan::run_rdhrt(line),
            "writer" => writer::run_case(line),
            "collector" => collector::run_case(line),
            "dispatch" => link::run_dispatch_case(line),
            _ => {
                eprintln!("unknown stream {stream}");
                std::process::exit(2);
            }
        };
        writeln!(out, "{res}").unwrap();
    }
    out.flush().unwrap();
}
