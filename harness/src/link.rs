//! Stream `link`: one LinkValidator run sequentially over a list of CDPs (the single-threaded
//! pass), and stream `dispatch`: the real ValidatorDispatcher (threads) over the same list.
//!   <mode> <target> <period|-> <custom json|-> ; <off>:<rdh hex>:<payload hex> ...
//! Output: every StatType message in order, escaped, separated by " || ".
use crate::util::*;
use alice_protocol_reader::cdp_wrapper::cdp_array::CdpArray;
use alice_protocol_reader::prelude::*;
use clap::Parser;
use fastpasta::analyze::validators::link_validator::LinkValidator;
use fastpasta::analyze::validators::validator_dispatcher::ValidatorDispatcher;
use fastpasta::config::check::{CheckCommands, CheckModeArgs, System};
use fastpasta::config::custom_checks::custom_checks_cfg::CustomChecks;
use fastpasta::config::test_util::MockConfig;
use fastpasta::config::Cfg;
use fastpasta::stats::StatType;

pub fn init_global_cfg() {
    // Cfg::global() is consulted by the stave-level code for mute_errors only
    let mut args = vec!["fastpasta", "check", "all", "its-stave"];
    if std::env::var("FV_MUTE").is_ok() {
        args.push("-m");
    }
    let _ = fastpasta::config::CONFIG.set(Cfg::parse_from(args));
}

pub fn parse_cfg(head: &str) -> &'static MockConfig {
    let t: Vec<&str> = head.split_whitespace().collect();
    let mut c = MockConfig::new();
    let target = match t[1] {
        "none" => None,
        "its" => Some(System::ITS),
        "stave" => Some(System::ITS_Stave),
        _ => panic!("target"),
    };
    let args = CheckModeArgs { target, ..Default::default() };
    c.check = Some(match t[0] {
        "all" => CheckCommands::All(args),
        "sanity" => CheckCommands::Sanity(args),
        _ => panic!("mode"),
    });
    if t[2] != "-" {
        c.its_trigger_period = Some(t[2].parse().unwrap());
    }
    if t[3] != "-" {
        let cc: CustomChecks = serde_json::from_str(t[3]).expect("custom json");
        c.custom_checks = Some(cc);
    }
    if std::env::var("FV_MUTE").is_ok() {
        c.mute_errors = true;
    }
    Box::leak(Box::new(c))
}

pub fn parse_cdps(body: &str) -> Vec<(RdhCru, Vec<u8>, u64)> {
    body.split_whitespace()
        .map(|tok| {
            let mut it = tok.split(':');
            let off = u64::from_str_radix(it.next().unwrap(), 16).unwrap();
            let rdh = unhex(it.next().unwrap());
            let payload = unhex(it.next().unwrap_or(""));
            (RdhCru::load(&mut &rdh[..]).unwrap(), payload, off)
        })
        .collect()
}

pub fn fmt_stats(msgs: Vec<StatType>) -> String {
    let mut out = Vec::new();
    for m in msgs {
        match m {
            StatType::Error(e) => out.push(format!("E {}", esc(&e))),
            StatType::Fatal(e) => out.push(format!("F {}", esc(&e))),
            StatType::AlpideStats(a) => {
                let f = a.readout_flags();
                out.push(format!(
                    "A {} {} {} {} {} {} {}",
                    f.chip_trailers_seen(),
                    f.busy_violations(),
                    f.data_overrun(),
                    f.transmission_in_fatal(),
                    f.flushed_incomplete(),
                    f.strobe_extended(),
                    f.busy_transitions()
                ))
            }
            other => out.push(format!("O {}", esc(&format!("{other:?}")))),
        }
    }
    if out.is_empty() {
        "-".to_string()
    } else {
        out.join(" || ")
    }
}

pub fn run_case(line: &str) -> String {
    let (head, body) = line.split_once(';').unwrap();
    let cfg = parse_cfg(head);
    let cdps = parse_cdps(body);
    let (tx, rx) = flume::unbounded();
    let res = std::panic::catch_unwind(std::panic::AssertUnwindSafe(|| {
        let (mut v, send) = LinkValidator::<RdhCru, MockConfig>::new(cfg, tx);
        for c in cdps {
            send.send(c).unwrap();
        }
        drop(send);
        v.run();
    }));
    let msgs: Vec<StatType> = rx.try_iter().collect();
    let mut s = fmt_stats(msgs);
    if let Err(e) = res {
        let msg = if let Some(x) = e.downcast_ref::<&str>() {
            x.to_string()
        } else if let Some(x) = e.downcast_ref::<String>() {
            x.clone()
        } else {
            "?".into()
        };
        s.push_str(&format!(" || PANIC {}", esc(&msg)));
    }
    s
}

/// the real dispatcher with its validator threads; messages arrive in a schedule-dependent
/// order, so they are printed sorted by (offset-prefix, text) -- the comparison is per link
pub fn run_dispatch_case(line: &str) -> String {
    let (head, body) = line.split_once(';').unwrap();
    let cfg = parse_cfg(head);
    let cdps = parse_cdps(body);
    let (tx, rx) = flume::unbounded();
    let res = std::panic::catch_unwind(std::panic::AssertUnwindSafe(|| {
        let mut d: ValidatorDispatcher<RdhCru, MockConfig> = ValidatorDispatcher::new(cfg, tx);
        let mut it = cdps.into_iter().peekable();
        while it.peek().is_some() {
            let mut arr: CdpArray<RdhCru, 100> = CdpArray::new();
            for _ in 0..100 {
                if let Some((r, p, o)) = it.next() {
                    arr.push(r, p, o);
                }
            }
            d.dispatch_cdp_batch(arr);
        }
        d.join();
    }));
    let msgs: Vec<StatType> = rx.try_iter().collect();
    let mut s = fmt_stats(msgs);
    if res.is_err() {
        s.push_str(" || PANIC dispatcher");
    }
    s
}
