pub fn unhex(s: &str) -> Vec<u8> {
    let b = s.as_bytes();
    let mut v = Vec::with_capacity(b.len() / 2);
    let mut i = 0;
    while i + 1 < b.len() {
        let h = (b[i] as char).to_digit(16).unwrap() as u8;
        let l = (b[i + 1] as char).to_digit(16).unwrap() as u8;
        v.push(h << 4 | l);
        i += 2;
    }
    v
}

pub fn hex(b: &[u8]) -> String {
    let mut s = String::with_capacity(b.len() * 2);
    for x in b {
        s.push_str(&format!("{x:02X}"));
    }
    s
}

/// escape a message so that it fits on one line
pub fn esc(s: &str) -> String {
    s.replace('\\', "\\\\").replace('\n', "\\n").replace('\t', "\\t")
}

pub fn catch<F: FnOnce() -> String + std::panic::UnwindSafe>(f: F) -> String {
    match std::panic::catch_unwind(f) {
        Ok(s) => s,
        Err(e) => {
            let msg = if let Some(s) = e.downcast_ref::<&str>() {
                s.to_string()
            } else if let Some(s) = e.downcast_ref::<String>() {
                s.clone()
            } else {
                "?".to_string()
            };
            format!("PANIC {}", esc(&msg))
        }
    }
}
