//! Stream `scan`: the real InputScanner + spawn_reader (batches of 100) over one input.
//!   <file|pipe> <-|link:N|fee:N|stave:N> <skip 0|1> <input hex | ->
//! Output:  <batch> / <batch> ... | <input stats in emission order>
//!   batch = space separated CDPs  off:plen:crc32(rdh bytes ++ payload):crc32(field list)
//! `file` goes through a temporary file and io::BufReader<File> (init_reader), `pipe` through a
//! child process of this binary whose stdin is the input (StdInReaderSeeker<Stdin>).
use crate::util::*;
use alice_protocol_reader::prelude::*;
use alice_protocol_reader::{init_reader, spawn_reader};
use std::io::Write;
use std::sync::atomic::AtomicBool;
use std::sync::Arc;

pub struct ScanCfg {
    pub link: Option<u8>,
    pub fee: Option<u16>,
    pub stave: Option<u16>,
    pub skip: bool,
}

impl FilterOpt for ScanCfg {
    fn skip_payload(&self) -> bool {
        self.skip
    }
    fn filter_link(&self) -> Option<u8> {
        self.link
    }
    fn filter_fee(&self) -> Option<u16> {
        self.fee
    }
    fn filter_its_stave(&self) -> Option<u16> {
        self.stave
    }
}

pub fn parse_cfg(filter: &str, skip: &str) -> ScanCfg {
    let mut c = ScanCfg { link: None, fee: None, stave: None, skip: skip == "1" };
    if let Some((k, v)) = filter.split_once(':') {
        let n: u32 = v.parse().unwrap();
        match k {
            "link" => c.link = Some(n as u8),
            "fee" => c.fee = Some(n as u16),
            "stave" => c.stave = Some(n as u16),
            _ => panic!("filter"),
        }
    }
    c
}

pub fn crc32(bytes: &[u8], mut crc: u32) -> u32 {
    crc = !crc;
    for &b in bytes {
        crc ^= b as u32;
        for _ in 0..8 {
            crc = if crc & 1 != 0 { (crc >> 1) ^ 0xEDB8_8320 } else { crc >> 1 };
        }
    }
    !crc
}

pub fn field_sig(r: &RdhCru) -> String {
    let r0 = r.rdh0();
    let (hid, hs, prio, sys, res0) = (r0.header_id, r0.header_size, r0.priority_bit, r0.system_id, r0.reserved0);
    let r1 = r.rdh1();
    let orbit = r1.orbit;
    let r2 = r.rdh2();
    let r2res = r2.reserved0;
    let r3 = r.rdh3();
    let (det, par, r3res) = (r3.detector_field, r3.par_bit, r3.reserved0);
    format!(
        "{},{},{},{},{},{},{},{},{},{},{},{},{},{},{},{},{},{},{},{},{},{},{}",
        hid, hs, r.fee_id(), prio, sys, res0, r.offset_to_next(), r.payload_size(), r.link_id(), r.packet_counter(),
        r.cru_id(), r.dw(), r1.bc(), r1.reserved0(), orbit, r.data_format(), r.trigger_type(), r.pages_counter(),
        r.stop_bit(), r2res, det, par, r3res
    )
}

pub fn fmt_instat(s: &InputStatType) -> String {
    fn mem_of(msg: &str) -> String {
        msg.split(':').next().unwrap_or("?").trim_start_matches("0x").to_string()
    }
    match s {
        InputStatType::Fatal(m) => {
            // "RDH offset to next is INVALID! Memory address: 0x..." -> keep the address
            let hexpos = m.find("0x").map(|i| {
                let t = &m[i + 2..];
                t.chars().take_while(|c| c.is_ascii_hexdigit()).collect::<String>()
            });
            format!("X@{}", hexpos.unwrap_or_else(|| "?".into()))
        }
        InputStatType::Error(m) => {
            let code = if m.contains("[E100]") { 100 } else if m.contains("[E101]") { 101 } else { 0 };
            format!("E{}@{}", code, mem_of(m))
        }
        InputStatType::RunTriggerType(t) => format!("T{t}"),
        InputStatType::DataFormat(f) => format!("D{f}"),
        InputStatType::LinksObserved(l) => format!("L{l}"),
        InputStatType::FeeId(f) => format!("F{f}"),
        InputStatType::RDHSeen(n) => format!("S{n}"),
        InputStatType::RDHFiltered(n) => format!("R{n}"),
        InputStatType::PayloadSize(n) => format!("P{n}"),
        InputStatType::SystemId(s) => format!("Y{s}"),
    }
}

/// the body shared by file mode and the pipe child: reader -> first RDH0 -> scanner -> reader thread
pub fn scan_reader(mut reader: Box<dyn BufferedReaderWrapper>, cfg: &ScanCfg) -> String {
    let rdh0 = match Rdh0::load(&mut reader) {
        Ok(r) => r,
        Err(_) => return "NO_RDH0".to_string(),
    };
    let (tx, rx) = flume::unbounded();
    let scanner = InputScanner::new_from_rdh0(cfg, reader, Some(tx), rdh0);
    let stop = Arc::new(AtomicBool::new(false));
    let (handle, data_rx) = spawn_reader::<RdhCru, 100>(stop, scanner);
    let mut batches = Vec::new();
    while let Ok(batch) = data_rx.recv() {
        let mut toks = Vec::new();
        for (rdh, payload, off) in batch.into_iter() {
            let c = crc32(payload.as_slice(), crc32(rdh.to_byte_slice(), 0));
            let f = crc32(field_sig(&rdh).as_bytes(), 0);
            toks.push(format!("{:X}:{}:{:08X}:{:08X}", off, payload.len(), c, f));
        }
        batches.push(toks.join(" "));
    }
    let joined = handle.join();
    let stats: Vec<String> = rx.try_iter().map(|s| fmt_instat(&s)).collect();
    let mut out = format!("{} | {}", if batches.is_empty() { "-".to_string() } else { batches.join(" / ") }, stats.join(" "));
    if joined.is_err() {
        out.push_str(" | PANIC reader thread");
    }
    out
}

static COUNTER: std::sync::atomic::AtomicUsize = std::sync::atomic::AtomicUsize::new(0);

pub fn run_case(line: &str) -> String {
    let t: Vec<&str> = line.split_whitespace().collect();
    let bytes = if t[3] == "-" { Vec::new() } else { unhex(t[3]) };
    match t[0] {
        "file" => {
            let n = COUNTER.fetch_add(1, std::sync::atomic::Ordering::SeqCst);
            let dir = if std::path::Path::new("/dev/shm").is_dir() { "/dev/shm".to_string() } else { std::env::temp_dir().display().to_string() };
            let path = format!("{}/fv_scan_{}_{}.raw", dir, std::process::id(), n);
            std::fs::write(&path, &bytes).unwrap();
            let cfg = parse_cfg(t[1], t[2]);
            let p = path.clone();
            let res = std::panic::catch_unwind(std::panic::AssertUnwindSafe(|| {
                let reader = init_reader(Some(std::path::Path::new(&p))).unwrap();
                scan_reader(reader, &cfg)
            }));
            let _ = std::fs::remove_file(&path);
            match res {
                Ok(s) => s,
                Err(_) => "PANIC scan".to_string(),
            }
        }
        "pipe" => {
            let exe = std::env::current_exe().unwrap();
            let mut child = std::process::Command::new(exe)
                .args(["scan-child", t[1], t[2]])
                .stdin(std::process::Stdio::piped())
                .stdout(std::process::Stdio::piped())
                .stderr(std::process::Stdio::null())
                .spawn()
                .unwrap();
            {
                let mut stdin = child.stdin.take().unwrap();
                let _ = stdin.write_all(&bytes);
            }
            let out = child.wait_with_output().unwrap();
            let s = String::from_utf8_lossy(&out.stdout).trim().to_string();
            if !out.status.success() || s.is_empty() {
                format!("PANIC child status {:?}", out.status.code())
            } else {
                s
            }
        }
        _ => "unknown".to_string(),
    }
}

/// `fp_harness scan-child <filter> <skip>`: stdin is the raw input
pub fn child_main(filter: &str, skip: &str) {
    let cfg = parse_cfg(filter, skip);
    let reader = init_reader(None).unwrap();
    println!("{}", scan_reader(reader, &cfg));
}

/// Stream `rdhrt`: 64 header bytes -> RdhCru::load -> to_byte_slice (hex) and the decoded field list
pub fn run_rdhrt(line: &str) -> String {
    let b = unhex(line.trim());
    catch(move || match RdhCru::load(&mut &b[..]) {
        Ok(r) => format!("{} {}", hex(r.to_byte_slice()), field_sig(&r)),
        Err(e) => format!("ERR {e}"),
    })
}
