#!/bin/bash
# run every quick check under the given seeds on the clean tree: any VIOLATION is either a defect or a false alarm to be understood
cd "$(dirname "$0")/.." || exit 1
if [ -n "$(git -C /repo status --short)" ]; then echo "/repo is not clean"; exit 2; fi
tier=${TIER:-quick}
for seed in "$@"; do
  for p in C01 C02 C03 C04 C05 C06 C07 C08 C09 C10 C11 C12 C13 C14 C15 C16 C17 C18 C19 C20; do
    out=$(VERIF_SEED=$seed ./fv check $p --tier $tier 2>&1); rc=$?
    echo "seed=$seed $p rc=$rc $(echo "$out" | grep -E '^\[fv\] C[0-9]+ ' | tail -1)"
    echo "$out" | grep -E '^VIOLATION' | cut -c1-160
    if [ $rc -ne 0 ]; then f=$(echo "$out" | grep -oE 'replay=[^ ]+' | head -1 | cut -d= -f2); [ -n "$f" ] && cp "$f" "/tmp/sweep_${seed}_${p}.json"; fi
  done
done
