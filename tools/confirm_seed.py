#!/usr/bin/env python3
"""tools/confirm_seed.py <worktree> <seed-id> <property> [more properties...]
Confirms a seeded change delivered in a scratch worktree (patch applied there): test suite with the change,
demonstration with and without it; stores it under seeded/<seed-id>/; then applies it to /repo, runs the named
checks (quick) and restores /repo.  Prints a summary; never leaves /repo modified."""
import json
import os
import shutil
import subprocess
import sys

VERIF = os.path.dirname(os.path.dirname(os.path.abspath(__file__)))


def sh(cmd, cwd=None, timeout=3600):
    p = subprocess.run(cmd, cwd=cwd, shell=True, capture_output=True, timeout=timeout)
    return p.returncode, (p.stdout + p.stderr).decode("utf8", "replace")


def main():
    wt, sid, props = sys.argv[1], sys.argv[2], sys.argv[3:]
    out = {"seed": sid}
    rc, o = sh("git diff -- fastpasta alice_protocol_reader Cargo.toml > /tmp/_seed_%s.diff; wc -l < /tmp/_seed_%s.diff" % (sid, sid), cwd=wt)
    rc, o = sh("cargo test --workspace --no-fail-fast --offline 2>&1 | grep -E '^test result' | awk '{p+=$4; f+=$6} END {print p, f}'", cwd=wt)
    out["tests_with_change"] = o.strip()
    if os.environ.get("SEED_DEMO_TAKES_BINARY"):
        # round I onwards: demo.sh takes the path of a fastpasta binary; with the change = the worktree's release build (rebuilt here),
        # without = the binary /verif built from the clean /repo (same commit)
        sh("cargo build --release --offline 2>&1 | tail -1", cwd=wt)
        rc1, o1 = sh("bash demo.sh %s" % os.path.join(wt, "target", "release", "fastpasta"), cwd=wt)
        out["demo_with_change_exit"] = rc1
        rc0, o0 = sh("bash demo.sh %s" % os.path.join(VERIF, ".cache", "target-bin", "release", "fastpasta"), cwd=wt)
        out["demo_without_change_exit"] = rc0
    else:
        rc1, o1 = sh("bash demo.sh %s" % wt, cwd=wt)
        out["demo_with_change_exit"] = rc1
        # never `git stash` here: the stash is shared between the worktrees of /repo
        sh("git apply -R /tmp/_seed_%s.diff" % sid, cwd=wt)
        rc0, o0 = sh("bash demo.sh %s" % wt, cwd=wt)
        out["demo_without_change_exit"] = rc0
        sh("git apply /tmp/_seed_%s.diff" % sid, cwd=wt)
    d = os.path.join(VERIF, "seeded", sid)
    os.makedirs(d, exist_ok=True)
    shutil.copy("/tmp/_seed_%s.diff" % sid, os.path.join(d, "patch.diff"))
    for f in ("demo.sh", "NOTES.md"):
        if os.path.exists(os.path.join(wt, f)):
            shutil.copy(os.path.join(wt, f), os.path.join(d, f))
    ok = out["tests_with_change"].endswith(" 0") and rc1 != 0 and rc0 == 0
    out["confirmed"] = ok
    res = {}
    if ok:
        rc, o = sh("git -C /repo apply %s" % os.path.join(d, "patch.diff"))
        if rc != 0:
            out["apply_error"] = o[-500:]
        else:
            try:
                for p in props:
                    rc, o = sh("./fv check %s --tier quick" % p, cwd=VERIF, timeout=3600)
                    lines = [l for l in o.split("\n") if l.startswith("VIOLATION") or l.startswith("KNOWN-FINDING") or l.startswith("[fv] " + p)]
                    res[p] = {"exit": rc, "lines": lines[-4:]}
            finally:
                sh("git -C /repo checkout -- .")
                # the cached binary / harness were built from the seeded tree: rebuild them from the restored one
                sh("python3 -c \"import sys; sys.path.insert(0, '%s'); from fvlib import core; core.step_harness(); core.step_cli()\"" % VERIF)
                rc, o = sh("git -C /repo status --short")
                out["repo_clean_after"] = (o.strip() == "")
    out["checks"] = res
    print(json.dumps(out, indent=1))


if __name__ == "__main__":
    main()
