#!/bin/bash
# usage: tools/coqgoal.sh <file.v (relative to coq/)> <line>  -- show the proof state just before <line>
cd /verif/coq
f=$1; n=$2
tmp=$(mktemp /tmp/coqgoal_XXXX.v)
head -n $((n-1)) $f > $tmp
echo "Show." >> $tmp
coqtop -Q . FP -w none < $tmp 2>&1 | tail -${3:-60}
rm -f $tmp
