#!/bin/bash
# usage: tools/confirm_seed.sh <Cxx> <A|B>  -- in the scratch worktree /tmp/wt_<Cxx>: the patch applies, the full test
# suite passes with it, the demonstration fails with it and passes without it
id=$1; v=$2; wt=/tmp/wt_$id; sd=/tmp/seed_$id/$v
export CARGO_NET_OFFLINE=true CARGO_TARGET_DIR=$wt/target
cd $wt || exit 2
git checkout -q -- . ; git clean -fdq -e target
git apply $sd/patch.diff || { echo "RESULT $id/$v patch-does-not-apply"; exit 1; }
t=$(cargo test --workspace --no-fail-fast --offline 2>&1 | grep -E "^test result" | awk '{p+=$4; f+=$6} END {print p" passed "f" failed"}')
bash $sd/demo.sh $wt > /tmp/confirm_${id}_${v}_with.log 2>&1; with=$?
git checkout -q -- . ; git clean -fdq -e target
bash $sd/demo.sh $wt > /tmp/confirm_${id}_${v}_without.log 2>&1; without=$?
echo "RESULT $id/$v tests: $t ; demo with change exit=$with ; without change exit=$without"
