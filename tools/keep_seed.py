#!/usr/bin/env python3
"""usage: tools/keep_seed.py <Cxx> <A|B> <breaks> <needs> <caught_by> -- copy a confirmed seeded change into /verif/seeded/"""
import json, os, shutil, sys, re
pid, v, breaks, needs, caught = sys.argv[1:6]
src = "/tmp/seed_%s/%s" % (pid, v)
dst = "/verif/seeded/%s-%s" % (pid, v)
shutil.rmtree(dst, ignore_errors=True)
os.makedirs(dst)
for fn in os.listdir(src):
    p = os.path.join(src, fn)
    if os.path.isfile(p) and os.path.getsize(p) < 300000 and not fn.endswith(".log"):
        shutil.copy(p, dst)
conf = ""
for line in open("/tmp/confirm.log"):
    if line.startswith("RESULT %s/%s " % (pid, v)):
        conf = line.strip()
meta = {"property": pid, "variant": v, "breaks": breaks, "needs_to_manifest": needs,
        "confirmed_in_scratch_worktree": conf,
        "what_was_run": ["git apply patch.diff (scratch worktree of /repo)", "cargo test --workspace --no-fail-fast --offline (all pass with the change)",
                         "bash demo.sh <worktree> with the change (fails) and without it (passes)",
                         "git -C /repo apply patch.diff; ./fv check <id> --tier quick; git -C /repo checkout -- ."],
        "caught_by": caught}
json.dump(meta, open(os.path.join(dst, "meta.json"), "w"), indent=1)
print(dst, sorted(os.listdir(dst)))
