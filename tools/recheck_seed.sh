#!/bin/bash
# usage: recheck.sh <seed-id> <props...> : apply a stored seed to /repo, run quick checks, restore
cd /verif
sid=$1; shift
if [ -n "$(git -C /repo status --short)" ]; then echo "/repo not clean"; exit 2; fi
git -C /repo apply /verif/seeded/$sid/patch.diff || { echo "apply failed"; exit 3; }
for p in "$@"; do ./fv check $p --tier quick 2>&1 | grep -E "^VIOLATION|^\[fv\]" | cut -c1-220 | sed "s/^/$sid $p: /"; done
git -C /repo checkout -- .
git -C /repo status --short
# the cached binary / harness were built from the seeded tree: rebuild them from the restored one
python3 -c "import sys; sys.path.insert(0, '/verif'); from fvlib import core; core.step_harness(); core.step_cli()" >/dev/null 2>&1
