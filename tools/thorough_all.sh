#!/bin/bash
# run every registered thorough check on the clean tree (long); the evidence files end up thorough-tier: run refresh_evidence.sh afterwards
cd "$(dirname "$0")/.." || exit 1
if [ -n "$(git -C /repo status --short)" ]; then echo "/repo is not clean"; exit 2; fi
bad=0
for p in ${@:-C01 C02 C03 C04 C05 C06 C07 C08 C09 C10 C11 C12 C13 C14 C15 C16 C17 C18 C19 C20}; do
  t0=$(date +%s)
  out=$(./fv check $p --tier thorough 2>&1); rc=$?
  echo "$p rc=$rc $(( $(date +%s) - t0 ))s $(echo "$out" | grep -E '^\[fv\] C[0-9]+ thorough' | tail -1)"
  echo "$out" | grep -E '^(VIOLATION|KNOWN-FINDING)' | cut -c1-160
  [ $rc -ne 0 ] && bad=1
done
exit $bad
