#!/bin/bash
# usage: tools/try_seed.sh <patch.diff> <Cxx> [<Cyy> ...]   -- apply a seeded change to /repo, run the quick checks, undo
set -u
patch=$1; shift
cd /verif
git -C /repo apply "$patch" || { echo "patch does not apply"; exit 2; }
for p in "$@"; do
  echo "=== $p with $(basename $(dirname $patch))/$(basename $patch)"
  ./fv check $p --tier quick 2>&1 | grep -E "VIOLATION|KNOWN-FINDING|\[fv\] C" 
  echo "exit=$?"
done
git -C /repo checkout -- .
git -C /repo status --short | head -3
