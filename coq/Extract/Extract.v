(* Extraction of the executable model and specification oracles to OCaml.
   ExtrOcamlBasic only (bool, option, unit, list, prod, sumbool, sumor; andb/orb inlined);
   N / positive / nat stay extracted inductives.  No Extract Constant of our own. *)
Require Extraction.
Require Import ExtrOcamlBasic.
From FP Require Gen.Facts.
From FP Require Import Model.Base Model.ItsWords Model.ItsFsm Model.Rdh Model.RdhChecks Model.Payload Model.Alpide Model.CdpRunning Model.Scanner Model.Writer Model.Collector Model.System Model.SystemView Model.Link Model.StatsCmp Model.Views Model.Protocol Model.ProtoTrace Model.Args Spec.Grammar Spec.GrammarIts Spec.GrammarItsCheck Spec.GrammarItsCdw Spec.GrammarItsCdwCheck Spec.GrammarStaveCheck Spec.GrammarStaveCdwCheck Spec.WordLayout Spec.Diagram Spec.DiagramAbs Spec.RdhRules.
Extraction Language OCaml.
Set Extraction KeepSingleton.
Extraction "model.ml"
  Model.ItsWords.ihw_sanity Model.ItsWords.tdh_sanity Model.ItsWords.tdt_sanity
  Model.ItsWords.ddw0_sanity Model.ItsWords.data_word_codes
  Spec.WordLayout.ihw_okb Spec.WordLayout.tdh_okb Spec.WordLayout.tdt_okb Spec.WordLayout.ddw0_okb
  Spec.WordLayout.data_word_verdict Spec.WordLayout.valid_data_id
  Model.ItsFsm.advance Model.ItsFsm.fstate_id Model.ItsFsm.fres_id Model.ItsFsm.all_fstates
  Model.ItsWords.sl_tdh_no_data Model.ItsWords.sl_tdt_packet_done
  Model.Rdh.decode_rdh Model.Rdh.encode_rdh Model.Link.run_validator Model.Link.run_dispatch Model.Rdh.rdh_cru_id Model.Rdh.rdh_dw Model.Rdh.rdh_bc Model.Rdh.rdh1_reserved0 Model.Rdh.rdh_data_format Model.Rdh.rdh_payload_size Model.Scanner.Build_cdp Model.Scanner.scan Model.Scanner.scan_impl Model.Scanner.Build_scfg Model.Writer.written Model.Writer.write_all Model.System.main_stream Model.System.analysis_stream Model.System.stats_arrival Model.System.run_check Model.SystemView.run_reportless Gen.Facts.fatal_sets_any_errors_flag Model.Collector.collect_all Model.Collector.finalize Model.Collector.displayed Model.Collector.exit_code Model.Collector.custom_errors Model.Collector.add_custom Model.Collector.Build_dcfg Gen.Facts.error_sort_when_muted Gen.Facts.error_sort_is_stable Spec.Grammar.render_link Spec.Grammar.wf_link_rdh Spec.GrammarItsCheck.link_witness Spec.GrammarItsCdwCheck.link_witness_cdw Spec.GrammarStaveCheck.stave_witness Spec.GrammarStaveCdwCheck.stave_witness_cdw Model.Views.view_rdh Model.Views.view_frames Model.StatsCmp.sc_validate Model.StatsCmp.flag_after_compare Model.StatsCmp.written_file Gen.Facts.stats_file_replaced_on_write
  Model.CdpRunning.Build_vcfg Model.Alpide.rflags_list Model.Payload.preprocess
  Spec.RdhRules.rdh_sane Spec.RdhRules.running_violation Spec.RdhRules.h_header_id
  Model.ProtoTrace.replay_thread Model.ProtoTrace.cur_pfacts Model.Protocol.Build_cfg Model.Protocol.enabled Model.Protocol.greedy Model.Protocol.run Model.Protocol.init Model.Protocol.final Model.Protocol.mu
  Model.Args.validate_args Model.Args.Build_args
  Spec.Diagram.dstep Spec.DiagramAbs.abs Spec.DiagramAbs.dstate_id Spec.DiagramAbs.dverdict_id.
