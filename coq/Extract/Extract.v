(* Extraction of the executable model and specification oracles to OCaml.
   ExtrOcamlBasic only (bool, option, unit, list, prod, sumbool, sumor; andb/orb inlined);
   N / positive / nat stay extracted inductives.  No Extract Constant of our own. *)
Require Extraction.
Require Import ExtrOcamlBasic.
From FP Require Import Model.Base Model.ItsWords Spec.WordLayout.
Extraction Language OCaml.
Set Extraction KeepSingleton.
Extraction "model.ml"
  Model.ItsWords.ihw_sanity Model.ItsWords.tdh_sanity Model.ItsWords.tdt_sanity
  Model.ItsWords.ddw0_sanity Model.ItsWords.data_word_codes
  Spec.WordLayout.ihw_okb Spec.WordLayout.tdh_okb Spec.WordLayout.tdt_okb Spec.WordLayout.ddw0_okb
  Spec.WordLayout.data_word_verdict Spec.WordLayout.valid_data_id.
