(* The thread / channel protocol of a fastPASTA run as a labelled transition system (C17).

   Threads: main (fastpasta/src/lib.rs `process`, init.rs `run`), reader
   (alice_protocol_reader/src/lib.rs `spawn_reader`), the data consumer -- analysis
   (analyze/lib.rs `spawn_analysis`, with the validators spawned by
   validator_dispatcher.rs) or writer (write/lib.rs `spawn_writer`) or none --, and the
   controller (controller.rs `Controller::run`).
   Channels: data (bounded, reader -> consumer), one bounded channel per validator,
   input statistics (unbounded, reader -> main), statistics (unbounded, everyone -> controller).
   Environment: the stop flag may be raised at any step (signal handler), the reader of
   stdout may go away at any step.

   Data is abstracted to what the protocol depends on: a CDP is the kind of statistics
   message its validation will produce; a batch is its CDPs, whether it filled the batch
   capacity, and whether the scanner / the analysis thread report a fatal error with it.
   Control is kept exact: one program counter per thread, one transition per blocking
   operation or branch.  A handle is dropped when the closure owning it ends, so handle
   counts are functions of the program counters; only main's explicit `drop(reader_data_recv)`
   is a state bit.

   The structural facts the transitions depend on (which loops poll the stop flag, where the
   receiver clone is dropped, whether a write error is handled or unwrapped) are the record
   [pfacts]; its value for the current sources is regenerated as Gen.Facts.proto_* (G8).

   No proofs here. *)
From Coq Require Export List Arith Bool.
Export ListNotations.

Inductive mode := Mcheck | Mview | Mwrite | Mnone.
Inductive skind := K_other | K_error | K_fatal.

Record cfg := {
  c_mode : mode;
  c_cap : nat;             (* --max-tolerate-errors, 0 = unlimited *)
  c_stats_stdout : bool;   (* --output-stats stdout *)
  c_write_stdout : bool    (* filtered data goes to stdout rather than to a file *)
}.

Record batch := { b_cdps : list skind; b_full : bool; b_rfatal : bool; b_afatal : bool }.
Record vst := { v_q : list skind; v_cap : nat; v_done : bool }.

Inductive rpc := R_top | R_fill | R_send (b : batch) | R_done.
Inductive apc := A_absent | A_top | A_recv | A_stats (b : batch) | A_work (l : list skind)
               | A_clear | A_join | A_done.
Inductive wpc := W_absent | W_recv | W_check (b : batch) | W_push (b : batch) | W_drop | W_done.
Inductive mpc := M_droprecv | M_forward | M_joinC | M_joinS | M_exit.
Inductive cpc := C_recv | C_finish | C_done.

Record pfacts := {
  pf_reader_polls : bool;        (* reader loop condition loads the stop flag *)
  pf_analysis_polls : bool;      (* analysis loop condition loads the stop flag *)
  pf_writer_polls : bool;        (* writer checks the stop flag after each receive *)
  pf_main_drops_recv : bool;     (* `process` drops its receiver clone on every non-writer arm *)
  pf_join_clears : bool;         (* ValidatorDispatcher::join clears the senders before joining *)
  pf_writer_err_handled : bool;  (* a failed flush is not unwrapped/expected in the writer path *)
  pf_view_err_handled : bool;    (* a view write error becomes a Fatal message *)
  pf_stats_stdout_handled : bool;(* statistics to a closed stdout do not panic *)
  pf_handler_own_counter : bool; (* the signal handler exits the process only on ITS second call (own counter), never because
                                    the stop flag is already up *)
  pf_dcap : nat;                 (* capacity of the data channel *)
  pf_vcap_min : nat              (* smallest capacity of a validator channel *)
}.

Record state := {
  s_cfg : cfg;
  s_stop : bool;
  s_open : bool;
  s_input : list batch;
  s_lstop : bool;
  s_r : rpc;
  s_dq : list batch;
  s_mrecv : bool;
  s_a : apc;
  s_alive : bool;
  s_vs : list vst;
  s_w : wpc;
  s_wbuf : nat;
  s_wout : list nat;
  s_iq : list skind;
  s_sq : list skind;
  s_m : mpc;
  s_c : cpc;
  s_errs : nat;
  s_fatal : bool;
  s_panic : bool;
  s_sigs : nat;
  s_hardexit : bool
}.

Definition set_stop (x : bool) (s : state) : state :=
  {| s_cfg := s_cfg s; s_stop := x; s_open := s_open s; s_input := s_input s; s_lstop := s_lstop s; s_r := s_r s; s_dq := s_dq s; s_mrecv := s_mrecv s; s_a := s_a s; s_alive := s_alive s; s_vs := s_vs s; s_w := s_w s; s_wbuf := s_wbuf s; s_wout := s_wout s; s_iq := s_iq s; s_sq := s_sq s; s_m := s_m s; s_c := s_c s; s_errs := s_errs s; s_fatal := s_fatal s; s_panic := s_panic s; s_sigs := s_sigs s; s_hardexit := s_hardexit s |}.
Definition set_open (x : bool) (s : state) : state :=
  {| s_cfg := s_cfg s; s_stop := s_stop s; s_open := x; s_input := s_input s; s_lstop := s_lstop s; s_r := s_r s; s_dq := s_dq s; s_mrecv := s_mrecv s; s_a := s_a s; s_alive := s_alive s; s_vs := s_vs s; s_w := s_w s; s_wbuf := s_wbuf s; s_wout := s_wout s; s_iq := s_iq s; s_sq := s_sq s; s_m := s_m s; s_c := s_c s; s_errs := s_errs s; s_fatal := s_fatal s; s_panic := s_panic s; s_sigs := s_sigs s; s_hardexit := s_hardexit s |}.
Definition set_input (x : list batch) (s : state) : state :=
  {| s_cfg := s_cfg s; s_stop := s_stop s; s_open := s_open s; s_input := x; s_lstop := s_lstop s; s_r := s_r s; s_dq := s_dq s; s_mrecv := s_mrecv s; s_a := s_a s; s_alive := s_alive s; s_vs := s_vs s; s_w := s_w s; s_wbuf := s_wbuf s; s_wout := s_wout s; s_iq := s_iq s; s_sq := s_sq s; s_m := s_m s; s_c := s_c s; s_errs := s_errs s; s_fatal := s_fatal s; s_panic := s_panic s; s_sigs := s_sigs s; s_hardexit := s_hardexit s |}.
Definition set_lstop (x : bool) (s : state) : state :=
  {| s_cfg := s_cfg s; s_stop := s_stop s; s_open := s_open s; s_input := s_input s; s_lstop := x; s_r := s_r s; s_dq := s_dq s; s_mrecv := s_mrecv s; s_a := s_a s; s_alive := s_alive s; s_vs := s_vs s; s_w := s_w s; s_wbuf := s_wbuf s; s_wout := s_wout s; s_iq := s_iq s; s_sq := s_sq s; s_m := s_m s; s_c := s_c s; s_errs := s_errs s; s_fatal := s_fatal s; s_panic := s_panic s; s_sigs := s_sigs s; s_hardexit := s_hardexit s |}.
Definition set_r (x : rpc) (s : state) : state :=
  {| s_cfg := s_cfg s; s_stop := s_stop s; s_open := s_open s; s_input := s_input s; s_lstop := s_lstop s; s_r := x; s_dq := s_dq s; s_mrecv := s_mrecv s; s_a := s_a s; s_alive := s_alive s; s_vs := s_vs s; s_w := s_w s; s_wbuf := s_wbuf s; s_wout := s_wout s; s_iq := s_iq s; s_sq := s_sq s; s_m := s_m s; s_c := s_c s; s_errs := s_errs s; s_fatal := s_fatal s; s_panic := s_panic s; s_sigs := s_sigs s; s_hardexit := s_hardexit s |}.
Definition set_dq (x : list batch) (s : state) : state :=
  {| s_cfg := s_cfg s; s_stop := s_stop s; s_open := s_open s; s_input := s_input s; s_lstop := s_lstop s; s_r := s_r s; s_dq := x; s_mrecv := s_mrecv s; s_a := s_a s; s_alive := s_alive s; s_vs := s_vs s; s_w := s_w s; s_wbuf := s_wbuf s; s_wout := s_wout s; s_iq := s_iq s; s_sq := s_sq s; s_m := s_m s; s_c := s_c s; s_errs := s_errs s; s_fatal := s_fatal s; s_panic := s_panic s; s_sigs := s_sigs s; s_hardexit := s_hardexit s |}.
Definition set_mrecv (x : bool) (s : state) : state :=
  {| s_cfg := s_cfg s; s_stop := s_stop s; s_open := s_open s; s_input := s_input s; s_lstop := s_lstop s; s_r := s_r s; s_dq := s_dq s; s_mrecv := x; s_a := s_a s; s_alive := s_alive s; s_vs := s_vs s; s_w := s_w s; s_wbuf := s_wbuf s; s_wout := s_wout s; s_iq := s_iq s; s_sq := s_sq s; s_m := s_m s; s_c := s_c s; s_errs := s_errs s; s_fatal := s_fatal s; s_panic := s_panic s; s_sigs := s_sigs s; s_hardexit := s_hardexit s |}.
Definition set_a (x : apc) (s : state) : state :=
  {| s_cfg := s_cfg s; s_stop := s_stop s; s_open := s_open s; s_input := s_input s; s_lstop := s_lstop s; s_r := s_r s; s_dq := s_dq s; s_mrecv := s_mrecv s; s_a := x; s_alive := s_alive s; s_vs := s_vs s; s_w := s_w s; s_wbuf := s_wbuf s; s_wout := s_wout s; s_iq := s_iq s; s_sq := s_sq s; s_m := s_m s; s_c := s_c s; s_errs := s_errs s; s_fatal := s_fatal s; s_panic := s_panic s; s_sigs := s_sigs s; s_hardexit := s_hardexit s |}.
Definition set_alive (x : bool) (s : state) : state :=
  {| s_cfg := s_cfg s; s_stop := s_stop s; s_open := s_open s; s_input := s_input s; s_lstop := s_lstop s; s_r := s_r s; s_dq := s_dq s; s_mrecv := s_mrecv s; s_a := s_a s; s_alive := x; s_vs := s_vs s; s_w := s_w s; s_wbuf := s_wbuf s; s_wout := s_wout s; s_iq := s_iq s; s_sq := s_sq s; s_m := s_m s; s_c := s_c s; s_errs := s_errs s; s_fatal := s_fatal s; s_panic := s_panic s; s_sigs := s_sigs s; s_hardexit := s_hardexit s |}.
Definition set_vs (x : list vst) (s : state) : state :=
  {| s_cfg := s_cfg s; s_stop := s_stop s; s_open := s_open s; s_input := s_input s; s_lstop := s_lstop s; s_r := s_r s; s_dq := s_dq s; s_mrecv := s_mrecv s; s_a := s_a s; s_alive := s_alive s; s_vs := x; s_w := s_w s; s_wbuf := s_wbuf s; s_wout := s_wout s; s_iq := s_iq s; s_sq := s_sq s; s_m := s_m s; s_c := s_c s; s_errs := s_errs s; s_fatal := s_fatal s; s_panic := s_panic s; s_sigs := s_sigs s; s_hardexit := s_hardexit s |}.
Definition set_w (x : wpc) (s : state) : state :=
  {| s_cfg := s_cfg s; s_stop := s_stop s; s_open := s_open s; s_input := s_input s; s_lstop := s_lstop s; s_r := s_r s; s_dq := s_dq s; s_mrecv := s_mrecv s; s_a := s_a s; s_alive := s_alive s; s_vs := s_vs s; s_w := x; s_wbuf := s_wbuf s; s_wout := s_wout s; s_iq := s_iq s; s_sq := s_sq s; s_m := s_m s; s_c := s_c s; s_errs := s_errs s; s_fatal := s_fatal s; s_panic := s_panic s; s_sigs := s_sigs s; s_hardexit := s_hardexit s |}.
Definition set_wbuf (x : nat) (s : state) : state :=
  {| s_cfg := s_cfg s; s_stop := s_stop s; s_open := s_open s; s_input := s_input s; s_lstop := s_lstop s; s_r := s_r s; s_dq := s_dq s; s_mrecv := s_mrecv s; s_a := s_a s; s_alive := s_alive s; s_vs := s_vs s; s_w := s_w s; s_wbuf := x; s_wout := s_wout s; s_iq := s_iq s; s_sq := s_sq s; s_m := s_m s; s_c := s_c s; s_errs := s_errs s; s_fatal := s_fatal s; s_panic := s_panic s; s_sigs := s_sigs s; s_hardexit := s_hardexit s |}.
Definition set_wout (x : list nat) (s : state) : state :=
  {| s_cfg := s_cfg s; s_stop := s_stop s; s_open := s_open s; s_input := s_input s; s_lstop := s_lstop s; s_r := s_r s; s_dq := s_dq s; s_mrecv := s_mrecv s; s_a := s_a s; s_alive := s_alive s; s_vs := s_vs s; s_w := s_w s; s_wbuf := s_wbuf s; s_wout := x; s_iq := s_iq s; s_sq := s_sq s; s_m := s_m s; s_c := s_c s; s_errs := s_errs s; s_fatal := s_fatal s; s_panic := s_panic s; s_sigs := s_sigs s; s_hardexit := s_hardexit s |}.
Definition set_iq (x : list skind) (s : state) : state :=
  {| s_cfg := s_cfg s; s_stop := s_stop s; s_open := s_open s; s_input := s_input s; s_lstop := s_lstop s; s_r := s_r s; s_dq := s_dq s; s_mrecv := s_mrecv s; s_a := s_a s; s_alive := s_alive s; s_vs := s_vs s; s_w := s_w s; s_wbuf := s_wbuf s; s_wout := s_wout s; s_iq := x; s_sq := s_sq s; s_m := s_m s; s_c := s_c s; s_errs := s_errs s; s_fatal := s_fatal s; s_panic := s_panic s; s_sigs := s_sigs s; s_hardexit := s_hardexit s |}.
Definition set_sq (x : list skind) (s : state) : state :=
  {| s_cfg := s_cfg s; s_stop := s_stop s; s_open := s_open s; s_input := s_input s; s_lstop := s_lstop s; s_r := s_r s; s_dq := s_dq s; s_mrecv := s_mrecv s; s_a := s_a s; s_alive := s_alive s; s_vs := s_vs s; s_w := s_w s; s_wbuf := s_wbuf s; s_wout := s_wout s; s_iq := s_iq s; s_sq := x; s_m := s_m s; s_c := s_c s; s_errs := s_errs s; s_fatal := s_fatal s; s_panic := s_panic s; s_sigs := s_sigs s; s_hardexit := s_hardexit s |}.
Definition set_m (x : mpc) (s : state) : state :=
  {| s_cfg := s_cfg s; s_stop := s_stop s; s_open := s_open s; s_input := s_input s; s_lstop := s_lstop s; s_r := s_r s; s_dq := s_dq s; s_mrecv := s_mrecv s; s_a := s_a s; s_alive := s_alive s; s_vs := s_vs s; s_w := s_w s; s_wbuf := s_wbuf s; s_wout := s_wout s; s_iq := s_iq s; s_sq := s_sq s; s_m := x; s_c := s_c s; s_errs := s_errs s; s_fatal := s_fatal s; s_panic := s_panic s; s_sigs := s_sigs s; s_hardexit := s_hardexit s |}.
Definition set_c (x : cpc) (s : state) : state :=
  {| s_cfg := s_cfg s; s_stop := s_stop s; s_open := s_open s; s_input := s_input s; s_lstop := s_lstop s; s_r := s_r s; s_dq := s_dq s; s_mrecv := s_mrecv s; s_a := s_a s; s_alive := s_alive s; s_vs := s_vs s; s_w := s_w s; s_wbuf := s_wbuf s; s_wout := s_wout s; s_iq := s_iq s; s_sq := s_sq s; s_m := s_m s; s_c := x; s_errs := s_errs s; s_fatal := s_fatal s; s_panic := s_panic s; s_sigs := s_sigs s; s_hardexit := s_hardexit s |}.
Definition set_errs (x : nat) (s : state) : state :=
  {| s_cfg := s_cfg s; s_stop := s_stop s; s_open := s_open s; s_input := s_input s; s_lstop := s_lstop s; s_r := s_r s; s_dq := s_dq s; s_mrecv := s_mrecv s; s_a := s_a s; s_alive := s_alive s; s_vs := s_vs s; s_w := s_w s; s_wbuf := s_wbuf s; s_wout := s_wout s; s_iq := s_iq s; s_sq := s_sq s; s_m := s_m s; s_c := s_c s; s_errs := x; s_fatal := s_fatal s; s_panic := s_panic s; s_sigs := s_sigs s; s_hardexit := s_hardexit s |}.
Definition set_fatal (x : bool) (s : state) : state :=
  {| s_cfg := s_cfg s; s_stop := s_stop s; s_open := s_open s; s_input := s_input s; s_lstop := s_lstop s; s_r := s_r s; s_dq := s_dq s; s_mrecv := s_mrecv s; s_a := s_a s; s_alive := s_alive s; s_vs := s_vs s; s_w := s_w s; s_wbuf := s_wbuf s; s_wout := s_wout s; s_iq := s_iq s; s_sq := s_sq s; s_m := s_m s; s_c := s_c s; s_errs := s_errs s; s_fatal := x; s_panic := s_panic s; s_sigs := s_sigs s; s_hardexit := s_hardexit s |}.
Definition set_panic (x : bool) (s : state) : state :=
  {| s_cfg := s_cfg s; s_stop := s_stop s; s_open := s_open s; s_input := s_input s; s_lstop := s_lstop s; s_r := s_r s; s_dq := s_dq s; s_mrecv := s_mrecv s; s_a := s_a s; s_alive := s_alive s; s_vs := s_vs s; s_w := s_w s; s_wbuf := s_wbuf s; s_wout := s_wout s; s_iq := s_iq s; s_sq := s_sq s; s_m := s_m s; s_c := s_c s; s_errs := s_errs s; s_fatal := s_fatal s; s_panic := x; s_sigs := s_sigs s; s_hardexit := s_hardexit s |}.
Definition set_sigs (x : nat) (s : state) : state :=
  {| s_cfg := s_cfg s; s_stop := s_stop s; s_open := s_open s; s_input := s_input s; s_lstop := s_lstop s; s_r := s_r s; s_dq := s_dq s; s_mrecv := s_mrecv s; s_a := s_a s; s_alive := s_alive s; s_vs := s_vs s; s_w := s_w s; s_wbuf := s_wbuf s; s_wout := s_wout s; s_iq := s_iq s; s_sq := s_sq s; s_m := s_m s; s_c := s_c s; s_errs := s_errs s; s_fatal := s_fatal s; s_panic := s_panic s; s_sigs := x; s_hardexit := s_hardexit s |}.
Definition set_hardexit (x : bool) (s : state) : state :=
  {| s_cfg := s_cfg s; s_stop := s_stop s; s_open := s_open s; s_input := s_input s; s_lstop := s_lstop s; s_r := s_r s; s_dq := s_dq s; s_mrecv := s_mrecv s; s_a := s_a s; s_alive := s_alive s; s_vs := s_vs s; s_w := s_w s; s_wbuf := s_wbuf s; s_wout := s_wout s; s_iq := s_iq s; s_sq := s_sq s; s_m := s_m s; s_c := s_c s; s_errs := s_errs s; s_fatal := s_fatal s; s_panic := s_panic s; s_sigs := s_sigs s; s_hardexit := x |}.

Inductive label :=
| L_stop                          (* a signal is delivered: the handler runs (at most one signal: a second one is
                                     documented as an ungraceful shutdown and is outside the property) *)
| L_close                         (* the reader of stdout goes away *)
| L_reader
| L_main
| L_analysis (i : nat) (c : nat)  (* i: validator chosen by the CDP's id; c: capacity of a new channel *)
| L_valid (i : nat)
| L_writer (fl : bool)            (* fl: the buffer threshold is reached at this push *)
| L_ctrl.

Definition consumer_alive (s : state) : bool :=
  match s_a s with A_absent | A_done => false | _ => true end
  || match s_w s with W_absent | W_done => false | _ => true end.
Definition receivers0 (s : state) : bool := negb (s_mrecv s) && negb (consumer_alive s).
Definition reader_done (s : state) : bool := match s_r s with R_done => true | _ => false end.
Definition all_done (vs : list vst) : bool := forallb v_done vs.
Definition main_holds_stats (s : state) : bool :=
  match s_m s with M_joinS | M_exit => false | _ => true end.
Definition analysis_alive (s : state) : bool :=
  match s_a s with A_absent | A_done => false | _ => true end.
Definition stats_senders0 (s : state) : bool :=
  negb (main_holds_stats s) && negb (analysis_alive s) && all_done (s_vs s).

Fixpoint upd (i : nat) (f : vst -> vst) (vs : list vst) : list vst :=
  match vs, i with
  | [], _ => []
  | v :: r, O => f v :: r
  | v :: r, S j => v :: upd j f r
  end.

Definition push_sq (l : list skind) (s : state) : state := set_sq (s_sq s ++ l) s.
Definition push_iq (l : list skind) (s : state) : state := set_iq (s_iq s ++ l) s.

Definition step_reader (f : pfacts) (s : state) : option state :=
  match s_r s with
  | R_top => if (pf_reader_polls f && s_stop s) || s_lstop s then Some (set_r R_done s)
             else Some (set_r R_fill s)
  | R_fill => match s_input s with
              | [] => Some (set_r R_done s)
              | b :: rest =>
                Some (set_r (R_send b)
                       (push_iq (K_other :: if b_rfatal b then [K_fatal] else [])
                         (set_lstop (negb (b_full b)) (set_input rest s))))
              end
  | R_send b => if receivers0 s then Some (set_r R_done s)
                else if length (s_dq s) <? pf_dcap f
                     then Some (set_r R_top (set_dq (s_dq s ++ [b]) s))
                     else None
  | R_done => None
  end.

Definition step_main (f : pfacts) (s : state) : option state :=
  match s_m s with
  | M_droprecv => Some (set_m M_forward (if pf_main_drops_recv f then set_mrecv false s else s))
  | M_forward => match s_iq s with
                 | k :: rest => Some (push_sq [k] (set_iq rest s))
                 | [] => if reader_done s then Some (set_m M_joinC s) else None
                 end
  | M_joinC => if consumer_alive s then None else Some (set_m M_joinS (set_mrecv false s))
  | M_joinS => match s_c s with C_done => Some (set_m M_exit s) | _ => None end
  | M_exit => None
  end.

Definition step_analysis (f : pfacts) (i c : nat) (s : state) : option state :=
  match s_a s with
  | A_absent | A_done => None
  | A_top => if pf_analysis_polls f && s_stop s then Some (set_a A_clear s) else Some (set_a A_recv s)
  | A_recv => match s_dq s with
              | b :: rest => Some (set_a (A_stats b) (set_dq rest s))
              | [] => if reader_done s then Some (set_a A_clear s) else None
              end
  | A_stats b =>
      Some (set_a (A_work (match c_mode (s_cfg s) with Mview => [K_other] | _ => b_cdps b end))
             (push_sq (K_other :: if b_afatal b then [K_fatal] else []) s))
  | A_work [] => Some (set_a A_top s)
  | A_work (k :: l) =>
      match c_mode (s_cfg s) with
      | Mview => if s_open s then Some (set_a (A_work l) s)
                 else if pf_view_err_handled f then Some (set_a (A_work l) (push_sq [K_fatal] s))
                 else Some (set_panic true s)
      | _ =>
        match nth_error (s_vs s) i with
        | Some v => if v_done v then Some (set_a (A_work l) (push_sq [K_fatal] s))
                    else if length (v_q v) <? v_cap v
                         then Some (set_a (A_work l)
                                (set_vs (upd i (fun v => {| v_q := v_q v ++ [k]; v_cap := v_cap v;
                                                            v_done := v_done v |}) (s_vs s)) s))
                         else None
        | None => if (i =? length (s_vs s)) && (pf_vcap_min f <=? c)
                  then Some (set_a (A_work l)
                         (set_vs (s_vs s ++ [{| v_q := [k]; v_cap := c; v_done := false |}]) s))
                  else None
        end
      end
  | A_clear => Some (set_a A_join (if pf_join_clears f then set_alive false s else s))
  | A_join => if all_done (s_vs s) then Some (set_a A_done s) else None
  end.

Definition step_valid (i : nat) (s : state) : option state :=
  match nth_error (s_vs s) i with
  | None => None
  | Some v =>
    if v_done v then None else
    match v_q v with
    | k :: q => Some (push_sq [k] (set_vs (upd i (fun v => {| v_q := q; v_cap := v_cap v;
                                                               v_done := false |}) (s_vs s)) s))
    | [] => if s_alive s then None
            else Some (set_vs (upd i (fun v => {| v_q := []; v_cap := v_cap v; v_done := true |})
                                (s_vs s)) s)
    end
  end.

(* BufferedWriter::flush towards the configured destination *)
Definition w_flush_ok (s : state) : bool := negb (c_write_stdout (s_cfg s)) || s_open s.
Definition do_flush (s : state) : state := set_wbuf 0 (set_wout (s_wout s ++ [s_wbuf s]) s).

Definition step_writer (f : pfacts) (fl : bool) (s : state) : option state :=
  match s_w s with
  | W_absent | W_done => None
  | W_recv => match s_dq s with
              | b :: rest => Some (set_w (W_check b) (set_dq rest s))
              | [] => if reader_done s then Some (set_w W_drop s) else None
              end
  | W_check b => if pf_writer_polls f && s_stop s then Some (set_w W_drop s)
                 else Some (set_w (W_push b) s)
  | W_push b =>
      if fl then
        if w_flush_ok s
        then let s1 := do_flush s in
             Some (set_w W_recv (set_wbuf (length (b_cdps b) + s_wbuf s1) s1))
        else if pf_writer_err_handled f then Some (set_w W_drop s)
             else Some (set_panic true s)
      else Some (set_w W_recv (set_wbuf (length (b_cdps b) + s_wbuf s) s))
  | W_drop =>
      if w_flush_ok s then Some (set_w W_done (do_flush s))
      else if pf_writer_err_handled f then Some (set_w W_done s)
           else Some (set_panic true s)
  end.

Definition step_ctrl (f : pfacts) (s : state) : option state :=
  match s_c s with
  | C_recv =>
      match s_sq s with
      | k :: rest =>
          let s1 := set_sq rest s in
          match k with
          | K_other => Some s1
          | K_error => if s_fatal s then Some s1
                       else let s2 := set_errs (S (s_errs s)) s1 in
                            if (0 <? c_cap (s_cfg s)) && (S (s_errs s) =? c_cap (s_cfg s))
                            then Some (set_stop true s2) else Some s2
          | K_fatal => if s_fatal s then Some s1
                       else Some (set_stop true (set_fatal true s1))
          end
      | [] => if stats_senders0 s then Some (set_c C_finish s) else None
      end
  | C_finish => if c_stats_stdout (s_cfg s) && negb (s_open s) && negb (pf_stats_stdout_handled f)
                then Some (set_panic true s) else Some (set_c C_done s)
  | C_done => None
  end.

Definition step (f : pfacts) (l : label) (s : state) : option state :=
  if s_panic s then None else if s_hardexit s then None else
  match l with
  | L_stop => if 1 <=? s_sigs s then None
              else if s_stop s && negb (pf_handler_own_counter f)
                   then Some (set_hardexit true (set_sigs 1 s))     (* process::exit with the workers still running *)
                   else Some (set_sigs 1 (set_stop true s))
  | L_close => if s_open s then Some (set_open false s) else None
  | L_reader => step_reader f s
  | L_main => step_main f s
  | L_analysis i c => step_analysis f i c s
  | L_valid i => step_valid i s
  | L_writer fl => step_writer f fl s
  | L_ctrl => step_ctrl f s
  end.

Fixpoint run (f : pfacts) (ls : list label) (s : state) : option state :=
  match ls with
  | [] => Some s
  | l :: r => match step f l s with Some s' => run f r s' | None => None end
  end.

Definition init (c : cfg) (input : list batch) : state :=
  {| s_cfg := c; s_stop := false; s_open := true; s_input := input; s_lstop := false;
     s_r := R_top; s_dq := [];
     s_mrecv := match c_mode c with Mwrite => false | _ => true end;
     s_a := match c_mode c with Mcheck | Mview => A_top | _ => A_absent end;
     s_alive := true; s_vs := [];
     s_w := match c_mode c with Mwrite => W_recv | _ => W_absent end;
     s_wbuf := 0; s_wout := [];
     s_iq := []; s_sq := [K_other];     (* the RDH version message of init_processing *)
     s_m := M_droprecv; s_c := C_recv; s_errs := 0; s_fatal := false; s_panic := false;
     s_sigs := 0; s_hardexit := false |}.

Definition final (s : state) : bool :=
  s_panic s || s_hardexit s || match s_m s with M_exit => true | _ => false end.

(* labels worth trying in a state (for searching: every enabled step is among them) *)
Definition candidate_labels (s : state) : list label :=
  [L_stop; L_close; L_reader; L_main; L_ctrl; L_writer false; L_writer true]
  ++ map (fun i => L_analysis i 128) (seq 0 (S (length (s_vs s))))
  ++ map L_valid (seq 0 (length (s_vs s))).
Definition enabled (f : pfacts) (s : state) : list label :=
  filter (fun l => match step f l s with Some _ => true | None => false end) (candidate_labels s).

(* ---- the variant ------------------------------------------------------------------ *)
Definition wb (b : batch) : nat := 4 * length (b_cdps b) + 10.
Definition wi (b : batch) : nat := wb b + 8.
Fixpoint sum_w {A} (w : A -> nat) (l : list A) : nat :=
  match l with [] => 0 | x :: r => w x + sum_w w r end.
Definition wv (v : vst) : nat := (if v_done v then 0 else 1) + 2 * length (v_q v).

Definition pcw_r (p : rpc) : nat :=
  match p with R_top => 3 | R_fill => 2 | R_send b => wb b + 4 | R_done => 0 end.
Definition pcw_a (p : apc) : nat :=
  match p with A_absent => 0 | A_top => 4 | A_recv => 3 | A_stats b => 4 * length (b_cdps b) + 12
             | A_work l => 4 * length l + 5 | A_clear => 2 | A_join => 1 | A_done => 0 end.
Definition pcw_w (p : wpc) : nat :=
  match p with W_absent => 0 | W_recv => 2 | W_check _ => 4 | W_push _ => 3 | W_drop => 1
             | W_done => 0 end.
Definition pcw_m (p : mpc) : nat :=
  match p with M_droprecv => 5 | M_forward => 4 | M_joinC => 3 | M_joinS => 2 | M_exit => 0 end.
Definition pcw_c (p : cpc) : nat := match p with C_recv => 2 | C_finish => 1 | C_done => 0 end.

(* what is still to be read: everything while the reader is not told to stop; once the stop
   flag is up and the reader polls it, at most the batch it is filling right now *)
Definition w_input (f : pfacts) (s : state) : nat :=
  if pf_reader_polls f && s_stop s
  then match s_r s, s_input s with R_fill, b :: _ => wi b | _, _ => 0 end
  else sum_w wi (s_input s).

Definition mu (f : pfacts) (s : state) : nat :=
  w_input f s + pcw_r (s_r s) + sum_w wb (s_dq s) + pcw_a (s_a s) + sum_w wv (s_vs s)
  + pcw_w (s_w s) + 2 * length (s_iq s) + length (s_sq s) + pcw_m (s_m s) + pcw_c (s_c s)
  + (if s_stop s then 0 else 1) + (if s_open s then 1 else 0) + (if s_panic s then 0 else 1)
  + (1 - s_sigs s) + (if s_hardexit s then 0 else 1).

(* a scheduler that always takes the first enabled candidate (used for witnesses and for searching) *)
Fixpoint greedy (f : pfacts) (fuel : nat) (s : state) : list label :=
  match fuel with
  | O => []
  | S n => match enabled f s with
           | [] => []
           | l :: _ => match step f l s with Some s' => l :: greedy f n s' | None => [] end
           end
  end.
