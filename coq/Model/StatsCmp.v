(* Model of the comparison of the collected statistics with an input statistics file (C15):
   the validate_fields! macro, the per-struct validate_other functions and StatsCollector::validate_other_stats,
   parameterised by the lists regenerated from the sources (Gen.Facts: <S>_macro, <S>_recon, <S>_deleg ...).
   Leaves are values of an arbitrary type V with a boolean equality; a struct is the list of its fields' values in
   declaration order (sub-struct positions hold a placeholder that is never looked at by a complete comparison). *)
From Coq Require Import List NArith Bool.
Import ListNotations.
Require Import FP.Gen.Facts.
Open Scope N_scope.

Definition DEFAULT_SRC : N := 255.

Definition src_of (recon : list (N * N)) (i : N) : option N :=
  match find (fun p => N.eqb (fst p) i) recon with
  | Some p => Some (snd p)
  | None => None
  end.

(* field i of the struct that validate_other rebuilds from `other` before handing it to validate_fields *)
Definition rebuilt_field {V} (dflt : V) (recon : list (N * N)) (other : list V) (i : N) : V :=
  match src_of recon i with
  | Some s => if N.eqb s DEFAULT_SRC then dflt else nth (N.to_nat s) other dflt
  | None => dflt
  end.

(* validate_fields!: the listed fields whose values differ, in the order of the list (= order of the messages) *)
Definition validate_fields {V} (veqb : V -> V -> bool) (dflt : V) (macro : list N) (recon : list (N * N))
           (self other : list V) : list N :=
  filter (fun i => negb (veqb (nth (N.to_nat i) self dflt) (rebuilt_field dflt recon other i))) macro.

(* a mismatch is reported as (struct tag, field index) *)
Inductive stag := ST_sc | ST_rdh | ST_err | ST_trg | ST_its | ST_alp | ST_rof | ST_alp_missing.

Definition tagged (t : stag) (l : list N) : list (stag * N) := map (fun i => (t, i)) l.

Record rdh_t (V : Type) := { r_top : list V; r_its : list V; r_trg : list V }.
Record alp_t (V : Type) := { a_top : list V; a_rof : list V }.
Record sc_t (V : Type) := { s_top : list V; s_rdh : rdh_t V; s_err : list V; s_alp : option (alp_t V) }.
Arguments r_top {V}. Arguments r_its {V}. Arguments r_trg {V}.
Arguments a_top {V}. Arguments a_rof {V}.
Arguments s_top {V}. Arguments s_rdh {V}. Arguments s_err {V}. Arguments s_alp {V}.

(* positions of the sub-structs inside their parents (declaration order, regenerated) *)
Definition IDX_RDH_ITS : N := rdh_idx_its_stats.
Definition IDX_RDH_TRG : N := rdh_idx_trigger_stats.
Definition IDX_ALP_ROF : N := alp_idx_readout_flags.
Definition IDX_SC_RDH : N := sc_idx_rdh_stats.
Definition IDX_SC_ERR : N := sc_idx_error_stats.
Definition IDX_SC_ALP : N := sc_idx_alpide_stats.

Definition its_validate {V} (veqb : V -> V -> bool) (dflt : V) (a b : list V) := tagged ST_its (validate_fields veqb dflt its_macro its_recon a b).
Definition trg_validate {V} (veqb : V -> V -> bool) (dflt : V) (a b : list V) := tagged ST_trg (validate_fields veqb dflt trg_macro trg_recon a b).
Definition err_validate {V} (veqb : V -> V -> bool) (dflt : V) (a b : list V) := tagged ST_err (validate_fields veqb dflt err_macro err_recon a b).
Definition rof_validate {V} (veqb : V -> V -> bool) (dflt : V) (a b : list V) := tagged ST_rof (validate_fields veqb dflt rof_macro rof_recon a b).

  (* a struct with sub-structs: for every delegation (i, j) -- the sub-struct at field i of self is compared with the sub-struct at
   field j of other by its own validate_other; the types only fit when i = j, any other pair cannot be compiled and is modelled as
   "no comparison" -- the sub-struct's messages in the order of the calls, then the messages of the struct's own validate_fields *)
Definition parent_validate {V} (veqb : V -> V -> bool) (dflt : V) (tag : stag) (deleg : list (N * N)) (subval : N -> option (list (stag * N)))
           (macro : list N) (recon : list (N * N)) (ta tb : list V) : list (stag * N) :=
  flat_map (fun p => if negb (N.eqb (fst p) (snd p)) then []
                     else match subval (fst p) with Some r => r | None => [] end) deleg
  ++ tagged tag (validate_fields veqb dflt macro recon ta tb).

Definition rdh_subval {V} (veqb : V -> V -> bool) (dflt : V) (a b : rdh_t V) (i : N) : option (list (stag * N)) :=
  if N.eqb i IDX_RDH_ITS then Some (its_validate veqb dflt (r_its a) (r_its b))
  else if N.eqb i IDX_RDH_TRG then Some (trg_validate veqb dflt (r_trg a) (r_trg b))
  else None.
Definition rdh_validate {V} (veqb : V -> V -> bool) (dflt : V) (a b : rdh_t V) : list (stag * N) :=
  parent_validate veqb dflt ST_rdh rdh_deleg (rdh_subval veqb dflt a b) rdh_macro rdh_recon (r_top a) (r_top b).

Definition alp_subval {V} (veqb : V -> V -> bool) (dflt : V) (a b : alp_t V) (i : N) : option (list (stag * N)) :=
  if N.eqb i IDX_ALP_ROF then Some (rof_validate veqb dflt (a_rof a) (a_rof b)) else None.
Definition alp_validate {V} (veqb : V -> V -> bool) (dflt : V) (a b : alp_t V) : list (stag * N) :=
  parent_validate veqb dflt ST_alp alp_deleg (alp_subval veqb dflt a b) alp_macro alp_recon (a_top a) (a_top b).

Definition sc_alp_validate {V} (veqb : V -> V -> bool) (dflt : V) (a b : option (alp_t V)) : list (stag * N) :=
  match a, b with
  | Some x, Some y => alp_validate veqb dflt x y
  | Some _, None => [(ST_alp_missing, 0)]
  | None, _ => []          (* only a warning is logged *)
  end.
Definition sc_subval {V} (veqb : V -> V -> bool) (dflt : V) (a b : sc_t V) (i : N) : option (list (stag * N)) :=
  if N.eqb i IDX_SC_RDH then Some (rdh_validate veqb dflt (s_rdh a) (s_rdh b))
  else if N.eqb i IDX_SC_ERR then Some (err_validate veqb dflt (s_err a) (s_err b))
  else if N.eqb i IDX_SC_ALP then Some (sc_alp_validate veqb dflt (s_alp a) (s_alp b))
  else None.
Definition sc_validate {V} (veqb : V -> V -> bool) (dflt : V) (a b : sc_t V) : list (stag * N) :=
  parent_validate veqb dflt ST_sc sc_deleg (sc_subval veqb dflt a b) sc_macro sc_recon (s_top a) (s_top b).

(* controller: the any-errors flag after the comparison with the input statistics file *)
Definition flag_after_compare (flag : bool) (mismatch : bool) : bool :=
  flag || (stats_mismatch_sets_flag && mismatch).

(* writing the statistics file over an existing one *)
Definition written_file {A} (replaced : bool) (old new : list A) : list A :=
  if replaced then new else new ++ skipn (length new) old.
