(* The statistics tree (what is serialised into the statistics file) of a collector state of Model/Collector.v,
   in the declaration order of the Rust structs at the pinned commit (the comparison theorems do not depend on the order). *)
From Coq Require Import List NArith Bool.
Import ListNotations.
Require Import FP.Model.Base FP.Model.Collector FP.Model.StatsCmp.
Open Scope N_scope.

Inductive sleaf :=
| L_sub                                   (* placeholder at the position of a sub-struct *)
| L_b (b : bool) | L_n (n : N) | L_on (o : option N)
| L_ln (l : list N) | L_lp (l : list (N * N)) | L_olp (o : option (list (N * N)))
| L_msgs (l : list emsg) | L_omsg (o : option emsg).

Definition opt_eqb {A} (e : A -> A -> bool) (a b : option A) : bool :=
  match a, b with Some x, Some y => e x y | None, None => true | _, _ => false end.
Fixpoint list_eqb {A} (e : A -> A -> bool) (a b : list A) : bool :=
  match a, b with
  | [], [] => true
  | x :: a', y :: b' => e x y && list_eqb e a' b'
  | _, _ => false
  end.
Definition emsg_eqb (a b : emsg) : bool :=
  N.eqb (m_off a) (m_off b) && list_eqb N.eqb (m_codes a) (m_codes b) && N.eqb (m_body a) (m_body b) && opt_eqb N.eqb (m_fee a) (m_fee b).

Definition sleaf_eqb (a b : sleaf) : bool :=
  match a, b with
  | L_sub, L_sub => true
  | L_b x, L_b y => Bool.eqb x y
  | L_n x, L_n y => N.eqb x y
  | L_on x, L_on y => opt_eqb N.eqb x y
  | L_ln x, L_ln y => list_eqb N.eqb x y
  | L_lp x, L_lp y => list_eqb pair_eqb x y
  | L_olp x, L_olp y => opt_eqb (list_eqb pair_eqb) x y
  | L_msgs x, L_msgs y => list_eqb emsg_eqb x y
  | L_omsg x, L_omsg y => opt_eqb emsg_eqb x y
  | _, _ => false
  end.

Definition cnt (s : cstate) (i : nat) : sleaf := L_n (nth i (k_counters s) 0).

Definition tree_of (with_alpide : bool) (s : cstate) : sc_t sleaf :=
  {| s_top := [L_b (k_finalized s); L_sub; L_sub; L_sub];
     s_rdh := {| r_top := [cnt s 0; cnt s 1; L_on (k_version s); cnt s 3; cnt s 2; L_on (k_format s); L_ln (k_links s); L_ln (k_fees s);
                           L_on (k_sysid s); L_on (k_run_trigger s); L_sub; L_sub];
                 r_its := [L_lp (k_layer_staves s)];
                 r_trg := map (cnt s) (seq 4 20) |};
     s_err := [L_omsg (k_fatal s); L_msgs (k_errors s); L_msgs (k_custom s); L_n (k_total s); L_ln (k_unique s); L_olp (k_staves_err s)];
     s_alp := if with_alpide then Some {| a_top := [L_sub]; a_rof := map (cnt s) (seq 24 7) |} else None |}.
