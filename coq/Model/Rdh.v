(* RDH CRU (alice_protocol_reader/src/rdh/{rdh0,rdh1,rdh2,rdh3,rdh_cru}.rs): decoding of the
   64 header bytes into the packed struct's fields, accessors, re-serialisation. *)
From FP Require Import Model.Base.

Record rdh := mk_rdh {
  (* Rdh0 *)
  r_header_id : N; r_header_size : N; r_fee_id : N; r_priority_bit : N; r_system_id : N; r_rdh0_reserved0 : N;
  (* RdhCru *)
  r_offset_new_packet : N; r_memory_size : N; r_link_id : N; r_packet_counter : N; r_cruid_dw : N;
  (* Rdh1 *)
  r_bc_reserved0 : N; r_orbit : N;
  r_dataformat_reserved0 : N;
  (* Rdh2 *)
  r_trigger_type : N; r_pages_counter : N; r_stop_bit : N; r_rdh2_reserved0 : N;
  r_reserved1 : N;
  (* Rdh3 *)
  r_detector_field : N; r_par_bit : N; r_rdh3_reserved0 : N;
  r_reserved2 : N
}.

(* SerdeRdh::from_buf on exactly 64 bytes *)
Definition decode_rdh (b : list N) : rdh :=
  let g i := nb i b in
  {| r_header_id := g 0%nat; r_header_size := g 1%nat; r_fee_id := le16 (g 2%nat) (g 3%nat);
     r_priority_bit := g 4%nat; r_system_id := g 5%nat; r_rdh0_reserved0 := le16 (g 6%nat) (g 7%nat);
     r_offset_new_packet := le16 (g 8%nat) (g 9%nat); r_memory_size := le16 (g 10%nat) (g 11%nat);
     r_link_id := g 12%nat; r_packet_counter := g 13%nat; r_cruid_dw := le16 (g 14%nat) (g 15%nat);
     r_bc_reserved0 := le32 (g 16%nat) (g 17%nat) (g 18%nat) (g 19%nat);
     r_orbit := le32 (g 20%nat) (g 21%nat) (g 22%nat) (g 23%nat);
     r_dataformat_reserved0 := le64 (g 24%nat) (g 25%nat) (g 26%nat) (g 27%nat) (g 28%nat) (g 29%nat) (g 30%nat) (g 31%nat);
     r_trigger_type := le32 (g 32%nat) (g 33%nat) (g 34%nat) (g 35%nat);
     r_pages_counter := le16 (g 36%nat) (g 37%nat); r_stop_bit := g 38%nat; r_rdh2_reserved0 := g 39%nat;
     r_reserved1 := le64 (g 40%nat) (g 41%nat) (g 42%nat) (g 43%nat) (g 44%nat) (g 45%nat) (g 46%nat) (g 47%nat);
     r_detector_field := le32 (g 48%nat) (g 49%nat) (g 50%nat) (g 51%nat);
     r_par_bit := le16 (g 52%nat) (g 53%nat); r_rdh3_reserved0 := le16 (g 54%nat) (g 55%nat);
     r_reserved2 := le64 (g 56%nat) (g 57%nat) (g 58%nat) (g 59%nat) (g 60%nat) (g 61%nat) (g 62%nat) (g 63%nat) |}.

(* little-endian bytes of a value, k bytes *)
Fixpoint to_le (k : nat) (x : N) : list N :=
  match k with
  | O => []
  | S k' => x mod 256 :: to_le k' (x / 256)
  end.

(* ByteSlice::to_byte_slice of the packed struct *)
Definition encode_rdh (r : rdh) : list N :=
  to_le 1 (r_header_id r) ++ to_le 1 (r_header_size r) ++ to_le 2 (r_fee_id r) ++
  to_le 1 (r_priority_bit r) ++ to_le 1 (r_system_id r) ++ to_le 2 (r_rdh0_reserved0 r) ++
  to_le 2 (r_offset_new_packet r) ++ to_le 2 (r_memory_size r) ++ to_le 1 (r_link_id r) ++
  to_le 1 (r_packet_counter r) ++ to_le 2 (r_cruid_dw r) ++ to_le 4 (r_bc_reserved0 r) ++
  to_le 4 (r_orbit r) ++ to_le 8 (r_dataformat_reserved0 r) ++ to_le 4 (r_trigger_type r) ++
  to_le 2 (r_pages_counter r) ++ to_le 1 (r_stop_bit r) ++ to_le 1 (r_rdh2_reserved0 r) ++
  to_le 8 (r_reserved1 r) ++ to_le 4 (r_detector_field r) ++ to_le 2 (r_par_bit r) ++
  to_le 2 (r_rdh3_reserved0 r) ++ to_le 8 (r_reserved2 r).

(* accessors (rdh_cru.rs, rdh1.rs, rdh2.rs) *)
Definition rdh_version (r : rdh) := r_header_id r.
Definition rdh_cru_id (r : rdh) := N.land (r_cruid_dw r) 4095.
Definition rdh_dw (r : rdh) := wrap8 (N.shiftr (N.land (r_cruid_dw r) 61440) 12).
Definition rdh_data_format (r : rdh) := wrap8 (N.land (r_dataformat_reserved0 r) 255).
Definition rdh_bc (r : rdh) := wrap16 (N.land (r_bc_reserved0 r) 4095).
Definition rdh1_reserved0 (r : rdh) := N.shiftr (r_bc_reserved0 r) 12.
Definition rdh_is_pht (r : rdh) : bool := N.land (N.shiftr (r_trigger_type r) 4) 1 =? 1.
(* fn payload_size(&self) -> u16 { self.memory_size - 64 }  (wraps in the shipped profile) *)
Definition rdh_payload_size (r : rdh) : N := sub16 (r_memory_size r) 64.

(* words/its.rs *)
Definition stave_number_from_feeid (fee : N) : N := wrap8 (N.land fee 63).
Definition layer_from_feeid (fee : N) : N := wrap8 (N.land (N.shiftr fee 12) 7).
