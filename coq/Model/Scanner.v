(* The input scanner (alice_protocol_reader/src/input_scanner.rs, mem_pos_tracker.rs, stats.rs,
   bufreader_wrapper.rs, stdin_reader.rs) and the reader loop with its batching
   (alice_protocol_reader/src/lib.rs spawn_reader / get_array_batch).
   The reader is the list of bytes not yet consumed.  u64 tracker arithmetic is kept unbounded
   (an input of 2^64 bytes is outside every quantifier); the u32 statistics accumulators with
   their flush-on-equality are modelled as they are. *)
From FP Require Import Model.Base Model.Rdh.
From FP Require Gen.Facts.
From Coq Require Import Arith.

Inductive source := Src_file | Src_pipe.
Inductive ftarget := F_link (id : N) | F_fee (id : N) | F_stave (fee : N).
Record scfg := { sc_filter : option ftarget; sc_skip : bool; sc_src : source }.

(* InputStatType, in emission order *)
Inductive instat :=
| IS_fatal (mem : N)            (* invalid offset_to_next at the RDH at `mem` *)
| IS_error (code mem : N)       (* [E100]/[E101] with the tracker value it is labelled with *)
| IS_trig (t : N) | IS_fmt (f : N) | IS_sysid (s : N)
| IS_link (l : N) | IS_fee (f : N)
| IS_seen (n : N) | IS_filtered (n : N) | IS_payload (n : N).

Inductive serr := E_eof | E_invalid_data | E_invalid_input | E_fuel.
Inductive sres (A : Type) := SOk (a : A) | SErr (e : serr).
Arguments SOk {A} a.
Arguments SErr {A} e.

Record cdp := { c_rdh : rdh; c_payload : list N; c_off : N }.

Record sstate := {
  s_in : list N;            (* bytes not yet consumed by the reader *)
  s_mem : N;                (* MemPosTracker.memory_address_bytes *)
  s_seen : N; s_filt : N; s_pay : N;     (* Stats accumulators (u32) *)
  s_links : list N; s_fees : list N;
  s_out : list instat }.

Definition sinit (input : list N) : sstate :=
  {| s_in := input; s_mem := 0; s_seen := 0; s_filt := 0; s_pay := 0; s_links := []; s_fees := []; s_out := [] |}.

Definition U32_MAX := 4294967295.

Definition set_in (st : sstate) (l : list N) : sstate :=
  {| s_in := l; s_mem := s_mem st; s_seen := s_seen st; s_filt := s_filt st; s_pay := s_pay st;
     s_links := s_links st; s_fees := s_fees st; s_out := s_out st |}.
Definition set_mem (st : sstate) (m : N) : sstate :=
  {| s_in := s_in st; s_mem := m; s_seen := s_seen st; s_filt := s_filt st; s_pay := s_pay st;
     s_links := s_links st; s_fees := s_fees st; s_out := s_out st |}.
Definition emit (st : sstate) (o : list instat) : sstate :=
  {| s_in := s_in st; s_mem := s_mem st; s_seen := s_seen st; s_filt := s_filt st; s_pay := s_pay st;
     s_links := s_links st; s_fees := s_fees st; s_out := s_out st ++ o |}.

(* Read::read_exact(n): all or nothing; on a short read the input is exhausted *)
Definition read_exact (n : nat) (st : sstate) : sstate * option (list N) :=
  if Nat.leb n (length (s_in st)) then (set_in st (drop n (s_in st)), Some (take n (s_in st)))
  else (set_in st [], None).

(* seek_relative_offset(k), k >= 0: a file may be positioned past its end (later reads see
   EOF); the stdin wrapper reads and discards, a short read is InvalidInput *)
Definition seek_rel (src : source) (k : nat) (st : sstate) : sstate * bool :=
  match src with
  | Src_file => (set_in st (drop k (s_in st)), true)
  | Src_pipe => if Nat.leb k (length (s_in st)) then (set_in st (drop k (s_in st)), true)
                else (set_in st [], false)
  end.

(* Stats::rdh_seen / try_add_link / try_add_fee_id *)
Definition mem_N (x : N) (l : list N) : bool := existsb (N.eqb x) l.
Definition collect_seen (st : sstate) (r : rdh) : sstate :=
  let seen1 := wrap32 (s_seen st + 1) in
  let '(seen2, o1) := if seen1 =? U32_MAX then (0, [IS_seen U32_MAX]) else (seen1, []) in
  let '(links, o2) := if mem_N (r_link_id r) (s_links st) then (s_links st, [])
                      else (s_links st ++ [r_link_id r], [IS_link (r_link_id r)]) in
  let '(fees, o3) := if mem_N (r_fee_id r) (s_fees st) then (s_fees st, [])
                     else (s_fees st ++ [r_fee_id r], [IS_fee (r_fee_id r)]) in
  {| s_in := s_in st; s_mem := s_mem st; s_seen := seen2; s_filt := s_filt st; s_pay := s_pay st;
     s_links := links; s_fees := fees; s_out := s_out st ++ o1 ++ o2 ++ o3 |}.
Definition count_filtered (st : sstate) : sstate :=
  let f1 := wrap32 (s_filt st + 1) in
  let '(f2, o) := if f1 =? U32_MAX then (0, [IS_filtered U32_MAX]) else (f1, []) in
  {| s_in := s_in st; s_mem := s_mem st; s_seen := s_seen st; s_filt := f2; s_pay := s_pay st;
     s_links := s_links st; s_fees := s_fees st; s_out := s_out st ++ o |}.
Definition add_payload (st : sstate) (n : N) : sstate :=
  let p1 := wrap32 (s_pay st + n) in
  let '(p2, o) := if p1 =? U32_MAX then (0, [IS_payload U32_MAX]) else (p1, []) in
  {| s_in := s_in st; s_mem := s_mem st; s_seen := s_seen st; s_filt := s_filt st; s_pay := p2;
     s_links := s_links st; s_fees := s_fees st; s_out := s_out st ++ o |}.

(* is_rdh_filter_target *)
Definition matches (t : ftarget) (r : rdh) : bool :=
  match t with
  | F_link id => r_link_id r =? id
  | F_fee id => r_fee_id r =? id
  | F_stave fee => N.land (r_fee_id r) Gen.Facts.layer_stave_mask =? N.land fee Gen.Facts.layer_stave_mask
  end.

(* sanity_check_offset_next: offset_to_next - 64 must lie in the window *)
Definition offset_ok (r : rdh) : bool :=
  (64 + Gen.Facts.offset_window_lo <=? r_offset_new_packet r) &&
  (r_offset_new_packet r <=? 64 + Gen.Facts.offset_window_hi).

(* seek_to_next_rdh: tracker.next(offset) then a relative seek over the payload *)
Definition seek_next (c : scfg) (st : sstate) (offset : N) : sstate * bool :=
  seek_rel (sc_src c) (N.to_nat (offset - 64)) (set_mem st (s_mem st + offset)).

(* load_next_rdh_to_filter: the loop after the first seek *)
Fixpoint filter_loop (fuel : nat) (c : scfg) (t : ftarget) (st : sstate) : sstate * sres rdh :=
  match fuel with
  | O => (st, SErr E_fuel)
  | S f =>
      match read_exact 64 st with
      | (st1, None) => (st1, SErr E_eof)
      | (st1, Some b) =>
          let r := decode_rdh b in
          if negb (offset_ok r) then (emit st1 [IS_fatal (s_mem st1)], SErr E_invalid_data)
          else
            let st2 := collect_seen st1 r in
            if matches t r then (count_filtered st2, SOk r)
            else match seek_next c st2 (r_offset_new_packet r) with
                 | (st3, true) => filter_loop f c t st3
                 | (st3, false) => (st3, SErr E_invalid_input)
                 end
      end
  end.

(* ScanCDP::load_rdh_cru *)
Definition load_rdh_cru (fuel : nat) (c : scfg) (st : sstate) : sstate * sres rdh :=
  match read_exact 64 st with
  | (st1, None) => (st1, SErr E_eof)
  | (st1, Some b) =>
      let r := decode_rdh b in
      let st2 := if s_mem st1 =? 0
                 then emit st1 [IS_trig (r_trigger_type r); IS_fmt (rdh_data_format r); IS_sysid (r_system_id r)]
                 else st1 in
      let st3 := collect_seen st2 r in
      if negb (offset_ok r) then (emit st3 [IS_fatal (s_mem st3)], SErr E_invalid_data)
      else
        let '(st4, res) :=
          match sc_filter c with
          | None => (st3, SOk r)
          | Some t =>
              if matches t r then (count_filtered st3, SOk r)
              else match seek_next c st3 (r_offset_new_packet r) with
                   | (st', true) => filter_loop fuel c t st'
                   | (st', false) => (st', SErr E_invalid_input)
                   end
          end in
        match res with
        | SOk r' => (add_payload st4 (rdh_payload_size r'), SOk r')
        | SErr e => (st4, SErr e)
        end
  end.

(* the part of load_cdp after the RDH has been obtained: skip or read the payload *)
Definition finish_cdp (c : scfg) (st1 : sstate) (r : rdh) (off : N) : sstate * sres cdp :=
  if sc_skip c then
    match seek_next c st1 (r_offset_new_packet r) with
    | (st2, true) => (st2, SOk {| c_rdh := r; c_payload := []; c_off := off |})
    | (st2, false) => (emit st2 [IS_error 101 (s_mem st2)], SOk {| c_rdh := r; c_payload := []; c_off := off |})
    end
  else
    let st2 := set_mem st1 (s_mem st1 + r_offset_new_packet r) in
    match read_exact (N.to_nat (rdh_payload_size r)) st2 with
    | (st3, Some p) => (st3, SOk {| c_rdh := r; c_payload := p; c_off := off |})
    | (st3, None) => (emit st3 [IS_error 100 (s_mem st3)], SOk {| c_rdh := r; c_payload := []; c_off := off |})
    end.

(* ScanCDP::load_cdp.  `off_after` = true models the repaired code (packet offset sampled after
   load_rdh_cru has positioned the tracker on the returned RDH); false = the offset sampled
   before the filter loop ran (defect F1). *)
Definition load_cdp (off_after : bool) (fuel : nat) (c : scfg) (st : sstate) : sstate * sres cdp :=
  let off_before := s_mem st in
  match load_rdh_cru fuel c st with
  | (st1, SErr e) => (st1, SErr e)
  | (st1, SOk r) => finish_cdp c st1 r (if off_after then s_mem st1 else off_before)
  end.

Inductive scan_end := End_normal | End_batch_dropped | End_fuel.

(* the reader thread: CDPs in the order loaded, until an error ends reading *)
Fixpoint scan_flat (off_after : bool) (fuel : nat) (c : scfg) (st : sstate) : sstate * list cdp * scan_end :=
  match fuel with
  | O => (st, [], End_fuel)
  | S f =>
      match load_cdp off_after f c st with
      | (st1, SOk p) => let '(st2, ps, e) := scan_flat off_after f c st1 in (st2, p :: ps, e)
      | (st1, SErr E_eof) | (st1, SErr E_invalid_data) => (st1, [], End_normal)
      | (st1, SErr E_invalid_input) => (st1, [], End_batch_dropped)
      | (st1, SErr E_fuel) => (st1, [], End_fuel)
      end
  end.

(* batches of CAP; a batch being filled when an InvalidInput error arrives is lost
   (get_array_batch returns the error instead of the batch) *)
Fixpoint chunk_fuel (fuel : nat) (n : nat) {A} (l : list A) : list (list A) :=
  match fuel with
  | O => []
  | S f => match l with
           | [] => []
           | _ => firstn n l :: chunk_fuel f n (skipn n l)
           end
  end.
Definition chunk {A} (n : nat) (l : list A) : list (list A) := chunk_fuel (length l) n l.

Definition CAP : nat := N.to_nat Gen.Facts.batch_cap.

(* `keep` = get_array_batch ends the batch on InvalidInput keeping what it has read (the repaired
   code); false = it returns the error instead of the batch (defect F16) *)
Definition batches_of (keep : bool) (ps : list cdp) (e : scan_end) : list (list cdp) :=
  match e with
  | End_batch_dropped => if keep then chunk CAP ps else chunk CAP (firstn (length ps / CAP * CAP) ps)
  | _ => chunk CAP ps
  end.

(* Drop for InputScanner: flush_stats *)
Definition flush (st : sstate) : list instat :=
  s_out st ++ [IS_seen (s_seen st); IS_filtered (s_filt st); IS_payload (s_pay st)].

Definition scan_fuel (input : list N) : nat := S (S (length input / 64)).

Record scan_out := { so_batches : list (list cdp); so_stats : list instat; so_end : scan_end }.

Definition scan (off_after keep : bool) (c : scfg) (input : list N) : scan_out :=
  let '(st, ps, e) := scan_flat off_after (scan_fuel input) c (sinit input) in
  {| so_batches := batches_of keep ps e; so_stats := flush st; so_end := e |}.

(* all CDPs handed on, in order *)
Definition scan_cdps (off_after keep : bool) (c : scfg) (input : list N) : list cdp :=
  concat (so_batches (scan off_after keep c input)).

(* the scanner as the current source has it (Gen.Facts.cdp_offset_sampled_after is read from
   load_cdp on every run) *)
Definition scan_impl (c : scfg) (input : list N) : scan_out :=
  scan Gen.Facts.cdp_offset_sampled_after Gen.Facts.batch_kept_on_invalid_input c input.
