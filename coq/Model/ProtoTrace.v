(* Thread-local replay of recorded event traces (hook H2) against the protocol LTS (C17 correspondence).

   A trace of a real run is projected onto each thread.  For every event the parts of the state that belong
   to the other threads are overwritten with what the thread observed (flag value read, receive / send
   result, batch size), then the LTS [step] for that thread is taken and the program counter it reaches must
   be the one the next event of the thread is emitted from.  So each thread's loop structure, branch
   outcomes and exit conditions in the real run must be the ones the model's transition function gives for
   the same observations.  (The channel implementations themselves are not replayed: trusted libraries.) *)
From Coq Require Import NArith.
From FP Require Import Model.Protocol.
From FP Require Gen.Facts.

(* the structural facts of the current sources (regenerated on every run, G8) *)
Definition cur_pfacts : pfacts :=
  {| pf_reader_polls := Gen.Facts.proto_reader_polls;
     pf_analysis_polls := Gen.Facts.proto_analysis_polls;
     pf_writer_polls := Gen.Facts.proto_writer_polls;
     pf_main_drops_recv := Gen.Facts.proto_main_drops_recv;
     pf_join_clears := Gen.Facts.proto_join_clears;
     pf_writer_err_handled := Gen.Facts.proto_writer_err_handled;
     pf_view_err_handled := Gen.Facts.proto_view_err_handled;
     pf_stats_stdout_handled := Gen.Facts.proto_stats_stdout_handled;
     pf_handler_own_counter := Gen.Facts.proto_handler_own_counter;
     pf_dcap := N.to_nat Gen.Facts.proto_dcap;
     pf_vcap_min := N.to_nat Gen.Facts.proto_vcap_min |}.

Inductive tev :=
| T_r_top | T_r_batch (n cap : nat) | T_r_eof | T_r_sent | T_r_senderr | T_r_exit (stop lstop : bool)
| T_a_top | T_a_recv (n : nat) | T_a_disc | T_a_stats | T_a_worked (ok : bool) | T_a_join (stop : bool) | T_a_exit
| T_w_recv (n : nat) | T_w_disc | T_w_stop | T_w_push | T_w_fail | T_w_drop
| T_m_droprecv | T_m_forwarded | T_m_joinC | T_m_joinS
| T_c_recv (k : skind) (stop_after : bool) | T_c_finish | T_c_exit.

Definition mk_batch (n : nat) (full : bool) : batch :=
  {| b_cdps := repeat K_other n; b_full := full; b_rfatal := false; b_afatal := false |}.

Definition stepping (f : pfacts) (l : label) (s : state) (ok : state -> bool) : option state :=
  match step f l s with
  | Some s' => if ok s' then Some s' else None
  | None => None
  end.

Definition is_r (p : rpc) (s : state) : bool :=
  match p, s_r s with
  | R_top, R_top | R_fill, R_fill | R_done, R_done => true
  | R_send _, R_send _ => true
  | _, _ => false
  end.
Definition a_tag (p : apc) : nat :=
  match p with A_absent => 0 | A_top => 1 | A_recv => 2 | A_stats _ => 3 | A_work _ => 4
             | A_clear => 5 | A_join => 6 | A_done => 7 end.
Definition w_tag (p : wpc) : nat :=
  match p with W_absent => 0 | W_recv => 1 | W_check _ => 2 | W_push _ => 3 | W_drop => 4 | W_done => 5 end.
Definition m_tag (p : mpc) : nat :=
  match p with M_droprecv => 0 | M_forward => 1 | M_joinC => 2 | M_joinS => 3 | M_exit => 4 end.
Definition c_tag (p : cpc) : nat := match p with C_recv => 0 | C_finish => 1 | C_done => 2 end.
Definition at_a (n : nat) (s : state) : bool := a_tag (s_a s) =? n.
Definition at_w (n : nat) (s : state) : bool := w_tag (s_w s) =? n.
Definition at_m (n : nat) (s : state) : bool := m_tag (s_m s) =? n.
Definition at_c (n : nat) (s : state) : bool := c_tag (s_c s) =? n.

(* dispatch / print everything of the current batch, then return to the loop head *)
Fixpoint work_all (f : pfacts) (fuel : nat) (s : state) : option state :=
  match fuel with
  | O => None
  | S n =>
    match s_a s with
    | A_work [] => stepping f (L_analysis 0 0) s (at_a 1)
    | A_work (_ :: _) =>
        (* the validators belong to other threads: forget them, so that every dispatch opens a fresh channel (never blocks) and the
           replay stays linear in the length of the trace *)
        match step f (L_analysis 0 (pf_vcap_min f)) (set_vs [] s) with
        | Some s' => work_all f n s'
        | None => None
        end
    | _ => None
    end
  end.

Definition tstep (f : pfacts) (e : tev) (s : state) : option state :=
  match e with
  | T_r_top => if is_r R_top s then stepping f L_reader (set_stop false s) (is_r R_fill) else None
  | T_r_batch n cap =>
      if is_r R_fill s
      then match step f L_reader (set_input [mk_batch n (n =? cap)] s) with
           | Some s' => match s_r s' with R_send _ => Some s' | _ => None end
           | None => None
           end
      else None
  | T_r_eof => if is_r R_fill s then stepping f L_reader (set_input [] s) (is_r R_done) else None
  | T_r_sent =>
      match s_r s with
      | R_send _ => stepping f L_reader (set_mrecv true (set_dq [] s)) (is_r R_top)
      | _ => None
      end
  | T_r_senderr =>
      match s_r s with
      | R_send _ => stepping f L_reader (set_mrecv false (set_a A_absent (set_w W_absent s))) (is_r R_done)
      | _ => None
      end
  | T_r_exit stop lstop =>
      match s_r s with
      | R_done => Some s
      | R_top => if Bool.eqb (s_lstop s) lstop
                 then stepping f L_reader (set_stop stop s) (is_r R_done) else None
      | _ => None
      end
  | T_a_top => if at_a 1 s then stepping f (L_analysis 0 0) (set_stop false s) (at_a 2) else None
  | T_a_recv n => if at_a 2 s then stepping f (L_analysis 0 0) (set_dq [mk_batch n true] s) (at_a 3) else None
  | T_a_disc => if at_a 2 s then stepping f (L_analysis 0 0) (set_dq [] (set_r R_done s)) (at_a 5) else None
  | T_a_stats => if at_a 3 s then stepping f (L_analysis 0 0) s (at_a 4) else None
  | T_a_worked ok =>
      match s_a s with
      | A_work l => work_all f (S (S (length l))) (set_open ok s)
      | _ => None
      end
  | T_a_join stop =>
      match s_a s with
      | A_top => if stop
                 then match stepping f (L_analysis 0 0) (set_stop true s) (at_a 5) with
                      | Some s1 => stepping f (L_analysis 0 0) s1 (at_a 6)
                      | None => None
                      end
                 else None
      | A_clear => stepping f (L_analysis 0 0) s (at_a 6)
      | _ => None
      end
  | T_a_exit =>
      if at_a 6 s
      then stepping f (L_analysis 0 0)
             (set_vs (map (fun v => {| v_q := []; v_cap := v_cap v; v_done := true |}) (s_vs s)) s) (at_a 7)
      else None
  | T_w_recv n => if at_w 1 s then stepping f (L_writer false) (set_dq [mk_batch n true] s) (at_w 2) else None
  | T_w_disc => if at_w 1 s then stepping f (L_writer false) (set_dq [] (set_r R_done s)) (at_w 4) else None
  | T_w_stop => if at_w 2 s then stepping f (L_writer false) (set_stop true s) (at_w 4) else None
  | T_w_push =>
      if at_w 2 s
      then match stepping f (L_writer false) (set_stop false s) (at_w 3) with
           | Some s1 => stepping f (L_writer false) s1 (at_w 1)
           | None => None
           end
      else None
  | T_w_fail =>
      (* a flush inside push_cdp_arr failed: the destination is a closed stdout *)
      if at_w 2 s
      then match stepping f (L_writer false) (set_stop false s) (at_w 3) with
           | Some s1 =>
               let c := s_cfg s1 in
               let s2 := {| s_cfg := {| c_mode := c_mode c; c_cap := c_cap c; c_stats_stdout := c_stats_stdout c;
                                        c_write_stdout := true |};
                            s_stop := s_stop s1; s_open := false; s_input := s_input s1; s_lstop := s_lstop s1;
                            s_r := s_r s1; s_dq := s_dq s1; s_mrecv := s_mrecv s1; s_a := s_a s1;
                            s_alive := s_alive s1; s_vs := s_vs s1; s_w := s_w s1; s_wbuf := s_wbuf s1;
                            s_wout := s_wout s1; s_iq := s_iq s1; s_sq := s_sq s1; s_m := s_m s1; s_c := s_c s1;
                            s_errs := s_errs s1; s_fatal := s_fatal s1; s_panic := s_panic s1;
                            s_sigs := s_sigs s1; s_hardexit := s_hardexit s1 |} in
               stepping f (L_writer true) s2 (at_w 4)
           | None => None
           end
      else None
  | T_w_drop => if at_w 4 s then Some s else None
  | T_m_droprecv => if at_m 0 s then stepping f L_main s (at_m 1) else None
  | T_m_forwarded => if at_m 1 s then stepping f L_main (set_iq [] (set_r R_done s)) (at_m 2) else None
  | T_m_joinC =>
      if at_m 2 s
      then stepping f L_main
             (set_a (match s_a s with A_absent => A_absent | _ => A_done end)
                (set_w (match s_w s with W_absent => W_absent | _ => W_done end) s)) (at_m 3)
      else None
  | T_m_joinS => if at_m 3 s then stepping f L_main (set_c C_done s) (at_m 4) else None
  | T_c_recv k stop_after =>
      if at_c 0 s
      then match step f L_ctrl (set_sq [k] s) with
           | Some s' => if s_stop s' && negb stop_after then None
                        else if at_c 0 s' then Some (set_stop stop_after s') else None
           | None => None
           end
      else None
  | T_c_finish =>
      if at_c 0 s
      then stepping f L_ctrl
             (set_sq [] (set_m M_joinS (set_vs [] (set_a (match s_a s with A_absent => A_absent | _ => A_done end) s))))
             (at_c 1)
      else None
  | T_c_exit => if at_c 1 s then stepping f L_ctrl (set_open true s) (at_c 2) else None
  end.

(* None: accepted; Some i: the i-th event (from 0) is not a step of the model *)
Fixpoint replay (f : pfacts) (evs : list tev) (i : nat) (s : state) : option nat :=
  match evs with
  | [] => None
  | e :: r => match tstep f e s with Some s' => replay f r (S i) s' | None => Some i end
  end.

Definition replay_thread (f : pfacts) (c : cfg) (evs : list tev) : option nat :=
  replay f evs 0 (init c []).
