(* One whole run in a mode that prints no report: a view, or filtered data written out (fastpasta/src/init.rs run, lib.rs process,
   analyze/lib.rs the view arm, controller.rs run: the any-errors flag is decided where the statistics are finalised, whether or not
   a report follows).  Same pipeline as Model/System.v run_check without the validators; a frame view that cannot cut a payload
   into words sends a fatal message. *)
From FP Require Import Model.Base Model.Rdh Model.Alpide Model.Scanner Model.Collector Model.Views Model.System.
From FP Require Gen.Facts.

Inductive rl_mode :=
| RL_view_rdh
| RL_view_frames (data_view : bool)
| RL_write.

(* the views of the batches in order: the first one that does not end normally ends the run of views *)
Fixpoint first_end (dv : bool) (batches : list (list cdp)) : vend :=
  match batches with
  | [] => VE_done
  | b :: r => match snd (view_frames dv b) with VE_done => first_end dv r | e => e end
  end.

Definition run_reportless (fatal_flag : bool) (c : run_cfg) (m : rl_mode) (input : list N) : run_result :=
  if Nat.ltb (length input) 8 then R_too_short
  else if negb (recognised input) then R_unrecognised
  else
    let out := scan_impl (rc_scan c) input in
    let version := nth 0 input 0 in
    let ve := match m with RL_view_frames dv => first_end dv (so_batches out) | _ => VE_done end in
    match ve with
    | VE_panic s => R_panic s
    | _ =>
        let analysed := match m with RL_write => false | _ => true end in
        let a := stats_arrival version out analysed ++
                 match ve with VE_payload_error _ => [CS_fatal (fatal_msg 2)] | _ => [] end in
        let s0 := collect_all a in
        let s1 := add_custom s0 (custom_errors (rc_counts c) s0) in
        let s2 := finalize Gen.Facts.error_sort_when_muted (rc_mute c) s1 in
        let flag := (0 <? k_total s2) || (fatal_flag && match k_fatal s2 with Some _ => true | None => false end) in
        R_done s2 [] (exit_code (rc_exit c) Init_ok flag)
    end.
