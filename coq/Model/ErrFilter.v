(* The character-level error-code matcher of ErrPrinter (stats/err_printer.rs: filter_error_msgs,
   match_error_code).  Text is a list of character codes. *)
From FP Require Import Model.Base.

Definition CH_LBRACKET := 91.  Definition CH_RBRACKET := 93.  Definition CH_E := 69.

(* msg_chars.position(|c| c == '['): the characters after the first '[' *)
Fixpoint after_bracket (l : list N) : option (list N) :=
  match l with
  | [] => None
  | c :: r => if c =? CH_LBRACKET then Some r else after_bracket r
  end.

(* filter_chars.zip(msg_chars).all(==): None = a pair differs or the message ran out first *)
Fixpoint zip_all (f m : list N) : option (list N) :=
  match f, m with
  | [], _ => Some m
  | x :: f', y :: m' => if x =? y then zip_all f' m' else None
  | _ :: _, [] => None
  end.

(* does the message pass the filter code `f` (the code's decimal digits) *)
Definition match_error_code (msg f : list N) : bool :=
  match after_bracket msg with
  | Some (_e :: rest) =>            (* the character after '[' is skipped (it is the 'E') *)
      match zip_all f rest with
      | Some (c :: _) => c =? CH_RBRACKET
      | _ => false
      end
  | _ => false
  end.
