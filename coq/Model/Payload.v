(* Payload preprocessing (fastpasta/src/analyze/validators/lib.rs):
   trailing 0xFF run, data-format detection from bytes 10..15, chunking. *)
From FP Require Import Model.Base.
From Coq Require Import Arith.

(* payload.iter().rev().take_while(|x| x == 0xFF).count() *)
Fixpoint take_while_ff (l : list N) : nat :=
  match l with
  | b :: r => if b =? 255 then S (take_while_ff r) else O
  | [] => O
  end.
Definition ff_run (p : list N) : nat := take_while_ff (rev p).

Fixpoint take_while_zero (l : list N) : nat :=
  match l with
  | b :: r => if b =? 0 then S (take_while_zero r) else O
  | [] => O
  end.

(* detect_payload_data_format: skip(10).take(6).take_while(==0).count() == 6 *)
Definition detect_fmt0 (p : list N) : bool :=
  Nat.eqb (take_while_zero (take 6 (drop 10 p))) 6.

(* slice::chunks_exact(n): fuel = length of the slice, never exhausted for n > 0 *)
Fixpoint chunks_fuel (fuel n : nat) (l : list N) : list (list N) :=
  match fuel with
  | O => []
  | S f => if Nat.ltb (length l) n then [] else take n l :: chunks_fuel f n (drop n l)
  end.
Definition chunks_exact (n : nat) (l : list N) : list (list N) := chunks_fuel (length l) n l.

Inductive prep :=
| Prep_err (ff : nat)                       (* more than 15 bytes of 0xFF padding *)
| Prep_ok (slot : nat) (chunks : list (list N)).

(* preprocess_payload; gbt_word[..10] is applied by the caller (do_payload_checks / views) *)
Definition preprocess (p : list N) : prep :=
  let ff := ff_run p in
  if Nat.ltb 15 ff then Prep_err ff
  else if detect_fmt0 p then Prep_ok 16 (chunks_exact 16 p)
  else if Nat.ltb 9 ff then Prep_ok 10 (chunks_exact 10 (take (length p - ff) p))
  else Prep_ok 10 (chunks_exact 10 p).

(* the 10-byte words the checker examines, in order *)
Definition words_of (p : list N) : option (list (list N)) :=
  match preprocess p with
  | Prep_err _ => None
  | Prep_ok _ cs => Some (map (take 10) cs)
  end.
Definition slot_of (p : list N) : nat :=
  match preprocess p with Prep_err _ => 0 | Prep_ok s _ => s end.
