(* Base definitions shared by the whole model: bytes, little-endian values,
   fixed-width wrap-around, results with explicit panic sites.
   No proofs here (the model must keep running when a proof breaks). *)
From Coq Require Export List NArith Bool.
Export ListNotations.
Open Scope N_scope.

Definition byte_ok (b : N) : Prop := b < 256.
Definition bytes_ok (bs : list N) : Prop := Forall byte_ok bs.
Definition byte_okb (b : N) : bool := b <? 256.

(* i-th byte of a slice (Rust `buf[i]`); the callers guarantee the length,
   exactly as the Rust callers do (chunks_exact / fixed arrays). *)
Definition nb (i : nat) (w : list N) : N := nth i w 0.

Definition le16 (b0 b1 : N) : N := b0 + 256 * b1.
Definition le32 (b0 b1 b2 b3 : N) : N :=
  b0 + 256 * (b1 + 256 * (b2 + 256 * b3)).
Definition le64 (b0 b1 b2 b3 b4 b5 b6 b7 : N) : N :=
  b0 + 256 * (b1 + 256 * (b2 + 256 * (b3 + 256 * (b4 + 256 * (b5 + 256 * (b6 + 256 * b7)))))).

(* little-endian value of an arbitrary byte list *)
Fixpoint le (bs : list N) : N :=
  match bs with
  | [] => 0
  | b :: r => b + 256 * le r
  end.

(* bit field [lo, lo+len) of a number *)
Definition field (x : N) (lo len : N) : N := (x / 2 ^ lo) mod 2 ^ len.

(* fixed-width arithmetic of the shipped profile (no overflow checks) *)
Definition wrap8 (x : N) := x mod 256.
Definition wrap16 (x : N) := x mod 65536.
Definition wrap32 (x : N) := x mod 4294967296.
Definition wrap64 (x : N) := x mod 18446744073709551616.
Definition sub16 (a b : N) := (a + 65536 - b) mod 65536.   (* a, b < 2^16 *)

(* Outcome of a computation that can hit a panic site of the Rust code. *)
Inductive result (A : Type) : Type :=
| Ok (a : A)
| Panic (site : N).
Arguments Ok {A} a.
Arguments Panic {A} site.

Definition bind {A B} (r : result A) (f : A -> result B) : result B :=
  match r with Ok a => f a | Panic s => Panic s end.

Fixpoint take (n : nat) (l : list N) : list N :=
  match n, l with
  | O, _ => []
  | S n', x :: r => x :: take n' r
  | S _, [] => []
  end.
Fixpoint drop (n : nat) (l : list N) : list N :=
  match n, l with
  | O, _ => l
  | S n', _ :: r => drop n' r
  | S _, [] => []
  end.

Definition N_in_range (lo hi x : N) : bool := (lo <=? x) && (x <=? hi).
