(* The ITS packet validator: CdpRunningValidator (cdp_running.rs), CdpTracker, ItsRdhValidator,
   StatusWordContainer, TdhValidator's state-dependent checks, ItsReadoutFrameValidator, and
   do_payload_checks (its/lib.rs). *)
From FP Require Import Model.Base Model.ItsWords Model.ItsFsm Model.Rdh Model.Payload Model.Alpide.
From FP Require Gen.Facts.

Inductive target := T_none | T_its | T_stave.

Record vcfg := {
  v_running : bool;                       (* check all *)
  v_target : target;
  v_period : option N;                    (* --its-trigger-period *)
  v_custom_version : option N;            (* custom checks: rdh_version *)
  v_chip_count : option N;                (* custom checks: chip_count_ob *)
  v_chip_orders : option (list (list N))  (* custom checks: chip_orders_ob *)
}.

(* an error message, as a record *)
Record err := { e_off : N; e_code : N; e_word : option (list N); e_tags : list N }.
Definition mk_err (off code : N) (w : option (list N)) : err :=
  {| e_off := off; e_code := code; e_word := w; e_tags := [] |}.
Definition mk_err_t (off code : N) (tags : list N) : err :=
  {| e_off := off; e_code := code; e_word := None; e_tags := tags |}.
Definition CODE_PAYLOAD := 0.   (* the un-coded "Payload error following RDH" message *)

Inductive vmsg := VErr (e : err) | VStats (f : rflags).

(* StatusWordContainer, the words kept as their 10 bytes *)
Record swords := {
  sw_ihw : option (list N); sw_tdh : option (list N); sw_prev_tdh : option (list N);
  sw_prev_int_tdh : option (list N); sw_tdt : option (list N); sw_ddw0 : option (list N);
  sw_cdw : option (list N) }.
Definition swords_init : swords := Build_swords None None None None None None None.

Definition replace_tdh (s : swords) (w : list N) : swords :=
  let old := sw_tdh s in
  {| sw_ihw := sw_ihw s; sw_tdh := Some w; sw_prev_tdh := old;
     sw_prev_int_tdh := match old with
                        | Some o => if tdh_internal_trigger o =? 1 then Some o else sw_prev_int_tdh s
                        | None => sw_prev_int_tdh s
                        end;
     sw_tdt := sw_tdt s; sw_ddw0 := sw_ddw0 s; sw_cdw := sw_cdw s |}.
Definition replace_ihw (s : swords) (w : list N) : swords :=
  {| sw_ihw := Some w; sw_tdh := sw_tdh s; sw_prev_tdh := sw_prev_tdh s; sw_prev_int_tdh := sw_prev_int_tdh s;
     sw_tdt := sw_tdt s; sw_ddw0 := sw_ddw0 s; sw_cdw := sw_cdw s |}.
Definition replace_tdt (s : swords) (w : list N) : swords :=
  {| sw_ihw := sw_ihw s; sw_tdh := sw_tdh s; sw_prev_tdh := sw_prev_tdh s; sw_prev_int_tdh := sw_prev_int_tdh s;
     sw_tdt := Some w; sw_ddw0 := sw_ddw0 s; sw_cdw := sw_cdw s |}.
Definition replace_ddw0 (s : swords) (w : list N) : swords :=
  {| sw_ihw := sw_ihw s; sw_tdh := sw_tdh s; sw_prev_tdh := sw_prev_tdh s; sw_prev_int_tdh := sw_prev_int_tdh s;
     sw_tdt := sw_tdt s; sw_ddw0 := Some w; sw_cdw := sw_cdw s |}.
Definition replace_cdw (s : swords) (w : list N) : swords :=
  {| sw_ihw := sw_ihw s; sw_tdh := sw_tdh s; sw_prev_tdh := sw_prev_tdh s; sw_prev_int_tdh := sw_prev_int_tdh s;
     sw_tdt := sw_tdt s; sw_ddw0 := sw_ddw0 s; sw_cdw := Some w |}.

(* ItsReadoutFrameValidator *)
Record rfv := {
  rf_frame : option frame;      (* alpide_readout_frame *)
  rf_in_frame : bool;           (* is_readout_frame *)
  rf_layer : option layer;      (* from_stave (only its layer matters) *)
  rf_fatal_lanes : option (list N) }.
Definition rfv_init : rfv := {| rf_frame := None; rf_in_frame := false; rf_layer := None; rf_fatal_lanes := None |}.

Record cdp_state := {
  cs_fsm : fstate;
  cs_payload_pos : N; cs_counter : N; cs_pad : N; cs_start_of_data : bool;   (* CdpTracker *)
  cs_rdh : option rdh;                                                       (* ItsRdhValidator *)
  cs_words : swords;
  cs_rfv : option rfv }.

Definition cdp_init (c : vcfg) : cdp_state :=
  {| cs_fsm := S_InitialIHW; cs_payload_pos := 0; cs_counter := 0; cs_pad := 0; cs_start_of_data := false;
     cs_rdh := None; cs_words := swords_init;
     cs_rfv := match v_target c with T_stave => Some rfv_init | _ => None end |}.

Definition set_fsm (s : cdp_state) (f : fstate) : cdp_state :=
  {| cs_fsm := f; cs_payload_pos := cs_payload_pos s; cs_counter := cs_counter s; cs_pad := cs_pad s;
     cs_start_of_data := cs_start_of_data s; cs_rdh := cs_rdh s; cs_words := cs_words s; cs_rfv := cs_rfv s |}.
Definition set_words (s : cdp_state) (w : swords) : cdp_state :=
  {| cs_fsm := cs_fsm s; cs_payload_pos := cs_payload_pos s; cs_counter := cs_counter s; cs_pad := cs_pad s;
     cs_start_of_data := cs_start_of_data s; cs_rdh := cs_rdh s; cs_words := w; cs_rfv := cs_rfv s |}.
Definition set_rfv (s : cdp_state) (r : option rfv) : cdp_state :=
  {| cs_fsm := cs_fsm s; cs_payload_pos := cs_payload_pos s; cs_counter := cs_counter s; cs_pad := cs_pad s;
     cs_start_of_data := cs_start_of_data s; cs_rdh := cs_rdh s; cs_words := cs_words s; cs_rfv := r |}.
Definition set_counter (s : cdp_state) (n : N) : cdp_state :=
  {| cs_fsm := cs_fsm s; cs_payload_pos := cs_payload_pos s; cs_counter := n; cs_pad := cs_pad s;
     cs_start_of_data := cs_start_of_data s; cs_rdh := cs_rdh s; cs_words := cs_words s; cs_rfv := cs_rfv s |}.
Definition set_data_seen (s : cdp_state) : cdp_state :=
  {| cs_fsm := cs_fsm s; cs_payload_pos := cs_payload_pos s; cs_counter := cs_counter s; cs_pad := cs_pad s;
     cs_start_of_data := false; cs_rdh := cs_rdh s; cs_words := cs_words s; cs_rfv := cs_rfv s |}.

(* CdpTracker::current_word_mem_pos *)
Definition word_pos (s : cdp_state) : N :=
  wrap64 (wrap64 (wrap64 (wrap16 (cs_counter s + 65535)) * (10 + cs_pad s)) + cs_payload_pos s).

Definition layer_of_feeid (fee : N) : result layer :=
  let l := layer_from_feeid fee in
  if l <=? 2 then Ok L_Inner else if l <=? 4 then Ok L_Middle else if l <=? 6 then Ok L_Outer
  else Panic SITE_stave_from_feeid.

(* set_current_rdh *)
Definition set_current_rdh (s : cdp_state) (r : rdh) (pos : N) : result cdp_state :=
  let s1 := {| cs_fsm := cs_fsm s; cs_payload_pos := wrap64 (pos + 64); cs_counter := 0;
               cs_pad := if rdh_data_format r =? 0 then 6 else 0; cs_start_of_data := true;
               cs_rdh := Some r; cs_words := cs_words s; cs_rfv := cs_rfv s |} in
  match cs_rfv s with
  | Some rf =>
      match rf_layer rf with
      | None => match layer_of_feeid (r_fee_id r) with
                | Ok ly => Ok (set_rfv s1 (Some {| rf_frame := rf_frame rf; rf_in_frame := rf_in_frame rf;
                                                   rf_layer := Some ly; rf_fatal_lanes := rf_fatal_lanes rf |}))
                | Panic p => Panic p
                end
      | Some _ => Ok s1
      end
  | None => Ok s1
  end.

Definition cur_rdh (s : cdp_state) : rdh :=
  match cs_rdh s with Some r => r | None => decode_rdh [] end.   (* always Some after set_current_rdh *)

Definition werr (s : cdp_state) (code : N) (w : list N) : vmsg := VErr (mk_err (word_pos s) code (Some w)).
Definition werr_noword (s : cdp_state) (code : N) : vmsg := VErr (mk_err (word_pos s) code None).

(* ---- the frame logic of stave mode ---- *)
(* what an [E74]/[E75] message says, as numbers: per lane in error  lane * 16 + 8*[E9003] + 4*[E9004] + 2*[E9005] + (bunch counter
   set twice for a chip); 4096 = bunch counters differ between lanes *)
Definition TAG_BC_MISMATCH : N := 4096.
Definition lane_tag (x : N * lane_out) : N :=
  match snd x with
  | LO_errors a b c d => fst x * 16 + 8 * b2n a + 4 * b2n b + 2 * b2n c + b2n d
  | _ => fst x * 16
  end.

(* add_fatal_lanes *)
Definition add_fatal_lanes (dedup : bool) (known : option (list N)) (new : list N) : option (list N) :=
  match new with
  | [] => known
  | _ => let k := match known with Some f => f | None => [] end in
         Some (if dedup then fold_left (fun acc x => if existsb (N.eqb x) acc then acc else acc ++ [x]) new k else k ++ new)
  end.

(* process_readout_frame: TDT with packet_done closes the frame *)
Definition process_readout_frame (c : vcfg) (s : cdp_state) (rf : rfv) : result (cdp_state * list vmsg) :=
  match rf_frame rf with
  | None =>
      (* try_close_frame failed: E59 *)
      Ok (set_rfv s (Some {| rf_frame := None; rf_in_frame := false; rf_layer := rf_layer rf; rf_fatal_lanes := rf_fatal_lanes rf |}),
          [werr_noword s 59])
  | Some fr =>
      let start := fr_start fr in
      let rf0 := {| rf_frame := None; rf_in_frame := false; rf_layer := rf_layer rf; rf_fatal_lanes := rf_fatal_lanes rf |} in
      match fr_lanes fr with
      | [] => Ok (set_rfv s (Some rf0), [VErr (mk_err start 701 None)])
      | _ =>
        let ly := match rf_layer rf with Some l => l | None => L_Inner end in
        match check_frame ly (v_chip_count c) (v_chip_orders c) fr with
        | Panic p => Panic p
        | Ok res =>
            let known := rf_fatal_lanes rf in
            let fatal' := add_fatal_lanes Gen.Facts.fatal_lanes_deduplicated known (fres_new_fatal res) in
            (* the lane-count rule sees either the lanes known before this frame or also those announced in it *)
            match frame_lanes_valid ly fr (if Gen.Facts.fatal_lanes_added_after_lane_check then known else fatal') with
            | Panic p => Panic p
            | Ok lv =>
                let is_ib := match ly with L_Inner => true | _ => false end in
                let m1 := match lv with
                          | Some k => [VErr (mk_err_t start (if is_ib then 72 else 73) [k])]
                          | None => []
                          end in
                let m3 := match fres_lane_errs res, fres_bc_mismatch res with
                          | [], false => []
                          | _, _ => [VErr (mk_err_t start (if is_ib then 74 else 75)
                                                    (map lane_tag (fres_lane_errs res) ++ (if fres_bc_mismatch res then [TAG_BC_MISMATCH] else [])))]
                          end in
                Ok (set_rfv s (Some {| rf_frame := None; rf_in_frame := false; rf_layer := rf_layer rf; rf_fatal_lanes := fatal' |}),
                    m1 ++ [VStats (fres_flags res)] ++ m3)
            end
        end
      end
  end.

(* store_lane_data *)
Definition store_data (s : cdp_state) (w : list N) : result cdp_state :=
  match cs_rfv s with
  | None => Ok s
  | Some rf =>
      match rf_frame rf with
      | None => if Gen.Facts.data_word_without_frame_is_ignored then Ok s else Panic SITE_store_lane_no_frame
      | Some fr =>
          Ok (set_rfv s (Some {| rf_frame := Some {| fr_start := fr_start fr; fr_lanes := store_lane (fr_lanes fr) (nb 9 w) (take 9 w) |};
                                 rf_in_frame := rf_in_frame rf; rf_layer := rf_layer rf; rf_fatal_lanes := rf_fatal_lanes rf |}))
      end
  end.

(* ---- per word-type preprocessing ---- *)
Definition sanity_msgs (s : cdp_state) (code : N) (tags : list subrule) (w : list N) : list vmsg :=
  match tags with [] => [] | _ => [werr s code w] end.

Definition preprocess_tdh (s : cdp_state) (w : list N) : cdp_state * list vmsg :=
  let m := sanity_msgs s 40 (tdh_sanity w) w in
  let s1 := set_words s (replace_tdh (cs_words s) w) in
  let s2 := match cs_rfv s1 with
            | Some rf =>
                if negb (rf_in_frame rf) && (tdh_continuation w =? 0)
                then set_rfv s1 (Some {| rf_frame := Some {| fr_start := word_pos s1; fr_lanes := [] |};
                                         rf_in_frame := true; rf_layer := rf_layer rf; rf_fatal_lanes := rf_fatal_lanes rf |})
                else s1
            | None => s1
            end in
  (s2, m).

Definition preprocess_tdt (c : vcfg) (s : cdp_state) (w : list N) : result (cdp_state * list vmsg) :=
  let m := sanity_msgs s 50 (tdt_sanity w) w in
  let s1 := set_words s (replace_tdt (cs_words s) w) in
  match cs_rfv s1 with
  | Some rf =>
      if tdt_packet_done w then
        match process_readout_frame c s1 rf with
        | Ok (s2, m2) => Ok (s2, m ++ m2)
        | Panic p => Panic p
        end
      else Ok (s1, m)
  | None => Ok (s1, m)
  end.

Definition preprocess_ihw (s : cdp_state) (w : list N) : cdp_state * list vmsg :=
  (set_words s (replace_ihw (cs_words s) w), sanity_msgs s 30 (ihw_sanity w) w).

Definition preprocess_ddw0 (c : vcfg) (s : cdp_state) (w : list N) : cdp_state * list vmsg :=
  let m := sanity_msgs s 60 (ddw0_sanity w) w in
  let m2 := if v_running c then
              (if negb (r_stop_bit (cur_rdh s) =? 1) then [werr s 110 w] else []) ++
              (if r_pages_counter (cur_rdh s) =? 0 then [werr s 111 w] else [])
            else [] in
  (set_words s (replace_ddw0 (cs_words s) w), m ++ m2).

Definition active_lanes_of (s : cdp_state) : N :=
  match sw_ihw (cs_words s) with Some i => ihw_active_lanes i | None => 0 end.

Definition preprocess_data_word (c : vcfg) (s : cdp_state) (w : list N) : result (cdp_state * list vmsg) :=
  let id := nb 9 w in
  if cs_start_of_data s && (id =? Gen.Facts.cdw_id) then
    (* process_cdw *)
    if negb (v_running c) then Ok (set_data_seen s, [])
    else
      let m := match sw_cdw (cs_words s) with
               | Some p => if negb (cdw_user_fields p =? cdw_user_fields w) && negb (cdw_index w =? 0)
                           then [werr s 81 w] else []
               | None => []
               end in
      Ok (set_data_seen (set_words s (replace_cdw (cs_words s) w)), m)
  else
    let m70 := if is_valid_any_id id then [] else [werr s 70 w] in
    let cls := N.shiftr id 5 in
    if negb (v_running c) || negb ((cls =? 1) || (cls =? 2)) then Ok (set_data_seen s, m70)
    else
      let lanes := active_lanes_of s in
      let m2 := if cls =? 1 then
                  (if is_lane_active (ib_id_to_lane id) lanes then [] else [werr s 72 w])
                else
                  (if is_lane_active (ob_id_to_lane id) lanes then [] else [werr s 71 w]) ++
                  (if 6 <? ob_id_to_input id then [werr s 73 w] else []) in
      match store_data s w with
      | Ok s1 => Ok (set_data_seen s1, m70 ++ m2)
      | Panic p => Panic p
      end.

(* ---- state-dependent TDH checks (status_word/tdh.rs) ---- *)
Definition check_tdh_no_continuation (s : cdp_state) (w : list N) : list vmsg :=
  let r := cur_rdh s in
  (if negb (tdh_continuation w =? 0) then [werr s 42 w] else []) ++
  (if negb (tdh_orbit w =? r_orbit r) then [werr s 444 w] else []) ++
  (if (r_pages_counter r =? 0) && ((tdh_internal_trigger w =? 1) || rdh_is_pht r) then
     (if negb (tdh_trigger_bc w =? rdh_bc r) then [werr s 445 w] else []) ++
     (if negb (N.land (r_trigger_type r) 4095 =? tdh_trigger_type w) then [werr s 44 w] else [])
   else []).

(* matches_trigger_interval, u16 arithmetic of the shipped profile *)
Definition detected_period (cur prev : N) : N :=
  if cur <? prev then wrap16 (wrap16 (sub16 Gen.Facts.tdh_max_bc prev + 1) + cur) else sub16 cur prev.

Definition check_tdh_trigger_interval (c : vcfg) (s : cdp_state) : list vmsg :=
  match v_period c, sw_prev_int_tdh (cs_words s), sw_tdh (cs_words s) with
  | Some p, Some prev, Some cur =>
      if (tdh_internal_trigger cur =? 1) && negb (detected_period (tdh_trigger_bc cur) (tdh_trigger_bc prev) =? p)
      then [werr_noword s 45] else []
  | _, _, _ => []
  end.

Definition check_tdh_after_done (s : cdp_state) (w : list N) : list vmsg :=
  (if Gen.Facts.tdh_after_done_checks_continuation && negb (tdh_continuation w =? 0) then [werr s 42 w] else []) ++
  match sw_prev_tdh (cs_words s) with
  | Some p => if tdh_trigger_bc w <? tdh_trigger_bc p then [werr s 440 w] else []
  | None => []
  end.

Definition check_tdh_continuation (s : cdp_state) (w : list N) : list vmsg :=
  (if negb (tdh_continuation w =? 1) then [werr s 41 w] else []) ++
  match sw_prev_tdh (cs_words s) with
  | Some p =>
      (if negb (tdh_trigger_bc w =? tdh_trigger_bc p) then [werr s 441 w] else []) ++
      (if negb (tdh_orbit w =? tdh_orbit p) then [werr s 442 w] else []) ++
      (if negb (tdh_trigger_type w =? tdh_trigger_type p) then [werr s 443 w] else [])
  | None => []
  end.

Definition check_rdh_at_initial_ihw (s : cdp_state) (w : list N) : list vmsg :=
  if negb (r_stop_bit (cur_rdh s) =? 0) then [werr s 12 w] else [].

(* ---- CdpRunningValidator::check, one word ---- *)
Definition cdp_check (c : vcfg) (s0 : cdp_state) (w : list N) : result (cdp_state * list vmsg) :=
  let s := set_counter s0 (wrap16 (cs_counter s0 + 1)) in
  let '(f', r) := advance (cs_fsm s) w in
  let s := set_fsm s f' in
  let run := v_running c in
  match r with
  | F_ok P_Data | F_ok P_CDW => preprocess_data_word c s w
  | F_ok P_TDH =>
      let '(s1, m) := preprocess_tdh s w in
      Ok (s1, m ++ (if run then check_tdh_no_continuation s1 w ++ check_tdh_trigger_interval c s1 else []))
  | F_ok P_TDT => preprocess_tdt c s w
  | F_ok P_IHW =>
      let '(s1, m) := preprocess_ihw s w in
      Ok (s1, m ++ (if run then check_rdh_at_initial_ihw s1 w else []))
  | F_ok P_TDH_after_done =>
      let '(s1, m) := preprocess_tdh s w in
      Ok (s1, m ++ (if run then check_tdh_after_done s1 w ++ check_tdh_trigger_interval c s1 else []))
  | F_ok P_DDW0 => Ok (preprocess_ddw0 c s w)
  | F_ok P_TDH_cont =>
      let '(s1, m) := preprocess_tdh s w in
      Ok (s1, m ++ (if run then check_tdh_continuation s1 w else []))
  | F_ok P_IHW_cont => Ok (preprocess_ihw s w)
  | F_amb A_TDH_or_DDW0 =>
      let '(s1, m) := preprocess_tdh s w in Ok (s1, werr s 990 w :: m)
  | F_amb A_DW_or_TDT_CDW =>
      match preprocess_data_word c s w with
      | Ok (s1, m) => Ok (s1, werr s 991 w :: m)
      | Panic p => Panic p
      end
  | F_amb A_DDW0_or_TDH_IHW =>
      let '(s1, m) := preprocess_ddw0 c s w in Ok (s1, werr s 992 w :: m)
  end.

Fixpoint cdp_words (c : vcfg) (s : cdp_state) (ws : list (list N)) (acc : list vmsg) : result (cdp_state * list vmsg) :=
  match ws with
  | [] => Ok (s, acc)
  | w :: r => match cdp_check c s w with
              | Ok (s1, m) => cdp_words c s1 r (acc ++ m)
              | Panic p => Panic p
              end
  end.

(* do_payload_checks (its/lib.rs) *)
Definition do_payload_checks (c : vcfg) (s : cdp_state) (r : rdh) (payload : list N) (pos : N)
  : result (cdp_state * list vmsg) :=
  match set_current_rdh s r pos with
  | Panic p => Panic p
  | Ok s1 =>
      match preprocess payload with
      | Prep_err _ => Ok (set_fsm s1 S_InitialIHW, [VErr (mk_err pos CODE_PAYLOAD None)])
      | Prep_ok _ chunks => cdp_words c s1 (map (take 10) chunks) []
      end
  end.
