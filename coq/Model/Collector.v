(* The statistics collector and controller: Controller::update (controller.rs), StatsCollector
   (stats/stats_collector.rs), RdhStats, TriggerStats, ItsStats, AlpideStats (summed), ErrorStats
   with finalisation (sort by leading offset, distinct error codes, staves with errors), custom
   checks on statistics (stats_validation.rs), ErrPrinter (err_printer.rs) and the exit status
   (util/lib.rs exit, init.rs).
   A message text is a record: leading offset, the [E..] codes it contains in order, an opaque
   body identity, and the FEE id it names (if any). *)
From FP Require Import Model.Base Model.Alpide.
From FP Require Gen.Facts.
From Coq Require Import Arith.

Record emsg := { m_off : N; m_codes : list N; m_body : N; m_fee : option N }.

Inductive cstat :=
| CS_seen (n : N) | CS_filtered (n : N) | CS_payload (n : N) | CS_hbfs (n : N)
| CS_trigger (t : N) | CS_alpide (f : rflags)
| CS_link (l : N) | CS_fee (f : N) | CS_layer_stave (l s : N)
| CS_version (v : N) | CS_format (f : N) | CS_sysid (s : N) | CS_run_trigger (t : N)
| CS_error (m : emsg) | CS_fatal (m : emsg).

(* additive counters: rdhs_seen, rdhs_filtered, payload_size, hbfs_seen, the 20 trigger-bit
   counters of TriggerStats, the 7 ALPIDE readout-flag counters *)
Definition trigger_bits : list N := [0;1;2;3;4;5;6;7;8;9;10;11;12;13;14;27;28;29;30;31].
Definition b2N (b : bool) : N := if b then 1 else 0.
Definition trigger_delta (t : N) : list N := map (fun i => b2N (N.testbit t i)) trigger_bits.
Definition zeros (n : nat) : list N := repeat 0 n.

Definition delta (x : cstat) : list N :=
  match x with
  | CS_seen n => [n; 0; 0; 0] ++ zeros 20 ++ zeros 7
  | CS_filtered n => [0; n; 0; 0] ++ zeros 20 ++ zeros 7
  | CS_payload n => [0; 0; n; 0] ++ zeros 20 ++ zeros 7
  | CS_hbfs n => [0; 0; 0; n] ++ zeros 20 ++ zeros 7
  | CS_trigger t => [0; 0; 0; 0] ++ trigger_delta t ++ zeros 7
  | CS_alpide f => [0; 0; 0; 0] ++ zeros 20 ++ rflags_list f
  | _ => zeros 31
  end.

Fixpoint vadd (a b : list N) : list N :=
  match a, b with
  | x :: a', y :: b' => (x + y) :: vadd a' b'
  | _, _ => []
  end.

Record cstate := {
  k_counters : list N;
  k_links : list N; k_fees : list N; k_layer_staves : list (N * N);
  k_version : option N; k_format : option N; k_sysid : option N; k_run_trigger : option N;
  k_set_twice : bool;          (* a set-once statistic was recorded twice: the collector panics *)
  k_errors : list emsg; k_fatal : option emsg; k_custom : list emsg; k_total : N;
  k_unique : list N; k_staves_err : option (list (N * N)); k_finalized : bool }.

Definition cinit : cstate :=
  {| k_counters := zeros 31; k_links := []; k_fees := []; k_layer_staves := [];
     k_version := None; k_format := None; k_sysid := None; k_run_trigger := None; k_set_twice := false;
     k_errors := []; k_fatal := None; k_custom := []; k_total := 0; k_unique := []; k_staves_err := None;
     k_finalized := false |}.

Definition pair_eqb (a b : N * N) : bool := (fst a =? fst b) && (snd a =? snd b).
Definition add_new (x : N) (l : list N) : list N := if existsb (N.eqb x) l then l else l ++ [x].
Definition add_new2 (x : N * N) (l : list (N * N)) : list (N * N) := if existsb (pair_eqb x) l then l else l ++ [x].

Definition upd_counters (s : cstate) (c : list N) : cstate :=
  {| k_counters := c; k_links := k_links s; k_fees := k_fees s; k_layer_staves := k_layer_staves s;
     k_version := k_version s; k_format := k_format s; k_sysid := k_sysid s; k_run_trigger := k_run_trigger s;
     k_set_twice := k_set_twice s; k_errors := k_errors s; k_fatal := k_fatal s; k_custom := k_custom s;
     k_total := k_total s; k_unique := k_unique s; k_staves_err := k_staves_err s; k_finalized := k_finalized s |}.
Definition upd_lists (s : cstate) (links fees : list N) (ls : list (N * N)) : cstate :=
  {| k_counters := k_counters s; k_links := links; k_fees := fees; k_layer_staves := ls;
     k_version := k_version s; k_format := k_format s; k_sysid := k_sysid s; k_run_trigger := k_run_trigger s;
     k_set_twice := k_set_twice s; k_errors := k_errors s; k_fatal := k_fatal s; k_custom := k_custom s;
     k_total := k_total s; k_unique := k_unique s; k_staves_err := k_staves_err s; k_finalized := k_finalized s |}.
Definition upd_once (s : cstate) (v f y r : option N) (twice : bool) : cstate :=
  {| k_counters := k_counters s; k_links := k_links s; k_fees := k_fees s; k_layer_staves := k_layer_staves s;
     k_version := v; k_format := f; k_sysid := y; k_run_trigger := r;
     k_set_twice := k_set_twice s || twice; k_errors := k_errors s; k_fatal := k_fatal s; k_custom := k_custom s;
     k_total := k_total s; k_unique := k_unique s; k_staves_err := k_staves_err s; k_finalized := k_finalized s |}.
Definition upd_errs (s : cstate) (errs : list emsg) (fatal : option emsg) (custom : list emsg) (total : N) : cstate :=
  {| k_counters := k_counters s; k_links := k_links s; k_fees := k_fees s; k_layer_staves := k_layer_staves s;
     k_version := k_version s; k_format := k_format s; k_sysid := k_sysid s; k_run_trigger := k_run_trigger s;
     k_set_twice := k_set_twice s; k_errors := errs; k_fatal := fatal; k_custom := custom;
     k_total := total; k_unique := k_unique s; k_staves_err := k_staves_err s; k_finalized := k_finalized s |}.

Definition set_once (old : option N) (v : N) : option N * bool :=
  match old with None => (Some v, false) | Some o => (Some o, true) end.

(* Controller::update followed by StatsCollector::collect *)
Definition update (s : cstate) (x : cstat) : cstate :=
  match x with
  | CS_seen _ | CS_filtered _ | CS_payload _ | CS_hbfs _ | CS_trigger _ | CS_alpide _ =>
      upd_counters s (vadd (k_counters s) (delta x))
  | CS_link l => upd_lists s (k_links s ++ [l]) (k_fees s) (k_layer_staves s)
  | CS_fee f => upd_lists s (k_links s) (add_new f (k_fees s)) (k_layer_staves s)
  | CS_layer_stave l st => upd_lists s (k_links s) (k_fees s) (add_new2 (l, st) (k_layer_staves s))
  | CS_version v => let '(o, t) := set_once (k_version s) v in upd_once s o (k_format s) (k_sysid s) (k_run_trigger s) t
  | CS_format v => let '(o, t) := set_once (k_format s) v in upd_once s (k_version s) o (k_sysid s) (k_run_trigger s) t
  | CS_sysid v => let '(o, t) := set_once (k_sysid s) v in upd_once s (k_version s) (k_format s) o (k_run_trigger s) t
  | CS_run_trigger v => let '(o, t) := set_once (k_run_trigger s) v in upd_once s (k_version s) (k_format s) (k_sysid s) o t
  | CS_error m =>
      match k_fatal s with
      | Some _ => s                                   (* fatal error already seen: ignored *)
      | None => upd_errs s (k_errors s ++ [m]) None (k_custom s) (k_total s + 1)
      end
  | CS_fatal m =>
      match k_fatal s with
      | Some _ => s
      | None => upd_errs s (k_errors s) (Some m) (k_custom s) (k_total s)
      end
  end.

Definition collect_all (a : list cstat) : cstate := fold_left update a cinit.

(* ---- finalisation ---- *)
(* stable sort by leading offset: insertion after equal keys *)
Fixpoint insert_msg (m : emsg) (l : list emsg) : list emsg :=
  match l with
  | [] => [m]
  | y :: r => if m_off m <? m_off y then m :: l else y :: insert_msg m r
  end.
Definition sort_msgs (l : list emsg) : list emsg := fold_left (fun acc m => insert_msg m acc) l [].

Fixpoint uniq_codes (seen : list N) (l : list N) : list N :=
  match l with
  | [] => seen
  | c :: r => uniq_codes (add_new c seen) r
  end.
Definition unique_error_codes (errs custom : list emsg) : list N :=
  uniq_codes (uniq_codes [] (flat_map m_codes errs)) (flat_map m_codes custom).

Definition sort_N_list (l : list N) : list N := fold_right insert_N [] l.

Definition layer_stave_of_fee (fee : N) : N * N := (N.land (N.shiftr fee 12) 7, N.land fee 63).
Fixpoint staves_with_errors (errs : list emsg) (acc : list (N * N)) : list (N * N) :=
  match errs with
  | [] => acc
  | m :: r => staves_with_errors r (match m_fee m with
                                    | Some f => if f =? 0 then acc   (* the pattern `FEE ID:([1-9][0-9]{0,4})` never matches FEE id 0 *)
                                                else add_new2 (layer_stave_of_fee f) acc
                                    | None => acc end)
  end.

(* `sorted` = is the error list sorted in this run: the repaired code always sorts (stably);
   the pinned commit skipped the sort when errors are muted and used an unstable sort *)
Definition finalize (sort_when_muted mute : bool) (s : cstate) : cstate :=
  if k_finalized s then s else
  let errs := if negb mute || sort_when_muted then sort_msgs (k_errors s) else k_errors s in
  {| k_counters := k_counters s; k_links := sort_N_list (k_links s); k_fees := k_fees s; k_layer_staves := k_layer_staves s;
     k_version := k_version s; k_format := k_format s; k_sysid := k_sysid s; k_run_trigger := k_run_trigger s;
     k_set_twice := k_set_twice s; k_errors := errs; k_fatal := k_fatal s; k_custom := k_custom s; k_total := k_total s;
     k_unique := unique_error_codes errs (k_custom s);
     k_staves_err := (match k_sysid s with
                      | Some y => if y =? Gen.Facts.its_system_id then Some (staves_with_errors errs []) else None
                      | None => None end);
     k_finalized := true |}.

(* ---- custom checks on statistics (stats_validation.rs) ---- *)
Record custom_counts := { cc_cdps : option N; cc_pht : option N }.
Definition counter (s : cstate) (i : nat) : N := nth i (k_counters s) 0.
Definition IDX_SEEN := 0%nat. Definition IDX_FILTERED := 1%nat. Definition IDX_PAYLOAD := 2%nat. Definition IDX_HBFS := 3%nat.
Definition IDX_PHT := 8%nat.   (* trigger bit 4 = position 4 in trigger_bits, after the 4 scalar counters *)

Definition custom_errors (cc : custom_counts) (s : cstate) : list emsg :=
  (match cc_cdps cc with
   | Some n => if counter s IDX_SEEN =? n then [] else [{| m_off := 0; m_codes := [9001]; m_body := 9001; m_fee := None |}]
   | None => [] end) ++
  (match cc_pht cc with
   | Some n => if counter s IDX_PHT =? n then [] else [{| m_off := 0; m_codes := [9002]; m_body := 9002; m_fee := None |}]
   | None => [] end).

Definition add_custom (s : cstate) (es : list emsg) : cstate :=
  upd_errs s (k_errors s) (k_fatal s) (k_custom s ++ es) (k_total s + N.of_nat (length es)).

(* ---- what is displayed (ErrPrinter) ---- *)
Record dcfg := { d_mute : bool; d_cap : N (* 0 = none *); d_filter : option (list N) }.

(* the message's first bracketed code is the one the filter compares (err_printer.rs match_error_code) *)
Definition first_code (m : emsg) : option N := match m_codes m with c :: _ => Some c | [] => None end.
Definition code_listed (codes : list N) (m : emsg) : bool :=
  match first_code m with Some c => existsb (N.eqb c) codes | None => false end.

Definition all_messages (s : cstate) : list emsg :=
  k_errors s ++ (match k_fatal s with Some f => [f] | None => [] end) ++ k_custom s.

Definition firstn_N (n : N) {A} (l : list A) : list A := firstn (N.to_nat n) l.

Definition displayed (d : dcfg) (s : cstate) : list emsg :=
  if d_mute d || (k_total s =? 0) then []
  else
    let msgs := all_messages s in
    let sel := match d_filter d with
               | Some codes => filter (code_listed (filter (fun c => existsb (N.eqb c) (k_unique s)) codes)) msgs
               | None => msgs
               end in
    if d_cap d =? 0 then sel else firstn_N (d_cap d) sel.

(* ---- exit status (init.rs run, util/lib.rs exit) ---- *)
Inductive init_result := Init_ok | Init_failed.   (* unreadable / unrecognisable input, or fatal from process *)
Definition exit_code (any_errors_exit : option N) (r : init_result) (any_errors_flag : bool) : N :=
  match r with
  | Init_failed => 1
  | Init_ok => match any_errors_exit with
               | Some n => if any_errors_flag then n else 0
               | None => 0
               end
  end.
