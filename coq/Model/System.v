(* How the statistics messages reach the collector (fastpasta/src/lib.rs: init_processing,
   forward_input_stats_to_stats_collector; analyze/lib.rs: per-batch statistics of the analysis
   thread; stats.rs collect_system_specific_stats). *)
From FP Require Import Model.Base Model.Rdh Model.Alpide Model.Scanner Model.Collector.
From FP Require Gen.Facts.

Definition known_sysid (s : N) : bool := existsb (N.eqb s) Gen.Facts.system_id_table.

Definition reader_msg (code mem : N) : emsg := {| m_off := mem; m_codes := [code]; m_body := code; m_fee := None |}.
Definition fatal_msg (body : N) : emsg := {| m_off := 0; m_codes := []; m_body := body; m_fee := None |}.

(* forward_input_stats_to_stats_collector *)
Definition forward (i : instat) : cstat :=
  match i with
  | IS_fatal mem => CS_fatal (fatal_msg mem)
  | IS_error code mem => CS_error (reader_msg code mem)
  | IS_trig t => CS_run_trigger t
  | IS_fmt f => CS_format f
  | IS_sysid s => if known_sysid s then CS_sysid s else CS_fatal (fatal_msg 1)
  | IS_link l => CS_link l
  | IS_fee f => CS_fee f
  | IS_seen n => CS_seen n
  | IS_filtered n => CS_filtered n
  | IS_payload n => CS_payload n
  end.

(* the main thread: RDH version of the first header, then the reader's statistics in order *)
Definition main_stream (version : N) (stats : list instat) : list cstat := CS_version version :: map forward stats.

(* the analysis thread, per batch: trigger type and (ITS) layer/stave of every RDH, then the number
   of stop-bit packets.  `its` = the system id determined from the first analysed RDH is ITS. *)
Definition layer_stave_msg (r : rdh) : cstat := CS_layer_stave (layer_from_feeid (r_fee_id r)) (stave_number_from_feeid (r_fee_id r)).
Definition analysis_batch (its : bool) (b : list cdp) : list cstat :=
  flat_map (fun p => CS_trigger (r_trigger_type (c_rdh p)) :: (if its then [layer_stave_msg (c_rdh p)] else [])) b ++
  [CS_hbfs (N.of_nat (length (filter (fun p => r_stop_bit (c_rdh p) =? 1) b)))].
Definition analysis_stream (batches : list (list cdp)) : list cstat :=
  let its := match concat batches with p :: _ => r_system_id (c_rdh p) =? Gen.Facts.its_system_id | [] => false end in
  flat_map (analysis_batch its) batches.

(* what reaches the collector besides the validators' messages: the main thread's stream, then (check and
   view modes) the analysis thread's; any other interleaving of the two gives the same statistics (C05) *)
Definition stats_arrival (version : N) (out : scan_out) (analysed : bool) : list cstat :=
  main_stream version (so_stats out) ++ (if analysed then analysis_stream (so_batches out) else []).
