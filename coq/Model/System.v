(* How the statistics messages reach the collector (fastpasta/src/lib.rs: init_processing,
   forward_input_stats_to_stats_collector; analyze/lib.rs: per-batch statistics of the analysis
   thread; stats.rs collect_system_specific_stats). *)
From FP Require Import Model.Base Model.Rdh Model.Alpide Model.Scanner Model.Collector.
From FP Require Gen.Facts.

Definition known_sysid (s : N) : bool := existsb (N.eqb s) Gen.Facts.system_id_table.

Definition reader_msg (code mem : N) : emsg := {| m_off := mem; m_codes := [code]; m_body := code; m_fee := None |}.
Definition fatal_msg (body : N) : emsg := {| m_off := 0; m_codes := []; m_body := body; m_fee := None |}.

(* forward_input_stats_to_stats_collector *)
Definition forward (i : instat) : cstat :=
  match i with
  | IS_fatal mem => CS_fatal (fatal_msg mem)
  | IS_error code mem => CS_error (reader_msg code mem)
  | IS_trig t => CS_run_trigger t
  | IS_fmt f => CS_format f
  | IS_sysid s => if known_sysid s then CS_sysid s else CS_fatal (fatal_msg 1)
  | IS_link l => CS_link l
  | IS_fee f => CS_fee f
  | IS_seen n => CS_seen n
  | IS_filtered n => CS_filtered n
  | IS_payload n => CS_payload n
  end.

(* the main thread: RDH version of the first header, then the reader's statistics in order *)
Definition main_stream (version : N) (stats : list instat) : list cstat := CS_version version :: map forward stats.

(* the analysis thread, per batch: trigger type and (ITS) layer/stave of every RDH, then the number
   of stop-bit packets.  `its` = the system id determined from the first analysed RDH is ITS. *)
Definition layer_stave_msg (r : rdh) : cstat := CS_layer_stave (layer_from_feeid (r_fee_id r)) (stave_number_from_feeid (r_fee_id r)).
Definition analysis_batch (its : bool) (b : list cdp) : list cstat :=
  flat_map (fun p => CS_trigger (r_trigger_type (c_rdh p)) :: (if its then [layer_stave_msg (c_rdh p)] else [])) b ++
  [CS_hbfs (N.of_nat (length (filter (fun p => r_stop_bit (c_rdh p) =? 1) b)))].
Definition analysis_stream (batches : list (list cdp)) : list cstat :=
  let its := match concat batches with p :: _ => r_system_id (c_rdh p) =? Gen.Facts.its_system_id | [] => false end in
  flat_map (analysis_batch its) batches.

(* what reaches the collector besides the validators' messages: the main thread's stream, then (check and
   view modes) the analysis thread's; any other interleaving of the two gives the same statistics (C05) *)
Definition stats_arrival (version : N) (out : scan_out) (analysed : bool) : list cstat :=
  main_stream version (so_stats out) ++ (if analysed then analysis_stream (so_batches out) else []).

(* ------------------------------------------------------------------ one whole run in a check mode *)
(* (fastpasta/src/init.rs run, lib.rs init_processing / process, controller.rs run) *)
From FP Require Import Model.RdhChecks Model.CdpRunning Model.Link.

Record run_cfg := {
  rc_scan : scfg;
  rc_check : vcfg;                  (* check mode and target *)
  rc_mute : bool; rc_cap : N; rc_filter : option (list N);     (* -m, -e, -w *)
  rc_exit : option N;               (* -E *)
  rc_counts : custom_counts }.      (* custom checks: cdps, triggers_pht *)

(* init_processing: the first RDH0 must pass the RDH0 sanity check and its version lie in 3..=100 *)
Definition recognised (input : list N) : bool :=
  let r := decode_rdh (take 64 (input ++ repeat 0 64)) in
  match snd (rdh0_check {| ss_header_id := None; ss_system_id := None |} r) with
  | [] => (3 <=? r_header_id r) && (r_header_id r <=? 100)
  | _ => false
  end.

Definition vmsg_to_cstat (m : vmsg) : cstat :=
  match m with
  | VErr e => CS_error {| m_off := e_off e; m_codes := (if e_code e =? 0 then [] else [e_code e]);
                          m_body := e_code e; m_fee := None |}
  | VStats f => CS_alpide f
  end.

Inductive run_result :=
| R_too_short                       (* fewer than 8 bytes: no RDH0 can be read *)
| R_unrecognised                    (* exit 1, nothing analysed *)
| R_panic (site : N)                (* a validator panics: the process aborts *)
| R_done (s : cstate) (shown : list emsg) (exit : N).

(* `fatal_flag` = does a fatal error set the any-errors flag (the repaired code) *)
Definition run_check (fatal_flag : bool) (c : run_cfg) (input : list N) : run_result :=
  if Nat.ltb (length input) 8 then R_too_short
  else if negb (recognised input) then R_unrecognised
  else
    let out := scan_impl (rc_scan c) input in
    let version := nth 0 input 0 in
    let cdps := concat (so_batches out) in
    let per_id := run_dispatch (rc_check c) cdps in
    match fold_right (fun idr acc => match acc, snd idr with
                                     | Panic p, _ => Panic p
                                     | Ok l, Ok ms => Ok (map vmsg_to_cstat ms ++ l)
                                     | Ok _, Panic p => Panic p
                                     end) (Ok []) per_id with
    | Panic p => R_panic p
    | Ok vstream =>
        let a := stats_arrival version out true ++ vstream in
        let s0 := collect_all a in
        let s1 := add_custom s0 (custom_errors (rc_counts c) s0) in
        let s2 := finalize Gen.Facts.error_sort_when_muted (rc_mute c) s1 in
        let flag := (0 <? k_total s2) || (fatal_flag && match k_fatal s2 with Some _ => true | None => false end) in
        R_done s2 (displayed {| d_mute := rc_mute c; d_cap := rc_cap c; d_filter := rc_filter c |} s2)
               (exit_code (rc_exit c) Init_ok flag)
    end.
