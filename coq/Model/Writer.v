(* The filtered-data writer (fastpasta/src/write/writer.rs, write/lib.rs): batches are pushed
   onto a buffer of (RDH, payload) pairs; the buffer is flushed (every RDH re-serialised with
   to_byte_slice, followed by its payload) when it would reach the threshold and when the writer
   is dropped. *)
From FP Require Import Model.Base Model.Rdh Model.Scanner.

Definition cdp_bytes (p : cdp) : list N := encode_rdh (c_rdh p) ++ c_payload p.

Record wstate := { w_buf : list cdp; w_out : list N }.
Definition w_init : wstate := {| w_buf := []; w_out := [] |}.

Definition w_flush (w : wstate) : wstate :=
  {| w_buf := []; w_out := w_out w ++ concat (map cdp_bytes (w_buf w)) |}.

(* push_cdp_arr: flush first if the buffer would reach `max` elements *)
Definition w_push (max : N) (w : wstate) (batch : list cdp) : wstate :=
  let w1 := if max <=? N.of_nat (length (w_buf w) + length batch) then w_flush w else w in
  {| w_buf := w_buf w1 ++ batch; w_out := w_out w1 |}.

(* the writer thread over all batches, then Drop *)
Definition write_all (max : N) (batches : list (list cdp)) : list N :=
  w_out (w_flush (fold_left (w_push max) batches w_init)).

(* bytes written for an input: scanner (payloads loaded) -> writer *)
Definition written (max : N) (c : scfg) (input : list N) : list N :=
  write_all max (so_batches (scan_impl c input)).
