(* LinkValidator::do_checks (link_validator.rs) and the dispatcher's routing
   (validator_dispatcher.rs). *)
From FP Require Import Model.Base Model.Rdh Model.RdhChecks Model.CdpRunning Model.Alpide Model.Scanner.


Record link_state := { lk_sanity : sanity_state; lk_running : running_state; lk_cdp : cdp_state }.

Definition link_init (c : vcfg) : link_state :=
  {| lk_sanity := sanity_init (v_custom_version c) (match v_target c with T_none => false | _ => true end);
     lk_running := running_init; lk_cdp := cdp_init c |}.

Definition rdh_err (off code : N) (tags : list rtag) : vmsg :=
  VErr {| e_off := off; e_code := code; e_word := None; e_tags := map rtag_id tags |}.

Definition link_step (c : vcfg) (s : link_state) (p : cdp) : result (link_state * list vmsg) :=
  let '(ss, t10) := rdh_sanity (lk_sanity s) (c_rdh p) in
  let m10 := match t10 with [] => [] | _ => [rdh_err (c_off p) 10 t10] end in
  let '(rs, m11) :=
    if v_running c then
      let '(rs, t11) := running_check (lk_running s) (c_rdh p) in
      (rs, match t11 with [] => [] | _ => [rdh_err (c_off p) 11 t11] end)
    else (lk_running s, []) in
  match v_target c with
  | T_none => Ok ({| lk_sanity := ss; lk_running := rs; lk_cdp := lk_cdp s |}, m10 ++ m11)
  | _ =>
      match c_payload p with
      | [] => Ok ({| lk_sanity := ss; lk_running := rs; lk_cdp := lk_cdp s |}, m10 ++ m11)
      | _ =>
          match do_payload_checks c (lk_cdp s) (c_rdh p) (c_payload p) (c_off p) with
          | Ok (cs, m) => Ok ({| lk_sanity := ss; lk_running := rs; lk_cdp := cs |}, m10 ++ m11 ++ m)
          | Panic site => Panic site
          end
      end
  end.

Fixpoint link_run (c : vcfg) (s : link_state) (ps : list cdp) (acc : list vmsg) : result (link_state * list vmsg) :=
  match ps with
  | [] => Ok (s, acc)
  | p :: r => match link_step c s p with
              | Ok (s1, m) => link_run c s1 r (acc ++ m)
              | Panic site => Panic site
              end
  end.

(* one validator fed with a packet list from its initial state: the sequential pass *)
Definition run_validator (c : vcfg) (ps : list cdp) : result (list vmsg) :=
  match link_run c (link_init c) ps [] with
  | Ok (_, m) => Ok m
  | Panic site => Panic site
  end.

(* ---- dispatcher ---- *)
Definition disp_id (c : vcfg) (p : cdp) : N :=
  match v_running c, v_target c with
  | true, T_stave => r_fee_id (c_rdh p)
  | _, _ => r_link_id (c_rdh p)
  end.

(* processors: ids in creation order; channels: per-validator FIFO content, same order *)
Fixpoint position (id : N) (l : list N) : option nat :=
  match l with
  | [] => None
  | x :: r => if x =? id then Some O else option_map S (position id r)
  end.

Fixpoint push_at {A} (i : nat) (x : A) (l : list (list A)) : list (list A) :=
  match i, l with
  | O, q :: r => (q ++ [x]) :: r
  | S i', q :: r => q :: push_at i' x r
  | _, [] => []
  end.

Definition dispatch_step (c : vcfg) (st : list N * list (list cdp)) (p : cdp) : list N * list (list cdp) :=
  let '(procs, chans) := st in
  let id := disp_id c p in
  match position id procs with
  | Some i => (procs, push_at i p chans)
  | None => (procs ++ [id], chans ++ [[p]])
  end.

Definition dispatch (c : vcfg) (ps : list cdp) : list N * list (list cdp) :=
  fold_left (dispatch_step c) ps ([], []).

(* every validator runs over its FIFO; result per dispatch id in creation order *)
Definition run_dispatch (c : vcfg) (ps : list cdp) : list (N * result (list vmsg)) :=
  let '(procs, chans) := dispatch c ps in
  combine procs (map (run_validator c) chans).
