(* RDH sanity validator (analyze/validators/rdh.rs) and running checker (rdh_running.rs). *)
From FP Require Import Model.Base Model.Rdh.
From FP Require Gen.Facts.

(* sub-rule tags: which condition a message names *)
Inductive rtag :=
| T_header_id | T_header_size | T_fee_reserved | T_fee_stave | T_fee_layer | T_priority
| T_system_id | T_rdh0_reserved0 | T_rdh1_reserved0 | T_bc | T_rdh2_reserved0 | T_stop_bit
| T_trigger_type | T_rdh3_reserved0 | T_detector_field | T_dw | T_data_format
(* running *)
| T_pages_counter | T_stop_bit_value | T_orbit_same | T_orbit_changed | T_trigger_changed
| T_feeid_changed.

Definition rtag_id (t : rtag) : N :=
  match t with
  | T_header_id => 1 | T_header_size => 2 | T_fee_reserved => 3 | T_fee_stave => 4 | T_fee_layer => 5
  | T_priority => 6 | T_system_id => 7 | T_rdh0_reserved0 => 8 | T_rdh1_reserved0 => 9 | T_bc => 10
  | T_rdh2_reserved0 => 11 | T_stop_bit => 12 | T_trigger_type => 13 | T_rdh3_reserved0 => 14
  | T_detector_field => 15 | T_dw => 16 | T_data_format => 17
  | T_pages_counter => 20 | T_stop_bit_value => 21 | T_orbit_same => 22 | T_orbit_changed => 23
  | T_trigger_changed => 24 | T_feeid_changed => 25
  end.

Definition tagif (c : bool) (t : rtag) : list rtag := if c then [t] else [].

(* Rdh0Validator state: the header id latch (None until the first RDH0, or the custom
   rdh_version), and the optional system id (ITS specialisation) *)
Record sanity_state := { ss_header_id : option N; ss_system_id : option N }.

Definition fee_id_tags (fee : N) : list rtag :=
  tagif (negb (N.land fee Gen.Facts.fee_reserved_mask =? 0)) T_fee_reserved ++
  (let stave := stave_number_from_feeid fee in
   tagif ((stave <? Gen.Facts.fee_stave_min) || (Gen.Facts.fee_stave_max <? stave)) T_fee_stave) ++
  (let layer := layer_from_feeid fee in
   tagif ((layer <? Gen.Facts.fee_layer_min) || (Gen.Facts.fee_layer_max <? layer)) T_fee_layer).

Definition rdh0_check (st : sanity_state) (r : rdh) : sanity_state * list rtag :=
  let hid := match ss_header_id st with Some h => h | None => r_header_id r end in
  ({| ss_header_id := Some hid; ss_system_id := ss_system_id st |},
   tagif (negb (r_header_id r =? hid)) T_header_id ++
   tagif (negb (r_header_size r =? Gen.Facts.rdh_header_size)) T_header_size ++
   fee_id_tags (r_fee_id r) ++
   tagif (negb (r_priority_bit r =? 0)) T_priority ++
   (match ss_system_id st with
    | Some sid => tagif (negb (r_system_id r =? sid)) T_system_id
    | None => []
    end) ++
   tagif (negb (r_rdh0_reserved0 r =? 0)) T_rdh0_reserved0).

Definition rdh1_tags (r : rdh) : list rtag :=
  tagif (negb (rdh1_reserved0 r =? 0)) T_rdh1_reserved0 ++
  tagif (Gen.Facts.rdh_bc_max <? rdh_bc r) T_bc.

Definition rdh2_tags (r : rdh) : list rtag :=
  tagif (negb (r_rdh2_reserved0 r =? 0)) T_rdh2_reserved0 ++
  tagif (1 <? r_stop_bit r) T_stop_bit ++
  tagif ((r_trigger_type r =? 0) || negb (N.land (r_trigger_type r) Gen.Facts.trigger_spare_mask =? 0)) T_trigger_type.

Definition rdh3_tags (r : rdh) : list rtag :=
  tagif (negb (r_rdh3_reserved0 r =? 0)) T_rdh3_reserved0 ++
  tagif (negb (N.land (r_detector_field r) Gen.Facts.detfield_reserved_mask =? 0)) T_detector_field.

(* RdhCruSanityValidator::sanity_check: [] = Ok, otherwise one [E10] message naming these *)
Definition rdh_sanity (st : sanity_state) (r : rdh) : sanity_state * list rtag :=
  let '(st', t0) := rdh0_check st r in
  (st', t0 ++ rdh1_tags r ++ rdh2_tags r ++ rdh3_tags r ++
        tagif (1 <? rdh_dw r) T_dw ++ tagif (2 <? rdh_data_format r) T_data_format).

(* RdhCruSanityValidator::new_from_config *)
Definition sanity_init (custom_version : option N) (its_target : bool) : sanity_state :=
  {| ss_header_id := custom_version;
     ss_system_id := if its_target then Some Gen.Facts.its_system_id else None |}.

(* ------------------------------------------------------------------ running checks *)
Record running_state := {
  rs_expect_pages : N;          (* u16 *)
  rs_seen : N;                  (* 0, 1, 2 = how many of first/second RDH are latched *)
  rs_increment : N;             (* u16 *)
  rs_last : option rdh
}.
Definition running_init : running_state :=
  {| rs_expect_pages := 0; rs_seen := 0; rs_increment := 1; rs_last := None |}.

Definition running_check (st : running_state) (r : rdh) : running_state * list rtag :=
  (* first / second RDH latch *)
  let seen' := if rs_seen st =? 0 then 1 else 2 in
  let inc := if rs_seen st =? 1 then r_pages_counter r else rs_increment st in
  (* check_stop_bit_and_page_counter *)
  let sb := r_stop_bit r in
  let t1 :=
    if sb =? 0 then tagif (negb (r_pages_counter r =? rs_expect_pages st)) T_pages_counter
    else if sb =? 1 then tagif (negb (r_pages_counter r =? rs_expect_pages st)) T_pages_counter
    else [T_stop_bit_value] in
  let expect' :=
    if sb =? 0 then wrap16 (rs_expect_pages st + inc)
    else if sb =? 1 then 0 else rs_expect_pages st in
  (* check_orbit_counter_changes *)
  let t2 := match rs_last st with
            | Some l => tagif ((r_stop_bit l =? 1) && (r_orbit l =? r_orbit r)) T_orbit_same
            | None => []
            end in
  (* check_orbit_trigger_det_field_feeid_same_when_page_not_0 *)
  let t3 := if r_pages_counter r =? 0 then []
            else match rs_last st with
                 | Some l =>
                     tagif (negb (r_orbit r =? r_orbit l)) T_orbit_changed ++
                     tagif (negb (r_trigger_type r =? r_trigger_type l)) T_trigger_changed ++
                     tagif (negb (r_fee_id r =? r_fee_id l)) T_feeid_changed
                 | None => []
                 end in
  ({| rs_expect_pages := expect'; rs_seen := seen'; rs_increment := inc; rs_last := Some r |},
   t1 ++ t2 ++ t3).
