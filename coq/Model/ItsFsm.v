(* The continuous-mode ITS payload state machine: the 11 `sm!` variants and
   ItsPayloadFsmContinuous::advance (its_payload_fsm_cont.rs).  `advance` reads only the
   identifier byte, the TDH no_data bit (byte 1, bit 5) and the TDT packet_done bit
   (byte 8, bit 0) of the word. *)
From FP Require Import Model.Base Model.ItsWords.
From FP Require Gen.Facts.

Inductive fstate :=
| S_InitialIHW            (* InitialIHW_ *)
| S_IHW_ByDdw0            (* IHW_By_WasDdw0 *)
| S_TDH_ByIhw             (* TDH_By_WasIhw *)
| S_DATA_ByNoDataFalse    (* DATA_By_NoDataFalse *)
| S_DATA_ByWasData        (* DATA_By_WasData *)
| S_Choice_ByNoDataTrue   (* DDW0_or_TDH_or_IHW_By_NoDataTrue *)
| S_Choice_ByTdtDone      (* DDW0_or_TDH_or_IHW_By_WasTDTpacketDoneTrue *)
| S_cIHW                  (* c_IHW_By_WasTDTpacketDoneFalse *)
| S_cTDH                  (* c_TDH_By_Next *)
| S_cDATA_ByNext          (* c_DATA_By_Next *)
| S_cDATA_ByWasData.      (* c_DATA_By_WasData *)

(* numbering of hook H1 (verif_state_id) *)
Definition fstate_id (s : fstate) : N :=
  match s with
  | S_InitialIHW => 0 | S_IHW_ByDdw0 => 1 | S_TDH_ByIhw => 2 | S_DATA_ByNoDataFalse => 3
  | S_DATA_ByWasData => 4 | S_Choice_ByNoDataTrue => 5 | S_Choice_ByTdtDone => 6 | S_cIHW => 7
  | S_cTDH => 8 | S_cDATA_ByNext => 9 | S_cDATA_ByWasData => 10
  end.
Definition all_fstates : list fstate :=
  [S_InitialIHW; S_IHW_ByDdw0; S_TDH_ByIhw; S_DATA_ByNoDataFalse; S_DATA_ByWasData;
   S_Choice_ByNoDataTrue; S_Choice_ByTdtDone; S_cIHW; S_cTDH; S_cDATA_ByNext; S_cDATA_ByWasData].

(* ItsPayloadWord *)
Inductive pword :=
| P_IHW | P_IHW_cont | P_TDH | P_TDH_cont | P_TDH_after_done | P_TDT | P_CDW | P_Data | P_DDW0.
Inductive ambig := A_TDH_or_DDW0 | A_DW_or_TDT_CDW | A_DDW0_or_TDH_IHW.
Inductive fres := F_ok (p : pword) | F_amb (a : ambig).

Definition pword_id (p : pword) : N :=
  match p with
  | P_IHW => 0 | P_IHW_cont => 1 | P_TDH => 2 | P_TDH_cont => 3 | P_TDH_after_done => 4
  | P_TDT => 5 | P_CDW => 6 | P_Data => 7 | P_DDW0 => 8
  end.
Definition fres_id (r : fres) : N :=
  match r with
  | F_ok p => pword_id p
  | F_amb A_TDH_or_DDW0 => 10 | F_amb A_DW_or_TDT_CDW => 11 | F_amb A_DDW0_or_TDH_IHW => 12
  end.

(* a data-phase arm; `after_data` is the variant reached by _WasData from this state *)
Definition data_arm (pat : list N) (after_data : fstate) (id : N) (pd : bool) : fstate * fres :=
  if in_pat pat id then (after_data, F_ok P_Data)
  else if id =? Gen.Facts.tdt_id then
         (if pd then (S_Choice_ByTdtDone, F_ok P_TDT) else (S_cIHW, F_ok P_TDT))
  else if id =? Gen.Facts.cdw_id then (after_data, F_ok P_CDW)
  else (after_data, F_amb A_DW_or_TDT_CDW).

(* a choice arm; `fallback` is what an unknown identifier is taken for *)
Definition choice_arm (id : N) (nd : bool) (fallback : fstate * fres) : fstate * fres :=
  if id =? Gen.Facts.tdh_id then
    (if nd then (S_Choice_ByNoDataTrue, F_ok P_TDH_after_done)
     else (S_DATA_ByNoDataFalse, F_ok P_TDH_after_done))
  else if id =? Gen.Facts.ihw_id then (S_TDH_ByIhw, F_ok P_IHW)
  else if id =? Gen.Facts.ddw0_id then (S_IHW_ByDdw0, F_ok P_DDW0)
  else fallback.

Definition advance_k (s : fstate) (id : N) (nd pd : bool) : fstate * fres :=
  match s with
  | S_DATA_ByWasData => data_arm Gen.Facts.fsm_data_pat_data_by_wasdata S_DATA_ByWasData id pd
  | S_DATA_ByNoDataFalse => data_arm Gen.Facts.fsm_data_pat_data_by_nodatafalse S_DATA_ByWasData id pd
  | S_cDATA_ByWasData => data_arm Gen.Facts.fsm_data_pat_c_data_by_wasdata S_cDATA_ByWasData id pd
  | S_cDATA_ByNext => data_arm Gen.Facts.fsm_data_pat_c_data_by_next S_cDATA_ByWasData id pd
  | S_Choice_ByNoDataTrue => choice_arm id nd (S_DATA_ByNoDataFalse, F_amb A_TDH_or_DDW0)
  | S_Choice_ByTdtDone => choice_arm id nd (S_IHW_ByDdw0, F_amb A_DDW0_or_TDH_IHW)
  | S_TDH_ByIhw => (if nd then S_Choice_ByNoDataTrue else S_DATA_ByNoDataFalse, F_ok P_TDH)
  | S_cTDH => (S_cDATA_ByNext, F_ok P_TDH_cont)
  | S_cIHW => (S_cTDH, F_ok P_IHW_cont)
  | S_IHW_ByDdw0 => (S_TDH_ByIhw, F_ok P_IHW)
  | S_InitialIHW => (S_TDH_ByIhw, F_ok P_IHW)
  end.

Definition advance (s : fstate) (w : list N) : fstate * fres :=
  advance_k s (nb 9 w) (sl_tdh_no_data w) (sl_tdt_packet_done w).

Definition fsm_run (s : fstate) (ws : list (list N)) : fstate * list fres :=
  fold_left (fun acc w => let '(st, rs) := acc in
                          let '(st', r) := advance st w in (st', rs ++ [r])) ws (s, []).
