(* ALPIDE lane decoding and stave-level frame checks:
   words/its/alpide/alpide_word.rs, analyze/validators/its/alpide.rs,
   alpide/lane_alpide_frame_analyzer.rs, alpide/alpide_readout_frame.rs,
   stats/stats_collector/its_stats/alpide_stats.rs. *)
From FP Require Import Model.Base Model.ItsWords.
From FP Require Gen.Facts.

(* panic sites of the stave-level code *)
Definition SITE_store_lane_no_frame := 2.     (* readout_frame.rs store_lane_data: unwrap on None *)
Definition SITE_stave_from_feeid := 3.        (* words/its.rs Stave::from_feeid: panic!("Invalid layer number") *)
Definition SITE_no_chip_in_lane := 4.         (* lane_alpide_frame_analyzer.rs unique_bcs.first().unwrap() *)
Definition SITE_fatal_lane_number := 5.       (* alpide_readout_frame.rs unreachable!("Invalid fatal lane number") *)
Definition SITE_ape_padding_unreachable := 7. (* lane_alpide_frame_analyzer.rs hint::unreachable_unchecked *)

Inductive aword :=
| AW_DataShort | AW_DataLong | AW_RegionHeader | AW_ChipHeader | AW_ChipEmptyFrame | AW_ChipTrailer
| AW_BusyOn | AW_BusyOff | AW_ApeWarn | AW_ApePadding | AW_ApeFatal | AW_Unknown.

(* AlpideWord::from_byte, match arms in source order *)
Definition aword_of_byte (b : N) : aword :=
  if N.land b 192 =? 64 then AW_DataShort
  else if N.land b 192 =? 0 then AW_DataLong
  else if N.land b 224 =? 192 then AW_RegionHeader
  else if N.land b 240 =? 224 then AW_ChipEmptyFrame
  else if N_in_range 160 175 b then AW_ChipHeader
  else if N.land b 240 =? 176 then AW_ChipTrailer
  else if b =? 240 then AW_BusyOn
  else if b =? 241 then AW_BusyOff
  else if b =? 242 then AW_ApeWarn                     (* APE_STRIP_START *)
  else if N_in_range 244 252 b then AW_ApeFatal        (* 0xF4..0xFC *)
  else if (b =? 253) || (b =? 254) then AW_ApeWarn     (* PE / OOT data missing *)
  else if b =? 0 then AW_ApePadding
  else AW_Unknown.

(* ReadoutFlags: trailers, busy_violations, data_overrun, transmission_in_fatal,
   flushed_incomplete, strobe_extended, busy_transitions *)
Record rflags := { rf_trailers : N; rf_busy_viol : N; rf_overrun : N; rf_fatal : N;
                   rf_flushed : N; rf_strobe : N; rf_busy_trans : N }.
Definition rflags_zero : rflags := Build_rflags 0 0 0 0 0 0 0.
Definition b2n (b : bool) : N := if b then 1 else 0.
Definition rflags_log (f : rflags) (t : N) : rflags :=
  let f := {| rf_trailers := rf_trailers f + 1; rf_busy_viol := rf_busy_viol f; rf_overrun := rf_overrun f;
              rf_fatal := rf_fatal f; rf_flushed := rf_flushed f; rf_strobe := rf_strobe f;
              rf_busy_trans := rf_busy_trans f |} in
  if t =? 184 then {| rf_trailers := rf_trailers f; rf_busy_viol := rf_busy_viol f + 1; rf_overrun := rf_overrun f;
                      rf_fatal := rf_fatal f; rf_flushed := rf_flushed f; rf_strobe := rf_strobe f; rf_busy_trans := rf_busy_trans f |}
  else if t =? 188 then {| rf_trailers := rf_trailers f; rf_busy_viol := rf_busy_viol f; rf_overrun := rf_overrun f + 1;
                           rf_fatal := rf_fatal f; rf_flushed := rf_flushed f; rf_strobe := rf_strobe f; rf_busy_trans := rf_busy_trans f |}
  else if t =? 190 then {| rf_trailers := rf_trailers f; rf_busy_viol := rf_busy_viol f; rf_overrun := rf_overrun f;
                           rf_fatal := rf_fatal f + 1; rf_flushed := rf_flushed f; rf_strobe := rf_strobe f; rf_busy_trans := rf_busy_trans f |}
  else {| rf_trailers := rf_trailers f; rf_busy_viol := rf_busy_viol f; rf_overrun := rf_overrun f; rf_fatal := rf_fatal f;
          rf_flushed := rf_flushed f + b2n (N.land t 4 =? 4); rf_strobe := rf_strobe f + b2n (N.land t 2 =? 2);
          rf_busy_trans := rf_busy_trans f + b2n (N.land t 1 =? 1) |}.
Definition rflags_sum (a c : rflags) : rflags :=
  {| rf_trailers := rf_trailers a + rf_trailers c; rf_busy_viol := rf_busy_viol a + rf_busy_viol c;
     rf_overrun := rf_overrun a + rf_overrun c; rf_fatal := rf_fatal a + rf_fatal c;
     rf_flushed := rf_flushed a + rf_flushed c; rf_strobe := rf_strobe a + rf_strobe c;
     rf_busy_trans := rf_busy_trans a + rf_busy_trans c |}.
Definition rflags_list (f : rflags) : list N :=
  [rf_trailers f; rf_busy_viol f; rf_overrun f; rf_fatal f; rf_flushed f; rf_strobe f; rf_busy_trans f].

(* ---- LaneAlpideFrameAnalyzer ---- *)
Record lane_st := {
  ls_header_seen : bool; ls_last_chip : N; ls_skip : N; ls_chips : list (N * N);  (* (chip id, bunch counter) *)
  ls_next_is_bc : bool; ls_fatal : bool; ls_bc_already_set : bool; ls_flags : rflags;
  ls_unreachable : bool   (* the unreachable_unchecked site was hit (proved impossible) *)
}.
Definition lane_init : lane_st :=
  {| ls_header_seen := false; ls_last_chip := 0; ls_skip := 0; ls_chips := []; ls_next_is_bc := false;
     ls_fatal := false; ls_bc_already_set := false; ls_flags := rflags_zero; ls_unreachable := false |}.

Definition upd_lane (s : lane_st) (hs : bool) (lc : N) (sk : N) (ch : list (N * N)) (nb_ : bool) (ft : bool)
  (bs : bool) (fl : rflags) (ur : bool) : lane_st :=
  {| ls_header_seen := hs; ls_last_chip := lc; ls_skip := sk; ls_chips := ch; ls_next_is_bc := nb_;
     ls_fatal := ft; ls_bc_already_set := bs; ls_flags := fl; ls_unreachable := ur |}.

Definition has_chip (id : N) (chips : list (N * N)) : bool := existsb (fun c => fst c =? id) chips.

Definition lane_decode (s : lane_st) (b : N) : lane_st :=
  let '(Build_lane_st hs lc sk ch nbc ft bs fl ur) := s in
  if 0 <? sk then upd_lane s hs lc (sk - 1) ch nbc ft bs fl ur
  else if nbc then
    (if has_chip lc ch then upd_lane s hs lc sk ch false ft true fl ur
     else upd_lane s hs lc sk (ch ++ [(lc, b)]) false ft bs fl ur)
  else if negb hs && (b =? 0) then s
  else match aword_of_byte b with
       | AW_DataShort => upd_lane s hs lc 1 ch nbc ft bs fl ur
       | AW_DataLong => upd_lane s hs lc 2 ch nbc ft bs fl ur
       | AW_RegionHeader => upd_lane s true lc sk ch nbc ft bs fl ur
       | AW_ChipHeader => upd_lane s true (N.land b 15) sk ch true ft bs fl ur
       | AW_ChipEmptyFrame => upd_lane s false (N.land b 15) sk ch true ft bs fl ur
       | AW_ChipTrailer => upd_lane s false lc sk ch nbc ft bs (rflags_log fl b) ur
       | AW_BusyOn | AW_BusyOff | AW_ApeWarn | AW_Unknown => s
       | AW_ApePadding => upd_lane s hs lc sk ch nbc ft bs fl true
       | AW_ApeFatal => upd_lane s hs lc sk ch nbc true bs fl ur
       end.

Definition lane_run (bytes : list N) : lane_st := fold_left lane_decode bytes lane_init.

(* unique by bunch counter, first occurrences kept (itertools unique_by) *)
Fixpoint uniq_N (seen : list N) (l : list N) : list N :=
  match l with
  | [] => []
  | x :: r => if existsb (N.eqb x) seen then uniq_N seen r else x :: uniq_N (x :: seen) r
  end.

Inductive layer := L_Inner | L_Middle | L_Outer.

Definition list_N_eqb (a c : list N) : bool :=
  (Nat.eqb (length a) (length c)) && forallb (fun p => fst p =? snd p) (combine a c).

(* outcome of analysing one lane *)
Inductive lane_out :=
| LO_errors (e9003 e9004 e9005 bc_set : bool)   (* Err(msgs): which sub-checks failed *)
| LO_fatal
| LO_ok (bc : N).

Definition lane_checks (ly : layer) (lane_number : N) (chip_count : option N) (chip_orders : option (list (list N)))
  (s : lane_st) : result lane_out :=
  if ls_fatal s then Ok LO_fatal
  else
    let bcs := uniq_N [] (map snd (ls_chips s)) in
    let e9003 := Nat.ltb 1 (length bcs) in
    if (negb e9003) && (match ls_chips s with [] => true | _ => false end)
    then (if Gen.Facts.lane_without_chip_is_reported then Ok (LO_errors false false false false) else Panic SITE_no_chip_in_lane)
    else
      let ids := map fst (ls_chips s) in
      let e9004 :=
        match ly with
        | L_Inner => negb (Nat.eqb (length ids) 1)
        | _ => match chip_count with Some c => negb (N.of_nat (length ids) =? c) | None => false end
        end in
      let e9005 :=
        if e9004 then false
        else match ly with
             | L_Inner => negb (nth 0 ids 0 =? lane_number)
             | _ => match chip_orders with
                    | Some os => negb (existsb (list_N_eqb ids) os)
                    | None => false
                    end
             end in
      if e9003 || e9004 || e9005 || ls_bc_already_set s
      then Ok (LO_errors e9003 e9004 e9005 (ls_bc_already_set s))
      else Ok (LO_ok (nth 0 bcs 0)).

(* ---- AlpideReadoutFrame ---- *)
Record frame := { fr_start : N; fr_lanes : list (N * list N) (* (lane id byte, data bytes), first-seen order *) }.

Fixpoint store_lane (lanes : list (N * list N)) (id : N) (data : list N) : list (N * list N) :=
  match lanes with
  | [] => [(id, data)]
  | (i, d) :: r => if i =? id then (i, d ++ data) :: r else (i, d) :: store_lane r id data
  end.

Definition lane_number_of (ly : layer) (id : N) : N :=
  match ly with L_Inner => ib_id_to_lane id | _ => ob_id_to_lane id end.

Record frame_result := {
  fres_err_lanes : list N; fres_lane_errs : list (N * lane_out); fres_bc_mismatch : bool;
  fres_flags : rflags; fres_new_fatal : list N }.

(* check_alpide_data_frame *)
Fixpoint frame_lanes (ly : layer) (cc : option N) (co : option (list (list N))) (lanes : list (N * list N))
  (errs : list (N * lane_out)) (valid : list (N * N)) (fatal : list N) (fl : rflags)
  : result (list (N * lane_out) * list (N * N) * list N * rflags) :=
  match lanes with
  | [] => Ok (errs, valid, fatal, fl)
  | (id, data) :: r =>
      let ln := lane_number_of ly id in
      let s := lane_run data in
      if ls_unreachable s then Panic SITE_ape_padding_unreachable else
      match lane_checks ly ln cc co s with
      | Panic p => Panic p
      | Ok (LO_errors a b c d) => frame_lanes ly cc co r (errs ++ [(ln, LO_errors a b c d)]) valid fatal (rflags_sum fl (ls_flags s))
      | Ok LO_fatal => frame_lanes ly cc co r errs valid (fatal ++ [ln]) (rflags_sum fl (ls_flags s))
      | Ok (LO_ok bc) => frame_lanes ly cc co r errs (valid ++ [(ln, bc)]) fatal (rflags_sum fl (ls_flags s))
      end
  end.

Definition check_frame (ly : layer) (cc : option N) (co : option (list (list N))) (fr : frame) : result frame_result :=
  match frame_lanes ly cc co (fr_lanes fr) [] [] [] rflags_zero with
  | Panic p => Panic p
  | Ok (errs, valid, fatal, fl) =>
      let ubcs := uniq_N [] (map snd valid) in
      let mism := Nat.ltb 1 (length ubcs) in
      Ok {| fres_err_lanes := map fst errs ++ (if mism then flat_map (fun bc => map fst (filter (fun v => snd v =? bc) valid)) ubcs else []);
            fres_lane_errs := errs; fres_bc_mismatch := mism; fres_flags := fl; fres_new_fatal := fatal |}
  end.

(* insertion sort on N (sort_unstable of u8 lane numbers: the result is the sorted list) *)
Fixpoint insert_N (x : N) (l : list N) : list N :=
  match l with [] => [x] | y :: r => if x <=? y then x :: l else y :: insert_N x r end.
Definition sort_N (l : list N) : list N := fold_right insert_N [] l.

(* check_frame_lanes_valid: None = Ok, Some 1 = invalid number of lanes, Some 2 = invalid grouping *)
Definition expect_lanes (ly : layer) : N := match ly with L_Inner => 3 | L_Middle => 8 | L_Outer => 14 end.

(* validate_inner_lane_groupings.  [ign]: a fatal lane number above 8 (no inner barrel lane) leaves the groupings alone; the pinned
   commit reached unreachable!() there (finding F17, repaired).  Regenerated fact, see Gen.Facts. *)
Definition inner_groupings_gen (ign : bool) (lane_ids : list N) (fatal : list N) : result (option N) :=
  if existsb (fun f => 8 <? f) fatal && negb ign then Panic SITE_fatal_lane_number
  else
    let g0 := filter (fun x => negb (existsb (N.eqb x) fatal)) [0; 1; 2] in
    let g1 := filter (fun x => negb (existsb (N.eqb x) fatal)) [3; 4; 5] in
    let g2 := filter (fun x => negb (existsb (N.eqb x) fatal)) [6; 7; 8] in
    let s := sort_N lane_ids in
    if list_N_eqb s g0 || list_N_eqb s g1 || list_N_eqb s g2 then Ok None else Ok (Some 2).
Definition inner_groupings := inner_groupings_gen Gen.Facts.fatal_lane_beyond_barrel_is_ignored.

Definition frame_lanes_valid (ly : layer) (fr : frame) (fatal : option (list N)) : result (option N) :=
  let exp := match fatal with
             | Some f => (expect_lanes ly + 18446744073709551616 - N.of_nat (length f)) mod 18446744073709551616
             | None => expect_lanes ly
             end in
  if negb (N.of_nat (length (fr_lanes fr)) =? exp) then Ok (Some 1)
  else match ly with
       | L_Inner => inner_groupings (map (fun l => ib_id_to_lane (fst l)) (fr_lanes fr))
                                    (match fatal with Some f => f | None => [] end)
       | _ => Ok None
       end.
