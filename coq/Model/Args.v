(* Validation of the option combination at start-up (fastpasta/src/config/lib.rs Config::validate_args): runs before anything is read
   or written; a rejected combination ends the process with status 1 and the message `Invalid config: ...`. *)
From FP Require Import Model.Base Model.CdpRunning.

Inductive check_kind := CK_sanity | CK_all.

(* what --input-stats-file points at: no such file; a file without extension; a file with the extension `e` (its characters) *)
Inductive sfile := SF_missing | SF_no_ext | SF_ext (e : list N).

Record args := {
  a_check : option (check_kind * target);     (* check sub-command and its target (T_none: no target); None: view / no sub-command *)
  a_period : option N;                        (* --its-trigger-period *)
  a_exit : option N;                          (* --any-errors-exit-code *)
  a_istats : option sfile                     (* --input-stats-file *)
}.

Fixpoint list_eqb (a b : list N) : bool :=
  match a, b with
  | [], [] => true
  | x :: a', y :: b' => (x =? y) && list_eqb a' b'
  | _, _ => false
  end.
Definition EXT_json : list N := [106; 115; 111; 110].
Definition EXT_toml : list N := [116; 111; 109; 108].

(* true = Ok(()), false = Err("Invalid config: ...") -- the tests in the order of the source *)
Definition validate_args (a : args) : bool :=
  let period_given := match a_period a with Some _ => true | None => false end in
  let first :=
    match a_check a with
    | Some (k, T_none) => negb period_given
    | Some (k, t) =>
        if (match k, t with CK_sanity, T_stave => true | _, _ => false end) then false
        else if (match t with T_stave => false | _ => true end) && period_given then false
        else true
    | None => negb period_given
    end in
  if negb first then false
  else if (match a_exit a with Some v => v =? 0 | None => false end) then false
  else match a_istats a with
       | None => true
       | Some SF_missing => false
       | Some SF_no_ext => false
       | Some (SF_ext e) => negb (negb (list_eqb e EXT_json) && negb (list_eqb e EXT_toml))
       end.
