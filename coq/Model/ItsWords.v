(* ITS payload words: field accessors, reserved-bit predicates and sanity checks,
   written after fastpasta/src/words/its/status_words/{ihw,tdh,tdt,ddw,cdw}.rs,
   words/its/data_words.rs, words/its/status_words/util.rs and
   analyze/validators/its/{status_word/*,data_words*}.rs.
   A word is the 10-byte slice the Rust code indexes (index 9 = identifier). *)
From FP Require Import Model.Base.
From FP Require Gen.Facts.

(* ---- sub-rule tags of a failed sanity check (what the message mentions) ---- *)
Inductive subrule := SR_id | SR_reserved | SR_trigger | SR_index.

Definition subrule_eqb (a b : subrule) : bool :=
  match a, b with
  | SR_id, SR_id | SR_reserved, SR_reserved | SR_trigger, SR_trigger | SR_index, SR_index => true
  | _, _ => false
  end.

(* ---------------------------------- IHW ---------------------------------- *)
(* struct Ihw { active_lanes: u32 (bytes 0..3), reserved: u32 (4..7), id: u16 (8..9) } *)
Definition ihw_active_lanes_raw (w : list N) := le32 (nb 0 w) (nb 1 w) (nb 2 w) (nb 3 w).
Definition ihw_reserved_raw (w : list N) := le32 (nb 4 w) (nb 5 w) (nb 6 w) (nb 7 w).
Definition ihw_id_raw (w : list N) := le16 (nb 8 w) (nb 9 w).

(* fn id(&self) -> u8 { (self.id >> 8) as u8 } *)
Definition ihw_id (w : list N) : N := wrap8 (N.shiftr (ihw_id_raw w) 8).
(* fn reserved(&self) -> u64 *)
Definition ihw_reserved (w : list N) : N :=
  let four_lsb := wrap8 (N.land (N.shiftr (ihw_active_lanes_raw w) 28) 15) in
  let eight_msb := N.land (ihw_id_raw w) 255 in
  N.lor (N.lor (N.shiftl eight_msb 36) (N.shiftl (ihw_reserved_raw w) 4)) four_lsb.
Definition ihw_active_lanes (w : list N) : N := N.land (ihw_active_lanes_raw w) 268435455.
Definition ihw_is_reserved_0 (w : list N) : bool := ihw_reserved w =? 0.

Definition ihw_sanity (w : list N) : list subrule :=
  if negb (ihw_id w =? Gen.Facts.ihw_id) then [SR_id]
  else if negb (ihw_is_reserved_0 w) then [SR_reserved] else [].

(* ---------------------------------- TDH ---------------------------------- *)
Definition tdh_w0 (w : list N) := le16 (nb 0 w) (nb 1 w).   (* trigger_type .. reserved2 *)
Definition tdh_w1 (w : list N) := le16 (nb 2 w) (nb 3 w).   (* trigger_bc, reserved1 *)
Definition tdh_orbit (w : list N) := le32 (nb 4 w) (nb 5 w) (nb 6 w) (nb 7 w).
Definition tdh_w4 (w : list N) := le16 (nb 8 w) (nb 9 w).   (* reserved0, id *)

Definition tdh_id (w : list N) : N := wrap8 (N.shiftr (tdh_w4 w) 8).
Definition tdh_reserved0 (w : list N) : N := N.land (tdh_w4 w) 255.
Definition tdh_reserved1 (w : list N) : N := N.land (tdh_w1 w) 61440.
Definition tdh_trigger_bc (w : list N) : N := N.land (tdh_w1 w) 4095.
Definition tdh_reserved2 (w : list N) : N := N.land (tdh_w0 w) 32768.
Definition tdh_continuation (w : list N) : N := N.shiftr (N.land (tdh_w0 w) 16384) 14.
Definition tdh_no_data (w : list N) : N := N.shiftr (N.land (tdh_w0 w) 8192) 13.
Definition tdh_internal_trigger (w : list N) : N := N.shiftr (N.land (tdh_w0 w) 4096) 12.
Definition tdh_trigger_type (w : list N) : N := N.land (tdh_w0 w) 4095.
Definition tdh_is_reserved_0 (w : list N) : bool :=
  (tdh_reserved0 w =? 0) && (tdh_reserved1 w =? 0) && (tdh_reserved2 w =? 0).

Definition tdh_sanity (w : list N) : list subrule :=
  if negb (tdh_id w =? Gen.Facts.tdh_id) then [SR_id]
  else (if negb (tdh_is_reserved_0 w) then [SR_reserved] else []) ++
       (if (tdh_trigger_type w =? 0) && (tdh_internal_trigger w =? 0) then [SR_trigger] else []).

(* ---------------------------------- TDT ---------------------------------- *)
(* bytes: 0..3 lane_status_15_0, 4..5 lane_status_23_16, 6 lane_status_27_24,
   7 timeouts+res2, 8 res0/lsv/res1/tt/packet_done, 9 id *)
Definition tdt_id (w : list N) : N := nb 9 w.
Definition tdt_reserved0 (w : list N) : N := N.shiftr (nb 8 w) 4.
Definition tdt_reserved1 (w : list N) : N := N.land (nb 8 w) 4.
Definition tdt_reserved2 (w : list N) : N := N.land (nb 7 w) 31.
Definition tdt_packet_done (w : list N) : bool := N.land (nb 8 w) 1 =? 1.
Definition tdt_lane_starts_violation (w : list N) : bool := negb (N.land (nb 8 w) 8 =? 0).
Definition tdt_transmission_timeout (w : list N) : bool := negb (N.land (nb 8 w) 2 =? 0).
Definition tdt_is_reserved_0 (w : list N) : bool :=
  (tdt_reserved0 w =? 0) && (tdt_reserved1 w =? 0) && (tdt_reserved2 w =? 0).

Definition tdt_sanity (w : list N) : list subrule :=
  if negb (tdt_id w =? Gen.Facts.tdt_id) then [SR_id]
  else if negb (tdt_is_reserved_0 w) then [SR_reserved] else [].

(* ---------------------------------- DDW0 --------------------------------- *)
Definition ddw0_res3_lane_status (w : list N) :=
  le64 (nb 0 w) (nb 1 w) (nb 2 w) (nb 3 w) (nb 4 w) (nb 5 w) (nb 6 w) (nb 7 w).
Definition ddw0_id (w : list N) : N := nb 9 w.
Definition ddw0_index (w : list N) : N := N.shiftr (N.land (nb 8 w) 240) 4.
Definition ddw0_reserved0_1 (w : list N) : N := N.land (nb 8 w) 5.
Definition ddw0_is_reserved_0 (w : list N) : bool :=
  (ddw0_reserved0_1 w =? 0) && (N.land (ddw0_res3_lane_status w) 18374686479671623680 =? 0).

Definition ddw0_sanity (w : list N) : list subrule :=
  if negb (ddw0_id w =? Gen.Facts.ddw0_id) then [SR_id]
  else (if negb (ddw0_is_reserved_0 w) then [SR_reserved] else []) ++
       (if negb (ddw0_index w =? 0) then [SR_index] else []).

(* ---------------------------------- CDW ---------------------------------- *)
Definition cdw_lsb_user (w : list N) :=
  le64 (nb 0 w) (nb 1 w) (nb 2 w) (nb 3 w) (nb 4 w) (nb 5 w) (nb 6 w) (nb 7 w).
Definition cdw_index (w : list N) : N :=
  N.lor (N.shiftl (nb 8 w) 16) (wrap32 (N.shiftr (cdw_lsb_user w) 48)).
Definition cdw_user_fields (w : list N) : N := N.land (cdw_lsb_user w) 281474976710655.

(* ------------------------- byte-slice helpers (util.rs) ------------------ *)
Definition sl_tdh_no_data (w : list N) : bool := negb (N.land (nb 1 w) 32 =? 0).
Definition sl_tdh_continuation (w : list N) : bool := negb (N.land (nb 1 w) 64 =? 0).
Definition sl_tdt_packet_done (w : list N) : bool := negb (N.land (nb 8 w) 1 =? 0).

(* fn is_lane_active(lane: u8, active_lanes: u32): `1 << lane` on u32 in the shipped
   profile masks the shift amount to 5 bits. *)
Definition is_lane_active (lane active_lanes : N) : bool :=
  negb (N.land active_lanes (N.shiftl 1 (lane mod 32)) =? 0).

(* ------------------------------ data words ------------------------------- *)
Definition rng (r : list N) (x : N) : bool :=
  match r with
  | [lo; hi] => N_in_range lo hi x
  | _ => false
  end.
Definition rng_lo (r : list N) : N := nth 0 r 0.
Definition rng_hi (r : list N) : N := nth 1 r 0.

Definition is_valid_il_id (id : N) : bool := rng Gen.Facts.valid_il_id id.
Definition is_valid_ml_id (id : N) : bool :=
  rng Gen.Facts.valid_ml_connect0_id id || rng Gen.Facts.valid_ml_connect1_id id ||
  rng Gen.Facts.valid_ml_connect2_id id || rng Gen.Facts.valid_ml_connect3_id id.
Definition is_valid_ol_id (id : N) : bool :=
  rng Gen.Facts.valid_ol_connect0_id id || rng Gen.Facts.valid_ol_connect1_id id ||
  rng Gen.Facts.valid_ol_connect2_id id || rng Gen.Facts.valid_ol_connect3_id id.
Definition is_valid_any_id (id : N) : bool :=
  is_valid_il_id id || is_valid_ml_id id || is_valid_ol_id id.

(* fn ob_data_word_id_to_lane(id: u8) -> u8   (u8 `%` and `+`; the sums stay below 256) *)
Definition ob_id_to_lane (id : N) : N :=
  if id <=? rng_hi Gen.Facts.valid_ol_connect0_id then id mod rng_lo Gen.Facts.valid_ol_connect0_id
  else if id <=? rng_hi Gen.Facts.valid_ol_connect1_id then wrap8 (7 + id mod rng_lo Gen.Facts.valid_ol_connect1_id)
  else if id <=? rng_hi Gen.Facts.valid_ol_connect2_id then wrap8 (14 + id mod rng_lo Gen.Facts.valid_ol_connect2_id)
  else wrap8 (21 + id mod rng_lo Gen.Facts.valid_ol_connect3_id).
Definition ob_id_to_input (id : N) : N := N.land id 7.
Definition ob_id_to_connector (id : N) : N := N.land (N.shiftr id 3) 3.
Definition ib_id_to_lane (id : N) : N := N.land id 31.
Definition lane_id_to_lane_number (id : N) (is_ib : bool) : N :=
  if is_ib then ib_id_to_lane id else ob_id_to_lane id.

(* Error codes a data word can raise in CdpRunningValidator::preprocess_data_word
   (the non-CDW branch).  `running` = running checks enabled (check all). *)
Definition data_word_codes (running : bool) (w : list N) (active_lanes : N) : list N :=
  let id := nb 9 w in
  (if is_valid_any_id id then [] else [70]) ++
  (if negb running then []
   else if N.shiftr id 5 =? 1 then
          (if is_lane_active (ib_id_to_lane id) active_lanes then [] else [72])
   else if N.shiftr id 5 =? 2 then
          (if is_lane_active (ob_id_to_lane id) active_lanes then [] else [71]) ++
          (if 6 <? ob_id_to_input id then [73] else [])
   else []).

(* ItsPayloadWord::from_id (its/lib.rs) -- simple word type by identifier *)
Inductive wtype := W_IHW | W_TDH | W_TDT | W_DDW0 | W_CDW | W_DATA.
(* membership in a flat range pattern [lo1; hi1; lo2; hi2; ...] (Rust `a..=b | c..=d`) *)
Fixpoint in_pat (pat : list N) (id : N) : bool :=
  match pat with
  | lo :: hi :: r => N_in_range lo hi id || in_pat r id
  | _ => false
  end.
Definition fsm_data_id (id : N) : bool := in_pat Gen.Facts.from_id_data_pat id.
