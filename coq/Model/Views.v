(* The three views (analyze/view/*.rs): which rows are printed for a batch of packets and what every row says, as records
   (the text layout -- column widths, colours -- is not modelled: the check parses the printed rows back into these records). *)
From FP Require Import Model.Base Model.ItsWords Model.Rdh Model.Payload Model.Scanner.
From FP Require Gen.Facts.

Definition SITE_view_stave_from_feeid := 3.   (* words/its.rs Stave::from_feeid: panic!("Invalid layer number") *)

Inductive vkind := VK_data | VK_tdh | VK_tdt | VK_ihw | VK_ddw0 | VK_cdw.

Inductive vrow :=
| VR_rdh (off : N) (vals : list N)      (* view rdh: header id, header size, FEE id, system id, offset to next, link, packet counter,
                                            bc, orbit, data format, trigger type, pages counter, stop bit, detector field *)
| VR_frdh (off : N) (vals : list N)     (* frame views: version, stop, layer, stave, trigger kind, link, lane status, orbit, bc *)
| VR_word (off : N) (k : vkind) (bytes : list N) (attrs : list N)
| VR_unknown (off : N) (bytes : list N). (* a word whose id is not known: no row, an error is logged instead *)

Definition rdh_view_row (c : cdp) : vrow :=
  let r := c_rdh c in
  VR_rdh (c_off c) [r_header_id r; r_header_size r; r_fee_id r; r_system_id r; r_offset_new_packet r; r_link_id r; r_packet_counter r;
                    rdh_bc r; r_orbit r; rdh_data_format r; r_trigger_type r; r_pages_counter r; r_stop_bit r; r_detector_field r].
Definition view_rdh (cdps : list cdp) : list vrow := map rdh_view_row cdps.

(* trigger_type_string_from_int: 0 SOC, 1 SOT, 2 HB, 3 PhT, 4 Other; the tests in the order read from the source *)
Definition trig_mask (k : N) : N :=
  if k =? 0 then Gen.Facts.view_soc_bit_mask else if k =? 1 then Gen.Facts.view_sot_bit_mask
  else if k =? 2 then Gen.Facts.view_hb_bit_mask else Gen.Facts.view_pht_bit_mask.
Fixpoint first_set (t : N) (order : list N) : N :=
  match order with
  | [] => 4
  | k :: r => if negb (N.land t (trig_mask k) =? 0) then k else first_set t r
  end.
Definition rdh_trig_kind (t : N) : N := first_set t Gen.Facts.view_trigger_priority.

(* rdh_detector_field_lane_status_as_string: 3 Fatal, 2 Error, 1 Warning, 4 Missing, 0 none *)
Definition det_lane_status (d : N) : N :=
  if negb (N.land d (nth 0 Gen.Facts.view_det_field_masks 0) =? 0) then 3
  else if negb (N.land d (nth 1 Gen.Facts.view_det_field_masks 0) =? 0) then 2
  else if negb (N.land d (nth 2 Gen.Facts.view_det_field_masks 0) =? 0) then 1
  else if negb (N.land d (nth 3 Gen.Facts.view_det_field_masks 0) =? 0) then 4
  else 0.

Definition frame_rdh_row (c : cdp) : result vrow :=
  let r := c_rdh c in
  let layer := layer_from_feeid (r_fee_id r) in
  if 6 <? layer then Panic SITE_view_stave_from_feeid
  else Ok (VR_frdh (c_off c) [r_header_id r; r_stop_bit r; layer; stave_number_from_feeid (r_fee_id r); rdh_trig_kind (r_trigger_type r);
                              r_link_id r; det_lane_status (r_detector_field r); r_orbit r; rdh_bc r]).

(* ItsPayloadWord::from_id *)
Definition kind_of_id (id : N) : option vkind :=
  if fsm_data_id id then Some VK_data
  else if id =? Gen.Facts.tdh_id then Some VK_tdh
  else if id =? Gen.Facts.tdt_id then Some VK_tdt
  else if id =? Gen.Facts.ihw_id then Some VK_ihw
  else if id =? Gen.Facts.ddw0_id then Some VK_ddw0
  else if id =? Gen.Facts.cdw_id then Some VK_cdw
  else None.

Definition bit_set (w : list N) (idx mask : N) : bool := negb (N.land (nb (N.to_nat idx) w) mask =? 0).

(* tdh_trigger_as_string: 0 SOC, 1 Internal, 2 PhT, 3 Other *)
Definition view_tdh_trigger (w : list N) : N :=
  if bit_set w (nth 1 Gen.Facts.view_tdh_soc 0) (nth 0 Gen.Facts.view_tdh_soc 0) then 0
  else if bit_set w (nth 0 Gen.Facts.view_tdh_internal 0) (nth 1 Gen.Facts.view_tdh_internal 0) then 1
  else if bit_set w (nth 0 Gen.Facts.view_tdh_physics 0) (nth 1 Gen.Facts.view_tdh_physics 0) then 2
  else 3.
Definition b2N (b : bool) : N := if b then 1 else 0.
Definition view_tdh_cont (w : list N) : N :=
  b2N (bit_set w (nth 0 Gen.Facts.pin_util_tdh_continuation 0) (nth 1 Gen.Facts.pin_util_tdh_continuation 0)).
Definition view_tdh_no_data (w : list N) : N :=
  b2N (bit_set w (nth 0 Gen.Facts.pin_util_tdh_no_data 0) (nth 1 Gen.Facts.pin_util_tdh_no_data 0)).
Definition view_tdh_bc (w : list N) : N := N.land (le16 (nb 2 w) (nb 3 w)) 4095.
Definition view_tdh_orbit (w : list N) : N := le32 (nb 4 w) (nb 5 w) (nb 6 w) (nb 7 w).
Definition view_tdt_done (w : list N) : N :=
  b2N (bit_set w (nth 0 Gen.Facts.pin_util_tdt_packet_done 0) (nth 1 Gen.Facts.pin_util_tdt_packet_done 0)).

(* ddw0_tdt_lane_status_as_string: 3 Fatal, 2 Error, 1 Warning, 0 none *)
Definition lm (i : nat) : N := nth i Gen.Facts.view_lane_status_masks 0.
Definition view_lane_status (w : list N) : N :=
  let fatal_byte (b : N) := (N.land b (lm 4) =? lm 4) || (N.land b (lm 5) =? lm 5) || (N.land b (lm 6) =? lm 6) || (N.land b (lm 7) =? lm 7) in
  if existsb fatal_byte (take (N.to_nat (lm 8)) w) then 3
  else if existsb (fun b => negb (N.land b (lm 2) =? 0)) (take (N.to_nat (lm 3)) w) then 2
  else if existsb (fun b => negb (N.land b (lm 0) =? 0)) (take (N.to_nat (lm 1)) w) then 1
  else 0.

Definition word_attrs (k : vkind) (w : list N) : list N :=
  match k with
  | VK_tdh => [view_tdh_trigger w; view_tdh_cont w; view_tdh_no_data w; view_tdh_orbit w; view_tdh_bc w]
  | VK_tdt => [view_tdt_done w; view_lane_status w]
  | VK_ddw0 => [view_lane_status w]
  | _ => []
  end.

(* calc_current_word_mem_pos *)
Definition word_pos (idx : nat) (data_format : N) (rdh_off : N) : N :=
  wrap64 (wrap64 (N.of_nat idx * (10 + (if data_format =? 0 then Gen.Facts.view_word_padding_fmt0 else 0))) + rdh_off + Gen.Facts.view_payload_start).

Definition word_row (data_view : bool) (fmt : N) (off : N) (idx : nat) (chunk : list N) : list vrow :=
  let w := take 10 chunk in
  let pos := word_pos idx fmt off in
  match kind_of_id (nb 9 w) with
  | None => [VR_unknown pos w]
  | Some VK_data => if data_view then [VR_word pos VK_data w []] else []
  | Some k => [VR_word pos k w (word_attrs k w)]
  end.

Fixpoint word_rows (data_view : bool) (fmt : N) (off : N) (idx : nat) (chunks : list (list N)) : list vrow :=
  match chunks with
  | [] => []
  | c :: r => word_row data_view fmt off idx c ++ word_rows data_view fmt off (S idx) r
  end.

(* one batch: rows until a payload cannot be cut into words (the view of the batch ends there with an error) *)
Inductive vend := VE_done | VE_payload_error (off : N) | VE_panic (site : N).

Fixpoint view_frames_batch (data_view : bool) (batch_fmt : N) (cdps : list cdp) : list vrow * vend :=
  match cdps with
  | [] => ([], VE_done)
  | c :: rest =>
      match frame_rdh_row c with
      | Panic s => ([], VE_panic s)
      | Ok hr =>
          match preprocess (c_payload c) with
          | Prep_err _ => ([hr], VE_payload_error (c_off c))
          | Prep_ok _ chunks =>
              let fmt := if Gen.Facts.view_word_offsets_use_own_rdh_format then rdh_data_format (c_rdh c) else batch_fmt in
              let '(rows, e) := view_frames_batch data_view batch_fmt rest in
              (hr :: word_rows data_view fmt (c_off c) 0 chunks ++ rows, e)
          end
      end
  end.

Definition view_frames (data_view : bool) (batch : list cdp) : list vrow * vend :=
  view_frames_batch data_view (match batch with c :: _ => rdh_data_format (c_rdh c) | [] => 0 end) batch.
