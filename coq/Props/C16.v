(* C16 -- Exit status and error accounting follow the documented contract.  Property theorems only. *)
From Coq Require Import List NArith.
From FP Require Import Model.Base Model.Collector Model.ErrFilter Model.System Proofs.C05_proofs Proofs.C16_proofs.
From FP Require Import Model.Rdh Model.Alpide Model.Scanner Model.Views Model.System Model.SystemView Proofs.C16_reportless Proofs.C16_run Model.CdpRunning Model.Args Proofs.C16_args.
From FP Require Gen.Facts.
Import ListNotations.
Open Scope N_scope.

(* exit status: 1 when the input could not be opened / recognised; otherwise the configured any-errors
   code N exactly when something was reported (the any-errors flag), else 0 *)
Theorem C16_exit_table : forall aee r flag,
  exit_code aee r flag = exit_spec aee (match r with Init_ok => true | Init_failed => false end) flag.
Proof. exact c16_exit_table. Qed.

(* "something was reported" includes a fatal input error: the model of the run sets the flag from the
   error total OR the fatal error, provided the source does (regenerated fact) *)
Theorem C16_fatal_is_reported : Gen.Facts.fatal_sets_any_errors_flag = true.
Proof. exact eq_refl. Qed.

(* the total counts exactly the stored non-fatal messages, through collection, custom checks and finalisation *)
Theorem C16_total_counts_messages : forall a cc sm mute,
  let s0 := collect_all a in
  let s := finalize sm mute (add_custom s0 (custom_errors cc s0)) in
  k_total s = N.of_nat (length (k_errors s) + length (k_custom s)).
Proof. exact (fun a cc sm mute => total_inv_finalize sm mute _ (total_inv_custom _ _ (total_inv_collect a))). Qed.

(* no display option: every message is shown; without a fatal error their number is the total *)
Theorem C16_total_equals_shown : forall d s, d_mute d = false -> d_cap d = 0 -> d_filter d = None -> total_inv s ->
  displayed d s = (if k_total s =? 0 then [] else all_messages s) /\
  (k_fatal s = None -> N.of_nat (length (all_messages s)) = k_total s).
Proof. exact c16_total. Qed.

Theorem C16_mute : forall d s, d_mute d = true -> displayed d s = [].
Proof. exact c16_mute. Qed.
Theorem C16_cap : forall d s, d_cap d <> 0 -> N.of_nat (length (displayed d s)) <= d_cap d.
Proof. exact c16_cap. Qed.

(* filtering by code: the reduction of the filter to the codes seen does not change which messages pass,
   and the distinct codes of the final state are exactly the codes occurring in the stored messages *)
Theorem C16_filter_selection : forall codes uniq m, (forall c, first_code m = Some c -> In c uniq) ->
  code_listed (filter (fun c => existsb (N.eqb c) uniq) codes) m = code_listed codes m.
Proof. exact c16_filter_minified. Qed.
Theorem C16_unique_codes : forall c errs custom,
  In c (unique_error_codes errs custom) <-> In c (flat_map m_codes errs) \/ In c (flat_map m_codes custom).
Proof. exact unique_codes_in. Qed.

(* the character-level matcher: a message whose first '[' opens "[E<digits>]" passes the filter code f
   iff f is exactly <digits> -- 1, 10 and 100 are told apart *)
Theorem C16_code_match : forall pre digits post f,
  Forall (fun c => c <> CH_LBRACKET) pre -> Forall (fun c => c <> CH_RBRACKET) digits -> Forall (fun c => c <> CH_RBRACKET) f ->
  match_error_code (pre ++ CH_LBRACKET :: CH_E :: digits ++ CH_RBRACKET :: post) f = true <-> f = digits.
Proof. exact c16_code_match. Qed.

Example C16_nonvacuous :
  (* "0x10: [E10] x" against the filter codes 1, 10, 100 *)
  let msg := [48;120;49;48;58;32;91;69;49;48;93;32;120] in
  match_error_code msg [49] = false /\ match_error_code msg [49;48] = true /\ match_error_code msg [49;48;48] = false /\
  exit_code (Some 55) Init_ok true = 55 /\ exit_code (Some 55) Init_ok false = 0 /\ exit_code (Some 55) Init_failed false = 1.
Proof. repeat split; reflexivity. Qed.

(* the modes that print no report -- the three views and filtered writing (Model/SystemView.v run_reportless: scanner, view of
   every batch, collector): the exit status is N exactly when an error was counted or a fatal error is held at the end, 0 exactly
   when neither; without -E it is 0; the only abort is the frame views' layer-7 site (recorded finding F6) *)
Theorem C16_reportless_exit : forall ff c m input s sh e n, run_reportless ff c m input = R_done s sh e -> rc_exit c = Some n -> n <> 0 ->
  (e = n <-> collected_trouble ff s) /\ (e = 0 <-> ~ collected_trouble ff s).
Proof. exact rl_exit_iff. Qed.
Theorem C16_reportless_exit_without_option : forall ff c m input s sh e, run_reportless ff c m input = R_done s sh e -> rc_exit c = None -> e = 0.
Proof. exact rl_exit_without_option. Qed.
Theorem C16_reportless_abort_only_for_layer_7 : forall ff c m input p, run_reportless ff c m input = R_panic p ->
  (exists dv, m = RL_view_frames dv) /\ p = SITE_view_stave_from_feeid /\
  exists q, In q (concat (so_batches (scan_impl (rc_scan c) input))) /\ 6 < layer_from_feeid (r_fee_id (c_rdh q)).
Proof. exact rl_panic. Qed.

(* ONE WHOLE `check` RUN, for EVERY input (well-framed or not, any mode / target / filter / option): whenever the run ends with a report,
   (1) with an any-errors exit code N configured the exit status is N exactly when an error, a custom-check failure (they are counted)
   or a fatal input error is held, and 0 exactly when none is; (2) without the option it is 0; (3) what is shown is `displayed` of the
   final state (C16_total_equals_shown, C16_mute, C16_cap, C16_filter_selection say what that is), and the total in report and
   statistics file counts exactly the stored messages *)
Theorem C16_check_run_exit : forall ff c input s sh e n, run_check ff c input = R_done s sh e -> rc_exit c = Some n -> n <> 0 ->
  (e = n <-> collected_trouble ff s) /\ (e = 0 <-> ~ collected_trouble ff s).
Proof. exact check_exit_iff. Qed.
Theorem C16_check_run_exit_without_option : forall ff c input s sh e, run_check ff c input = R_done s sh e -> rc_exit c = None -> e = 0.
Proof. exact check_exit_without_option. Qed.
Theorem C16_check_run_accounting : forall ff c input s sh e, run_check ff c input = R_done s sh e ->
  sh = displayed {| d_mute := rc_mute c; d_cap := rc_cap c; d_filter := rc_filter c |} s /\
  k_total s = N.of_nat (length (k_errors s) + length (k_custom s)) /\
  (rc_mute c = false -> rc_cap c = 0 -> rc_filter c = None -> k_fatal s = None -> N.of_nat (length sh) = k_total s).
Proof.
  intros ff c input s sh e H. destruct (check_done_shape _ _ _ _ _ _ H) as (_ & -> & T & I). split; [reflexivity|]. split; [exact T|].
  intros Hm Hc Hf Hk.
  destruct (c16_total {| d_mute := rc_mute c; d_cap := rc_cap c; d_filter := rc_filter c |} s Hm Hc Hf I) as [D L]. rewrite D.
  destruct (k_total s =? 0) eqn:Z; [apply N.eqb_eq in Z; rewrite Z; reflexivity|exact (L Hk)].
Qed.

(* INVALID OPTION COMBINATIONS.  Model/Args.v is Config::validate_args, the first thing a run does (before anything is read or written;
   a rejected combination ends the process with status 1).  For EVERY combination of sub-command, target, trigger period, any-errors
   exit code and input-statistics file: it is rejected exactly when it is invalid by the documented contract -- `check sanity` with the
   stave target; a trigger period anywhere but `check all its-stave`; an any-errors exit code 0; a statistics file that does not exist,
   has no extension, or an extension other than json / toml (the extension itself, not the last letters of the name).  The model is the
   function the current source has: the fact is re-read from config/lib.rs on every run. *)
Theorem C16_args_source_shape : Gen.Facts.args_validation_as_modelled = true.
Proof. exact eq_refl. Qed.
(* ... and it runs BEFORE anything with a side effect: init_config parses the command line, validates (handing the rejection on), and only
   then handles the custom checks -- which may write the custom_checks.toml template -- and publishes the configuration; a rejected
   invocation writes nothing (fact re-read from init_config in fastpasta/src/config.rs on every run; seed C16-J) *)
Theorem C16_args_validated_before_side_effects : Gen.Facts.args_validated_before_side_effects = true.
Proof. exact eq_refl. Qed.
Theorem C16_invalid_combinations_rejected : forall a, validate_args a = false <-> invalid_combination a.
Proof. exact c16_args. Qed.
Example C16_args_nonvacuous :
  validate_args {| a_check := Some (CK_all, T_stave); a_period := Some 198; a_exit := Some 3; a_istats := Some (SF_ext EXT_toml) |} = true /\
  validate_args {| a_check := Some (CK_all, T_its); a_period := None; a_exit := None; a_istats := Some (SF_ext [110; 100; 106; 115; 111; 110]) |} = false.
Proof. split; reflexivity. Qed.

(* unreadable / unrecognisable input: an input shorter than one RDH0, or whose first RDH is not accepted, ends with status 1 -- non-zero --
   whatever the options; conversely status 0 means the input was recognised and processed and the run ended with a report *)
Theorem C16_unreadable_input_is_nonzero : forall ff c input, Nat.ltb (length input) 8 = true \/ recognised input = false ->
  run_exit (run_check ff c input) = Some 1.
Proof. exact unreadable_is_nonzero. Qed.
Theorem C16_exit_zero_means_processed : forall ff c input, run_exit (run_check ff c input) = Some 0 ->
  Nat.ltb (length input) 8 = false /\ recognised input = true /\ exists s sh, run_check ff c input = R_done s sh 0.
Proof. exact exit_zero_means_processed. Qed.

Print Assumptions C16_exit_table.
Print Assumptions C16_fatal_is_reported.
Print Assumptions C16_total_counts_messages.
Print Assumptions C16_total_equals_shown.
Print Assumptions C16_mute.
Print Assumptions C16_cap.
Print Assumptions C16_filter_selection.
Print Assumptions C16_unique_codes.
Print Assumptions C16_code_match.
Print Assumptions C16_reportless_exit.
Print Assumptions C16_reportless_exit_without_option.
Print Assumptions C16_reportless_abort_only_for_layer_7.
Print Assumptions C16_check_run_exit.
Print Assumptions C16_check_run_exit_without_option.
Print Assumptions C16_check_run_accounting.
Print Assumptions C16_args_source_shape.
Print Assumptions C16_args_validated_before_side_effects.
Print Assumptions C16_invalid_combinations_rejected.
Print Assumptions C16_unreadable_input_is_nonzero.
Print Assumptions C16_exit_zero_means_processed.
