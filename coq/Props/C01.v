(* C01 -- Conforming data is accepted by every check mode (no false alarms).  Property theorems only.
   Proved tier: the RDH level (check sanity / check all without a target) for EVERY stream the grammar renders.
   The ITS payload and stave tiers are decided by the correspondence of the whole-run model and by the local acceptance theorems of
   C09, C11, C12, C13 (see DESIGN.md, C01); the composed invariant proof for those tiers is not part of this file. *)
From Coq Require Import List NArith Bool.
From FP Require Import Model.Base Model.Rdh Model.RdhChecks Model.CdpRunning Model.Scanner Model.Link Spec.Grammar Proofs.C01_rdh.
From FP Require Gen.Facts.
Import ListNotations.
Open Scope N_scope.

(* every link the grammar renders -- any number of heartbeat frames and pages, any orbits / bunch crossings / trigger types /
   detector-field status bits / packet counters / payload sizes within the documented ranges, any placement of its packets in
   the input -- draws no message from `check sanity` (running = false) or `check all` (running = true) without a target *)
Theorem C01_rdh_tier : forall ld running ps, wf_link_rdh ld = true -> map strip ps = render_link ld ->
  run_validator (no_target running) ps = Ok [].
Proof. exact c01_rdh_link. Qed.

(* the two lemmas it rests on, for every page of every description *)
Theorem C01_rendered_rdh_is_sane : forall ld, wf_link_rdh ld = true -> forall st h idx stop pg, latch_ok ld st -> wf_hbf h = true -> stop <= 1 ->
  snd (rdh_sanity st (render_rdh ld h idx stop pg)) = [] /\ latch_ok ld (fst (rdh_sanity st (render_rdh ld h idx stop pg))).
Proof. exact sane_rendered. Qed.
Theorem C01_rendered_page_keeps_running_invariant : forall ld h k pg st, RInv ld h k st -> k + 1 < 65536 ->
  snd (running_check st (render_rdh ld h k 0 pg)) = [] /\ RInv ld h (k + 1) (fst (running_check st (render_rdh ld h k 0 pg))).
Proof. exact running_data_page. Qed.

Theorem C01_nonvacuous :
  let pg n := {| pg_counter := n; pg_par := 0; pg_payload := repeat 0 16 |} in
  let h o := {| h_orbit := o; h_bc := 3563; h_trigger := 27139; h_detfield := 15; h_pages := [pg 1; pg 2]; h_stop := pg 3 |} in
  let ld := {| l_link := 5; l_fee := 20522; l_version := 7; l_system := 32; l_format := 2; l_cru := 24; l_dw := 1; l_hbfs := [h 10; h 11] |} in
  wf_link_rdh ld = true /\ length (render_link ld) = 6%nat.
Proof. exact c01_rdh_example. Qed.

Print Assumptions C01_rdh_tier.
Print Assumptions C01_rendered_rdh_is_sane.
Print Assumptions C01_rendered_page_keeps_running_invariant.
Print Assumptions C01_nonvacuous.
