(* C01 -- Conforming data is accepted by every check mode (no false alarms).  Property theorems only.
   Proved for all five check modes: the RDH level (check sanity / check all without a target), the ITS level (check sanity its /
   check all its) and the stave level (check all its-stave) for EVERY stream the grammars render (Spec/Grammar.v,
   Spec/GrammarIts.v, Spec/GrammarStave.v).  Calibration data words are outside the word-level grammar. *)
From Coq Require Import List NArith Bool.
From FP Require Import Model.Base Model.Rdh Model.RdhChecks Model.CdpRunning Model.Scanner Model.Link Spec.Grammar Spec.GrammarIts Spec.GrammarItsCheck Proofs.C01_rdh Proofs.C01_its Proofs.C01_check Proofs.C01_stave Proofs.C01_stave_check.
From FP Require Import Spec.GrammarItsCdw Spec.GrammarItsCdwCheck Proofs.C01_its_cdw Proofs.C01_cdw_check.
From FP Require Import Spec.GrammarStaveCdwCheck Proofs.C01_stave_cdw Proofs.C01_cdw_contains.
From FP Require Import Model.Alpide Spec.GrammarStave Spec.GrammarStaveCheck.
From FP Require Import Model.Collector Model.System Spec.Framing Spec.GroundTruth Proofs.C03_proofs Proofs.C06_proofs Proofs.C14_proofs Proofs.C01_run.
From FP Require Gen.Facts.
Import ListNotations.
Open Scope N_scope.

(* every link the grammar renders -- any number of heartbeat frames and pages, any orbits / bunch crossings / trigger types /
   detector-field status bits / packet counters / payload sizes within the documented ranges, any placement of its packets in
   the input -- draws no message from `check sanity` (running = false) or `check all` (running = true) without a target *)
Theorem C01_rdh_tier : forall ld running ps, wf_link_rdh ld = true -> map strip ps = render_link ld ->
  run_validator (no_target running) ps = Ok [].
Proof. exact c01_rdh_link. Qed.

(* the two lemmas it rests on, for every page of every description *)
Theorem C01_rendered_rdh_is_sane : forall ld, wf_link_rdh ld = true -> forall st h idx stop pg, latch_ok ld st -> wf_hbf h = true -> stop <= 1 ->
  snd (rdh_sanity st (render_rdh ld h idx stop pg)) = [] /\ latch_ok ld (fst (rdh_sanity st (render_rdh ld h idx stop pg))).
Proof. exact sane_rendered. Qed.
Theorem C01_rendered_page_keeps_running_invariant : forall ld h k pg st, RInv ld h k st -> k + 1 < 65536 ->
  snd (running_check st (render_rdh ld h k 0 pg)) = [] /\ RInv ld h (k + 1) (fst (running_check st (render_rdh ld h k 0 pg))).
Proof. exact running_data_page. Qed.

Theorem C01_nonvacuous :
  let pg n := {| pg_counter := n; pg_par := 0; pg_payload := repeat 0 16 |} in
  let h o := {| h_orbit := o; h_bc := 3563; h_trigger := 27139; h_detfield := 15; h_pages := [pg 1; pg 2]; h_stop := pg 3 |} in
  let ld := {| l_link := 5; l_fee := 20522; l_version := 7; l_system := 32; l_format := 2; l_cru := 24; l_dw := 1; l_hbfs := [h 10; h 11] |} in
  wf_link_rdh ld = true /\ length (render_link ld) = 6%nat.
Proof. exact c01_rdh_example. Qed.

(* the ITS tier: every link whose pages carry payloads of the word-level producer grammar -- IHW, trigger packets (TDH, data words of
   active lanes, TDT), no-data TDHs, packets continued over any number of pages (TDT packet_done = 0 / IHW / TDH continuation), DDW0 on
   the stop page, either data format, 0..15 bytes of padding -- draws no message from `check sanity its` or `check all its` *)
Theorem C01_its_tier : forall ld ihs running ps, wf_link_its ld ihs -> map strip ps = render_link ld ->
  run_validator (its_cfg running) ps = Ok [].
Proof. exact c01_its_link. Qed.

(* the same, through the executable membership test that the check runs on every generated link (extracted) *)
Theorem C01_its_tier_checked : forall ld ihs running ps, link_witness ld = Some ihs -> map strip ps = render_link ld ->
  run_validator (its_cfg running) ps = Ok [].
Proof. exact (fun ld ihs running ps H => c01_its_link ld ihs running ps (link_witness_sound ld ihs H)). Qed.
Theorem C01_membership_test_sound : forall ld ihs, link_witness ld = Some ihs -> wf_link_its ld ihs.
Proof. exact link_witness_sound. Qed.
Theorem C01_membership_test_nonvacuous : link_witness Example.ld = Some [Example.ih 10; Example.ih 11].
Proof. vm_compute. reflexivity. Qed.

(* calibration runs: the word-level grammar extended by calibration data words (Spec/GrammarItsCdw.v) -- the data of a page may be
   led by a CDW, right behind the first TDH of the page that announces data; when its user fields differ from those of the CDW
   before it on the link its word index is 0 (checks_list.md) -- draws no message either, in both ITS modes; through the extracted
   membership test the theorem applies to every calibration link the generator produces *)
Theorem C01_its_tier_calibration : forall ld chs running ps, wf_link_its_cdw ld chs -> map strip ps = render_link ld ->
  run_validator (its_cfg running) ps = Ok [].
Proof. exact c01_its_cdw_link. Qed.
Theorem C01_its_tier_calibration_checked : forall ld chs running ps, link_witness_cdw ld = Some chs -> map strip ps = render_link ld ->
  run_validator (its_cfg running) ps = Ok [].
Proof. exact (fun ld chs running ps H => c01_its_cdw_link ld chs running ps (link_witness_cdw_sound ld chs H)). Qed.
Theorem C01_calibration_membership_test_sound : forall ld chs, link_witness_cdw ld = Some chs -> wf_link_its_cdw ld chs.
Proof. exact link_witness_cdw_sound. Qed.
Theorem C01_calibration_nonvacuous :
  link_witness_cdw ExampleC.ldc = Some [ExampleC.ch10; ExampleC.ch11] /\ length (render_link ExampleC.ldc) = 8%nat.
Proof. split; [exact ExampleC.accepted|reflexivity]. Qed.

(* the CDW-extended grammar contains the plain one (no CDW on any page) *)
Theorem C01_plain_grammar_is_contained : forall ld ihs, wf_link_its ld ihs -> wf_link_its_cdw ld (map lift_hbf ihs).
Proof. exact plain_link_is_calibration_link. Qed.
(* ... and calibration runs in stave mode: stave-conforming trigger packets, CDWs as above (a CDW is not lane data: the open readout
   frame does not see it) -- `check all its-stave` emits nothing but ALPIDE statistics messages *)
Theorem C01_stave_tier_calibration : forall ld chs ly ps, wf_link_stave_cdw ld chs ly -> map strip ps = render_link ld ->
  exists m, run_validator stave_cfg ps = Ok m /\ quiet m.
Proof. exact c01_stave_cdw_link. Qed.
Theorem C01_stave_tier_calibration_checked : forall ld chs ly ps, stave_witness_cdw ld = Some (chs, ly) -> map strip ps = render_link ld ->
  exists m, run_validator stave_cfg ps = Ok m /\ quiet m.
Proof. exact (fun ld chs ly ps H => c01_stave_cdw_link ld chs ly ps (stave_witness_cdw_sound ld chs ly H)). Qed.
Theorem C01_stave_calibration_nonvacuous :
  stave_witness_cdw ExampleSC.ldSC = Some ([ExampleSC.chS 10], L_Inner) /\ length (render_link ExampleSC.ldSC) = 3%nat.
Proof. split; [exact ExampleSC.accepted|reflexivity]. Qed.

(* the stave tier: if moreover every trigger packet is stave-conforming -- its data words, grouped by lane, are the bytes of ALPIDE
   lanes as the independent encoder produces them (any hits, regions, busy words, idle bytes), every lane with at least one chip, no
   fatal announcement, no chip twice, all chips of all lanes in one bunch crossing, an inner-barrel lane carrying exactly the chip named
   like the lane, and the lanes are the barrel's (one inner group of 3 / 8 / 14) -- `check all its-stave` emits nothing but the
   ALPIDE statistics messages (no error) *)
Theorem C01_stave_tier : forall ld ihs ly ps, wf_link_stave ld ihs ly -> map strip ps = render_link ld ->
  exists m, run_validator stave_cfg ps = Ok m /\ quiet m.
Proof. exact c01_stave_link. Qed.
Theorem C01_stave_tier_checked : forall ld ihs ly ps, stave_witness ld = Some (ihs, ly) -> map strip ps = render_link ld ->
  exists m, run_validator stave_cfg ps = Ok m /\ quiet m.
Proof. exact (fun ld ihs ly ps H => c01_stave_link ld ihs ly ps (stave_witness_sound ld ihs ly H)). Qed.
Theorem C01_stave_membership_test_nonvacuous : stave_witness ExampleS.ldS = Some ([ExampleS.ihS 10], L_Inner).
Proof. vm_compute. reflexivity. Qed.
Theorem C01_stave_nonvacuous : wf_link_stave ExampleS.ldS [ExampleS.ihS 10] L_Inner /\ length (render_link ExampleS.ldS) = 3%nat.
Proof. exact ExampleS.example_stave. Qed.

Theorem C01_its_nonvacuous : wf_link_its Example.ld [Example.ih 10; Example.ih 11] /\ length (render_link Example.ld) = 8%nat.
Proof. exact Example.example_wf. Qed.

(* ONE WHOLE RUN (scanner, dispatcher, every validator thread, analysis thread, collector, report, exit status).  A well-framed,
   recognised input of any number of links / FEE ids interleaved in any way, under any filter; `cdps` are the packets the
   scanner hands on; a dispatch unit = the packets of one link id (one FEE id under `check all its-stave`).  If every unit's own pass
   is silent, the run ends with zero errors, nothing displayed and exit status 0 -- whatever any-errors exit code, mute flag, error
   cap or code filter is configured. *)
Theorem C01_whole_run : forall c pkts ff,
  Forall wf_pkt pkts -> N.of_nat (length pkts) < U32_MAX -> pay_all pkts < U32_MAX ->
  (forall p r, pkts = p :: r -> known_sysid (r_system_id (hdr p)) = true) -> pkts <> [] ->
  recognised (serialize pkts) = true -> rc_counts c = {| cc_cdps := None; cc_pht := None |} ->
  let cdps := map (mk_cdp (rc_scan c)) (selected (rc_scan c) 0 pkts) in
  (forall id, sel (rc_check c) id cdps <> [] -> silent_pass (run_validator (rc_check c) (sel (rc_check c) id cdps))) ->
  exists s, run_check ff c (serialize pkts) = R_done s [] 0 /\ k_total s = 0 /\ k_errors s = [] /\ k_fatal s = None /\ k_custom s = [].
Proof. exact (fun c pkts ff H1 H2 H3 H4 H5 H6 H7 H8 => c01_whole_run c pkts (eq_refl : Gen.Facts.cdp_offset_sampled_after = true) H1 H2 H3 H4 H5 H6 H7 H8 ff). Qed.

(* ... and the units are silent when they are links of the grammars: the five check modes *)
Theorem C01_whole_run_rdh_tier : forall c pkts ff running,
  Forall wf_pkt pkts -> N.of_nat (length pkts) < U32_MAX -> pay_all pkts < U32_MAX ->
  (forall p r, pkts = p :: r -> known_sysid (r_system_id (hdr p)) = true) -> pkts <> [] ->
  recognised (serialize pkts) = true -> rc_counts c = {| cc_cdps := None; cc_pht := None |} ->
  rc_check c = no_target running ->
  let cdps := map (mk_cdp (rc_scan c)) (selected (rc_scan c) 0 pkts) in
  (forall id, sel (rc_check c) id cdps <> [] -> exists ld, wf_link_rdh ld = true /\ map strip (sel (rc_check c) id cdps) = render_link ld) ->
  exists s, run_check ff c (serialize pkts) = R_done s [] 0 /\ k_total s = 0 /\ k_errors s = [] /\ k_fatal s = None /\ k_custom s = [].
Proof.
  intros c pkts ff running H1 H2 H3 H4 H5 H6 H7 Hc cdps Hl. apply C01_whole_run; try assumption.
  intros id Hs. destruct (Hl id Hs) as (ld & Hw & Hr). exists []. split; [|constructor].
  fold cdps. rewrite Hc in *. exact (c01_rdh_link ld running _ Hw Hr).
Qed.

Theorem C01_whole_run_its_tier : forall c pkts ff running,
  Forall wf_pkt pkts -> N.of_nat (length pkts) < U32_MAX -> pay_all pkts < U32_MAX ->
  (forall p r, pkts = p :: r -> known_sysid (r_system_id (hdr p)) = true) -> pkts <> [] ->
  recognised (serialize pkts) = true -> rc_counts c = {| cc_cdps := None; cc_pht := None |} ->
  rc_check c = its_cfg running ->
  let cdps := map (mk_cdp (rc_scan c)) (selected (rc_scan c) 0 pkts) in
  (forall id, sel (rc_check c) id cdps <> [] -> exists ld chs, wf_link_its_cdw ld chs /\ map strip (sel (rc_check c) id cdps) = render_link ld) ->
  exists s, run_check ff c (serialize pkts) = R_done s [] 0 /\ k_total s = 0 /\ k_errors s = [] /\ k_fatal s = None /\ k_custom s = [].
Proof.
  intros c pkts ff running H1 H2 H3 H4 H5 H6 H7 Hc cdps Hl. apply C01_whole_run; try assumption.
  intros id Hs. destruct (Hl id Hs) as (ld & chs & Hw & Hr). exists []. split; [|constructor].
  fold cdps. rewrite Hc in *. exact (c01_its_cdw_link ld chs running _ Hw Hr).
Qed.

Theorem C01_whole_run_stave_tier : forall c pkts ff,
  Forall wf_pkt pkts -> N.of_nat (length pkts) < U32_MAX -> pay_all pkts < U32_MAX ->
  (forall p r, pkts = p :: r -> known_sysid (r_system_id (hdr p)) = true) -> pkts <> [] ->
  recognised (serialize pkts) = true -> rc_counts c = {| cc_cdps := None; cc_pht := None |} ->
  rc_check c = stave_cfg ->
  let cdps := map (mk_cdp (rc_scan c)) (selected (rc_scan c) 0 pkts) in
  (forall id, sel (rc_check c) id cdps <> [] -> exists ld chs ly, wf_link_stave_cdw ld chs ly /\ map strip (sel (rc_check c) id cdps) = render_link ld) ->
  exists s, run_check ff c (serialize pkts) = R_done s [] 0 /\ k_total s = 0 /\ k_errors s = [] /\ k_fatal s = None /\ k_custom s = [].
Proof.
  intros c pkts ff H1 H2 H3 H4 H5 H6 H7 Hc cdps Hl. apply C01_whole_run; try assumption.
  intros id Hs. destruct (Hl id Hs) as (ld & chs & ly & Hw & Hr).
  fold cdps. rewrite Hc in *. exact (c01_stave_cdw_link ld chs ly _ Hw Hr).
Qed.

(* non-vacuity: the two-frame link of C01_nonvacuous, its RDHs encoded to bytes, interleaved with a second link (another link id) --
   every hypothesis of the whole-run theorem holds and the run is silent with exit status 0 although -E 5 is configured *)
Definition c01w_pg n := {| pg_counter := n; pg_par := 0; pg_payload := repeat 0 16 |}.
Definition c01w_h o := {| h_orbit := o; h_bc := 3563; h_trigger := 27139; h_detfield := 15; h_pages := [c01w_pg 1; c01w_pg 2]; h_stop := c01w_pg 3 |}.
Definition c01w_ld l := {| l_link := l; l_fee := 20522; l_version := 7; l_system := 32; l_format := 2; l_cru := 24; l_dw := 1; l_hbfs := [c01w_h 10; c01w_h 11] |}.
Definition c01w_pk (x : rdh * list N) : packet := {| p_hdr := encode_rdh (fst x); p_payload := snd x |}.
Fixpoint c01w_merge (a b : list packet) : list packet :=
  match a, b with x :: a', y :: b' => x :: y :: c01w_merge a' b' | _, [] => a | [], _ => b end.
Definition c01w_pkts : list packet := c01w_merge (map c01w_pk (render_link (c01w_ld 5))) (map c01w_pk (render_link (c01w_ld 9))).
Definition c01w_cfg : run_cfg :=
  {| rc_scan := {| sc_filter := None; sc_skip := false; sc_src := Src_file |}; rc_check := no_target true;
     rc_mute := false; rc_cap := 0; rc_filter := None; rc_exit := Some 5; rc_counts := {| cc_cdps := None; cc_pht := None |} |}.
Example C01_whole_run_nonvacuous :
  Forall wf_pkt c01w_pkts /\ length c01w_pkts = 12%nat /\ recognised (serialize c01w_pkts) = true /\
  (let cdps := map (mk_cdp (rc_scan c01w_cfg)) (selected (rc_scan c01w_cfg) 0 c01w_pkts) in
   forall id, sel (rc_check c01w_cfg) id cdps <> [] ->
     exists ld, wf_link_rdh ld = true /\ map strip (sel (rc_check c01w_cfg) id cdps) = render_link ld) /\
  exists s, run_check true c01w_cfg (serialize c01w_pkts) = R_done s [] 0.
Proof.
  split; [repeat constructor; apply wf_pktb_sound; vm_compute; reflexivity|].
  split; [reflexivity|]. split; [vm_compute; reflexivity|]. split.
  - cbv zeta. intros id Hs.
    destruct (N.eq_dec id 5) as [->|N5]; [exists (c01w_ld 5); split; vm_compute; reflexivity|].
    destruct (N.eq_dec id 9) as [->|N9]; [exists (c01w_ld 9); split; vm_compute; reflexivity|].
    exfalso. apply Hs. unfold sel. apply C06_proofs.filter_none. intros q Hq.
    assert (Hd : (disp_id (rc_check c01w_cfg) q =? 5) || (disp_id (rc_check c01w_cfg) q =? 9) = true).
    { revert q Hq. apply forallb_forall. vm_compute. reflexivity. }
    apply N.eqb_neq. apply orb_true_iff in Hd. destruct Hd as [Hd|Hd]; apply N.eqb_eq in Hd; congruence.
  - eexists. vm_compute. reflexivity.
Qed.

(* non-vacuity of the ITS tier of the whole-run theorem: the example link of C01_its_nonvacuous (two heartbeat frames, a packet continued
   over three pages, no-data TDHs, format 2) rendered for link ids 3 and 4, RDHs encoded to bytes, the two links interleaved packet by
   packet: `check all its` on the whole input ends with zero errors and exit status 0 although -E 5 is configured *)
Definition c01i_ld (l : N) : link_desc :=
  {| l_link := l; l_fee := l_fee C01_its.Example.ld; l_version := l_version C01_its.Example.ld; l_system := l_system C01_its.Example.ld;
     l_format := l_format C01_its.Example.ld; l_cru := l_cru C01_its.Example.ld; l_dw := l_dw C01_its.Example.ld; l_hbfs := l_hbfs C01_its.Example.ld |}.
Definition c01i_pkts : list packet := c01w_merge (map c01w_pk (render_link (c01i_ld 3))) (map c01w_pk (render_link (c01i_ld 4))).
Definition c01i_cfg : run_cfg :=
  {| rc_scan := {| sc_filter := None; sc_skip := false; sc_src := Src_file |}; rc_check := its_cfg true;
     rc_mute := false; rc_cap := 0; rc_filter := None; rc_exit := Some 5; rc_counts := {| cc_cdps := None; cc_pht := None |} |}.
Example C01_whole_run_its_nonvacuous :
  Forall wf_pkt c01i_pkts /\ length c01i_pkts = 16%nat /\ recognised (serialize c01i_pkts) = true /\
  (let cdps := map (mk_cdp (rc_scan c01i_cfg)) (selected (rc_scan c01i_cfg) 0 c01i_pkts) in
   forall id, sel (rc_check c01i_cfg) id cdps <> [] ->
     exists ld chs, wf_link_its_cdw ld chs /\ map strip (sel (rc_check c01i_cfg) id cdps) = render_link ld) /\
  exists s, run_check true c01i_cfg (serialize c01i_pkts) = R_done s [] 0.
Proof.
  assert (Wl : forall l, wf_link_its (c01i_ld l) [C01_its.Example.ih 10; C01_its.Example.ih 11]).
  { intros l. destruct C01_its.Example.example_wf as [(W1 & W2 & W3 & W4) _]. unfold wf_link_its, c01i_ld. cbn [l_system l_format l_hbfs].
    split; [|split; [exact W2|split; [exact W3|exact W4]]]. revert W1. unfold wf_link_rdh. cbn. intros W1.
    destruct (N.eq_dec l 3) as [->|N3]; [vm_compute; reflexivity|]. clear N3. exact W1. }
  split; [repeat constructor; apply wf_pktb_sound; vm_compute; reflexivity|].
  split; [reflexivity|]. split; [vm_compute; reflexivity|]. split.
  - cbv zeta. intros id Hs.
    destruct (N.eq_dec id 3) as [->|N3];
      [exists (c01i_ld 3), (map lift_hbf [C01_its.Example.ih 10; C01_its.Example.ih 11]); split;
         [apply plain_link_is_calibration_link, Wl|vm_compute; reflexivity]|].
    destruct (N.eq_dec id 4) as [->|N4];
      [exists (c01i_ld 4), (map lift_hbf [C01_its.Example.ih 10; C01_its.Example.ih 11]); split;
         [apply plain_link_is_calibration_link, Wl|vm_compute; reflexivity]|].
    exfalso. apply Hs. unfold sel. apply C06_proofs.filter_none. intros q Hq.
    assert (Hd : (disp_id (rc_check c01i_cfg) q =? 3) || (disp_id (rc_check c01i_cfg) q =? 4) = true).
    { revert q Hq. apply forallb_forall. vm_compute. reflexivity. }
    apply N.eqb_neq. apply orb_true_iff in Hd. destruct Hd as [Hd|Hd]; apply N.eqb_eq in Hd; congruence.
  - eexists. vm_compute. reflexivity.
Qed.

Print Assumptions C01_rdh_tier.
Print Assumptions C01_its_tier.
Print Assumptions C01_stave_tier.
Print Assumptions C01_stave_nonvacuous.
Print Assumptions C01_stave_tier_checked.
Print Assumptions C01_stave_membership_test_nonvacuous.
Print Assumptions C01_its_nonvacuous.
Print Assumptions C01_its_tier_checked.
Print Assumptions C01_membership_test_nonvacuous.
Print Assumptions C01_plain_grammar_is_contained.
Print Assumptions C01_stave_tier_calibration.
Print Assumptions C01_stave_tier_calibration_checked.
Print Assumptions C01_stave_calibration_nonvacuous.
Print Assumptions C01_its_tier_calibration.
Print Assumptions C01_its_tier_calibration_checked.
Print Assumptions C01_calibration_membership_test_sound.
Print Assumptions C01_calibration_nonvacuous.
Print Assumptions C01_rendered_rdh_is_sane.
Print Assumptions C01_rendered_page_keeps_running_invariant.
Print Assumptions C01_nonvacuous.
Print Assumptions C01_whole_run.
Print Assumptions C01_whole_run_rdh_tier.
Print Assumptions C01_whole_run_its_tier.
Print Assumptions C01_whole_run_stave_tier.
Print Assumptions C01_whole_run_nonvacuous.
Print Assumptions C01_whole_run_its_nonvacuous.
