(* C02 -- Every documented violation is detected with its code and location.  Property theorems only.
   The local detection theorems of every layer (for EVERY validator state and word / header), "messages are never retracted",
   and the exit status.  Which rule is broken is decided by the iff-theorems of C10 (RDH rules), C11 (word rules), C09
   (identifier vs state), C12 (padding); here: once a rule is broken, a message of its family appears at the offending offset. *)
From Coq Require Import List NArith Bool.
From FP Require Import Model.Base Model.ItsWords Model.ItsFsm Model.Rdh Model.RdhChecks Model.Payload Model.CdpRunning Model.Scanner Model.Link Model.Collector.
From FP Require Import Spec.WordLayout Spec.Grammar Spec.GrammarIts Proofs.Bits Proofs.C02_proofs Proofs.C04_stave Proofs.C02_total Proofs.C02_cdw Proofs.C01_rdh Proofs.C01_its Proofs.C02_insync Proofs.C02_insync_tdh.
From FP Require Proofs.C07_proofs.
From FP Require Import Model.System Spec.Framing Spec.GroundTruth Proofs.C03_proofs Proofs.C06_proofs Proofs.C07_run Proofs.C14_proofs Proofs.C02_run.
From FP Require Gen.Facts.
Import ListNotations.
Open Scope N_scope.

(* RDH rules (C10_sanity_iff / C10_running_iff say when the tag lists are non-empty) *)
Theorem C02_rdh_sanity_reported : forall c s p s' m, link_step c s p = Ok (s', m) ->
  snd (rdh_sanity (lk_sanity s) (c_rdh p)) <> [] -> has_err (c_off p) 10 m.
Proof. exact c02_rdh_sanity. Qed.
Theorem C02_rdh_running_reported : forall c s p s' m, link_step c s p = Ok (s', m) -> v_running c = true ->
  snd (running_check (lk_running s) (c_rdh p)) <> [] -> has_err (c_off p) 11 m.
Proof. exact c02_rdh_running. Qed.
(* a purely stateful violation is not reported by `check sanity` *)
Theorem C02_running_not_in_sanity : forall c s p s' m, link_step c s p = Ok (s', m) -> v_running c = false -> v_target c = T_none ->
  forall off, ~ has_err off 11 m.
Proof. exact c02_no_running_in_sanity. Qed.

(* whatever follows, the message stays in the validator's output *)
Theorem C02_messages_never_retracted : forall c ps s acc s' out, link_run c s ps acc = Ok (s', out) -> exists more, out = acc ++ more.
Proof. exact link_run_keeps. Qed.
Theorem C02_reported_in_run : forall c ps1 p ps2 s0 acc0 s1 acc1 s2 m sf out off code,
  link_run c s0 ps1 acc0 = Ok (s1, acc1) -> link_step c s1 p = Ok (s2, m) -> has_err off code m ->
  link_run c s0 (ps1 ++ p :: ps2) acc0 = Ok (sf, out) -> has_err off code out.
Proof. exact c02_reported_in_run. Qed.

(* payload: more than 15 bytes of 0xFF *)
Theorem C02_padding_limit : forall c s r payload pos s1, set_current_rdh s r pos = Ok s1 -> (15 < ff_run payload)%nat ->
  exists s', do_payload_checks c s r payload pos = Ok (s', [VErr (mk_err pos CODE_PAYLOAD None)]).
Proof. exact c02_padding. Qed.

(* status words: the sanity family of the word the state machine expects, at the word (C11 says when the tag list is non-empty;
   an identifier fault in a single-successor state is the expected word's [SR_id]) *)
Theorem C02_ihw_rules : forall c s w p, fst (advance (cs_fsm s) w) = fst (advance (cs_fsm s) w) ->
  snd (advance (cs_fsm s) w) = F_ok p -> (p = P_IHW \/ p = P_IHW_cont) -> ihw_sanity w <> [] -> has_err (pos_of s) 30 (word_msgs c s w).
Proof. exact c02_ihw_sanity. Qed.
Theorem C02_tdh_rules : forall c s w p, snd (advance (cs_fsm s) w) = F_ok p -> (p = P_TDH \/ p = P_TDH_cont \/ p = P_TDH_after_done) ->
  tdh_sanity w <> [] -> has_err (pos_of s) 40 (word_msgs c s w).
Proof. exact c02_tdh_sanity. Qed.
(* no word crashes a validator (C04; the handled panic sites are regenerated facts), so the verdict exists *)
Theorem C02_every_word_is_judged : forall c s w, exists s1 m, cdp_check c s w = Ok (s1, m) /\ word_msgs c s w = m.
Proof. exact (c02_word_total (conj eq_refl (conj eq_refl eq_refl))). Qed.
Theorem C02_tdt_rules : forall c s w, snd (advance (cs_fsm s) w) = F_ok P_TDT -> tdt_sanity w <> [] ->
  exists s1 m, cdp_check c s w = Ok (s1, m) /\ has_err (pos_of s) 50 m.
Proof. exact (c02_tdt_sanity_total (conj eq_refl (conj eq_refl eq_refl))). Qed.
Theorem C02_ddw0_rules : forall c s w, snd (advance (cs_fsm s) w) = F_ok P_DDW0 -> ddw0_sanity w <> [] -> has_err (pos_of s) 60 (word_msgs c s w).
Proof. exact c02_ddw0_sanity. Qed.
(* identifier faults in choice states *)
Theorem C02_unrecognised_identifier : forall c s w a, snd (advance (cs_fsm s) w) = F_amb a ->
  exists s1 m, cdp_check c s w = Ok (s1, m) /\
    has_err (pos_of s) (match a with A_TDH_or_DDW0 => 990 | A_DW_or_TDT_CDW => 991 | A_DDW0_or_TDH_IHW => 992 end) m.
Proof. exact (c02_unrecognised_total (conj eq_refl (conj eq_refl eq_refl))). Qed.

(* state-dependent rules of checks_list.md *)
Theorem C02_ddw0_page_rules : forall c s w, snd (advance (cs_fsm s) w) = F_ok P_DDW0 -> v_running c = true ->
  (r_stop_bit (cur_rdh s) <> 1 -> has_err (pos_of s) 110 (word_msgs c s w)) /\
  (r_pages_counter (cur_rdh s) = 0 -> has_err (pos_of s) 111 (word_msgs c s w)).
Proof. exact c02_ddw0_page. Qed.
Theorem C02_ihw_stop_bit : forall c s w, snd (advance (cs_fsm s) w) = F_ok P_IHW -> v_running c = true ->
  r_stop_bit (cur_rdh s) <> 0 -> has_err (pos_of s) 12 (word_msgs c s w).
Proof. exact c02_ihw_stop_bit. Qed.
Theorem C02_tdh_must_continue : forall c s w, snd (advance (cs_fsm s) w) = F_ok P_TDH_cont -> v_running c = true ->
  tdh_continuation w <> 1 -> has_err (pos_of s) 41 (word_msgs c s w).
Proof. exact c02_tdh_continuation. Qed.
Theorem C02_tdh_must_not_continue_after_ihw : forall c s w, snd (advance (cs_fsm s) w) = F_ok P_TDH -> v_running c = true ->
  tdh_continuation w <> 0 -> has_err (pos_of s) 42 (word_msgs c s w).
Proof. exact c02_tdh_no_continuation. Qed.
(* "TDH following a TDT with packet_done == 1: continuation == 0" -- type-checks only while the source performs the test *)
Theorem C02_tdh_must_not_continue_after_complete_packet : forall c s w, snd (advance (cs_fsm s) w) = F_ok P_TDH_after_done -> v_running c = true ->
  tdh_continuation w <> 0 -> has_err (pos_of s) 42 (word_msgs c s w).
Proof. exact (c02_tdh_after_done_continuation_when Gen.Facts.tdh_after_done_checks_continuation eq_refl eq_refl). Qed.

(* calibration data words (checks_list.md: "CDW where user_field != previous CDW user_field: CDW index == 0").  The accessors
   read the documented fields (user fields = bits 47:0, index = bits 71:48); the first data-phase word of a packet with identifier
   0xF8 is reported with [E81] EXACTLY when the rule is broken against the CDW remembered from earlier packets of the link
   (no other message for it, none at all without running checks), and it becomes the remembered one; anywhere else in the data
   the identifier 0xF8 is no data word: [E70] *)
Theorem C02_cdw_layout : forall w, word_ok w -> cdw_user_fields w = f80 w 0 48 /\ cdw_index w = f80 w 48 24.
Proof. intros w H. split; [exact (cdw_user_fields_spec w H)|exact (cdw_index_spec w H)]. Qed.
Theorem C02_cdw_rule : forall c s w, is_data_res (snd (advance (cs_fsm s) w)) -> cs_start_of_data s = true -> nb 9 w = Gen.Facts.cdw_id ->
  exists s1 m, cdp_check c s w = Ok (s1, m) /\
    (v_running c = true -> (has_err (pos_of s) 81 m <-> cdw_rule_broken (sw_cdw (cs_words s)) w) /\ sw_cdw (cs_words s1) = Some w) /\
    (v_running c = false -> m = []) /\
    (forall x, In x m -> err_at (pos_of s) 81 x) /\ cs_start_of_data s1 = false.
Proof. exact c02_cdw_rule. Qed.
Theorem C02_cdw_elsewhere_is_invalid_data : forall c s w, is_data_res (snd (advance (cs_fsm s) w)) -> cs_start_of_data s = false ->
  nb 9 w = Gen.Facts.cdw_id ->
  exists s1, cdp_check c s w = Ok (s1, [werr (set_counter s (wrap16 (cs_counter s + 1))) 70 w]) /\
             sw_cdw (cs_words s1) = sw_cdw (cs_words s).
Proof. exact c02_cdw_elsewhere. Qed.

(* ---- faults INSIDE a conforming stream (C01 and the theorems above, composed) ----
   A link (any placement of its packets: the offsets are those of the packets) that conforms to the ITS grammar up to some data or
   TDT position: complete heartbeat frames hbfs1, then in frame h the pages pgs1, then on page pg the IHW, the trigger packets
   items1, the TDH t of the next one and its data words d1 -- and from there on ANY word w, ANY words `rest` behind it (each ten
   bytes, not ending in 0xFF: findings F12/F13 are about those), ANY packets ps2 after that page.  Then the validator (`check
   sanity its` and `check all its`) reaches w in a data state sk, at the true offset of w  --  packet offset + 64 + index * slot  --
   having reported nothing before, and the messages it has for w open the report and are never retracted. *)
Theorem C02_in_sync_position : forall ld, wf_link_rdh ld = true -> l_system ld = Gen.Facts.its_system_id -> (l_format ld = 0 \/ l_format ld = 2) ->
  forall running hbfs1 ihs1 h hbfs2 pgs1 pg pgs2 ips1 ihw items1 i items2 pad0 ips2 t e d1 d2 w rest pad ps1 p ps2,
    l_hbfs ld = hbfs1 ++ h :: hbfs2 -> Forall2 (its_hbf_ok (l_format ld)) hbfs1 ihs1 ->
    h_pages h = pgs1 ++ pg :: pgs2 ->
    pages_ok h true None (ips1 ++ {| ip_ihw := ihw; ip_items := items1 ++ i :: items2; ip_pad := pad0 |} :: ips2) ->
    map pg_payload pgs1 = map (fun q => layout (l_format ld) (page_words q) (ip_pad q)) ips1 ->
    item_data i = Some (t, d1 ++ d2, e) -> Forall gw (w :: rest) -> (pad <= 15)%nat ->
    pg_payload pg = layout (l_format ld) ((ihw :: flat_map item_words items1 ++ t :: d1) ++ w :: rest) pad ->
    map strip ps1 = flat_map (render_hbf ld) hbfs1 ++ render_pages ld h 0 pgs1 ->
    strip p = (render_rdh ld h (N.of_nat (length pgs1)) 0 pg, pg_payload pg) ->
    N.of_nat (S (length (flat_map item_words items1 ++ t :: d1))) < 65535 ->
    c_off p + 64 + N.of_nat (S (length (flat_map item_words items1 ++ t :: d1))) * 16 < 18446744073709551616 ->
    exists sk f,
      St sk f (c_rdh p) (Some ihw) (Some t) /\ is_data_state f = true /\
      pos_of sk = C07_proofs.wpos (c_off p + 64) (10 + C07_proofs.pad_of (c_rdh p)) (S (length (flat_map item_words items1 ++ t :: d1))) /\
      exists out more, run_validator (its_cfg running) (ps1 ++ p :: ps2) = Ok out /\ out = word_msgs (its_cfg running) sk w ++ more.
Proof. exact (c02_insync_link (conj eq_refl (conj eq_refl eq_refl))). Qed.

(* ... and what w draws there, by fault class (for every state sk of that kind, every configuration): a TDT-identified word that breaks
   a TDT rule: [E50] at the word; an identifier that is no data word, no TDT, no CDW: [E991] at the word *)
Theorem C02_in_sync_tdt_fault : forall c sk f r ihw t w more, St sk f r ihw t -> is_data_state f = true ->
  nb 9 w = Gen.Facts.tdt_id -> tdt_sanity w <> [] -> has_err (pos_of sk) 50 (word_msgs c sk w ++ more).
Proof. exact (insync_tdt_fault (conj eq_refl (conj eq_refl eq_refl))). Qed.
Theorem C02_in_sync_unknown_identifier : forall c sk f r ihw t w more, St sk f r ihw t -> is_data_state f = true ->
  data_pat_id (nb 9 w) = false -> nb 9 w <> Gen.Facts.tdt_id -> nb 9 w <> Gen.Facts.cdw_id ->
  has_err (pos_of sk) 991 (word_msgs c sk w ++ more).
Proof. exact (insync_unknown_id (conj eq_refl (conj eq_refl eq_refl))). Qed.
(* the hypotheses are satisfiable: the example link of C01 with the closing TDT of a packet continued over three pages replaced by a
   TDT-identified word with a reserved bit set (third page of the second heartbeat frame, offset 4096 + 64 + 2 * 10), junk behind it *)
Theorem C02_in_sync_example : forall running ps2, exists sk f,
  St sk f (c_rdh ExampleF.pF) (Some C01_its.Example.ihw) (Some (C01_its.Example.tdh C01_its.Example.CONT 9 11)) /\ is_data_state f = true /\
  pos_of sk = 4096 + 64 + 20 /\
  exists out more, run_validator (its_cfg running) (ExampleF.ps1 ++ ExampleF.pF :: ps2) = Ok out /\
                   out = word_msgs (its_cfg running) sk ExampleF.badtdt ++ more.
Proof. exact (ExampleF.example_insync (conj eq_refl (conj eq_refl eq_refl))). Qed.

(* any reported error selects the configured exit status *)
Theorem C02_exit : forall n, exit_code (Some n) Init_ok true = n.
Proof. exact c02_exit. Qed.

(* THE TDH POSITIONS.  The same composition for the place where the TDH of an item stands: a link that conforms to the grammar up to there
   -- complete heartbeat frames, the pages of the next frame before the chosen one, on the chosen page the IHW and ONE OR MORE complete
   items (no-data TDHs, trigger packets, the closing piece of a continued packet) -- then ANY word w, ANY words behind it, ANY packets
   after that page.  The validator reaches w in the state in which the grammar says an item starts (`entry`: a choice state after a
   complete packet / no-data TDH, the continuation-TDH state on a page that continues a packet), at the true offset of w, having
   reported nothing before; its messages for w open the report and are never retracted. *)
Theorem C02_in_sync_tdh_position : forall ld, wf_link_rdh ld = true -> l_system ld = Gen.Facts.its_system_id -> (l_format ld = 0 \/ l_format ld = 2) ->
  forall running hbfs1 ihs1 h hbfs2 pgs1 pg pgs2 ips1 ihw a items1 i items2 pad0 ips2 w rest pad ps1 p ps2,
    l_hbfs ld = hbfs1 ++ h :: hbfs2 -> Forall2 (its_hbf_ok (l_format ld)) hbfs1 ihs1 ->
    h_pages h = pgs1 ++ pg :: pgs2 ->
    pages_ok h true None (ips1 ++ {| ip_ihw := ihw; ip_items := (a :: items1) ++ i :: items2; ip_pad := pad0 |} :: ips2) ->
    map pg_payload pgs1 = map (fun q => layout (l_format ld) (page_words q) (ip_pad q)) ips1 ->
    Forall gw (w :: rest) -> (pad <= 15)%nat ->
    pg_payload pg = layout (l_format ld) ((ihw :: flat_map item_words (a :: items1)) ++ w :: rest) pad ->
    map strip ps1 = flat_map (render_hbf ld) hbfs1 ++ render_pages ld h 0 pgs1 ->
    strip p = (render_rdh ld h (N.of_nat (length pgs1)) 0 pg, pg_payload pg) ->
    N.of_nat (S (length (flat_map item_words (a :: items1)))) < 65535 ->
    c_off p + 64 + N.of_nat (S (length (flat_map item_words (a :: items1)))) * 16 < 18446744073709551616 ->
    exists sk prev' opened',
      entry (c_rdh p) ihw prev' opened' sk /\ (prev' <> None \/ opened' <> None) /\
      pos_of sk = C07_proofs.wpos (c_off p + 64) (10 + C07_proofs.pad_of (c_rdh p)) (S (length (flat_map item_words (a :: items1)))) /\
      exists out more, run_validator (its_cfg running) (ps1 ++ p :: ps2) = Ok out /\ out = word_msgs (its_cfg running) sk w ++ more.
Proof. exact (c02_insync_link_tdh (conj eq_refl (conj eq_refl eq_refl))). Qed.

(* ... and what w draws there: a TDH-identified word that breaks a TDH rule (reserved bits; neither trigger type nor internal trigger):
   [E40] at the word; where a continuation TDH is due, EVERY word that is no sane TDH: [E40] at the word; after a complete packet or a
   no-data TDH an identifier that is none of TDH / IHW / DDW0: [E990] / [E992] at the word *)
Theorem C02_in_sync_tdh_fault : forall c sk r ihw prev opened w more, entry r ihw prev opened sk -> (prev <> None \/ opened <> None) ->
  nb 9 w = Gen.Facts.tdh_id -> tdh_sanity w <> [] -> has_err (pos_of sk) 40 (word_msgs c sk w ++ more).
Proof. exact insync_tdh_fault. Qed.
Theorem C02_in_sync_no_tdh_where_continuation_is_due : forall c sk r ihw prev o w more, entry r ihw prev (Some o) sk ->
  tdh_sanity w <> [] -> has_err (pos_of sk) 40 (word_msgs c sk w ++ more).
Proof. exact insync_not_a_tdh_in_continuation. Qed.
Theorem C02_in_sync_unknown_identifier_at_choice : forall c sk r ihw p w more, entry r ihw (Some p) None sk ->
  nb 9 w <> Gen.Facts.tdh_id -> nb 9 w <> Gen.Facts.ihw_id -> nb 9 w <> Gen.Facts.ddw0_id ->
  has_err (pos_of sk) 990 (word_msgs c sk w ++ more) \/ has_err (pos_of sk) 992 (word_msgs c sk w ++ more).
Proof. exact (insync_unknown_id_at_choice (conj eq_refl (conj eq_refl eq_refl))). Qed.
(* non-vacuity: the example link of C01; first page of the second heartbeat frame; behind a no-data TDH and a complete trigger packet the
   TDH of the third item is replaced by a TDH-identified word with a reserved bit set; [E40] at byte 4096 + 64 + 6 * 10 *)
Theorem C02_in_sync_tdh_example : forall running ps2, exists sk prev' opened',
  entry (c_rdh ExampleT.pT) C01_its.Example.ihw prev' opened' sk /\ (prev' <> None \/ opened' <> None) /\ pos_of sk = 4096 + 64 + 60 /\
  exists out more, run_validator (its_cfg running) (ExampleT.ps1 ++ ExampleT.pT :: ps2) = Ok out /\
                   out = word_msgs (its_cfg running) sk ExampleT.badtdh ++ more /\ has_err (4096 + 64 + 60) 40 out.
Proof. exact (ExampleT.example_insync_tdh (conj eq_refl (conj eq_refl eq_refl))). Qed.

(* THE IHW POSITION: the first word of a data page.  A link that conforms up to a data page (complete heartbeat frames, the pages of the next
   frame before it -- packets left open across pages included), then a page whose FIRST word is ANY word w, whose second word is a TDH
   (so that the payload is cut as its data format says: finding F12) and whose other words are arbitrary; ANY packets after.  The
   validator reaches w in the state a page starts in, at packet offset + 64, having reported nothing before, and its messages for w
   open the report and are never retracted. *)
Theorem C02_in_sync_ihw_position : forall ld, wf_link_rdh ld = true -> l_system ld = Gen.Facts.its_system_id -> (l_format ld = 0 \/ l_format ld = 2) ->
  forall running hbfs1 ihs1 h hbfs2 pgs1 pg pgs2 ips1 ip ips2 w second tl pad ps1 p ps2,
    l_hbfs ld = hbfs1 ++ h :: hbfs2 -> Forall2 (its_hbf_ok (l_format ld)) hbfs1 ihs1 ->
    h_pages h = pgs1 ++ pg :: pgs2 -> pages_ok h true None (ips1 ++ ip :: ips2) ->
    map pg_payload pgs1 = map (fun q => layout (l_format ld) (page_words q) (ip_pad q)) ips1 ->
    Forall gw (w :: second :: tl) -> W_tdh second -> (pad <= 15)%nat ->
    pg_payload pg = layout (l_format ld) (w :: second :: tl) pad ->
    map strip ps1 = flat_map (render_hbf ld) hbfs1 ++ render_pages ld h 0 pgs1 ->
    strip p = (render_rdh ld h (N.of_nat (length pgs1)) 0 pg, pg_payload pg) ->
    c_off p + 64 + 16 < 18446744073709551616 ->
    exists sk, page_start_fsm (cs_fsm sk) /\ pos_of sk = c_off p + 64 /\
      exists out more, run_validator (its_cfg running) (ps1 ++ p :: ps2) = Ok out /\ out = word_msgs (its_cfg running) sk w ++ more.
Proof. exact (c02_insync_link_ihw (conj eq_refl (conj eq_refl eq_refl))). Qed.
(* what w draws there: where only an IHW can stand EVERY word that is no sane IHW draws [E30]; in a choice state an IHW-identified
   word that breaks an IHW rule draws [E30] (other identifiers: C02_in_sync_unknown_identifier_at_choice's rule, [E990]/[E992]) *)
Theorem C02_in_sync_ihw_fault : forall c sk w more, (cs_fsm sk = S_InitialIHW \/ cs_fsm sk = S_IHW_ByDdw0 \/ cs_fsm sk = S_cIHW) ->
  ihw_sanity w <> [] -> has_err (pos_of sk) 30 (word_msgs c sk w ++ more).
Proof. exact insync_ihw_fault_single. Qed.
Theorem C02_in_sync_ihw_fault_after_packet : forall c sk w more, is_choice_state (cs_fsm sk) = true ->
  nb 9 w = Gen.Facts.ihw_id -> ihw_sanity w <> [] -> has_err (pos_of sk) 30 (word_msgs c sk w ++ more).
Proof. exact insync_ihw_fault_choice. Qed.

(* THE DDW0 POSITION: the only word of the stop page of a heartbeat frame whose data pages conform.  ANY word w there, ANY packets after:
   the validator reaches w in a choice state (a DDW0, a new TDH or an IHW may follow), at packet offset + 64, having reported nothing
   before; its messages for w open the report and are never retracted. *)
Theorem C02_in_sync_ddw0_position : forall ld, wf_link_rdh ld = true -> l_system ld = Gen.Facts.its_system_id -> (l_format ld = 0 \/ l_format ld = 2) ->
  forall running hbfs1 ihs1 h hbfs2 ips w pad ps1 p ps2,
    l_hbfs ld = hbfs1 ++ h :: hbfs2 -> Forall2 (its_hbf_ok (l_format ld)) hbfs1 ihs1 ->
    pages_ok h true None ips -> ips <> [] -> map pg_payload (h_pages h) = map (fun q => layout (l_format ld) (page_words q) (ip_pad q)) ips ->
    gw w -> (pad <= 15)%nat -> pg_payload (h_stop h) = layout (l_format ld) [w] pad ->
    map strip ps1 = flat_map (render_hbf ld) hbfs1 ++ render_pages ld h 0 (h_pages h) ->
    strip p = (render_rdh ld h (N.of_nat (length (h_pages h))) 1 (h_stop h), pg_payload (h_stop h)) ->
    c_off p + 64 + 16 < 18446744073709551616 ->
    exists sk, is_choice_state (cs_fsm sk) = true /\ pos_of sk = c_off p + 64 /\
      exists out more, run_validator (its_cfg running) (ps1 ++ p :: ps2) = Ok out /\ out = word_msgs (its_cfg running) sk w ++ more.
Proof. exact (c02_insync_link_ddw0 (conj eq_refl (conj eq_refl eq_refl))). Qed.
(* what w draws there: a DDW0-identified word that breaks a DDW0 rule: [E60]; an identifier that is none of TDH / IHW / DDW0: [E990]/[E992] *)
Theorem C02_in_sync_ddw0_fault : forall c sk w more, is_choice_state (cs_fsm sk) = true ->
  nb 9 w = Gen.Facts.ddw0_id -> ddw0_sanity w <> [] -> has_err (pos_of sk) 60 (word_msgs c sk w ++ more).
Proof. exact insync_ddw0_fault. Qed.
Theorem C02_in_sync_unknown_identifier_in_choice_state : forall c sk w more, is_choice_state (cs_fsm sk) = true ->
  nb 9 w <> Gen.Facts.tdh_id -> nb 9 w <> Gen.Facts.ihw_id -> nb 9 w <> Gen.Facts.ddw0_id ->
  has_err (pos_of sk) 990 (word_msgs c sk w ++ more) \/ has_err (pos_of sk) 992 (word_msgs c sk w ++ more).
Proof. exact (insync_unknown_id_choice_state (conj eq_refl (conj eq_refl eq_refl))). Qed.

(* THE FIRST TDH OF A PAGE: the word right behind the IHW of any data page of a conforming link.  ANY word w there (in data format 2: not
   starting with six zero bytes -- such a word makes the tool cut the payload in 16-byte slots, finding F12), ANY words behind, ANY packets
   after: w is judged where only a TDH can stand (the state after an IHW, or after the IHW of a page that continues a packet), at packet
   offset + 64 + one slot; EVERY word that is no sane TDH draws [E40] there.  With this every word position of a conforming ITS link is
   covered: IHW, first TDH, further TDHs, data words / TDT, DDW0. *)
Theorem C02_in_sync_first_tdh_position : forall ld, wf_link_rdh ld = true -> l_system ld = Gen.Facts.its_system_id -> (l_format ld = 0 \/ l_format ld = 2) ->
  forall running hbfs1 ihs1 h hbfs2 pgs1 pg pgs2 ips1 ip ips2 ihw w rest pad ps1 p ps2,
    l_hbfs ld = hbfs1 ++ h :: hbfs2 -> Forall2 (its_hbf_ok (l_format ld)) hbfs1 ihs1 ->
    h_pages h = pgs1 ++ pg :: pgs2 -> pages_ok h true None (ips1 ++ ip :: ips2) ->
    map pg_payload pgs1 = map (fun q => layout (l_format ld) (page_words q) (ip_pad q)) ips1 ->
    W_ihw ihw -> Forall gw (w :: rest) -> (l_format ld = 0 \/ not_six_zeros w) -> (pad <= 15)%nat ->
    pg_payload pg = layout (l_format ld) (ihw :: w :: rest) pad ->
    map strip ps1 = flat_map (render_hbf ld) hbfs1 ++ render_pages ld h 0 pgs1 ->
    strip p = (render_rdh ld h (N.of_nat (length pgs1)) 0 pg, pg_payload pg) ->
    c_off p + 64 + 2 * 16 < 18446744073709551616 ->
    exists sk, (cs_fsm sk = S_cTDH \/ cs_fsm sk = S_TDH_ByIhw) /\
      pos_of sk = C07_proofs.wpos (c_off p + 64) (10 + C07_proofs.pad_of (c_rdh p)) 1 /\
      exists out more, run_validator (its_cfg running) (ps1 ++ p :: ps2) = Ok out /\ out = word_msgs (its_cfg running) sk w ++ more.
Proof. exact (c02_insync_link_first_tdh (conj eq_refl (conj eq_refl eq_refl))). Qed.
Theorem C02_in_sync_first_tdh_fault : forall c sk w more, (cs_fsm sk = S_cTDH \/ cs_fsm sk = S_TDH_ByIhw) ->
  tdh_sanity w <> [] -> has_err (pos_of sk) 40 (word_msgs c sk w ++ more).
Proof. exact insync_first_tdh_fault. Qed.

(* FROM THE VALIDATOR TO THE END OF THE RUN.  The detection theorems above are about one validator's pass.  For ONE WHOLE `check` RUN
   on a well-framed input (any number of units, any interleaving, any filter, any display option; provisos as in C05_whole_run): every
   error message a unit's validator emits in its pass over the unit's packets is stored in the final state of the run -- at ITS
   offset, with ITS code --, the error total is positive, and a configured any-errors exit code N is the exit status.  With
   C02_in_sync_position / _tdt_fault / _unknown_identifier (which message the pass emits, and where) this is detection end to end. *)
Theorem C02_whole_run_reported : forall c pkts ff s shown ex id ms e,
  Forall wf_pkt pkts -> N.of_nat (length pkts) < U32_MAX -> pay_all pkts < U32_MAX ->
  (forall p, In p pkts -> layout_rp (hdr p) (p_payload p)) ->
  (forall p r, pkts = p :: r -> known_sysid (r_system_id (hdr p)) = true) ->
  let cdps := map (mk_cdp (rc_scan c)) (selected (rc_scan c) 0 pkts) in
  run_check ff c (serialize pkts) = R_done s shown ex ->
  sel (rc_check c) id cdps <> [] -> run_validator (rc_check c) (sel (rc_check c) id cdps) = Ok ms -> In (VErr e) ms ->
  In (stored e) (k_errors s) /\ 0 < k_total s /\ (forall n, rc_exit c = Some n -> n <> 0 -> ex = n).
Proof.
  exact (fun c pkts ff s shown ex id ms e H1 H2 H3 H4 H5 =>
           c02_reported c pkts (eq_refl : Gen.Facts.cdp_offset_sampled_after = true) (eq_refl : Gen.Facts.error_sort_when_muted = true)
                        H1 H2 H3 (or_intror H4) H5 ff s shown ex id ms e).
Qed.

(* ... in the vocabulary of the detection theorems (`has_err off code` in the validator's report): what C02_in_sync_* / C02_*_rules establish
   for a unit's pass is in the final report of the whole run, at that offset with that code, and decides the exit status *)
Theorem C02_end_to_end : forall c pkts ff s shown ex id ms off code,
  Forall wf_pkt pkts -> N.of_nat (length pkts) < U32_MAX -> pay_all pkts < U32_MAX ->
  (sc_skip (rc_scan c) = true \/ forall p, In p pkts -> layout_rp (hdr p) (p_payload p)) ->
  (forall p r, pkts = p :: r -> known_sysid (r_system_id (hdr p)) = true) ->
  run_check ff c (serialize pkts) = R_done s shown ex ->
  sel (rc_check c) id (map (mk_cdp (rc_scan c)) (selected (rc_scan c) 0 pkts)) <> [] ->
  run_validator (rc_check c) (sel (rc_check c) id (map (mk_cdp (rc_scan c)) (selected (rc_scan c) 0 pkts))) = Ok ms ->
  has_err off code ms ->
  (exists m, In m (k_errors s) /\ m_off m = off /\ m_body m = code) /\ 0 < k_total s /\ (forall n, rc_exit c = Some n -> n <> 0 -> ex = n).
Proof.
  exact (fun c pkts ff s shown ex id ms off code H1 H2 H3 H4 H5 =>
           c02_end_to_end c pkts (eq_refl : Gen.Facts.cdp_offset_sampled_after = true) (eq_refl : Gen.Facts.error_sort_when_muted = true)
                          H1 H2 H3 H4 H5 ff s shown ex id ms off code).
Qed.

(* end to end on bytes: the example link of C02_in_sync_tdh_example, its RDHs encoded, as ONE input of 616 bytes; `check all its -E 9`: the
   faulty TDH-identified word (6th word of the 5th packet, which starts at byte 470) is reported as [E40] at 470 + 64 + 60 = 594, the
   arbitrary word behind it at 604, and the exit status is 9 *)
Definition e2e_pkts : list packet := map (fun c => {| p_hdr := encode_rdh (c_rdh c); p_payload := c_payload c |}) (ExampleT.ps1 ++ [ExampleT.pT]).
Definition e2e_cfg : run_cfg :=
  {| rc_scan := {| sc_filter := None; sc_skip := false; sc_src := Src_file |}; rc_check := its_cfg true;
     rc_mute := false; rc_cap := 0; rc_filter := None; rc_exit := Some 9; rc_counts := {| cc_cdps := None; cc_pht := None |} |}.
Definition view_run (r : run_result) : list (N * N) * N :=
  match r with R_done s _ e => (map (fun m => (m_off m, m_body m)) (k_errors s), e) | _ => ([], 255) end.
Example C02_end_to_end_example :
  length (serialize e2e_pkts) = 616%nat /\ view_run (run_check true e2e_cfg (serialize e2e_pkts)) = ([(594, 40); (604, 991); (604, 70)], 9).
Proof. split; vm_compute; reflexivity. Qed.

Print Assumptions C02_rdh_sanity_reported.
Print Assumptions C02_rdh_running_reported.
Print Assumptions C02_running_not_in_sanity.
Print Assumptions C02_messages_never_retracted.
Print Assumptions C02_reported_in_run.
Print Assumptions C02_padding_limit.
Print Assumptions C02_ihw_rules.
Print Assumptions C02_tdh_rules.
Print Assumptions C02_every_word_is_judged.
Print Assumptions C02_tdt_rules.
Print Assumptions C02_ddw0_rules.
Print Assumptions C02_unrecognised_identifier.
Print Assumptions C02_ddw0_page_rules.
Print Assumptions C02_ihw_stop_bit.
Print Assumptions C02_tdh_must_continue.
Print Assumptions C02_tdh_must_not_continue_after_ihw.
Print Assumptions C02_tdh_must_not_continue_after_complete_packet.
Print Assumptions C02_cdw_layout.
Print Assumptions C02_cdw_rule.
Print Assumptions C02_cdw_elsewhere_is_invalid_data.
Print Assumptions C02_in_sync_position.
Print Assumptions C02_in_sync_tdt_fault.
Print Assumptions C02_in_sync_unknown_identifier.
Print Assumptions C02_in_sync_example.
Print Assumptions C02_exit.
Print Assumptions C02_whole_run_reported.
Print Assumptions C02_in_sync_tdh_position.
Print Assumptions C02_in_sync_tdh_fault.
Print Assumptions C02_in_sync_no_tdh_where_continuation_is_due.
Print Assumptions C02_in_sync_unknown_identifier_at_choice.
Print Assumptions C02_in_sync_tdh_example.
Print Assumptions C02_in_sync_ihw_position.
Print Assumptions C02_in_sync_ihw_fault.
Print Assumptions C02_in_sync_ihw_fault_after_packet.
Print Assumptions C02_in_sync_ddw0_position.
Print Assumptions C02_in_sync_ddw0_fault.
Print Assumptions C02_in_sync_unknown_identifier_in_choice_state.
Print Assumptions C02_end_to_end.
Print Assumptions C02_in_sync_first_tdh_position.
Print Assumptions C02_in_sync_first_tdh_fault.
Print Assumptions C02_end_to_end_example.
