(* C13 -- Stave-level ALPIDE frame checks are exact and ignore hit content.  Property theorems only. *)
From Coq Require Import List NArith Bool.
From FP Require Import Model.Base Model.ItsWords Model.Alpide Model.CdpRunning Spec.AlpideEnc Proofs.C13_lane Proofs.C13_frame.
From FP Require Import Proofs.C13_fatal.
From FP Require Gen.Facts.
Import ListNotations.
Open Scope N_scope.

(* The byte-wise decoder applied to ANY lane produced by the independent encoder (any chips, bunch counters, trailer flags, any number
   of region headers, short and long hits with arbitrary second and third bytes, busy on/off and other one-byte words anywhere
   between words, idle bytes between chips, fatal extensions) ends at a word boundary outside a chip and has kept exactly the
   skeleton of the lane: chips with their bunch counters in first-seen order, "a chip came twice", "fatal", the readout-flag
   counters of the trailers. *)
Theorem C13_decoder_recovers_skeleton : forall items, forallb item_wf items = true ->
  at_word false (lane_run (encode_lane items)) /\ abs_of (lane_run (encode_lane items)) = lane_summary items.
Proof. exact lane_decode_encode. Qed.

(* hence two lanes that differ only in hit content, regions, filler and idle bytes are indistinguishable for every later check *)
Theorem C13_hits_irrelevant : forall i1 i2, forallb item_wf i1 = true -> forallb item_wf i2 = true -> skeleton i1 = skeleton i2 ->
  abs_of (lane_run (encode_lane i1)) = abs_of (lane_run (encode_lane i2)) /\
  ls_unreachable (lane_run (encode_lane i1)) = false /\ ls_unreachable (lane_run (encode_lane i2)) = false.
Proof. exact lane_hits_irrelevant. Qed.

Theorem C13_lane_checks_see_skeleton_only : forall ly ln cc co s1 s2, abs_of s1 = abs_of s2 ->
  lane_checks ly ln cc co s1 = lane_checks ly ln cc co s2.
Proof. exact lane_checks_abs. Qed.

(* the zero padding of the last data word of a lane changes nothing *)
Theorem C13_trailing_padding : forall items n, forallb item_wf items = true ->
  abs_of (lane_run (encode_lane items ++ repeat 0 n)) = lane_summary items.
Proof. exact lane_trailing_padding. Qed.

(* ... nor do the verdict of the whole frame and its readout-flag counters *)
Theorem C13_frame_hits_irrelevant : forall ly cc co st L1 L2 fatal, Forall2 same_skeletons L1 L2 ->
  check_frame ly cc co {| fr_start := st; fr_lanes := enc_lanes L1 |} = check_frame ly cc co {| fr_start := st; fr_lanes := enc_lanes L2 |} /\
  frame_lanes_valid ly {| fr_start := st; fr_lanes := enc_lanes L1 |} fatal = frame_lanes_valid ly {| fr_start := st; fr_lanes := enc_lanes L2 |} fatal.
Proof. exact frame_hits_irrelevant. Qed.

Theorem C13_flags_are_trailer_counts : forall items, forallb item_wf items = true ->
  ls_flags (lane_run (encode_lane items)) = fold_left rflags_log (trailers_of items) rflags_zero.
Proof. exact lane_flags_are_trailer_counts. Qed.

(* lane data: the bytes of a lane are the concatenation of the 9 data bytes of its words, however the words of the lanes are
   interleaved and wherever packets end (the open frame is carried from packet to packet) *)
Theorem C13_lane_bytes : forall ws acc id, lookup (store_all ws acc) id = lookup acc id ++ lane_bytes ws id.
Proof. exact store_all_lookup. Qed.

(* a lane passes exactly when no documented lane rule is broken (all chips one bunch counter; inner barrel: one chip whose id is
   the lane; outer barrels: the configured chip count and one of the configured chip orders; no chip twice) ... *)
Theorem C13_lane_ok_iff : forall ly ln cc co s, ls_fatal s = false -> ls_chips s <> [] ->
  ((exists bc, lane_checks ly ln cc co s = Ok (LO_ok bc)) <-> ~ lane_bad ly ln cc co s) /\
  (forall bc, lane_checks ly ln cc co s = Ok (LO_ok bc) -> forall c, In c (ls_chips s) -> snd c = bc).
Proof. exact lane_ok_iff. Qed.
(* ... and otherwise names exactly the broken rules *)
Theorem C13_lane_errors_iff : forall ly ln cc co s a b c d, ls_fatal s = false -> ls_chips s <> [] ->
  lane_checks ly ln cc co s = Ok (LO_errors a b c d) ->
  (a = true <-> chips_disagree (ls_chips s)) /\ (b = true <-> bad_count ly cc (map fst (ls_chips s))) /\
  (c = true <-> (~ bad_count ly cc (map fst (ls_chips s)) /\ bad_order ly ln co (map fst (ls_chips s)))) /\ d = ls_bc_already_set s.
Proof. exact lane_errors_iff. Qed.

(* the verdict of a closed frame with data, for EVERY frame whose lanes are analysed without a crash: messages only at the frame's
   start offset; [E72]/[E73] iff the lane-count / grouping rule fails against the lanes that announced FATAL in EARLIER frames;
   [E74]/[E75] iff a lane breaks a lane rule or two valid lanes disagree on the bunch counter; the readout-flag counters of all
   lanes are forwarded; lanes announced in this frame are known from the next one on, each once.
   The proof term type-checks only for a validator that evaluates the lane rule before extending its list and keeps the list
   duplicate-free (Gen.Facts, re-read from readout_frame.rs). *)
Theorem C13_frame_verdict : forall c s rf fr ly, rf_frame rf = Some fr -> fr_lanes fr <> [] -> rf_layer rf = Some ly ->
  Forall (lane_total ly (v_chip_count c) (v_chip_orders c)) (fr_lanes fr) ->
  N.of_nat (length (fr_lanes fr)) + N.of_nat (length (known_of (rf_fatal_lanes rf))) < 18446744073709551616 ->
  exists s' m1 m3,
    process_readout_frame c s rf = Ok (s', m1 ++ [VStats (flags_of (fr_lanes fr) rflags_zero)] ++ m3) /\
    (m1 = [] <-> lanes_rule ly (map fst (fr_lanes fr)) (known_of (rf_fatal_lanes rf))) /\
    (forall m, In m m1 -> exists k, m = VErr (mk_err_t (fr_start fr) (frame_code ly false) [k])) /\
    (m3 = [] <-> ~ frame_lane_error ly (v_chip_count c) (v_chip_orders c) (fr_lanes fr)) /\
    (forall m, In m m3 -> exists t, m = VErr (mk_err_t (fr_start fr) (frame_code ly true) t)) /\
    (exists rf', cs_rfv s' = Some rf' /\ rf_frame rf' = None /\ rf_in_frame rf' = false /\
                 rf_fatal_lanes rf' = add_fatal_lanes true (rf_fatal_lanes rf) (fatal_of ly (v_chip_count c) (v_chip_orders c) (fr_lanes fr))).
Proof. exact (c13_process_frame_when Gen.Facts.fatal_lanes_added_after_lane_check Gen.Facts.fatal_lanes_deduplicated
               Gen.Facts.fatal_lane_beyond_barrel_is_ignored eq_refl eq_refl eq_refl eq_refl eq_refl). Qed.

(* the hypothesis of C13_frame_verdict holds for every encoded lane that has a chip or a fatal word *)
Theorem C13_encoded_lanes_are_total : forall ly cc co id items, forallb item_wf items = true ->
  (la_fatal (lane_summary items) = true \/ la_chips (lane_summary items) <> []) -> lane_total ly cc co (id, encode_lane items).
Proof. exact encoded_lane_total. Qed.

(* the lane-count rule as computed = the documented rule *)
Theorem C13_lane_count_rule : forall ly fr fatal,
  let f := match fatal with Some f => f | None => [] end in
  N.of_nat (length (fr_lanes fr)) + N.of_nat (length f) < 18446744073709551616 ->
  exists r, frame_lanes_valid ly fr fatal = Ok r /\ (r = None <-> lanes_rule ly (map fst (fr_lanes fr)) f).
Proof. exact (frame_lanes_valid_iff_when Gen.Facts.fatal_lane_beyond_barrel_is_ignored eq_refl eq_refl). Qed.

(* the behaviour of the pinned commit (defects F10, F9), as witnesses *)
Theorem C13_refuted_announcing_frame :
  let fr := {| fr_start := 100; fr_lanes := [(32, [160; 5; 176]); (33, [244]); (34, [162; 5; 176])] |} in
  lanes_rule L_Inner (map fst (fr_lanes fr)) [] /\ frame_lanes_valid L_Inner fr (add_fatal_lanes false None [1]) = Ok (Some 1).
Proof. exact c13_refuted_announcing_frame. Qed.
Theorem C13_refuted_double_announcement :
  let fr := {| fr_start := 100; fr_lanes := [(32, [160; 5; 176]); (34, [162; 5; 176])] |} in
  lanes_rule L_Inner (map fst (fr_lanes fr)) [1] /\
  frame_lanes_valid L_Inner fr (add_fatal_lanes false (Some [1]) [1]) = Ok (Some 1) /\
  frame_lanes_valid L_Inner fr (add_fatal_lanes true (Some [1]) [1]) = Ok None.
Proof. exact c13_refuted_double_announcement. Qed.

(* the list of lanes in FATAL state is a SET over any sequence of frames: no lane twice, exactly the lanes that announced -- in
   whatever order and however often (lane A, lane B, lane A again); instantiated with the fact re-read from add_fatal_lanes *)
Theorem C13_fatal_lanes_form_a_set : forall news : list (list N),
  let final := fold_left (add_fatal_lanes Gen.Facts.fatal_lanes_deduplicated) news None in
  NoDup (known_of final) /\ forall y, In y (known_of final) <-> exists n, In n news /\ In y n.
Proof. exact (fatal_lanes_after_frames_when Gen.Facts.fatal_lanes_deduplicated eq_refl eq_refl). Qed.
(* a list that only drops consecutive repeats keeps [3; 4; 3] *)
Theorem C13_refuted_consecutive_dedup :
  dedup_consecutive (dedup_consecutive (dedup_consecutive [3] ++ [4]) ++ [3]) = [3; 4; 3] /\
  known_of (fold_left (add_fatal_lanes true) [[3]; [4]; [3]] None) = [3; 4].
Proof. exact refuted_consecutive_dedup. Qed.

(* the behaviour of the pinned commit for a fatal lane number that is no inner barrel lane (defect F17): a crash; now: ignored *)
Theorem C13_refuted_fatal_lane_beyond_barrel :
  inner_groupings_gen false [0; 1] [9] = Panic SITE_fatal_lane_number /\ inner_groupings_gen true [0; 1] [9] = Ok (Some 2) /\
  inner_groupings_gen true [0; 2] [9; 1] = Ok None.
Proof. exact c13_refuted_fatal_lane_beyond_barrel. Qed.

Print Assumptions C13_decoder_recovers_skeleton.
Print Assumptions C13_hits_irrelevant.
Print Assumptions C13_lane_checks_see_skeleton_only.
Print Assumptions C13_trailing_padding.
Print Assumptions C13_frame_hits_irrelevant.
Print Assumptions C13_flags_are_trailer_counts.
Print Assumptions C13_lane_bytes.
Print Assumptions C13_lane_ok_iff.
Print Assumptions C13_lane_errors_iff.
Print Assumptions C13_frame_verdict.
Print Assumptions C13_encoded_lanes_are_total.
Print Assumptions C13_lane_count_rule.
Print Assumptions C13_refuted_announcing_frame.
Print Assumptions C13_refuted_double_announcement.
Print Assumptions C13_refuted_fatal_lane_beyond_barrel.
Print Assumptions C13_fatal_lanes_form_a_set.
Print Assumptions C13_refuted_consecutive_dedup.
