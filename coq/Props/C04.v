(* C04 -- No input crashes or hangs the tool.  Property theorems only (the sequential core; partial, see DESIGN.md C04).
   Proved: the validator of every mode except `check all its-stave` has no reachable panic site, for EVERY packet list; the
   `unreachable_unchecked` hint of the ALPIDE decoder is never reached for ANY byte sequence; the three panic sites of the
   stave-level code: a data word outside a frame and a lane without a chip are handled (repaired findings F5, F8; regenerated facts),
   the invalid-layer site is reached exactly for layer 7 (recorded finding F6); the exit status is 0, 1
   or the configured one.  Not proved here: termination / linear step count of the scanner on arbitrary bytes (C03 / C18 prove
   it for well-framed and truncated inputs), memory safety of the unsafe blocks, thread behaviour (C17). *)
From Coq Require Import List NArith Bool.
From FP Require Import Model.Base Model.Rdh Model.Alpide Model.CdpRunning Model.Scanner Model.Link Model.Collector Proofs.C04_proofs.
From FP Require Gen.Facts.
Import ListNotations.
Open Scope N_scope.

Theorem C04_no_panic_without_stave_target : forall c ps, v_target c <> T_stave -> exists m, run_validator c ps = Ok m.
Proof. exact c04_no_panic_without_stave. Qed.

Theorem C04_unreachable_hint_never_reached : forall bytes, ls_unreachable (lane_run bytes) = false.
Proof. exact c04_unreachable_never. Qed.
Theorem C04_no_byte_decodes_to_padding : forall b, aword_of_byte b <> AW_ApePadding.
Proof. exact aword_never_padding. Qed.

(* the remaining site and exactly when it is reached (recorded finding F6) *)
Theorem C04_site_invalid_layer : forall fee, layer_of_feeid fee = Panic SITE_stave_from_feeid <-> 6 < layer_from_feeid fee.
Proof. exact c04_site_layer7. Qed.
Theorem C04_data_word_outside_frame_no_panic : forall s w, exists s1, store_data s w = Ok s1.
Proof. exact (c04_no_frame_when Gen.Facts.data_word_without_frame_is_ignored eq_refl eq_refl). Qed.
Theorem C04_lane_without_chip_no_panic : forall ly ln cc co s, exists o, lane_checks ly ln cc co s = Ok o.
Proof. exact (c04_no_chip_when Gen.Facts.lane_without_chip_is_reported eq_refl eq_refl). Qed.

Theorem C04_exit_range : forall aee r flag,
  exit_code aee r flag = 0 \/ exit_code aee r flag = 1 \/ exists n, aee = Some n /\ exit_code aee r flag = n.
Proof. exact c04_exit_range. Qed.

Print Assumptions C04_no_panic_without_stave_target.
Print Assumptions C04_unreachable_hint_never_reached.
Print Assumptions C04_no_byte_decodes_to_padding.
Print Assumptions C04_site_invalid_layer.
Print Assumptions C04_data_word_outside_frame_no_panic.
Print Assumptions C04_lane_without_chip_no_panic.
Print Assumptions C04_exit_range.
