(* C04 -- No input crashes or hangs the tool.  Property theorems only (the sequential core; partial, see DESIGN.md C04).
   Proved: the validator of every mode except `check all its-stave` has no reachable panic site, for EVERY packet list; the
   `unreachable_unchecked` hint of the ALPIDE decoder is never reached for ANY byte sequence; the three panic sites of the
   stave-level code: a data word outside a frame, a lane without a chip and a fatal lane number that is no inner barrel lane are
   handled (repaired findings F5, F8, F17; regenerated facts), the invalid-layer site is reached exactly for layer 7 (recorded
   finding F6) and it is the ONLY site any validator can reach, in any mode, for every packet list; the exit status is 0, 1
   or the configured one.  Not proved here: termination / linear step count of the scanner on arbitrary bytes (C03 / C18 prove
   it for well-framed and truncated inputs), memory safety of the unsafe blocks, thread behaviour (C17). *)
From Coq Require Import List NArith Bool.
From FP Require Import Model.Base Model.Rdh Model.Alpide Model.CdpRunning Model.Scanner Model.Link Model.Collector Model.System Model.Views Proofs.C04_proofs Proofs.C04_stave Proofs.C04_system Proofs.C04_views Proofs.C04_scanner.
From FP Require Gen.Facts.
Import ListNotations.
Open Scope N_scope.

Theorem C04_no_panic_without_stave_target : forall c ps, v_target c <> T_stave -> exists m, run_validator c ps = Ok m.
Proof. exact c04_no_panic_without_stave. Qed.

Theorem C04_unreachable_hint_never_reached : forall bytes, ls_unreachable (lane_run bytes) = false.
Proof. exact c04_unreachable_never. Qed.
Theorem C04_no_byte_decodes_to_padding : forall b, aword_of_byte b <> AW_ApePadding.
Proof. exact aword_never_padding. Qed.

(* the remaining site and exactly when it is reached (recorded finding F6) *)
Theorem C04_site_invalid_layer : forall fee, layer_of_feeid fee = Panic SITE_stave_from_feeid <-> 6 < layer_from_feeid fee.
Proof. exact c04_site_layer7. Qed.
Theorem C04_data_word_outside_frame_no_panic : forall s w, exists s1, store_data s w = Ok s1.
Proof. exact (c04_no_frame_when Gen.Facts.data_word_without_frame_is_ignored eq_refl eq_refl). Qed.
Theorem C04_lane_without_chip_no_panic : forall ly ln cc co s, exists o, lane_checks ly ln cc co s = Ok o.
Proof. exact (c04_no_chip_when Gen.Facts.lane_without_chip_is_reported eq_refl eq_refl). Qed.

Theorem C04_fatal_lane_beyond_barrel_no_panic : forall ids fatal, exists r, inner_groupings ids fatal = Ok r.
Proof. exact (inner_groupings_ok (conj eq_refl (conj eq_refl eq_refl))). Qed.
(* the pinned commit (finding F17, repaired): lane number 9 known as fatal and a frame with the matching lane count crashed *)
Theorem C04_refuted_fatal_lane_beyond_barrel : inner_groupings_gen false [0; 1] [9] = Panic SITE_fatal_lane_number.
Proof. reflexivity. Qed.

(* every mode (also `check all its-stave`), every configuration, every packet list: a validator runs through, or it stops at the
   invalid-layer site and some packet of the list names layer 7 *)
Theorem C04_only_invalid_layer_site_reachable : forall c ps,
  (exists m, run_validator c ps = Ok m) \/
  (run_validator c ps = Panic SITE_stave_from_feeid /\ exists p, In p ps /\ 6 < layer_from_feeid (r_fee_id (c_rdh p))).
Proof. exact (c04_only_layer_site (conj eq_refl (conj eq_refl eq_refl))). Qed.
Theorem C04_no_panic_with_valid_layers : forall c ps,
  (forall p, In p ps -> layer_from_feeid (r_fee_id (c_rdh p)) <= 6) -> exists m, run_validator c ps = Ok m.
Proof. exact (c04_no_panic_valid_layers (conj eq_refl (conj eq_refl eq_refl))). Qed.

(* the whole `check` run (scanner, dispatcher, every validator, collector), every input and configuration: a validator crash is
   possible only at the invalid-layer site and only when a scanned packet names layer 7 (F6); otherwise the run is refused
   (too short / unrecognised first RDH0) or ends with exit status 0, 1 or the configured one *)
Theorem C04_whole_run_panics_only_for_layer_7 : forall ff c input p, run_check ff c input = R_panic p ->
  p = SITE_stave_from_feeid /\
  exists q, In q (concat (so_batches (scan_impl (rc_scan c) input))) /\ 6 < layer_from_feeid (r_fee_id (c_rdh q)).
Proof. exact (c04_run_check_panic (conj eq_refl (conj eq_refl eq_refl))). Qed.
Theorem C04_whole_run_outcomes : forall ff c input,
  (forall q, In q (concat (so_batches (scan_impl (rc_scan c) input))) -> layer_from_feeid (r_fee_id (c_rdh q)) <= 6) ->
  run_check ff c input = R_too_short \/ run_check ff c input = R_unrecognised \/
  exists s shown e, run_check ff c input = R_done s shown e /\ (e = 0 \/ e = 1 \/ rc_exit c = Some e).
Proof. exact (c04_run_check_total (conj eq_refl (conj eq_refl eq_refl))). Qed.

(* the frame views: the same site, reached exactly when the view comes to a packet of layer 7 (F6: the class of the recorded
   finding is `some packet of the batch names layer 7`, and it is not empty); any other batch ends normally or with the payload error *)
Theorem C04_frame_view_panics_only_for_layer_7 : forall dv batch rows s, view_frames dv batch = (rows, VE_panic s) ->
  s = SITE_view_stave_from_feeid /\ exists c, In c batch /\ 6 < layer_from_feeid (r_fee_id (c_rdh c)).
Proof. exact c04_view_frames_panic. Qed.
Theorem C04_frame_view_outcomes : forall dv batch, (forall c, In c batch -> layer_from_feeid (r_fee_id (c_rdh c)) <= 6) ->
  exists rows, view_frames dv batch = (rows, VE_done) \/ exists off, view_frames dv batch = (rows, VE_payload_error off).
Proof. exact c04_view_frames_total. Qed.
Theorem C04_known_finding_layer_7_witness : forall dv c rest, 6 < layer_from_feeid (r_fee_id (c_rdh c)) ->
  view_frames dv (c :: rest) = ([], VE_panic SITE_view_stave_from_feeid).
Proof. exact c04_view_layer7_panics. Qed.

(* the reader on ARBITRARY bytes, every configuration (file / pipe, any filter, payloads skipped or read): its loop ends by itself --
   normally or with the input error -- within length/64 + 2 rounds (the fuel of the model is that number and is never exhausted), and
   hands on at most length/64 packets: every round that goes on has consumed the 64 bytes of an RDH *)
Theorem C04_scanner_terminates_on_every_input : forall oa keep c input, so_end (scan oa keep c input) <> End_fuel.
Proof. exact c04_scan_terminates. Qed.
Theorem C04_scanner_packet_bound : forall oa c input,
  (length (snd (fst (scan_flat oa (scan_fuel input) c (sinit input)))) * 64 <= length input)%nat.
Proof. exact c04_scan_packet_bound. Qed.

Theorem C04_exit_range : forall aee r flag,
  exit_code aee r flag = 0 \/ exit_code aee r flag = 1 \/ exists n, aee = Some n /\ exit_code aee r flag = n.
Proof. exact c04_exit_range. Qed.

(* the text form of a message's leading offset: every message-producing site prints it as 0x + UPPER-case hexadecimal (`:#X`), which is
   exactly what the collector's sort parses back (^0x[0-9A-F]+, radix 16, panicking on anything else) -- so the numeric field m_off of the
   model IS the number a reader sees and the sort key the code uses, and no message can abort the statistics thread at the end of a run
   (fact re-read from analyze/validators/**, the reader crate and error_stats.rs on every run; seed C04-J: one site printed with `:#x`) *)
Theorem C04_offsets_printed_as_parsed : Gen.Facts.error_offsets_upper_hex = true.
Proof. exact eq_refl. Qed.

Print Assumptions C04_no_panic_without_stave_target.
Print Assumptions C04_unreachable_hint_never_reached.
Print Assumptions C04_no_byte_decodes_to_padding.
Print Assumptions C04_site_invalid_layer.
Print Assumptions C04_data_word_outside_frame_no_panic.
Print Assumptions C04_lane_without_chip_no_panic.
Print Assumptions C04_fatal_lane_beyond_barrel_no_panic.
Print Assumptions C04_refuted_fatal_lane_beyond_barrel.
Print Assumptions C04_only_invalid_layer_site_reachable.
Print Assumptions C04_no_panic_with_valid_layers.
Print Assumptions C04_whole_run_panics_only_for_layer_7.
Print Assumptions C04_whole_run_outcomes.
Print Assumptions C04_frame_view_panics_only_for_layer_7.
Print Assumptions C04_frame_view_outcomes.
Print Assumptions C04_known_finding_layer_7_witness.
Print Assumptions C04_scanner_terminates_on_every_input.
Print Assumptions C04_scanner_packet_bound.
Print Assumptions C04_exit_range.
Print Assumptions C04_offsets_printed_as_parsed.
