(* C07 -- Reported offsets and quoted bytes are truthful.  Property theorems only. *)
From Coq Require Import List NArith.
From FP Require Import Model.Base Model.Rdh Model.Payload Model.Scanner Model.CdpRunning Model.Link Model.Collector Model.System Spec.Framing Spec.GroundTruth
  Proofs.C03_proofs Proofs.C07_proofs Proofs.C07_run Proofs.C14_proofs Proofs.C05_run.
From FP Require Gen.Facts.
Import ListNotations.
Open Scope N_scope.

(* For EVERY packet (arbitrary header and payload contents, also corrupted), every validator state
   it may be met in and every check configuration: each message emitted while the packet's payload
   is checked
     - either quotes a word: then the quoted bytes are exactly the j-th word handed to the checker
       and the leading offset is packet offset + 64 + j * slot, slot = 10 or 16 as the HEADER's data
       format says (the property's proviso: the payload layout agrees with the header's format);
     - or quotes nothing: then its leading offset is such a word position of this packet, or the
       position of the TDH that opened the readout frame being closed (an offset for which Q holds:
       Q is any predicate closed under "word position of a packet of this link").
   j < number of words; nothing is ever located elsewhere. *)
Theorem C07_packet : forall c (Q : N -> Prop) s r payload pos s' ms ws,
  do_payload_checks c s r payload pos = Ok (s', ms) ->
  words_of payload = Some ws ->
  N.of_nat (length ws) < 65535 -> pos + 64 + N.of_nat (length ws) * 16 < 18446744073709551616 ->
  (forall x, frame_start s = Some x -> Q x) ->
  (forall j, (j < length ws)%nat -> Q (wpos (pos + 64) (10 + pad_of r) j)) ->
  Forall (fun m => exists j, (j < length ws)%nat /\ msg_okQ Q (wpos (pos + 64) (10 + pad_of r) j) (nth j ws []) m) ms /\
  (forall x, frame_start s' = Some x -> Q x).
Proof. exact c07_packet. Qed.

(* the j-th word handed to the checker is the 10 bytes of the payload at j * (detected slot):
   with the layout proviso (detected slot = header slot) these are the bytes at the reported offset *)
Theorem C07_quoted_bytes : forall p ws j, words_of p = Some ws -> (j < length ws)%nat ->
  nth j ws [] = take 10 (drop (j * slot_of p) p) /\ (j * slot_of p + 10 <= length p)%nat.
Proof. exact words_of_nth. Qed.

(* RDH-level messages ([E10]/[E11]) carry the packet's own offset; everything else reported for
   the packet comes from the payload check above *)
Theorem C07_rdh_messages : forall c s p s' ms, link_step c s p = Ok (s', ms) ->
  exists mr mp, ms = mr ++ mp /\
    (forall m, In m mr -> exists code tags, (code = 10 \/ code = 11) /\ m = rdh_err (c_off p) code tags) /\
    (mp = [] \/ exists cs, do_payload_checks c (lk_cdp s) (c_rdh p) (c_payload p) (c_off p) = Ok (cs, mp)).
Proof. exact link_step_msgs. Qed.

(* one word: location, quotation and what the open-frame start may become *)
Theorem C07_word : forall c s0 w s' ms, cdp_check c s0 w = Ok (s', ms) ->
  let s := set_counter s0 (wrap16 (cs_counter s0 + 1)) in
  same_tracker s s' /\
  Forall (msg_ok (word_pos s) w (frame_start s0)) ms /\
  frame_step (word_pos s) (frame_start s0) (frame_start s').
Proof. exact cdp_check_ok. Qed.

(* ONE VALIDATOR'S WHOLE PASS over any packet list (arbitrary contents; the layout proviso per packet; payloads of at most 10000 bytes
   as the scanner hands them on): every error message is located at the start of the RDH or of an 80-bit word -- slot j of the payload,
   slots of the size the header's data format prescribes, ten bytes of it inside the payload -- of one of the packets THIS validator
   was given (readout-frame messages: at the TDH that opened the frame, a word of an earlier packet of the same validator) *)
Theorem C07_validator_pass : forall c ps ms, Forall layout_ok ps -> Forall small ps -> run_validator c ps = Ok ms ->
  forall e, In (VErr e) ms -> starts ps (e_off e).
Proof. exact c07_validator_starts. Qed.

(* ONE WHOLE `check` RUN on a well-framed input, every mode / target / filter / option: every error message the run ends with (report,
   statistics file) is located at the start of the RDH or of an 80-bit word of a packet of the input that passed the filter, and
   lies inside the input *)
Theorem C07_whole_run : forall c pkts ff s shown e,
  Forall wf_pkt pkts -> N.of_nat (length pkts) < U32_MAX -> pay_all pkts < U32_MAX ->
  (forall p, In p pkts -> layout_rp (hdr p) (p_payload p)) ->
  (forall p r, pkts = p :: r -> known_sysid (r_system_id (hdr p)) = true) ->
  run_check ff c (serialize pkts) = R_done s shown e ->
  forall m, In m (k_errors s) ->
  exists q, In q (map (mk_cdp (rc_scan c)) (selected (rc_scan c) 0 pkts)) /\ start_of q (m_off m) /\
            m_off m < N.of_nat (length (serialize pkts)).
Proof. exact (fun c pkts ff s shown e H1 H2 H3 H4 H5 => c07_whole_run c pkts (eq_refl : Gen.Facts.cdp_offset_sampled_after = true) H1 H2 H3 (or_intror H4) H5 ff s shown e). Qed.

Print Assumptions C07_packet.
Print Assumptions C07_quoted_bytes.
Print Assumptions C07_rdh_messages.
Print Assumptions C07_word.
Print Assumptions C07_validator_pass.
Print Assumptions C07_whole_run.
