(* C20 -- User-configured checks are enforced exactly.  Property theorems only. *)
From Coq Require Import List NArith Bool.
From FP Require Import Model.Base Model.ItsWords Model.Rdh Model.RdhChecks Model.Alpide Model.CdpRunning Model.Collector Proofs.C13_frame Proofs.C20_proofs.
From FP Require Import Model.Scanner Model.System Spec.Framing Spec.GroundTruth Proofs.C03_proofs Proofs.C14_proofs Proofs.C20_run.
From FP Require Gen.Facts.
Import ListNotations.
Open Scope N_scope.

(* packet count and physics-trigger count: the coded message is among the custom-check errors iff the key is configured and the
   collected count differs from it (the counts themselves are the ground truth of the input: C14) *)
Theorem C20_cdps : forall cc s, has_code 9001 (custom_errors cc s) <-> exists n, cc_cdps cc = Some n /\ counter s IDX_SEEN <> n.
Proof. exact c20_cdps. Qed.
Theorem C20_triggers_pht : forall cc s, has_code 9002 (custom_errors cc s) <-> exists n, cc_pht cc = Some n /\ counter s IDX_PHT <> n.
Proof. exact c20_pht. Qed.

(* RDH version: for EVERY sequence of RDHs, each one is flagged on its header id iff its version differs from the configured one;
   without the key the first RDH is the reference *)
Theorem C20_rdh_version : forall v its rs,
  Forall2 (fun r tags => In T_header_id tags <-> r_header_id r <> v) rs (sanity_run (sanity_init (Some v) its) rs).
Proof. exact c20_version. Qed.
Theorem C20_rdh_version_default : forall its r rs,
  Forall2 (fun x tags => In T_header_id tags <-> r_header_id x <> r_header_id r) (r :: rs) (sanity_run (sanity_init None its) (r :: rs)).
Proof. exact c20_version_default. Qed.

(* outer-barrel (middle and outer layers) chip count and chip order *)
Theorem C20_chips : forall ly ln cc co s a b c d, ly <> L_Inner -> ls_fatal s = false -> ls_chips s <> [] ->
  lane_checks ly ln cc co s = Ok (LO_errors a b c d) ->
  (b = true <-> exists n, cc = Some n /\ N.of_nat (length (ls_chips s)) <> n) /\
  (c = true <-> (~ (exists n, cc = Some n /\ N.of_nat (length (ls_chips s)) <> n) /\ exists os, co = Some os /\ ~ In (map fst (ls_chips s)) os)).
Proof. exact c20_chips. Qed.

(* an absent or all-default file changes nothing *)
Theorem C20_default_counts : forall s, custom_errors {| cc_cdps := None; cc_pht := None |} s = [].
Proof. exact c20_counts_default. Qed.
Theorem C20_default_chips : forall ly ln s, ly <> L_Inner -> ls_fatal s = false -> ls_chips s <> [] ->
  forall a b c d, lane_checks ly ln None None s = Ok (LO_errors a b c d) -> b = false /\ c = false.
Proof. exact c20_chips_default. Qed.
Theorem C20_default_period : forall c s, v_period c = None -> check_tdh_trigger_interval c s = [].
Proof. exact c20_no_period. Qed.

(* trigger period: the computed distance is the bunch-crossing distance modulo the orbit length (3564 = max BC + 1, the constant is
   re-read from tdh.rs) ... *)
Theorem C20_period_distance : forall cur prev, cur <= 3563 -> prev <= 3563 -> detected_period cur prev = (cur + 3564 - prev) mod 3564.
Proof. exact (c20_period_when Gen.Facts.tdh_max_bc eq_refl eq_refl). Qed.
(* ... [E45] appears at a TDH iff it and the last earlier internal-trigger TDH are a pair whose distance differs from P ... *)
Theorem C20_period_pairs : forall c s p, v_period c = Some p -> forall cur, sw_tdh (cs_words s) = Some cur ->
  tdh_trigger_bc cur <= 3563 -> (forall prev, sw_prev_int_tdh (cs_words s) = Some prev -> tdh_trigger_bc prev <= 3563) ->
  (check_tdh_trigger_interval c s <> [] <->
   tdh_internal_trigger cur = 1 /\ exists prev, sw_prev_int_tdh (cs_words s) = Some prev /\
     (tdh_trigger_bc cur + 3564 - tdh_trigger_bc prev) mod 3564 <> p).
Proof. exact (c20_period_pairs_when Gen.Facts.tdh_max_bc eq_refl eq_refl). Qed.
(* ... where "the last earlier internal-trigger TDH" is what the status-word container holds after ANY sequence of TDHs *)
Theorem C20_period_bookkeeping : forall ws s w,
  let s' := fold_left replace_tdh (ws ++ [w]) s in
  sw_tdh s' = Some w /\
  sw_prev_int_tdh s' = last_internal ((match sw_tdh s with Some o => [o] | None => [] end) ++ ws) (sw_prev_int_tdh s).
Proof. exact replace_tdh_run. Qed.

(* outside the legal bunch-crossing range the 16-bit arithmetic of the shipped profile yields a wrapped distance (documented limit) *)
Theorem C20_period_out_of_range : detected_period 0 4000 = 65100.
Proof. exact c20_period_out_of_range. Qed.

(* ONE WHOLE `check` RUN on a well-framed input (any filter, mode, option): the end-of-run custom checks against the ground truth of the
   input -- [E9001] is among the stored custom-check messages iff a packet count is configured and differs from the number of RDHs of
   the input (all of them: skipped ones included); [E9002] iff a physics-trigger count is configured and differs from the number of
   ANALYSED packets whose trigger type has bit 4 *)
Theorem C20_whole_run_counts : forall c pkts ff s shown e, Forall wf_pkt pkts -> N.of_nat (length pkts) < U32_MAX -> pay_all pkts < U32_MAX ->
  run_check ff c (serialize pkts) = R_done s shown e ->
  (has_code 9001 (k_custom s) <-> exists n, cc_cdps (rc_counts c) = Some n /\ N.of_nat (length pkts) <> n) /\
  (has_code 9002 (k_custom s) <-> exists n, cc_pht (rc_counts c) = Some n /\ gt_trigger_bit 4 (sel_pkts (rc_scan c) pkts) <> n).
Proof. exact (fun c pkts ff s shown e H1 H2 H3 => c20_whole_run c pkts (eq_refl : Gen.Facts.cdp_offset_sampled_after = true) H1 H2 H3 ff s shown e). Qed.

Print Assumptions C20_cdps.
Print Assumptions C20_triggers_pht.
Print Assumptions C20_rdh_version.
Print Assumptions C20_rdh_version_default.
Print Assumptions C20_chips.
Print Assumptions C20_default_counts.
Print Assumptions C20_default_chips.
Print Assumptions C20_default_period.
Print Assumptions C20_period_distance.
Print Assumptions C20_period_pairs.
Print Assumptions C20_period_bookkeeping.
Print Assumptions C20_period_out_of_range.
Print Assumptions C20_whole_run_counts.
