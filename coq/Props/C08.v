(* C08 -- Filtered output is exact, lossless and partitions the input.  Property theorems only. *)
From Coq Require Import List NArith.
From FP Require Import Model.Base Model.Rdh Model.Scanner Model.Writer Spec.RdhRules Spec.Framing
  Proofs.RdhFacts Proofs.C03_proofs Proofs.C08_proofs.
From FP Require Gen.Facts.
Import ListNotations.
Open Scope N_scope.

(* the bytes written are, byte for byte, the concatenation in input order of all and only the
   packets whose header matches the filter -- for every flush threshold `max`, every filter kind
   and value, file or pipe input, any packet count.  (As C03, the proof term type-checks only
   for a scanner that the current source describes as sampling offsets correctly; the written
   bytes do not depend on that, but the scanner theorem it rests on is stated for it.) *)
Theorem C08_exact : forall max c pkts, sc_skip c = false -> Forall wf_pkt pkts ->
  written max c (serialize pkts) = serialize (filter (pmatch c) pkts).
Proof. exact (c08_exact_when Gen.Facts.cdp_offset_sampled_after Gen.Facts.batch_kept_on_invalid_input eq_refl). Qed.

(* re-serialising a parsed header reproduces its 64 bytes: all 2^512 values *)
Theorem C08_roundtrip : forall b, rdh_bytes_ok b -> encode_rdh (decode_rdh b) = b.
Proof. exact c08_roundtrip. Qed.

(* each output is itself well framed *)
Theorem C08_wellframed : forall c pkts, Forall wf_pkt pkts -> Forall wf_pkt (filter (pmatch c) pkts).
Proof. exact c08_wellframed. Qed.

(* filtering an output again with the same filter reproduces it *)
Theorem C08_idempotent : forall max c pkts, sc_skip c = false -> Forall wf_pkt pkts ->
  written max c (written max c (serialize pkts)) = written max c (serialize pkts).
Proof.
  exact (fun max c pkts Hs Hwf =>
    eq_trans (f_equal (written max c) (c08_exact_when _ _ eq_refl max c pkts Hs Hwf))
      (eq_trans (c08_exact_when Gen.Facts.cdp_offset_sampled_after Gen.Facts.batch_kept_on_invalid_input eq_refl max c _ Hs (c08_wellframed c pkts Hwf))
         (eq_trans (f_equal serialize (filter_idem (pmatch c) pkts))
                   (eq_sym (c08_exact_when _ _ eq_refl max c pkts Hs Hwf))))).
Qed.

(* partition: over the distinct values of the filter key (link id, FEE id, layer/stave bits) the
   outputs are order-preserving selections (filter) that are pairwise disjoint by construction
   (each packet has one key) and together have exactly as many packets as the input: nothing is
   lost or duplicated *)
Theorem C08_partition_count : forall (key : packet -> N) pkts ks, NoDup ks ->
  (forall p, In p pkts -> In (key p) ks) ->
  list_sum (map (fun v => length (filter (fun p => key p =? v) pkts)) ks) = length pkts.
Proof. exact (@partition_count packet). Qed.

(* the three filter kinds are selections by such a key *)
Theorem C08_filter_is_key_selection : forall src skip pkts,
  (forall v, filter (pmatch {| sc_filter := Some (F_link v); sc_skip := skip; sc_src := src |}) pkts =
             filter (fun p => r_link_id (decode_rdh (p_hdr p)) =? v) pkts) /\
  (forall v, filter (pmatch {| sc_filter := Some (F_fee v); sc_skip := skip; sc_src := src |}) pkts =
             filter (fun p => r_fee_id (decode_rdh (p_hdr p)) =? v) pkts) /\
  (forall v, filter (pmatch {| sc_filter := Some (F_stave v); sc_skip := skip; sc_src := src |}) pkts =
             filter (fun p => N.land (r_fee_id (decode_rdh (p_hdr p))) Gen.Facts.layer_stave_mask =?
                              N.land v Gen.Facts.layer_stave_mask) pkts).
Proof. intros; repeat split; reflexivity. Qed.

Example C08_nonvacuous :
  Forall wf_pkt f1_pkts /\
  written 1048576 {| sc_filter := Some (F_link 1); sc_skip := false; sc_src := Src_pipe |} (serialize f1_pkts) = f1_hdr 1 /\
  written 1 {| sc_filter := Some (F_link 0); sc_skip := false; sc_src := Src_file |} (serialize f1_pkts) = f1_hdr 0.
Proof. split; [exact f1_wf|]. split; vm_compute; reflexivity. Qed.

(* the writer is the ONLY consumer of the packets the reader hands on when data is written: the analysis thread -- the other holder of a
   receiver of that channel -- is started exactly when a check or a view is requested, and the writer exactly when none is (fact re-read
   from `process` in fastpasta/src/lib.rs on every run; two consumers on one channel would each take a part of the batches) *)
Theorem C08_single_consumer_source_shape : Gen.Facts.proto_single_data_consumer = true.
Proof. exact eq_refl. Qed.

Print Assumptions C08_exact.
Print Assumptions C08_roundtrip.
Print Assumptions C08_wellframed.
Print Assumptions C08_idempotent.
Print Assumptions C08_partition_count.
Print Assumptions C08_filter_is_key_selection.
Print Assumptions C08_single_consumer_source_shape.
