(* C08 -- Filtered output is exact, lossless and partitions the input.  Property theorems only. *)
From Coq Require Import List NArith Arith.
From FP Require Import Model.Base Model.Rdh Model.Scanner Model.Writer Spec.RdhRules Spec.Framing
  Proofs.RdhFacts Proofs.C03_proofs Proofs.C08_proofs Proofs.Interleave Proofs.C08_partition Proofs.C05_reportless Proofs.C08_run Proofs.C06_mask.
From FP Require Import Model.Collector Model.CdpRunning Model.Link Model.System Model.SystemView Spec.GroundTruth Proofs.C14_proofs Proofs.C05_run.
From FP Require Gen.Facts.
Import ListNotations.
Open Scope N_scope.

(* the bytes written are, byte for byte, the concatenation in input order of all and only the
   packets whose header matches the filter -- for every flush threshold `max`, every filter kind
   and value, file or pipe input, any packet count.  (As C03, the proof term type-checks only
   for a scanner that the current source describes as sampling offsets correctly; the written
   bytes do not depend on that, but the scanner theorem it rests on is stated for it.) *)
Theorem C08_exact : forall max c pkts, sc_skip c = false -> Forall wf_pkt pkts ->
  written max c (serialize pkts) = serialize (filter (pmatch c) pkts).
Proof. exact (c08_exact_when Gen.Facts.cdp_offset_sampled_after Gen.Facts.batch_kept_on_invalid_input eq_refl). Qed.

(* re-serialising a parsed header reproduces its 64 bytes: all 2^512 values *)
Theorem C08_roundtrip : forall b, rdh_bytes_ok b -> encode_rdh (decode_rdh b) = b.
Proof. exact c08_roundtrip. Qed.

(* each output is itself well framed *)
Theorem C08_wellframed : forall c pkts, Forall wf_pkt pkts -> Forall wf_pkt (filter (pmatch c) pkts).
Proof. exact c08_wellframed. Qed.

(* filtering an output again with the same filter reproduces it *)
Theorem C08_idempotent : forall max c pkts, sc_skip c = false -> Forall wf_pkt pkts ->
  written max c (written max c (serialize pkts)) = written max c (serialize pkts).
Proof.
  exact (fun max c pkts Hs Hwf =>
    eq_trans (f_equal (written max c) (c08_exact_when _ _ eq_refl max c pkts Hs Hwf))
      (eq_trans (c08_exact_when Gen.Facts.cdp_offset_sampled_after Gen.Facts.batch_kept_on_invalid_input eq_refl max c _ Hs (c08_wellframed c pkts Hwf))
         (eq_trans (f_equal serialize (filter_idem (pmatch c) pkts))
                   (eq_sym (c08_exact_when _ _ eq_refl max c pkts Hs Hwf))))).
Qed.

(* partition: over the distinct values of the filter key (link id, FEE id, layer/stave bits) the
   outputs are order-preserving selections (filter) that are pairwise disjoint by construction
   (each packet has one key) and together have exactly as many packets as the input: nothing is
   lost or duplicated *)
Theorem C08_partition_count : forall (key : packet -> N) pkts ks, NoDup ks ->
  (forall p, In p pkts -> In (key p) ks) ->
  list_sum (map (fun v => length (filter (fun p => key p =? v) pkts)) ks) = length pkts.
Proof. exact (@partition_count packet). Qed.

(* the three filter kinds are selections by such a key *)
Theorem C08_filter_is_key_selection : forall src skip pkts,
  (forall v, filter (pmatch {| sc_filter := Some (F_link v); sc_skip := skip; sc_src := src |}) pkts =
             filter (fun p => r_link_id (decode_rdh (p_hdr p)) =? v) pkts) /\
  (forall v, filter (pmatch {| sc_filter := Some (F_fee v); sc_skip := skip; sc_src := src |}) pkts =
             filter (fun p => r_fee_id (decode_rdh (p_hdr p)) =? v) pkts) /\
  (forall v, filter (pmatch {| sc_filter := Some (F_stave v); sc_skip := skip; sc_src := src |}) pkts =
             filter (fun p => N.land (r_fee_id (decode_rdh (p_hdr p))) Gen.Facts.layer_stave_mask =?
                              N.land v Gen.Facts.layer_stave_mask) pkts).
Proof. intros; repeat split; reflexivity. Qed.

(* PARTITION, at full strength: run the filter once per distinct key value (link id / FEE id / masked layer-stave bits) present in a
   well-framed input.  Then the input's packet sequence is an order-preserving MERGE of packet sequences `sels` whose serialisations
   are, byte for byte, the outputs: every packet of the input is in exactly one output, unaltered, and each output keeps the input
   order (Interleave = repeatedly take the head of one of the sequences).  For every flush threshold and source. *)
Theorem C08_outputs_partition_the_input : forall max (cf : N -> scfg) (key : packet -> N) pkts ks,
  Forall wf_pkt pkts -> NoDup ks -> (forall p, In p pkts -> In (key p) ks) ->
  (forall v, In v ks -> sc_skip (cf v) = false /\ forall p, pmatch (cf v) p = (key p =? v)) ->
  exists sels, Interleave sels pkts /\ map (fun v => written max (cf v) (serialize pkts)) ks = map serialize sels.
Proof.
  intros max cf key pkts ks Hwf Hnd Hin Hcf. exists (map (sel key pkts) ks). split.
  - exact (partition_interleave key pkts ks Hnd Hin).
  - rewrite map_map. apply map_ext_in. intros v Hv. destruct (Hcf v Hv) as [Hs Hm].
    etransitivity; [exact (C08_exact max (cf v) pkts Hs Hwf)|].
    unfold sel. f_equal. apply filter_ext. exact Hm.
Qed.

(* ... instantiated for the three filter options *)
Theorem C08_link_outputs_partition : forall max src pkts ks, Forall wf_pkt pkts -> NoDup ks ->
  (forall p, In p pkts -> In (r_link_id (decode_rdh (p_hdr p))) ks) ->
  exists sels, Interleave sels pkts /\
    map (fun v => written max {| sc_filter := Some (F_link v); sc_skip := false; sc_src := src |} (serialize pkts)) ks = map serialize sels.
Proof.
  intros max src pkts ks Hwf Hnd Hin.
  exact (C08_outputs_partition_the_input max (fun v => {| sc_filter := Some (F_link v); sc_skip := false; sc_src := src |})
           (fun p => r_link_id (decode_rdh (p_hdr p))) pkts ks Hwf Hnd Hin (fun v _ => conj eq_refl (fun p => eq_refl))).
Qed.
(* ... with the values taken from the input itself -- the distinct link ids present, in order of first appearance -- nothing is left to assume *)
Theorem C08_link_outputs_partition_present : forall max src pkts, Forall wf_pkt pkts ->
  let ks := nodup N.eq_dec (map (fun p => r_link_id (decode_rdh (p_hdr p))) pkts) in
  exists sels, Interleave sels pkts /\
    map (fun v => written max {| sc_filter := Some (F_link v); sc_skip := false; sc_src := src |} (serialize pkts)) ks = map serialize sels.
Proof.
  intros max src pkts Hwf ks. apply (C08_link_outputs_partition max src pkts ks Hwf).
  - apply NoDup_nodup.
  - intros p Hp. apply nodup_In. apply in_map_iff. exists p. split; [reflexivity|exact Hp].
Qed.

Theorem C08_fee_outputs_partition : forall max src pkts ks, Forall wf_pkt pkts -> NoDup ks ->
  (forall p, In p pkts -> In (r_fee_id (decode_rdh (p_hdr p))) ks) ->
  exists sels, Interleave sels pkts /\
    map (fun v => written max {| sc_filter := Some (F_fee v); sc_skip := false; sc_src := src |} (serialize pkts)) ks = map serialize sels.
Proof.
  intros max src pkts ks Hwf Hnd Hin.
  exact (C08_outputs_partition_the_input max (fun v => {| sc_filter := Some (F_fee v); sc_skip := false; sc_src := src |})
           (fun p => r_fee_id (decode_rdh (p_hdr p))) pkts ks Hwf Hnd Hin (fun v _ => conj eq_refl (fun p => eq_refl))).
Qed.
(* layer/stave filter: the values are the distinct masked FEE ids (layer and stave bits) *)
Theorem C08_stave_outputs_partition : forall max src pkts ks, Forall wf_pkt pkts -> NoDup ks ->
  (forall v, In v ks -> N.land v Gen.Facts.layer_stave_mask = v) ->
  (forall p, In p pkts -> In (N.land (r_fee_id (decode_rdh (p_hdr p))) Gen.Facts.layer_stave_mask) ks) ->
  exists sels, Interleave sels pkts /\
    map (fun v => written max {| sc_filter := Some (F_stave v); sc_skip := false; sc_src := src |} (serialize pkts)) ks = map serialize sels.
Proof.
  intros max src pkts ks Hwf Hnd Hmask Hin.
  refine (C08_outputs_partition_the_input max (fun v => {| sc_filter := Some (F_stave v); sc_skip := false; sc_src := src |})
           (fun p => N.land (r_fee_id (decode_rdh (p_hdr p))) Gen.Facts.layer_stave_mask) pkts ks Hwf Hnd Hin _).
  intros v Hv. split; [reflexivity|]. intros p. change (pmatch _ p) with
    (N.land (r_fee_id (decode_rdh (p_hdr p))) Gen.Facts.layer_stave_mask =? N.land v Gen.Facts.layer_stave_mask).
  rewrite (Hmask v Hv). reflexivity.
Qed.

(* non-vacuity: the two-link example input is the merge of its two outputs *)
(* ONE WHOLE WRITING RUN (filter + output, no check, no view) of a well-framed input whose first header is recognised: in every delivery
   order `a` of the statistics (any schedule of the reader and the collector) the run ends with zero errors, nothing displayed, exit
   status 0 -- whatever any-errors exit code is configured -- and the bytes written are exactly the selected packets, for every flush
   threshold.  The size bounds are those of the 32-bit counters of the statistics (C14). *)
Theorem C08_whole_run : forall (c : run_cfg) pkts ff max a,
  Forall wf_pkt pkts -> N.of_nat (length pkts) < U32_MAX -> pay_all pkts < U32_MAX ->
  (forall p r, pkts = p :: r -> known_sysid (r_system_id (hdr p)) = true) -> pkts <> [] ->
  recognised (serialize pkts) = true -> rc_counts c = {| cc_cdps := None; cc_pht := None |} ->
  sc_skip (rc_scan c) = false -> Interleave (rl_streams c RL_write (serialize pkts)) a ->
  (exists s, run_reportless ff c RL_write (serialize pkts) = R_done s [] 0 /\ finish_rl ff c a = R_done s [] 0 /\
             k_total s = 0 /\ k_errors s = [] /\ k_fatal s = None /\ k_custom s = []) /\
  written max (rc_scan c) (serialize pkts) = serialize (filter (pmatch (rc_scan c)) pkts).
Proof.
  exact (fun c pkts ff max a Hwf Hn Hpay Hknown Hne Hrec Hcustom =>
           c08_whole_run c pkts eq_refl eq_refl Hwf Hn Hpay Hknown Hne Hrec Hcustom ff max a).
Qed.

(* non-vacuity of C08_whole_run: three packets on links 0, 0, 1 (the second with its priority bit set: the writer does not judge the data),
   `--filter-link 1 -o ... -E 3`: the hypotheses hold, the run ends with exit status 0 and the 64 bytes of the third packet are written *)
Definition c08_hdr (link prio : N) : list N :=
  [7;64;42;80;prio;32;0;0; 64;0;64;0;link;0;24;0] ++ repeat 0 8 ++ [2;0;0;0;0;0;0;0; 3;106;0;0;0;0;0;0] ++ repeat 0 24.
Definition c08_pkts : list packet :=
  [ {| p_hdr := c08_hdr 0 0; p_payload := [] |}; {| p_hdr := c08_hdr 0 1; p_payload := [] |}; {| p_hdr := c08_hdr 1 1; p_payload := [] |} ].
Definition c08_cfg : run_cfg :=
  {| rc_scan := {| sc_filter := Some (F_link 1); sc_skip := false; sc_src := Src_pipe |};
     rc_check := {| v_running := false; v_target := T_none; v_period := None; v_custom_version := None; v_chip_count := None; v_chip_orders := None |};
     rc_mute := false; rc_cap := 0; rc_filter := None; rc_exit := Some 3; rc_counts := {| cc_cdps := None; cc_pht := None |} |}.
Example C08_whole_run_nonvacuous :
  Forall wf_pkt c08_pkts /\ (forall p r, c08_pkts = p :: r -> known_sysid (r_system_id (hdr p)) = true) /\
  recognised (serialize c08_pkts) = true /\
  Interleave (rl_streams c08_cfg RL_write (serialize c08_pkts)) (concat (rl_streams c08_cfg RL_write (serialize c08_pkts))) /\
  (exists s, run_reportless true c08_cfg RL_write (serialize c08_pkts) = R_done s [] 0) /\
  written 2 (rc_scan c08_cfg) (serialize c08_pkts) = c08_hdr 1 1.
Proof.
  split; [repeat constructor; apply wf_pktb_sound; vm_compute; reflexivity|].
  split; [intros p r E; injection E as <- _; vm_compute; reflexivity|].
  split; [vm_compute; reflexivity|]. split; [apply interleave_concat|].
  split; [eexists; vm_compute; reflexivity|vm_compute; reflexivity].
Qed.

Example C08_partition_nonvacuous :
  Forall wf_pkt f1_pkts /\ NoDup [0; 1] /\ (forall p, In p f1_pkts -> In (r_link_id (decode_rdh (p_hdr p))) [0; 1]) /\
  map (fun v => written 3 {| sc_filter := Some (F_link v); sc_skip := false; sc_src := Src_file |} (serialize f1_pkts)) [0; 1] =
    [f1_hdr 0; f1_hdr 1].
Proof.
  split; [exact f1_wf|]. split.
  - constructor; [cbn; intros [H|[]]; discriminate|]. constructor; [intros []|constructor].
  - split; [|vm_compute; reflexivity].
    intros p Hp. unfold f1_pkts in Hp. destruct Hp as [<-|[<-|[]]]; vm_compute; tauto.
Qed.

Example C08_nonvacuous :
  Forall wf_pkt f1_pkts /\
  written 1048576 {| sc_filter := Some (F_link 1); sc_skip := false; sc_src := Src_pipe |} (serialize f1_pkts) = f1_hdr 1 /\
  written 1 {| sc_filter := Some (F_link 0); sc_skip := false; sc_src := Src_file |} (serialize f1_pkts) = f1_hdr 0.
Proof. split; [exact f1_wf|]. split; vm_compute; reflexivity. Qed.

(* the writer is the ONLY consumer of the packets the reader hands on when data is written: the analysis thread -- the other holder of a
   receiver of that channel -- is started exactly when a check or a view is requested, and the writer exactly when none is (fact re-read
   from `process` in fastpasta/src/lib.rs on every run; two consumers on one channel would each take a part of the batches) *)
Theorem C08_single_consumer_source_shape : Gen.Facts.proto_single_data_consumer = true.
Proof. exact eq_refl. Qed.


(* the key of the layer/stave filter (`--filter-its-stave`): two FEE ids are matched together exactly when they agree on the six stave
   bits 5:0 and the three layer bits 14:12 of the documented FEE-id layout; the mask is re-read from the source on every run
   (fact layer_stave_mask), so a filter that merges staves n and n+32 of a layer (seed C06-I) no longer type-checks here *)
Theorem C08_stave_filter_key : forall a b,
  N.land a Gen.Facts.layer_stave_mask = N.land b Gen.Facts.layer_stave_mask <->
  (forall i, i < 6 \/ 12 <= i < 15 -> N.testbit a i = N.testbit b i).
Proof. exact (stave_filter_key_when eq_refl). Qed.

Print Assumptions C08_exact.
Print Assumptions C08_roundtrip.
Print Assumptions C08_wellframed.
Print Assumptions C08_idempotent.
Print Assumptions C08_partition_count.
Print Assumptions C08_filter_is_key_selection.
Print Assumptions C08_single_consumer_source_shape.
Print Assumptions C08_outputs_partition_the_input.
Print Assumptions C08_link_outputs_partition.
Print Assumptions C08_link_outputs_partition_present.
Print Assumptions C08_fee_outputs_partition.
Print Assumptions C08_stave_outputs_partition.
Print Assumptions C08_whole_run.
Print Assumptions C08_whole_run_nonvacuous.
Print Assumptions C08_stave_filter_key.
