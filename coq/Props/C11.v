(* C11 -- Word-level sanity predicates are exact for all 80-bit values.
   Property theorems only; every proof is `exact <lemma>`; assumptions printed below. *)
From Coq Require Import List NArith.
From FP Require Import Model.Base Model.ItsWords Spec.WordLayout Proofs.Bits Proofs.C11_proofs.
From FP Require Gen.Facts.
Import ListNotations.
Open Scope N_scope.

(* IHW / TDH / TDT / DDW0: the check passes exactly for the documented words, for every
   10-byte word (all 2^80 values). *)
Theorem C11_ihw : forall w, word_ok w -> (ihw_sanity w = [] <-> ihw_ok w).
Proof. exact c11_ihw. Qed.
Theorem C11_tdh : forall w, word_ok w -> (tdh_sanity w = [] <-> tdh_ok w).
Proof. exact c11_tdh. Qed.
Theorem C11_tdt : forall w, word_ok w -> (tdt_sanity w = [] <-> tdt_ok w).
Proof. exact c11_tdt. Qed.
Theorem C11_ddw0 : forall w, word_ok w -> (ddw0_sanity w = [] <-> ddw0_ok w).
Proof. exact c11_ddw0. Qed.

(* which sub-rule is named *)
Theorem C11_ihw_cases : forall w, word_ok w ->
  (id_of w <> IHW_ID /\ ihw_sanity w = [SR_id]) \/
  (id_of w = IHW_ID /\ ~ ihw_reserved_zero w /\ ihw_sanity w = [SR_reserved]) \/
  (id_of w = IHW_ID /\ ihw_reserved_zero w /\ ihw_sanity w = []).
Proof. exact ihw_sanity_cases. Qed.
Theorem C11_tdh_wrong_id : forall w, word_ok w -> id_of w <> TDH_ID -> tdh_sanity w = [SR_id].
Proof. exact c11_tdh_id. Qed.
Theorem C11_tdh_reserved : forall w, word_ok w -> id_of w = TDH_ID ->
  (In SR_reserved (tdh_sanity w) <-> ~ tdh_reserved_zero w).
Proof. exact c11_tdh_reserved_reported. Qed.
Theorem C11_tdh_trigger : forall w, word_ok w -> id_of w = TDH_ID ->
  (In SR_trigger (tdh_sanity w) <-> ~ tdh_trigger_rule w).
Proof. exact c11_tdh_trigger_reported. Qed.

(* data words *)
Theorem C11_data_reported : forall w lanes, word_ok w ->
  (data_word_codes true w lanes <> [] <->
   valid_data_id (nb 9 w) = false \/
   (valid_data_id (nb 9 w) = true /\ lane_active (spec_lane (nb 9 w)) lanes = false) \/
   (is_ob_class (nb 9 w) = true /\ 6 < ob_input (nb 9 w))).
Proof. exact c11_data_reported. Qed.
Theorem C11_data_codes : forall running w lanes, word_ok w -> valid_data_id (nb 9 w) = true ->
  data_word_codes running w lanes = data_word_verdict running (nb 9 w) lanes.
Proof. exact c11_data_valid. Qed.
Theorem C11_data_e70 : forall running w lanes, word_ok w ->
  (In 70 (data_word_codes running w lanes) <-> valid_data_id (nb 9 w) = false).
Proof. exact c11_data_e70. Qed.
Theorem C11_data_sanity_mode : forall w lanes, word_ok w ->
  data_word_codes false w lanes = if valid_data_id (nb 9 w) then [] else [70].
Proof. exact c11_data_sanity_mode. Qed.

(* non-vacuity: concrete words on both sides of every rule *)
Example C11_nonvacuous :
  word_ok [255;63;0;0;0;0;0;0;0;224] /\ ihw_sanity [255;63;0;0;0;0;0;0;0;224] = [] /\
  ihw_sanity [255;63;0;16;0;0;0;0;0;224] = [SR_reserved] /\
  tdh_sanity [3;26;0;0;117;213;125;11;0;232] = [] /\
  tdh_sanity [0;0;0;0;0;0;0;0;0;232] = [SR_trigger] /\
  tdh_sanity [0;128;0;0;0;0;0;0;0;232] = [SR_reserved; SR_trigger] /\
  tdt_sanity [0;0;0;0;0;0;0;0;1;240] = [] /\ tdt_sanity [0;0;0;0;0;0;0;0;4;240] = [SR_reserved] /\
  ddw0_sanity [0;0;0;0;0;0;0;0;0;228] = [] /\ ddw0_sanity [0;0;0;0;0;0;0;0;16;228] = [SR_index] /\
  data_word_codes true [0;0;0;0;0;0;0;0;0;70] 63 = [71] /\
  data_word_codes true [0;0;0;0;0;0;0;0;0;70] 64 = [] /\
  data_word_codes true [0;0;0;0;0;0;0;0;0;71] 64 = [70; 71; 73].
Proof.
  split; [split; [reflexivity|]; repeat (apply Forall_cons; [reflexivity|]); apply Forall_nil|].
  repeat split; reflexivity.
Qed.

(* the integer literals (shift amounts, masks, byte indices) of the word accessors the model of the sanity predicates is written against --
   Ihw::reserved / active_lanes, the Tdh, Tdt, Ddw0 and Cdw field accessors, the data-word id -> lane / connector-input maps and is_lane_active --
   re-read from fastpasta/src/words/its/** on every run, in source order: an accessor with another mask or shift no longer type-checks here
   (the field semantics themselves are the C11_*_exact theorems over Spec/WordLayout.v) *)
Theorem C11_accessor_literals_as_modelled :
  Gen.Facts.pin_ihw_reserved = [28; 15; 255; 36; 4] /\
  Gen.Facts.pin_ihw_active_lanes = [268435455] /\
  Gen.Facts.pin_tdh_reserved0 = [255] /\
  Gen.Facts.pin_tdh_reserved1 = [61440] /\
  Gen.Facts.pin_tdh_trigger_bc = [4095] /\
  Gen.Facts.pin_tdh_reserved2 = [32768] /\
  Gen.Facts.pin_tdh_continuation = [16384; 14] /\
  Gen.Facts.pin_tdh_no_data = [8192; 13] /\
  Gen.Facts.pin_tdh_internal_trigger = [4096; 12] /\
  Gen.Facts.pin_tdh_trigger_type = [4095] /\
  Gen.Facts.pin_tdt_reserved0 = [4] /\
  Gen.Facts.pin_tdt_reserved1 = [4] /\
  Gen.Facts.pin_tdt_reserved2 = [31] /\
  Gen.Facts.pin_tdt_packet_done = [1; 1] /\
  Gen.Facts.pin_ddw0_index = [240; 4] /\
  Gen.Facts.pin_ddw0_reserved0_1 = [5] /\
  Gen.Facts.pin_ddw0_is_reserved_0 = [0; 18374686479671623680; 0] /\
  Gen.Facts.pin_cdw_calibration_word_index = [16; 48] /\
  Gen.Facts.pin_cdw_calibration_user_fields = [281474976710655] /\
  Gen.Facts.pin_dw_ob_data_word_id_to_lane = [7; 14; 21] /\
  Gen.Facts.pin_dw_ob_data_word_id_to_input_number_connector = [7] /\
  Gen.Facts.pin_dw_ib_data_word_id_to_lane = [31] /\
  Gen.Facts.pin_util_is_lane_active = [1; 0].
Proof. repeat split; reflexivity. Qed.

Print Assumptions C11_ihw.
Print Assumptions C11_tdh.
Print Assumptions C11_tdt.
Print Assumptions C11_ddw0.
Print Assumptions C11_ihw_cases.
Print Assumptions C11_tdh_wrong_id.
Print Assumptions C11_tdh_reserved.
Print Assumptions C11_tdh_trigger.
Print Assumptions C11_data_reported.
Print Assumptions C11_data_codes.
Print Assumptions C11_data_e70.
Print Assumptions C11_data_sanity_mode.
Print Assumptions C11_accessor_literals_as_modelled.
