(* C18 -- Input truncated at any byte is handled; the intact prefix is still analysed.
   Property theorems only. *)
From Coq Require Import List NArith.
From FP Require Import Model.Base Model.Rdh Model.Scanner Model.CdpRunning Model.Link Spec.Framing
  Proofs.C03_proofs Proofs.C18_proofs.
From FP Require Import Model.Alpide Proofs.C04_stave Proofs.C06_proofs Proofs.C18_total Proofs.C18_run.
From FP Require Gen.Facts.
Import ListNotations.
Open Scope N_scope.

(* For every well-framed packet list and EVERY cut position k (0 .. length of the input), every
   filter, payloads loaded or skipped, file or pipe: reading the first k bytes hands on every
   complete packet before the cut exactly as the untruncated input does (same offset, header,
   payload; the untruncated result starts with the same CDPs), plus at most one more CDP -- the
   header of the packet whose payload was cut, with an empty payload (the [E100]/[E101] message
   concerns that packet) -- and reading ends on its own.
   As in C03 the scanner is the one the current source describes: the proof term type-checks only
   when load_cdp samples offsets correctly AND get_array_batch keeps the CDPs it has read when a
   pipe seek runs past the end of the input (Gen.Facts.batch_kept_on_invalid_input). *)
Theorem C18_scan_truncated : forall c pkts k, Forall wf_pkt pkts -> (k <= length (serialize pkts))%nat ->
  let '(pre, t) := cut_at k pkts in
  let out := scan_impl c (firstn k (serialize pkts)) in
  concat (so_batches out) = map (mk_cdp c) (selected c 0 pre) ++ tail_cdps c (total_size pre) t /\
  (exists rest, concat (so_batches (scan_impl c (serialize pkts))) = map (mk_cdp c) (selected c 0 pre) ++ rest) /\
  (length (tail_cdps c (total_size pre) t) <= 1)%nat /\
  so_end out = tail_end c t /\ so_end out <> End_fuel.
Proof.
  exact (c18_scan_truncated_when Gen.Facts.cdp_offset_sampled_after Gen.Facts.batch_kept_on_invalid_input eq_refl eq_refl).
Qed.

(* cut_at is the decomposition the statement speaks about: the first k bytes are the complete
   packets `pre` (a prefix of the packet list) followed by a cut header or a header with a cut payload *)
Theorem C18_cut_decomposition : forall pkts k, Forall wf_pkt pkts -> (k <= length (serialize pkts))%nat ->
  let '(pre, t) := cut_at k pkts in
  firstn k (serialize pkts) = serialize pre ++ tail_bytes t /\ tail_ok t /\ Forall wf_pkt pre /\
  exists post, pkts = pre ++ post.
Proof. exact cut_at_spec. Qed.

(* validators are left folds over their link's packets: the findings for the packets before the
   cut are a prefix of the findings for any longer packet list *)
Theorem C18_validator_prefix : forall c ps1 ps2 msgs,
  run_validator c ps1 = Ok msgs ->
  match run_validator c (ps1 ++ ps2) with
  | Ok all => exists more, all = msgs ++ more
  | Panic _ => True
  end.
Proof. exact c18_validator_prefix. Qed.

(* the same without the `unless it crashes` escape: the longer run extends the findings, or it stops at the invalid-layer site
   (recorded finding F6) and some packet of the longer input names layer 7 *)
Theorem C18_validator_prefix_total : forall c ps1 ps2 msgs, run_validator c ps1 = Ok msgs ->
  (exists more, run_validator c (ps1 ++ ps2) = Ok (msgs ++ more)) \/
  (run_validator c (ps1 ++ ps2) = Panic SITE_stave_from_feeid /\
   exists q, In q (ps1 ++ ps2) /\ 6 < layer_from_feeid (r_fee_id (c_rdh q))).
Proof. exact (c18_validator_prefix_total (conj eq_refl (conj eq_refl eq_refl))). Qed.

(* a reader that returns the error instead of the batch being filled (defect F16 of the pinned
   commit: pipe input, filter, cut inside the payload of a skipped packet) loses complete packets *)
Theorem C18_refuted_when_batch_dropped :
  Forall wf_pkt f16_pkts /\
  cut_at 130 f16_pkts = ([ {| p_hdr := f1_hdr 1; p_payload := [] |} ], TL_cut (nth 1 f16_pkts {| p_hdr := []; p_payload := [] |}) 2) /\
  concat (so_batches (scan true false f16_cfg (firstn 130 (serialize f16_pkts)))) = [] /\
  map c_off (concat (so_batches (scan true true f16_cfg (firstn 130 (serialize f16_pkts))))) = [0].
Proof. exact c18_refuted_when_batch_dropped. Qed.

(* scanner + dispatcher + validators composed, for EVERY cut position, filter, source, mode and dispatch unit: the packets handed on from
   the truncated input are those of the complete prefix plus at most one more (the header of the packet whose payload was cut), and the
   unit's findings for the complete packets before the cut are the SAME in both runs -- the unit's validator, on the truncated and on
   the whole input alike, starts with exactly the findings of one pass over the unit's complete packets (or stops at the invalid-layer
   site of recorded finding F6, when a packet it comes to names layer 7) *)
Theorem C18_units_agree_before_the_cut : forall c vc pkts k id, Forall wf_pkt pkts -> (k <= length (serialize pkts))%nat ->
  let '(pre, t) := cut_at k pkts in
  let base := map (mk_cdp c) (selected c 0 pre) in
  let cut := concat (so_batches (scan_impl c (firstn k (serialize pkts)))) in
  let full := concat (so_batches (scan_impl c (serialize pkts))) in
  (exists tl, cut = base ++ tl /\ (length tl <= 1)%nat) /\
  forall msgs, run_validator vc (sel vc id base) = Ok msgs ->
    extends_or_layer7 vc msgs (sel vc id cut) /\ extends_or_layer7 vc msgs (sel vc id full).
Proof.
  exact (c18_units_when Gen.Facts.cdp_offset_sampled_after Gen.Facts.batch_kept_on_invalid_input (conj eq_refl (conj eq_refl eq_refl)) eq_refl eq_refl).
Qed.

Print Assumptions C18_scan_truncated.
Print Assumptions C18_cut_decomposition.
Print Assumptions C18_validator_prefix.
Print Assumptions C18_validator_prefix_total.
Print Assumptions C18_refuted_when_batch_dropped.
Print Assumptions C18_units_agree_before_the_cut.
