(* C06 -- Each link is validated as if it were alone.  Property theorems only. *)
From Coq Require Import List NArith.
From FP Require Import Model.Base Model.Rdh Model.Scanner Model.CdpRunning Model.Link Model.Collector Model.System Spec.Framing Spec.GroundTruth
  Proofs.C03_proofs Proofs.C05_proofs Proofs.C06_proofs Proofs.C07_run Proofs.C14_proofs Proofs.C06_run Proofs.C06_filter Proofs.C06_mask.
From FP Require Gen.Facts.
Import ListNotations.
Open Scope N_scope.

(* For EVERY packet sequence (any contents, also corrupted; any interleaving of any number of
   links) and every check configuration: the dispatcher's bookkeeping (id table, position lookup,
   push on miss, channel vector indexed in step) hands each validator exactly the packets of its
   own dispatch id (link id; FEE id in `check all its-stave`), in arrival order, and what is
   reported for an id is the result of one sequential pass over that id's packets alone. *)
Theorem C06_isolated : forall c ps,
  exists procs, NoDup procs /\
    (forall id, In id procs <-> exists p, In p ps /\ disp_id c p = id) /\
    run_dispatch c ps = map (fun id => (id, run_validator c (sel c id ps))) procs.
Proof. exact c06_isolated. Qed.

Theorem C06_alone : forall c ps id, sel c id ps <> [] ->
  In (id, run_validator c (sel c id ps)) (run_dispatch c ps).
Proof. exact c06_alone. Qed.

(* interleaving / other links' traffic / corruption elsewhere: if the id's own packet sequence is
   the same in two inputs, everything reported for it is the same *)
Theorem C06_independent : forall c ps1 ps2 id, sel c id ps1 = sel c id ps2 ->
  forall r, In (id, r) (run_dispatch c ps1) <-> In (id, r) (run_dispatch c ps2).
Proof. exact c06_independent. Qed.

(* the id's packets stored alone (or selected by a filter that keeps exactly them) *)
Theorem C06_extraction : forall c ps id, sel c id ps <> [] ->
  run_dispatch c (sel c id ps) = [(id, run_validator c (sel c id ps))].
Proof. exact c06_extraction. Qed.

(* the model's dispatch id (disp_id: FEE id exactly under `check all its-stave`, link id otherwise) is what the source decides by: the
   condition that selects the key mentions the check target only -- no filter, no other option (fact re-read from
   ValidatorDispatcher::new on every run) *)
Theorem C06_dispatch_key_source_shape : Gen.Facts.dispatch_key_from_check_target_only = true.
Proof. reflexivity. Qed.
Theorem C06_dispatch_key : forall c p,
  disp_id c p = match v_running c, v_target c with true, T_stave => r_fee_id (c_rdh p) | _, _ => r_link_id (c_rdh p) end.
Proof. reflexivity. Qed.

(* non-vacuity: two links interleaved, the second one corrupted (priority bit set) *)
Definition c06_rdh (link prio : N) : rdh :=
  decode_rdh ([7;64;42;80;prio;32;0;0; 64;0;64;0;link;0;24;0] ++ repeat 0 8 ++ [2;0;0;0;0;0;0;0; 3;106;0;0;0;0;0;0] ++ repeat 0 24).
Definition c06_cfg : vcfg := {| v_running := false; v_target := T_none; v_period := None; v_custom_version := None;
                                v_chip_count := None; v_chip_orders := None |}.
Example C06_nonvacuous :
  let a := {| c_rdh := c06_rdh 0 0; c_payload := []; c_off := 0 |} in
  let b := {| c_rdh := c06_rdh 1 1; c_payload := []; c_off := 64 |} in
  map fst (run_dispatch c06_cfg [a; b; a]) = [0; 1] /\
  (exists m, run_validator c06_cfg (sel c06_cfg 1 [a; b; a]) = Ok [m]) /\
  run_validator c06_cfg (sel c06_cfg 0 [a; b; a]) = Ok [].
Proof. cbn zeta. split; [vm_compute; reflexivity|]. split; [eexists; vm_compute; reflexivity | vm_compute; reflexivity]. Qed.

(* ONE WHOLE `check` RUN on a well-framed input (any number of units, any interleaving, any contents, any filter; provisos as in
   C05_whole_run): the messages of the final report -- what the statistics file stores and the report shows, in that order -- that lie
   in the packets of one dispatch unit are EXACTLY the stably sorted messages of one sequential pass of a validator over that unit's
   packets alone.  Nothing another unit carries, however corrupted and however interleaved, adds, removes or reorders one of them. *)
Theorem C06_whole_run : forall c pkts ff s shown e id ms,
  Forall wf_pkt pkts -> N.of_nat (length pkts) < U32_MAX -> pay_all pkts < U32_MAX ->
  (forall p, In p pkts -> layout_rp (hdr p) (p_payload p)) ->
  (forall p r, pkts = p :: r -> known_sysid (r_system_id (hdr p)) = true) ->
  let cdps := map (mk_cdp (rc_scan c)) (selected (rc_scan c) 0 pkts) in
  run_check ff c (serialize pkts) = R_done s shown e ->
  sel (rc_check c) id cdps <> [] -> run_validator (rc_check c) (sel (rc_check c) id cdps) = Ok ms ->
  filter (fun m => in_unitb (sel (rc_check c) id cdps) (m_off m)) (k_errors s) = sort_msgs (errs_of ms).
Proof.
  exact (fun c pkts ff s shown e id ms H1 H2 H3 H4 H5 =>
           c06_whole_run c pkts (eq_refl : Gen.Facts.cdp_offset_sampled_after = true) (eq_refl : Gen.Facts.error_sort_when_muted = true)
                         H1 H2 H3 (or_intror H4) H5 ff s shown e id ms).
Qed.

(* two inputs in which the unit's own packets are the same (same bytes at the same offsets): the unit's part of the two reports is the same *)
Corollary C06_whole_run_independent : forall c pkts1 pkts2 ff s1 sh1 e1 s2 sh2 e2 id ms,
  Forall wf_pkt pkts1 -> N.of_nat (length pkts1) < U32_MAX -> pay_all pkts1 < U32_MAX ->
  (forall p, In p pkts1 -> layout_rp (hdr p) (p_payload p)) ->
  (forall p r, pkts1 = p :: r -> known_sysid (r_system_id (hdr p)) = true) ->
  Forall wf_pkt pkts2 -> N.of_nat (length pkts2) < U32_MAX -> pay_all pkts2 < U32_MAX ->
  (forall p, In p pkts2 -> layout_rp (hdr p) (p_payload p)) ->
  (forall p r, pkts2 = p :: r -> known_sysid (r_system_id (hdr p)) = true) ->
  let cdps1 := map (mk_cdp (rc_scan c)) (selected (rc_scan c) 0 pkts1) in
  let cdps2 := map (mk_cdp (rc_scan c)) (selected (rc_scan c) 0 pkts2) in
  sel (rc_check c) id cdps1 = sel (rc_check c) id cdps2 -> sel (rc_check c) id cdps1 <> [] ->
  run_validator (rc_check c) (sel (rc_check c) id cdps1) = Ok ms ->
  run_check ff c (serialize pkts1) = R_done s1 sh1 e1 -> run_check ff c (serialize pkts2) = R_done s2 sh2 e2 ->
  filter (fun m => in_unitb (sel (rc_check c) id cdps1) (m_off m)) (k_errors s1) =
  filter (fun m => in_unitb (sel (rc_check c) id cdps1) (m_off m)) (k_errors s2).
Proof.
  intros c pkts1 pkts2 ff s1 sh1 e1 s2 sh2 e2 id ms A1 A2 A3 A4 A5 B1 B2 B3 B4 B5. cbv zeta. intros E Hne Hr R1 R2.
  rewrite (C06_whole_run c pkts1 ff s1 sh1 e1 id ms A1 A2 A3 A4 A5 R1 Hne Hr).
  rewrite E in *.
  rewrite (C06_whole_run c pkts2 ff s2 sh2 e2 id ms B1 B2 B3 B4 B5 R2 Hne Hr). reflexivity.
Qed.

(* SELECTED WITH A FILTER OPTION.  Two whole runs on the same well-framed input with the same check configuration (validators per link id),
   one without a filter and one with --filter-link id: the messages the filtered run ends with are EXACTLY the link's part of the
   messages the unfiltered run ends with -- same messages, same offsets, same order *)
Theorem C06_filter_equivalence : forall c1 c2 pkts id ff s1 sh1 e1 s2 sh2 e2,
  Forall wf_pkt pkts -> N.of_nat (length pkts) < U32_MAX -> pay_all pkts < U32_MAX ->
  (forall p, In p pkts -> layout_rp (hdr p) (p_payload p)) ->
  (forall p r, pkts = p :: r -> known_sysid (r_system_id (hdr p)) = true) ->
  rc_check c2 = rc_check c1 -> (forall p, disp_id (rc_check c1) p = r_link_id (c_rdh p)) ->
  sc_filter (rc_scan c1) = None -> sc_filter (rc_scan c2) = Some (F_link id) -> sc_skip (rc_scan c2) = sc_skip (rc_scan c1) ->
  let unit := sel (rc_check c1) id (map (mk_cdp (rc_scan c1)) (selected (rc_scan c1) 0 pkts)) in
  unit <> [] ->
  run_check ff c1 (serialize pkts) = R_done s1 sh1 e1 -> run_check ff c2 (serialize pkts) = R_done s2 sh2 e2 ->
  filter (fun m => in_unitb unit (m_off m)) (k_errors s1) = k_errors s2.
Proof.
  exact (fun c1 c2 pkts id ff s1 sh1 e1 s2 sh2 e2 H1 H2 H3 H4 H5 H6 H7 H8 H9 H10 =>
           c06_filter_equiv_link c1 c2 pkts id (eq_refl : Gen.Facts.cdp_offset_sampled_after = true) (eq_refl : Gen.Facts.error_sort_when_muted = true)
                            H1 H2 H3 H4 H5 H6 H7 H8 H9 H10 ff s1 sh1 e1 s2 sh2 e2).
Qed.
(* ... and the same for the stave mode (`check all its-stave`: one validator per FEE id) with --filter-fee id: the filtered run ends with
   exactly the FEE id's part of what the unfiltered run ends with *)
Theorem C06_filter_equivalence_fee : forall c1 c2 pkts id ff s1 sh1 e1 s2 sh2 e2,
  Forall wf_pkt pkts -> N.of_nat (length pkts) < U32_MAX -> pay_all pkts < U32_MAX ->
  (forall p, In p pkts -> layout_rp (hdr p) (p_payload p)) ->
  (forall p r, pkts = p :: r -> known_sysid (r_system_id (hdr p)) = true) ->
  rc_check c2 = rc_check c1 -> (forall p, disp_id (rc_check c1) p = r_fee_id (c_rdh p)) ->
  sc_filter (rc_scan c1) = None -> sc_filter (rc_scan c2) = Some (F_fee id) -> sc_skip (rc_scan c2) = sc_skip (rc_scan c1) ->
  let unit := sel (rc_check c1) id (map (mk_cdp (rc_scan c1)) (selected (rc_scan c1) 0 pkts)) in
  unit <> [] ->
  run_check ff c1 (serialize pkts) = R_done s1 sh1 e1 -> run_check ff c2 (serialize pkts) = R_done s2 sh2 e2 ->
  filter (fun m => in_unitb unit (m_off m)) (k_errors s1) = k_errors s2.
Proof.
  exact (fun c1 c2 pkts id ff s1 sh1 e1 s2 sh2 e2 H1 H2 H3 H4 H5 H6 H7 H8 H9 H10 =>
           c06_filter_equiv_fee c1 c2 pkts id (eq_refl : Gen.Facts.cdp_offset_sampled_after = true) (eq_refl : Gen.Facts.error_sort_when_muted = true)
                            H1 H2 H3 H4 H5 H6 H7 H8 H9 H10 ff s1 sh1 e1 s2 sh2 e2).
Qed.
(* the dispatch hypothesis of the two theorems is met by the two kinds of configuration: per link id unless `check all its-stave`, per FEE id there *)
Theorem C06_dispatch_units : forall vc p,
  (v_running vc = true /\ v_target vc = T_stave -> disp_id vc p = r_fee_id (c_rdh p)) /\
  (~ (v_running vc = true /\ v_target vc = T_stave) -> disp_id vc p = r_link_id (c_rdh p)).
Proof.
  intros vc p. unfold disp_id. split.
  - intros [-> ->]. reflexivity.
  - intros H. destruct (v_running vc); [|reflexivity]. destruct (v_target vc); try reflexivity. exfalso. apply H. split; reflexivity.
Qed.

Print Assumptions C06_dispatch_key_source_shape.
Print Assumptions C06_dispatch_key.
Print Assumptions C06_isolated.
Print Assumptions C06_alone.
Print Assumptions C06_independent.
Print Assumptions C06_extraction.

(* the key of the layer/stave filter (`--filter-its-stave`): two FEE ids are matched together exactly when they agree on the six stave
   bits 5:0 and the three layer bits 14:12 of the documented FEE-id layout; the mask is re-read from the source on every run
   (fact layer_stave_mask), so a filter that merges staves n and n+32 of a layer (seed C06-I) no longer type-checks here *)
Theorem C06_stave_filter_key : forall a b,
  N.land a Gen.Facts.layer_stave_mask = N.land b Gen.Facts.layer_stave_mask <->
  (forall i, i < 6 \/ 12 <= i < 15 -> N.testbit a i = N.testbit b i).
Proof. exact (stave_filter_key_when eq_refl). Qed.

Print Assumptions C06_whole_run.
Print Assumptions C06_whole_run_independent.
Print Assumptions C06_filter_equivalence.
Print Assumptions C06_filter_equivalence_fee.
Print Assumptions C06_dispatch_units.
Print Assumptions C06_stave_filter_key.
