(* C19 -- Views show exactly what is in the data.  Property theorems only. *)
From Coq Require Import List NArith Bool.
From FP Require Import Model.Base Model.ItsWords Model.ItsFsm Model.Rdh Model.Payload Model.Scanner Model.Views.
From FP Require Import Spec.WordLayout Spec.Diagram Spec.DiagramAbs Proofs.Bits Proofs.C19_proofs Proofs.C19_det.
From FP Require Import Spec.Framing Proofs.C03_proofs Proofs.C19_run Proofs.C19_masks.
From FP Require Gen.Facts.
Import ListNotations.
Open Scope N_scope.

(* `view rdh`: one row per packet handed to the view, in order, carrying its offset and the 14 header values (the packets handed to
   the view are the selected packets of the input with their true offsets: C03) *)
Theorem C19_rdh_rows : forall cdps, length (view_rdh cdps) = length cdps /\
  forall i c, nth_error cdps i = Some c -> nth_error (view_rdh cdps) i = Some (rdh_view_row c).
Proof. exact view_rdh_rows. Qed.

(* the frame views: per packet one RDH row, then the rows of its words, each placed with the data format of its OWN RDH; the proof
   term type-checks only while the source passes `rdh.data_format()` of the iterated packet (regenerated fact) *)
Theorem C19_frame_rows : forall dv batch, Forall viewable batch ->
  view_frames dv batch =
  (flat_map (fun c => frdh_of c :: word_rows dv (rdh_data_format (c_rdh c)) (c_off c) 0 (chunks_of c)) batch, VE_done).
Proof. exact (c19_frames_rows_when Gen.Facts.view_word_offsets_use_own_rdh_format eq_refl eq_refl). Qed.

(* every word row (and every logged unknown word) stands for one examined word: its offset is the word position of its index and
   its bytes are the word's bytes ... *)
Theorem C19_word_rows : forall dv fmt off chunks idx r, In r (word_rows dv fmt off idx chunks) ->
  exists i, (i < length chunks)%nat /\
    match r with
    | VR_word o _ b _ | VR_unknown o b => o = word_pos (idx + i) fmt off /\ b = take 10 (nth i chunks [])
    | _ => False
    end.
Proof. exact word_rows_offsets. Qed.
(* ... status words always get a row, data words in the data view only ... *)
Theorem C19_row_per_word : forall dv fmt off idx c,
  word_row dv fmt off idx c =
  match kind_of_id (nb 9 (take 10 c)) with
  | None => [VR_unknown (word_pos idx fmt off) (take 10 c)]
  | Some VK_data => if dv then [VR_word (word_pos idx fmt off) VK_data (take 10 c) []] else []
  | Some k => [VR_word (word_pos idx fmt off) k (take 10 c) (word_attrs k (take 10 c))]
  end.
Proof. exact word_row_count. Qed.
(* ... the position is payload start + index * slot (16 for data format 0, else 10; constants regenerated) ... *)
Theorem C19_word_position : forall idx fmt off, off + 64 + N.of_nat idx * 16 < 18446744073709551616 ->
  word_pos idx fmt off = off + 64 + N.of_nat idx * (if fmt =? 0 then 16 else 10).
Proof. exact (c19_word_position_when Gen.Facts.view_word_padding_fmt0 Gen.Facts.view_payload_start eq_refl eq_refl eq_refl eq_refl). Qed.
(* ... and the quoted bytes are the bytes of the payload at index * slot (with C12_fmt0 / C12_fmt2: slot = the RDH's format on
   conforming payloads, so the shown position is where those bytes are in the input) *)
Theorem C19_quoted_bytes : forall p slot chunks i, preprocess p = Prep_ok slot chunks -> (i < length chunks)%nat ->
  (slot = 16%nat \/ slot = 10%nat) /\ take 10 (nth i chunks []) = take 10 (drop (i * slot) p).
Proof. exact c19_chunk_is_payload_slice. Qed.

(* decoded attributes = the documented bit fields of the quoted bytes, for ALL 2^80 words *)
Theorem C19_tdh_attributes : forall w, word_ok w ->
  word_attrs VK_tdh w = [spec_tdh_trigger w; b2N (f80 w 14 1 =? 1); b2N (f80 w 13 1 =? 1); f80 w 32 32; f80 w 16 12].
Proof. exact (c19_tdh_attrs_when _ _ _ _ _ eq_refl eq_refl eq_refl eq_refl eq_refl eq_refl eq_refl eq_refl eq_refl eq_refl). Qed.
Theorem C19_tdt_packet_status : forall w, word_ok w -> view_tdt_done w = b2N (f80 w 64 1 =? 1).
Proof. exact (c19_tdt_done_when _ eq_refl eq_refl). Qed.
(* lane faults of TDT / DDW0: the worst status among the 28 two-bit lane fields [55:0] *)
Theorem C19_lane_faults : forall w, word_ok w -> view_lane_status w = worst (lane_stats w).
Proof. exact (c19_lane_status_when _ eq_refl eq_refl). Qed.
(* the "lane faults" column of an RDH row: the detector field's status bits -- 3 fatal, 2 error, 1 warning, 0 lane missing data --
   and the most severe one set is the one shown (codes of the model: 3 fatal, 2 error, 1 warning, 4 missing, 0 none) *)
Theorem C19_rdh_lane_faults : forall d,
  det_lane_status d = if N.testbit d 3 then 3 else if N.testbit d 2 then 2 else if N.testbit d 1 then 1 else if N.testbit d 0 then 4 else 0.
Proof. exact det_lane_status_spec. Qed.

(* the "trigger" column of an RDH row of the frame views: the documented trigger-type bits, Start of Continuous (9) shown before Start of
   Triggered (7) before HeartBeat (1) before Physics (4), `Other` when none is set (codes of the model: 0 SOC, 1 SOT, 2 HB, 3 PhT, 4 other);
   masks and test order are regenerated facts *)
Theorem C19_rdh_trigger_column : forall t,
  rdh_trig_kind t = if N.testbit t 9 then 0 else if N.testbit t 7 then 1 else if N.testbit t 1 then 2 else if N.testbit t 4 then 3 else 4.
Proof. exact (rdh_trig_kind_documented_when eq_refl eq_refl eq_refl eq_refl eq_refl). Qed.

Theorem C19_lanes_are_0_to_27 : lane_ids = map N.of_nat (seq 0 28).
Proof. exact lane_ids_are_0_27. Qed.

(* on every word that is legal where it stands (conforming data), the type shown = the type the checker's state machine assigns *)
Theorem C19_agrees_with_checker : forall s w, word_ok w ->
  legal (abs s) (kind_of (nb 9 w) (sl_tdh_no_data w) (sl_tdt_packet_done w)) = true ->
  exists p, snd (advance s w) = F_ok p /\ kind_of_id (nb 9 w) = Some (erase p).
Proof. exact c19_agrees_with_checker. Qed.

Theorem C19_refuted_batch_format : word_pos 1 0 0 <> word_pos 1 2 0.
Proof. exact c19_refuted_batch_format. Qed.

(* THE WHOLE INPUT.  Composed with the scanner (C03): for EVERY well-framed input, every filter, payloads loaded or skipped, file or pipe,
   any packet count (the view works batch by batch): `view rdh` shows exactly one row per selected packet of the chain, in order, with
   its true offset and the decoded header values; the offsets are the chained byte offsets, each packet inside the input *)
Theorem C19_view_rdh_whole_input : forall c pkts, Forall wf_pkt pkts ->
  flat_map view_rdh (so_batches (scan_impl c (serialize pkts))) = map (fun op => rdh_view_row (mk_cdp c op)) (selected c 0 pkts).
Proof. exact (c19_view_rdh_whole Gen.Facts.cdp_offset_sampled_after Gen.Facts.batch_kept_on_invalid_input eq_refl). Qed.
Theorem C19_view_rdh_offsets : forall c pkts op, In op (selected c 0 pkts) ->
  fst op + p_size (snd op) <= total_size pkts /\ c_off (mk_cdp c op) = fst op.
Proof. exact c19_view_rdh_offsets. Qed.
(* ... and the two readout-frame views, when every selected packet can be shown (FEE id of a real layer: finding F6; no over-long 0xFF
   run): per selected packet one RDH row and then the rows of its words, each at offset + 64 + index * slot of its OWN data format;
   no batch ends the run early *)
Theorem C19_view_frames_whole_input : forall dv c pkts, Forall wf_pkt pkts -> Forall viewable (map (mk_cdp c) (selected c 0 pkts)) ->
  let batches := so_batches (scan_impl c (serialize pkts)) in
  flat_map (fun bt => fst (view_frames dv bt)) batches =
    flat_map (fun q => frdh_of q :: word_rows dv (rdh_data_format (c_rdh q)) (c_off q) 0 (chunks_of q)) (map (mk_cdp c) (selected c 0 pkts)) /\
  Forall (fun bt => snd (view_frames dv bt) = VE_done) batches.
Proof.
  exact (c19_view_frames_whole Gen.Facts.cdp_offset_sampled_after Gen.Facts.batch_kept_on_invalid_input Gen.Facts.view_word_offsets_use_own_rdh_format
           eq_refl eq_refl eq_refl).
Qed.

Print Assumptions C19_rdh_rows.
Print Assumptions C19_frame_rows.
Print Assumptions C19_word_rows.
Print Assumptions C19_row_per_word.
Print Assumptions C19_word_position.
Print Assumptions C19_quoted_bytes.
Print Assumptions C19_tdh_attributes.
Print Assumptions C19_tdt_packet_status.
Print Assumptions C19_lane_faults.
Print Assumptions C19_rdh_lane_faults.
Print Assumptions C19_lanes_are_0_to_27.
Print Assumptions C19_agrees_with_checker.
Print Assumptions C19_refuted_batch_format.
Print Assumptions C19_view_rdh_whole_input.
Print Assumptions C19_view_rdh_offsets.
Print Assumptions C19_view_frames_whole_input.
Print Assumptions C19_rdh_trigger_column.
