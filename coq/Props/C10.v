(* C10 -- RDH sanity and running checks implement the documented rules exactly.
   Property theorems only. *)
From Coq Require Import List NArith.
From FP Require Import Model.Base Model.Rdh Model.RdhChecks Spec.RdhRules Proofs.RdhFacts Proofs.C10_proofs Model.CdpRunning Model.Scanner Model.Link Proofs.C10_run.
From FP Require Import Model.Collector Model.System Spec.Framing Spec.GroundTruth Proofs.C03_proofs Proofs.C14_proofs Proofs.C10_whole.
From FP Require Gen.Facts.
Import ListNotations.
Open Scope N_scope.

(* E10: with the header id latched from the link's first RDH (or the user's rdh_version), an
   RDH passes the sanity check iff it satisfies every documented condition; all 2^512 headers *)
Theorem C10_sanity_iff : forall b first its, rdh_bytes_ok b ->
  (snd (rdh_sanity (st_of first its) (decode_rdh b)) = [] <-> rdh_sane first its b = true).
Proof. exact c10_sanity_latched. Qed.

(* the first RDH latches its own header id (or the configured one) and is judged against it *)
Theorem C10_sanity_first : forall b custom its, rdh_bytes_ok b ->
  let st := sanity_init custom its in
  let first := match custom with Some v => v | None => h_header_id b end in
  fst (rdh_sanity st (decode_rdh b)) = st_of first its /\
  (snd (rdh_sanity st (decode_rdh b)) = [] <-> rdh_sane first its b = true).
Proof. exact c10_sanity_first. Qed.
Theorem C10_sanity_latch_stable : forall b first its,
  fst (rdh_sanity (st_of first its) (decode_rdh b)) = st_of first its.
Proof. exact c10_sanity_state. Qed.

(* E11: for every history that begins at an HBF start and does not wrap the 16-bit page
   counter, the last RDH is reported iff it breaks the documented running rule *)
Theorem C10_running_iff : forall hist b,
  Forall rdh_bytes_ok (hist ++ [b]) -> starts_at_hbf (hist ++ [b]) -> no_wrap (hist ++ [b]) 0 ->
  (snd (running_check (run_fold running_init hist) (decode_rdh b)) <> [] <->
   running_violation hist b = true).
Proof. exact c10_running_iff. Qed.

(* A VALIDATOR'S WHOLE PASS (`check sanity` without a target; the packets of one link in arrival order, any number, any contents, each
   header decoded from its 64 bytes): the pass reports EXACTLY the RDHs that violate a documented sanity condition relative to the
   header id of the link's first RDH (or the configured version) -- for each of them one [E10] at the packet's own offset, for the
   others nothing, in packet order, and nothing else *)
Theorem C10_sanity_pass_exact : forall custom h0 hs, Forall (fun h => rdh_bytes_ok (hp_bytes h)) (h0 :: hs) ->
  let first := match custom with Some v => v | None => h_header_id (hp_bytes h0) end in
  exists per, run_validator (sanity_cfg custom) (map to_cdp (h0 :: hs)) = Ok (concat per) /\
    Forall2 (fun h ms => (violates first h = false /\ ms = []) \/ (violates first h = true /\ exists m, ms = [m] /\ is_e10_at (hp_off h) m)) (h0 :: hs) per.
Proof. exact c10_pass. Qed.

(* ONE WHOLE `check sanity` RUN (no target; payloads skipped) on a well-framed input of any number of links interleaved in any way, under any
   filter and display option: in the state the run ends with (report, statistics file) an RDH of the input that passed the filter carries
   an [E10] at its offset IF AND ONLY IF it violates a documented sanity condition relative to the header id of the first RDH of ITS
   LINK (or the configured version) -- scanner, dispatcher, the link's validator thread and the collector composed *)
Theorem C10_whole_run_sanity : forall c pkts custom ff s shown e id op0 rest,
  Forall wf_pkt pkts -> N.of_nat (length pkts) < U32_MAX -> pay_all pkts < U32_MAX ->
  (forall p r, pkts = p :: r -> known_sysid (r_system_id (hdr p)) = true) ->
  sc_skip (rc_scan c) = true -> rc_check c = sanity_cfg custom ->
  run_check ff c (serialize pkts) = R_done s shown e -> link_ops c pkts id = op0 :: rest ->
  let first := match custom with Some v => v | None => h_header_id (p_hdr (snd op0)) end in
  forall op, In op (link_ops c pkts id) ->
    ((exists m, In m (k_errors s) /\ m_off m = fst op /\ m_body m = 10) <-> rdh_sane first false (p_hdr (snd op)) = false).
Proof.
  exact (fun c pkts custom ff s shown e id op0 rest H1 H2 H3 H4 H5 H6 =>
           c10_whole_run c pkts custom (eq_refl : Gen.Facts.cdp_offset_sampled_after = true) (eq_refl : Gen.Facts.error_sort_when_muted = true)
                         H1 H2 H3 H4 H5 H6 ff s shown e id op0 rest).
Qed.

Print Assumptions C10_sanity_iff.
Print Assumptions C10_sanity_first.
Print Assumptions C10_sanity_latch_stable.
Print Assumptions C10_running_iff.
Print Assumptions C10_sanity_pass_exact.
Print Assumptions C10_whole_run_sanity.
