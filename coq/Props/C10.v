(* C10 -- RDH sanity and running checks implement the documented rules exactly.
   Property theorems only. *)
From Coq Require Import List NArith.
From FP Require Import Model.Base Model.Rdh Model.RdhChecks Spec.RdhRules Proofs.RdhFacts Proofs.C10_proofs.
Import ListNotations.
Open Scope N_scope.

(* E10: with the header id latched from the link's first RDH (or the user's rdh_version), an
   RDH passes the sanity check iff it satisfies every documented condition; all 2^512 headers *)
Theorem C10_sanity_iff : forall b first its, rdh_bytes_ok b ->
  (snd (rdh_sanity (st_of first its) (decode_rdh b)) = [] <-> rdh_sane first its b = true).
Proof. exact c10_sanity_latched. Qed.

(* the first RDH latches its own header id (or the configured one) and is judged against it *)
Theorem C10_sanity_first : forall b custom its, rdh_bytes_ok b ->
  let st := sanity_init custom its in
  let first := match custom with Some v => v | None => h_header_id b end in
  fst (rdh_sanity st (decode_rdh b)) = st_of first its /\
  (snd (rdh_sanity st (decode_rdh b)) = [] <-> rdh_sane first its b = true).
Proof. exact c10_sanity_first. Qed.
Theorem C10_sanity_latch_stable : forall b first its,
  fst (rdh_sanity (st_of first its) (decode_rdh b)) = st_of first its.
Proof. exact c10_sanity_state. Qed.

(* E11: for every history that begins at an HBF start and does not wrap the 16-bit page
   counter, the last RDH is reported iff it breaks the documented running rule *)
Theorem C10_running_iff : forall hist b,
  Forall rdh_bytes_ok (hist ++ [b]) -> starts_at_hbf (hist ++ [b]) -> no_wrap (hist ++ [b]) 0 ->
  (snd (running_check (run_fold running_init hist) (decode_rdh b)) <> [] <->
   running_violation hist b = true).
Proof. exact c10_running_iff. Qed.

Print Assumptions C10_sanity_iff.
Print Assumptions C10_sanity_first.
Print Assumptions C10_sanity_latch_stable.
Print Assumptions C10_running_iff.
