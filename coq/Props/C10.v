(* C10 -- RDH sanity and running checks implement the documented rules exactly.
   Property theorems only. *)
From Coq Require Import List NArith.
From FP Require Import Model.Base Model.Rdh Model.RdhChecks Spec.RdhRules Proofs.RdhFacts Proofs.C10_proofs Model.CdpRunning Model.Scanner Model.Link Proofs.C10_run Proofs.C10_running_pass.
From FP Require Import Model.Collector Model.System Spec.Framing Spec.GroundTruth Proofs.C03_proofs Proofs.C14_proofs Proofs.C10_whole.
From FP Require Gen.Facts.
Import ListNotations.
Open Scope N_scope.

(* E10: with the header id latched from the link's first RDH (or the user's rdh_version), an
   RDH passes the sanity check iff it satisfies every documented condition; all 2^512 headers *)
Theorem C10_sanity_iff : forall b first its, rdh_bytes_ok b ->
  (snd (rdh_sanity (st_of first its) (decode_rdh b)) = [] <-> rdh_sane first its b = true).
Proof. exact c10_sanity_latched. Qed.

(* the first RDH latches its own header id (or the configured one) and is judged against it *)
Theorem C10_sanity_first : forall b custom its, rdh_bytes_ok b ->
  let st := sanity_init custom its in
  let first := match custom with Some v => v | None => h_header_id b end in
  fst (rdh_sanity st (decode_rdh b)) = st_of first its /\
  (snd (rdh_sanity st (decode_rdh b)) = [] <-> rdh_sane first its b = true).
Proof. exact c10_sanity_first. Qed.
Theorem C10_sanity_latch_stable : forall b first its,
  fst (rdh_sanity (st_of first its) (decode_rdh b)) = st_of first its.
Proof. exact c10_sanity_state. Qed.

(* E11: for every history that begins at an HBF start and does not wrap the 16-bit page
   counter, the last RDH is reported iff it breaks the documented running rule *)
Theorem C10_running_iff : forall hist b,
  Forall rdh_bytes_ok (hist ++ [b]) -> starts_at_hbf (hist ++ [b]) -> no_wrap (hist ++ [b]) 0 ->
  (snd (running_check (run_fold running_init hist) (decode_rdh b)) <> [] <->
   running_violation hist b = true).
Proof. exact c10_running_iff. Qed.

(* A VALIDATOR'S WHOLE PASS (`check sanity` without a target; the packets of one link in arrival order, any number, any contents, each
   header decoded from its 64 bytes): the pass reports EXACTLY the RDHs that violate a documented sanity condition relative to the
   header id of the link's first RDH (or the configured version) -- for each of them one [E10] at the packet's own offset, for the
   others nothing, in packet order, and nothing else *)
Theorem C10_sanity_pass_exact : forall custom h0 hs, Forall (fun h => rdh_bytes_ok (hp_bytes h)) (h0 :: hs) ->
  let first := match custom with Some v => v | None => h_header_id (hp_bytes h0) end in
  exists per, run_validator (sanity_cfg custom) (map to_cdp (h0 :: hs)) = Ok (concat per) /\
    Forall2 (fun h ms => (violates first h = false /\ ms = []) \/ (violates first h = true /\ exists m, ms = [m] /\ is_e10_at (hp_off h) m)) (h0 :: hs) per.
Proof. exact c10_pass. Qed.

(* ONE WHOLE `check sanity` RUN (no target; payloads skipped) on a well-framed input of any number of links interleaved in any way, under any
   filter and display option: in the state the run ends with (report, statistics file) an RDH of the input that passed the filter carries
   an [E10] at its offset IF AND ONLY IF it violates a documented sanity condition relative to the header id of the first RDH of ITS
   LINK (or the configured version) -- scanner, dispatcher, the link's validator thread and the collector composed *)
Theorem C10_whole_run_sanity : forall c pkts custom ff s shown e id op0 rest,
  Forall wf_pkt pkts -> N.of_nat (length pkts) < U32_MAX -> pay_all pkts < U32_MAX ->
  (forall p r, pkts = p :: r -> known_sysid (r_system_id (hdr p)) = true) ->
  sc_skip (rc_scan c) = true -> rc_check c = sanity_cfg custom ->
  run_check ff c (serialize pkts) = R_done s shown e -> link_ops c pkts id = op0 :: rest ->
  let first := match custom with Some v => v | None => h_header_id (p_hdr (snd op0)) end in
  forall op, In op (link_ops c pkts id) ->
    ((exists m, In m (k_errors s) /\ m_off m = fst op /\ m_body m = 10) <-> rdh_sane first false (p_hdr (snd op)) = false).
Proof.
  exact (fun c pkts custom ff s shown e id op0 rest H1 H2 H3 H4 H5 H6 =>
           c10_whole_run c pkts custom (eq_refl : Gen.Facts.cdp_offset_sampled_after = true) (eq_refl : Gen.Facts.error_sort_when_muted = true)
                         H1 H2 H3 H4 H5 H6 ff s shown e id op0 rest).
Qed.

(* A VALIDATOR'S WHOLE PASS IN `check all` (no target; the packets of one link in arrival order, any number, any contents): packet by packet
   and in packet order the pass emits m10 ++ m11, where m10 is one [E10] at the packet's offset exactly when the RDH violates a documented
   sanity condition (relative to the first RDH's header id or the configured version) and m11 is at most one [E11] at the packet's offset,
   present -- for every prefix that begins at an HBF start and does not wrap the page counter -- exactly when the RDH breaks the documented
   running rule GIVEN ALL THE RDHs BEFORE IT: the reference of each comparison is the immediate predecessor, reported or not (seed C10-J kept
   the last error-free RDH instead) *)
Theorem C10_running_pass_exact : forall custom h0 hs, Forall (fun h => rdh_bytes_ok (hp_bytes h)) (h0 :: hs) ->
  let first := match custom with Some v => v | None => h_header_id (hp_bytes h0) end in
  let all := h0 :: hs in
  exists per, run_validator (all_cfg custom) (map to_cdp all) = Ok (concat per) /\ length per = length all /\
    forall k h, nth_error all k = Some h ->
      exists m10 m11, nth_error per k = Some (m10 ++ m11) /\
        ((violates first h = false /\ m10 = []) \/ (violates first h = true /\ exists m, m10 = [m] /\ is_e10_at (hp_off h) m)) /\
        (m11 = [] \/ exists m, m11 = [m] /\ is_e11_at (hp_off h) m) /\
        (starts_at_hbf (map hp_bytes (firstn (S k) all)) -> no_wrap (map hp_bytes (firstn (S k) all)) 0 ->
         (m11 <> [] <-> running_violation (map hp_bytes (firstn k all)) (hp_bytes h) = true)).
Proof. exact c10_running_pass. Qed.

(* non-vacuity, on the shape that tells the predecessor from the last error-free RDH: pages 0,1 at orbit 5, page 2 at orbit 6 (reported),
   page 3 with the stop bit back at orbit 5 (reported AGAIN: its predecessor is page 2), then a clean two-page HBF at orbit 7 *)
Definition c10_rh (orbit page stop : N) : list N :=
  [7;64;42;80;0;32;0;0; 64;0;64;0;0;0;24;0] ++ [0;0;0;0; orbit;0;0;0] ++ [2;0;0;0;0;0;0;0; 3;106;0;0; page;0; stop;0] ++ repeat 0 24.
Definition c10_seq : list hpkt :=
  [ {| hp_bytes := c10_rh 5 0 0; hp_payload := []; hp_off := 0 |};   {| hp_bytes := c10_rh 5 1 0; hp_payload := []; hp_off := 64 |};
    {| hp_bytes := c10_rh 6 2 0; hp_payload := []; hp_off := 128 |}; {| hp_bytes := c10_rh 5 3 1; hp_payload := []; hp_off := 192 |};
    {| hp_bytes := c10_rh 7 0 0; hp_payload := []; hp_off := 256 |}; {| hp_bytes := c10_rh 7 1 1; hp_payload := []; hp_off := 320 |} ].
Example C10_running_pass_nonvacuous :
  Forall (fun h => rdh_bytes_ok (hp_bytes h)) c10_seq /\
  starts_at_hbf (map hp_bytes c10_seq) /\ no_wrap (map hp_bytes c10_seq) 0 /\
  (exists ms, run_validator (all_cfg None) (map to_cdp c10_seq) = Ok ms /\
     map (fun v => match v with VErr e => (e_off e, e_code e) | _ => (0, 0) end) ms = [(128, 11); (192, 11)]) /\
  map (fun k => running_violation (map hp_bytes (firstn k c10_seq)) (hp_bytes (nth k c10_seq (nth 0 c10_seq {| hp_bytes := []; hp_payload := []; hp_off := 0 |}))))
      [0; 1; 2; 3; 4; 5]%nat = [false; false; true; true; false; false].
Proof.
  split; [repeat constructor; apply rdh_bytes_okb_sound; vm_compute; reflexivity|].
  split; [vm_compute; split; reflexivity|]. split; [vm_compute; repeat split; reflexivity|].
  split; [eexists; split; vm_compute; reflexivity|vm_compute; reflexivity].
Qed.

Print Assumptions C10_sanity_iff.
Print Assumptions C10_sanity_first.
Print Assumptions C10_sanity_latch_stable.
Print Assumptions C10_running_iff.
Print Assumptions C10_sanity_pass_exact.
Print Assumptions C10_whole_run_sanity.
Print Assumptions C10_running_pass_exact.
Print Assumptions C10_running_pass_nonvacuous.
