(* C09 -- ITS payload words are classified as the documented state machine says.
   Property theorems only. *)
From Coq Require Import List NArith.
From FP Require Import Model.Base Model.ItsWords Model.ItsFsm Spec.Diagram Spec.DiagramAbs Proofs.Bits Proofs.C09_proofs.
From FP Require Gen.Facts.
Import ListNotations.
Open Scope N_scope.

(* one step, any implementation state, any word: the implementation state abstracts to the
   diagram's successor (recovery included) and the classification is the prescribed one *)
Theorem C09_step : forall s id nd pd, id < 256 ->
  abs (fst (advance_k s id nd pd)) = fst (dstep (abs s) id nd pd) /\
  refine_res (snd (advance_k s id nd pd)) = snd (dstep (abs s) id nd pd).
Proof. exact sim_step. Qed.

(* a legal word is classified as the diagram prescribes and the next state is the successor *)
Theorem C09_step_legal : forall s id nd pd, id < 256 -> legal (abs s) (kind_of id nd pd) = true ->
  exists c, dclass (abs s) (kind_of id nd pd) = Some c /\
            refine_res (snd (advance_k s id nd pd)) = V_as c /\
            dnext (abs s) (kind_of id nd pd) = Some (abs (fst (advance_k s id nd pd))).
Proof. exact legal_step. Qed.

(* an illegal word is never taken for a legal one: in single-successor states it is handed to
   the expected word's sanity check with a wrong identifier, in choice states it is an
   unrecognised-ID result *)
Theorem C09_step_illegal : forall s id nd pd, id < 256 -> legal (abs s) (kind_of id nd pd) = false ->
  let v := refine_res (snd (advance_k s id nd pd)) in
  match expected (abs s) with
  | X_IHW => is_ihw_word v /\ id <> IHW_ID
  | X_TDH => is_tdh_word v /\ id <> TDH_ID
  | X_choice_tdh_ddw0_ihw => v = V_unrecognised 990 \/ v = V_unrecognised 992
  | X_choice_data_tdt_cdw => v = V_unrecognised 991
  end.
Proof. exact illegal_step. Qed.

(* all finite word sequences, over any number of packets: lockstep with the diagram *)
Theorem C09_run : forall ws, Forall word_ok ws ->
  abs (fst (fsm_run S_InitialIHW ws)) = fst (drun D_IHW (map wkey ws)) /\
  map refine_res (snd (fsm_run S_InitialIHW ws)) = snd (drun D_IHW (map wkey ws)).
Proof. exact sim_run. Qed.

(* the model only takes transitions declared in the sm! block of the current source *)
Theorem C09_table_wf : forall s id nd pd, id < 256 ->
  pair_in (base_id s) (base_id (fst (advance_k s id nd pd))) Gen.Facts.sm_transitions = true.
Proof. exact table_wf. Qed.

Example C09_nonvacuous :
  (* IHW TDH data TDT(done) DDW0 on the happy path, then an illegal TDT where an IHW is due *)
  let ws := [[255;63;0;0;0;0;0;0;0;224]; [3;26;0;0;0;0;0;0;0;232]; [0;0;0;0;0;0;0;0;0;70];
             [0;0;0;0;0;0;0;0;1;240]; [0;0;0;0;0;0;0;0;0;228]; [0;0;0;0;0;0;0;0;1;240]] in
  map fres_id (snd (fsm_run S_InitialIHW ws)) = [0; 2; 7; 5; 8; 0] /\
  fst (fsm_run S_InitialIHW ws) = S_TDH_ByIhw /\
  legal D_IHW (kind_of 240 false true) = false /\ legal D_Data (kind_of 70 false false) = true.
Proof. repeat split; reflexivity. Qed.

Print Assumptions C09_step.
Print Assumptions C09_step_legal.
Print Assumptions C09_step_illegal.
Print Assumptions C09_run.
Print Assumptions C09_table_wf.
