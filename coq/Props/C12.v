(* C12 -- Payloads are cut into words correctly; padding is never a word.
   Property theorems only.  (The packet-level parts -- one message, payload skipped, state
   reset, word offsets as seen by the checker -- are in Props/C12 section "packet level",
   proved over Model/CdpRunning.v.) *)
From Coq Require Import List NArith.
From FP Require Import Model.Base Model.ItsFsm Model.Rdh Model.Payload Model.CdpRunning Proofs.C12_proofs Proofs.C12_packet.
From FP Require Gen.Facts.
Import ListNotations.
Open Scope N_scope.

(* format 2: consecutive 10-byte words followed by at most 15 bytes of 0xFF padding.
   Guards: the last word does not end in 0xFF (otherwise the boundary between word and padding
   is not determined by the bytes, finding F13) and the payload does not look like format 0
   (bytes 10..15 all zero, finding F12). *)
Theorem C12_fmt2 : forall ws p,
  Forall word10 ws -> (p <= 15)%nat -> last_not_ff (concat ws) ->
  detect_fmt0 (concat ws ++ repeat 255 p) = false ->
  words_of (concat ws ++ repeat 255 p) = Some ws /\ slot_of (concat ws ++ repeat 255 p) = 10%nat.
Proof. exact c12_fmt2. Qed.

(* format 0: 16-byte slots whose first 10 bytes are the word and whose 6 padding bytes are zero *)
Theorem C12_fmt0 : forall ws p,
  Forall word10 ws -> ws <> [] -> (p <= 15)%nat ->
  words_of (concat (map slot0 ws) ++ repeat 255 p) = Some ws /\
  slot_of (concat (map slot0 ws) ++ repeat 255 p) = 16%nat.
Proof. exact c12_fmt0. Qed.

(* every examined chunk i is the slice of the payload at byte i * slot, wholly inside it:
   words are examined once, in order, none overlaps the next *)
Theorem C12_chunk_at : forall n l i, (0 < n)%nat -> (i < length (chunks_exact n l))%nat ->
  nth i (chunks_exact n l) [] = take n (drop (i * n) l) /\ (i * n + n <= length l)%nat.
Proof. exact c12_chunk_at. Qed.

(* more than 15 bytes of 0xFF: no word is examined *)
Theorem C12_too_much_padding : forall p, (15 < ff_run p)%nat ->
  words_of p = None /\ preprocess p = Prep_err (ff_run p).
Proof. exact c12_too_much. Qed.
Theorem C12_padding_ok : forall p, (ff_run p <= 15)%nat -> exists s cs, preprocess p = Prep_ok s cs.
Proof. exact c12_padding_ok. Qed.

(* ---- packet level (do_payload_checks) ---- *)
(* a payload ending in more than 15 bytes of 0xFF is reported once (un-coded message at the RDH
   offset), no word of it is examined, and the protocol state is the initial one afterwards *)
Theorem C12_packet_too_much_padding : forall c s r payload pos s1,
  set_current_rdh s r pos = Ok s1 -> (15 < ff_run payload)%nat ->
  do_payload_checks c s r payload pos = Ok (set_fsm s1 S_InitialIHW, [VErr (mk_err pos CODE_PAYLOAD None)]) /\
  cs_fsm (set_fsm s1 S_InitialIHW) = S_InitialIHW.
Proof. exact c12_packet_too_much. Qed.
(* otherwise the checker sees exactly the words of the payload, once each and in order *)
Theorem C12_packet_words : forall c s r payload pos s1 ws,
  set_current_rdh s r pos = Ok s1 -> words_of payload = Some ws ->
  do_payload_checks c s r payload pos = cdp_words c s1 ws [].
Proof. exact c12_packet_words. Qed.
Theorem C12_words_in_order : forall c ws1 s ws2 acc,
  cdp_words c s (ws1 ++ ws2) acc =
  match cdp_words c s ws1 acc with
  | Ok (s1, acc1) => cdp_words c s1 ws2 acc1
  | Panic p => Panic p
  end.
Proof. exact cdp_words_app. Qed.

(* The unguarded statement ("each payload ... as its data format prescribes") is false of the
   code: the slot size is taken from payload bytes 10..15 (known findings F12). *)
Theorem C12_refuted_fmt2 :
  exists ws p, Forall word10 ws /\ (p <= 15)%nat /\ last_not_ff (concat ws) /\
               words_of (concat ws ++ repeat 255 p) <> Some ws.
Proof. exact c12_refuted_fmt2. Qed.
Theorem C12_refuted_fmt0 :
  exists ws, Forall word10 ws /\ ws <> [] /\
             words_of (concat (map (fun w => w ++ [0;0;0;0;0;1]) ws)) <> Some ws.
Proof. exact c12_refuted_fmt0. Qed.

(* the thresholds and slot sizes of the payload preprocessing are the ones the model is written with -- re-read from
   extract_payload_ff_padding (more than 15 bytes of 0xFF: error), chunkify_payload (16-byte slots for format 0; 10-byte words, the 0xFF run cut
   when longer than 9) and detect_payload_data_format (bytes 10..15 all zero) on every run: a source with other numbers no longer type-checks here *)
Theorem C12_payload_constants_as_modelled :
  Gen.Facts.ff_padding_max = 15 /\ Gen.Facts.ff_padding_word_threshold = 9 /\
  Gen.Facts.pin_chunk_sizes = [16; 10; 10] /\ Gen.Facts.pin_detect_format = [10; 6; 0; 6].
Proof. repeat split; reflexivity. Qed.

Example C12_nonvacuous :
  let ws := [w_ihw; [3;26;0;0;0;0;0;0;0;232]; [0;0;0;0;0;0;0;0;1;240]] in
  Forall word10 ws /\ last_not_ff (concat ws) /\ detect_fmt0 (concat ws ++ repeat 255 2) = false /\
  words_of (concat ws ++ repeat 255 2) = Some ws /\
  words_of (concat (map slot0 ws)) = Some ws /\
  words_of (w_ihw ++ repeat 255 16) = None.
Proof. cbn zeta. split; [repeat constructor|]. repeat split; vm_compute; try reflexivity; discriminate. Qed.

Print Assumptions C12_fmt2.
Print Assumptions C12_fmt0.
Print Assumptions C12_chunk_at.
Print Assumptions C12_too_much_padding.
Print Assumptions C12_padding_ok.
Print Assumptions C12_packet_too_much_padding.
Print Assumptions C12_packet_words.
Print Assumptions C12_words_in_order.
Print Assumptions C12_refuted_fmt2.
Print Assumptions C12_refuted_fmt0.
Print Assumptions C12_payload_constants_as_modelled.
