(* C05 -- Results do not depend on thread scheduling.  Property theorems only. *)
From Coq Require Import List NArith.
From FP Require Import Model.Base Model.Rdh Model.Scanner Model.CdpRunning Model.Link Model.Collector Model.System Spec.Framing Spec.GroundTruth
  Proofs.Interleave Proofs.C03_proofs Proofs.C05_proofs Proofs.C07_run Proofs.C14_proofs Proofs.C05_run Model.Views Model.SystemView Proofs.C05_reportless.
From FP Require Gen.Facts.
Import ListNotations.
Open Scope N_scope.

(* The collector receives ONE interleaving of the per-sender FIFO streams (main thread forwarding the
   reader's statistics, analysis thread, one validator per link) -- which one is the only thing thread
   scheduling decides.  For EVERY family of streams in which each ordered statistic has a single
   sender, no fatal error is sent, and two error messages with the same leading offset come from the
   same sender (C07: a validator's messages lie inside its own packets), and for EVERY two
   interleavings of them, the finalised collector -- everything the report, the statistics file, the
   displayed messages and the exit status are computed from -- is the same.
   The proof term type-checks only for a collector that sorts the error list also when errors are
   muted (Gen.Facts.error_sort_when_muted, read from finalize_stats); the sort of the model is a
   stable sort and C05_sort_is_the_codes pins that the source uses one. *)
Theorem C05_collector_schedule_independent : forall ss a1 a2 mute, streams_ok ss -> Interleave ss a1 -> Interleave ss a2 ->
  finalize Gen.Facts.error_sort_when_muted mute (collect_all a1) =
  finalize Gen.Facts.error_sort_when_muted mute (collect_all a2).
Proof. exact (c05_collector_when Gen.Facts.error_sort_when_muted eq_refl). Qed.

Theorem C05_sort_is_the_codes : Gen.Facts.error_sort_is_stable = true.
Proof. exact eq_refl. Qed.

(* the lemma everything rests on: a stable sort by key is determined by the per-key subsequences *)
Theorem C05_stable_sort_determined : forall l1 l2, (forall k, selk k l1 = selk k l2) -> sort_msgs l1 = sort_msgs l2.
Proof. exact stable_sort_det. Qed.

(* interleavings of the same streams agree on every sub-sequence that lives in one stream *)
Theorem C05_interleave_filter : forall (P : cstat -> bool) ss a1 a2, Interleave ss a1 -> Interleave ss a2 ->
  (exists i, only_in P ss i) -> filter P a1 = filter P a2.
Proof. exact (@interleave_filter_eq cstat). Qed.

(* the collector of the pinned commit (no sort under --mute-errors; defect F3) is schedule dependent *)
Theorem C05_refuted_unsorted_when_muted :
  let ss := [[CS_error (c05_m 64 1)]; [CS_error (c05_m 0 2)]] in
  streams_ok ss /\ Interleave ss [CS_error (c05_m 64 1); CS_error (c05_m 0 2)] /\ Interleave ss [CS_error (c05_m 0 2); CS_error (c05_m 64 1)] /\
  finalize false true (collect_all [CS_error (c05_m 64 1); CS_error (c05_m 0 2)]) <>
  finalize false true (collect_all [CS_error (c05_m 0 2); CS_error (c05_m 64 1)]).
Proof. exact c05_refuted_unsorted_when_muted. Qed.

(* ONE WHOLE `check` RUN (scanner, dispatcher, every validator, analysis thread, collector, report, exit status).
   `sender_streams c input` is what the threads of the run put on the statistics channel, each in its own order; `run_check_sched`
   is the run in which the channel delivers these messages in the order `a`.  For EVERY well-framed input (any number of links,
   any interleaving, any contents, also corrupted), every check mode / target / filter / display option, and EVERY arrival order `a`
   the run ends exactly as the model's own run does: same collector state (the statistics file), same displayed messages in the
   same order, same exit status.  What `streams_ok` asks as a hypothesis in the collector theorem is PROVED here for the run's own
   streams: two messages with the same leading offset come from the same sender because each message of a validator is located at
   the start of an RDH or word of one of ITS packets (C07_whole_run) and the packets of a well-framed input do not overlap (C03).
   Provisos, all the property's own: no fatal input error (well-framed, known system id), no error cap (the model has no
   early stop), the payload layout agrees with the header's data format (the proviso of C07; without it see
   C05_layout_proviso_needed below), fewer than 2^32 packets / payload bytes (the reader's counters). *)
Theorem C05_whole_run : forall c pkts ff a,
  Forall wf_pkt pkts -> N.of_nat (length pkts) < U32_MAX -> pay_all pkts < U32_MAX ->
  (forall p, In p pkts -> layout_rp (hdr p) (p_payload p)) ->
  (forall p r, pkts = p :: r -> known_sysid (r_system_id (hdr p)) = true) ->
  Interleave (sender_streams c (serialize pkts)) a ->
  run_check_sched ff c (serialize pkts) a = run_check ff c (serialize pkts).
Proof. exact (fun c pkts ff a H1 H2 H3 H4 H5 => c05_whole_run c pkts (eq_refl : Gen.Facts.cdp_offset_sampled_after = true) H1 H2 H3 (or_intror H4) H5 ff a
                (eq_refl : Gen.Facts.error_sort_when_muted = true)). Qed.

(* the model's own run IS one of these runs: the arrival order `one stream after the other` *)
Theorem C05_model_run_is_one_schedule : forall ff c input,
  run_check ff c input = run_check_sched ff c input (concat (sender_streams c input)) /\
  Interleave (sender_streams c input) (concat (sender_streams c input)).
Proof. intros ff c input. split; [apply run_check_is_sched|apply interleave_concat]. Qed.

(* the streams of the run satisfy the collector theorem's requirements *)
Theorem C05_run_streams_ok : forall c pkts,
  Forall wf_pkt pkts -> N.of_nat (length pkts) < U32_MAX -> pay_all pkts < U32_MAX ->
  (forall p, In p pkts -> layout_rp (hdr p) (p_payload p)) ->
  (forall p r, pkts = p :: r -> known_sysid (r_system_id (hdr p)) = true) ->
  streams_ok (sender_streams c (serialize pkts)).
Proof. exact (fun c pkts H1 H2 H3 H4 => whole_streams_ok c pkts (eq_refl : Gen.Facts.cdp_offset_sampled_after = true) H1 H2 H3 (or_intror H4)). Qed.

(* non-vacuity: two links interleaved, each with a faulty RDH (priority bit): two validators report, the streams can be
   delivered in another order than the model's, and the hypotheses of the theorem hold *)
Definition c05_hdr (link prio : N) : list N :=
  [7;64;42;80;prio;32;0;0; 64;0;64;0;link;0;24;0] ++ repeat 0 8 ++ [2;0;0;0;0;0;0;0; 3;106;0;0;0;0;0;0] ++ repeat 0 24.
Definition c05_pkts : list packet :=
  [ {| p_hdr := c05_hdr 0 0; p_payload := [] |}; {| p_hdr := c05_hdr 0 1; p_payload := [] |}; {| p_hdr := c05_hdr 1 1; p_payload := [] |} ].
Definition c05_cfg : run_cfg :=
  {| rc_scan := {| sc_filter := None; sc_skip := true; sc_src := Src_file |};
     rc_check := {| v_running := false; v_target := T_none; v_period := None; v_custom_version := None; v_chip_count := None; v_chip_orders := None |};
     rc_mute := false; rc_cap := 0; rc_filter := None; rc_exit := Some 3; rc_counts := {| cc_cdps := None; cc_pht := None |} |}.
Example C05_whole_run_nonvacuous :
  Forall wf_pkt c05_pkts /\ (forall p, In p c05_pkts -> layout_rp (hdr p) (p_payload p)) /\
  (forall p r, c05_pkts = p :: r -> known_sysid (r_system_id (hdr p)) = true) /\
  length (sender_streams c05_cfg (serialize c05_pkts)) = 4%nat /\
  (exists s sh, run_check true c05_cfg (serialize c05_pkts) = R_done s sh 3 /\ map m_off (k_errors s) = [64; 128] /\ length sh = 2%nat).
Proof.
  split; [repeat constructor; apply wf_pktb_sound; vm_compute; reflexivity|].
  split; [intros p [<-|[<-|[<-|[]]]]; vm_compute; exact I|].
  split; [intros p r E; injection E as <- _; vm_compute; reflexivity|].
  split; [vm_compute; reflexivity|]. eexists. eexists. split; [vm_compute; reflexivity|]. split; vm_compute; reflexivity.
Qed.

(* WITHOUT the layout proviso the statement is false of the faithful model, and of the code (finding F18): a well-framed two-link input
   whose first packet announces data format 0 while its payload is laid out in 10-byte words; the third word is reported at
   64 + 2*16 = 96, where the second packet -- link 1, priority bit set -- starts; two arrival orders of the same streams end with
   the messages at offset 96 in different orders (the same offsets, another order of the message bodies) *)
Theorem C05_layout_proviso_needed :
  Forall wf_pkt f18_pkts /\
  (forall p r, f18_pkts = p :: r -> known_sysid (r_system_id (hdr p)) = true) /\
  ~ (forall p, In p f18_pkts -> layout_rp (hdr p) (p_payload p)) /\
  exists a1 a2, Interleave (sender_streams f18_cfg (serialize f18_pkts)) a1 /\
                Interleave (sender_streams f18_cfg (serialize f18_pkts)) a2 /\
                (exists s1 s2 sh1 sh2, run_check_sched true f18_cfg (serialize f18_pkts) a1 = R_done s1 sh1 0 /\
                                       run_check_sched true f18_cfg (serialize f18_pkts) a2 = R_done s2 sh2 0 /\
                                       map (fun m => (m_off m, m_body m)) sh1 <> map (fun m => (m_off m, m_body m)) sh2 /\
                                       map m_off sh1 = map m_off sh2).
Proof. exact c05_layout_proviso_needed. Qed.

(* THE RUNS THAT PRINT NO REPORT (`view rdh`, the readout-frame views, filtered writing): the collector receives the main thread's and -- in
   the views -- the analysis thread's statistics in some interleaving.  For every well-framed, recognised input whose views end normally
   and EVERY arrival order, the final collector state (statistics file) and the exit status are those of the model's own run.  (The view
   rows and the written bytes are produced by one thread in input order: C19_view_*_whole_input, C08.) *)
Theorem C05_reportless_run : forall c m pkts ff a,
  Forall wf_pkt pkts -> N.of_nat (length pkts) < U32_MAX -> pay_all pkts < U32_MAX ->
  (forall p r, pkts = p :: r -> known_sysid (r_system_id (hdr p)) = true) ->
  Nat.ltb (length (serialize pkts)) 8 = false -> recognised (serialize pkts) = true -> views_done m (serialize pkts) c ->
  Interleave (rl_streams c m (serialize pkts)) a -> finish_rl ff c a = run_reportless ff c m (serialize pkts).
Proof.
  exact (fun c m pkts ff a H1 H2 H3 H4 => c05_reportless_run c m pkts (eq_refl : Gen.Facts.cdp_offset_sampled_after = true)
           (eq_refl : Gen.Facts.error_sort_when_muted = true) H1 H2 H3 H4 ff a).
Qed.

(* the whole-run theorems are about a model that finalises -- sorts -- the statistics in EVERY run before they are written or compared;
   the code does the same: in Controller::run the finalize call is unconditional and precedes write_stats and the comparison with an input
   statistics file, whether or not a report is printed (view, filtered data on stdout, check).  Fact re-read from controller.rs on every
   run; seed C05-K finalised only `if view().is_some()`, leaving the file of a `check ... -o stdout` run in arrival order *)
Theorem C05_statistics_finalised_in_every_run : Gen.Facts.stats_finalized_before_write_and_compare = true.
Proof. exact eq_refl. Qed.

Print Assumptions C05_collector_schedule_independent.
Print Assumptions C05_sort_is_the_codes.
Print Assumptions C05_stable_sort_determined.
Print Assumptions C05_interleave_filter.
Print Assumptions C05_refuted_unsorted_when_muted.
Print Assumptions C05_whole_run.
Print Assumptions C05_model_run_is_one_schedule.
Print Assumptions C05_run_streams_ok.
Print Assumptions C05_whole_run_nonvacuous.
Print Assumptions C05_layout_proviso_needed.
Print Assumptions C05_reportless_run.
Print Assumptions C05_statistics_finalised_in_every_run.
