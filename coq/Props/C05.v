(* C05 -- Results do not depend on thread scheduling.  Property theorems only. *)
From Coq Require Import List NArith.
From FP Require Import Model.Base Model.Collector Proofs.Interleave Proofs.C05_proofs.
From FP Require Gen.Facts.
Import ListNotations.
Open Scope N_scope.

(* The collector receives ONE interleaving of the per-sender FIFO streams (main thread forwarding the
   reader's statistics, analysis thread, one validator per link) -- which one is the only thing thread
   scheduling decides.  For EVERY family of streams in which each ordered statistic has a single
   sender, no fatal error is sent, and two error messages with the same leading offset come from the
   same sender (C07: a validator's messages lie inside its own packets), and for EVERY two
   interleavings of them, the finalised collector -- everything the report, the statistics file, the
   displayed messages and the exit status are computed from -- is the same.
   The proof term type-checks only for a collector that sorts the error list also when errors are
   muted (Gen.Facts.error_sort_when_muted, read from finalize_stats); the sort of the model is a
   stable sort and C05_sort_is_the_codes pins that the source uses one. *)
Theorem C05_collector_schedule_independent : forall ss a1 a2 mute, streams_ok ss -> Interleave ss a1 -> Interleave ss a2 ->
  finalize Gen.Facts.error_sort_when_muted mute (collect_all a1) =
  finalize Gen.Facts.error_sort_when_muted mute (collect_all a2).
Proof. exact (c05_collector_when Gen.Facts.error_sort_when_muted eq_refl). Qed.

Theorem C05_sort_is_the_codes : Gen.Facts.error_sort_is_stable = true.
Proof. exact eq_refl. Qed.

(* the lemma everything rests on: a stable sort by key is determined by the per-key subsequences *)
Theorem C05_stable_sort_determined : forall l1 l2, (forall k, selk k l1 = selk k l2) -> sort_msgs l1 = sort_msgs l2.
Proof. exact stable_sort_det. Qed.

(* interleavings of the same streams agree on every sub-sequence that lives in one stream *)
Theorem C05_interleave_filter : forall (P : cstat -> bool) ss a1 a2, Interleave ss a1 -> Interleave ss a2 ->
  (exists i, only_in P ss i) -> filter P a1 = filter P a2.
Proof. exact (@interleave_filter_eq cstat). Qed.

(* the collector of the pinned commit (no sort under --mute-errors; defect F3) is schedule dependent *)
Theorem C05_refuted_unsorted_when_muted :
  let ss := [[CS_error (c05_m 64 1)]; [CS_error (c05_m 0 2)]] in
  streams_ok ss /\ Interleave ss [CS_error (c05_m 64 1); CS_error (c05_m 0 2)] /\ Interleave ss [CS_error (c05_m 0 2); CS_error (c05_m 64 1)] /\
  finalize false true (collect_all [CS_error (c05_m 64 1); CS_error (c05_m 0 2)]) <>
  finalize false true (collect_all [CS_error (c05_m 0 2); CS_error (c05_m 64 1)]).
Proof. exact c05_refuted_unsorted_when_muted. Qed.

Print Assumptions C05_collector_schedule_independent.
Print Assumptions C05_sort_is_the_codes.
Print Assumptions C05_stable_sort_determined.
Print Assumptions C05_interleave_filter.
Print Assumptions C05_refuted_unsorted_when_muted.
