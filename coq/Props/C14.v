(* C14 -- Statistics equal ground truth computed from the input.  Property theorems only. *)
From Coq Require Import List NArith.
From FP Require Import Model.Base Model.Rdh Model.Scanner Model.Collector Model.System Spec.Framing Spec.GroundTruth
  Proofs.C03_proofs Proofs.C05_proofs Proofs.C14_proofs Proofs.C14_run.
From FP Require Gen.Facts.
Import ListNotations.
Open Scope N_scope.

(* For EVERY well-framed packet list (below the u32 accumulator limits the scanner flushes at), every
   filter, payloads loaded or skipped, file or pipe: what the collector holds after the main thread's
   stream (RDH version + the reader's statistics, forwarded in order) and, in check/view modes, the
   analysis thread's per-batch statistics, equals the ground truth computed from the packets alone:
   RDHs visited (skipped links included), RDHs matching the filter, payload bytes of the returned
   packets, links and FEE ids in first-seen order, RDH version / run trigger type / data format / system
   id of the first header (each recorded exactly once), and for the analysed (= selected) packets the
   number of stop-bit packets and the 20 per-bit trigger-type counts. *)
Theorem C14_statistics_equal_ground_truth : forall c pkts analysed, Forall wf_pkt pkts ->
  N.of_nat (length pkts) < U32_MAX -> pay_all pkts < U32_MAX ->
  let out := scan_impl c (serialize pkts) in
  let s := collect_all (stats_arrival (version_of pkts) out analysed) in
  let t := truth (match sc_filter c with Some _ => true | None => false end) (pmatch c) pkts in
  counter s IDX_SEEN = gt_rdhs_seen t /\ counter s IDX_FILTERED = gt_rdhs_filtered t /\ counter s IDX_PAYLOAD = gt_payload t /\
  k_links s = gt_links t /\ k_fees s = gt_fees t /\
  (forall p r, pkts = p :: r -> known_sysid (r_system_id (hdr p)) = true ->
     k_version s = Some (r_header_id (hdr p)) /\ k_run_trigger s = Some (r_trigger_type (hdr p)) /\
     k_format s = Some (rdh_data_format (hdr p)) /\ k_sysid s = Some (r_system_id (hdr p)) /\ k_set_twice s = false) /\
  (analysed = true ->
     counter s IDX_HBFS = gt_hbfs (sel_pkts c pkts) /\
     forall j, (j < 20)%nat -> counter s (4 + j) = gt_trigger_bit (nth j trigger_bits 0) (sel_pkts c pkts)).
Proof. exact (c14_truth_when Gen.Facts.cdp_offset_sampled_after Gen.Facts.batch_kept_on_invalid_input eq_refl). Qed.

(* the reader's own statistics messages for a well-framed input *)
Theorem C14_scanner_statistics : forall c pkts, Forall wf_pkt pkts ->
  N.of_nat (length pkts) < U32_MAX -> pay_all pkts < U32_MAX ->
  exists o, so_stats (scan_impl c (serialize pkts)) =
            o ++ [IS_seen (N.of_nat (length pkts));
                  IS_filtered (match sc_filter c with Some _ => N.of_nat (length (filter (pmatch c) pkts)) | None => 0 end);
                  IS_payload (pay_all (filter (pmatch c) pkts))] /\
    il_links o = first_seen_list (map (fun p => r_link_id (hdr p)) pkts) /\
    il_fees o = first_seen_list (map (fun p => r_fee_id (hdr p)) pkts) /\
    il_plain o = true /\
    il_first o = (match pkts with p :: _ => first3 (hdr p) | [] => [] end).
Proof. exact (c14_scan_stats_when Gen.Facts.cdp_offset_sampled_after Gen.Facts.batch_kept_on_invalid_input eq_refl). Qed.

(* finalisation sorts the links and leaves the other statistics alone *)
Theorem C14_finalize : forall sm mute s, k_finalized s = false ->
  let s' := finalize sm mute s in
  k_counters s' = k_counters s /\ k_links s' = sort_N_list (k_links s) /\ k_fees s' = k_fees s /\
  k_layer_staves s' = k_layer_staves s /\ k_version s' = k_version s /\ k_format s' = k_format s /\
  k_sysid s' = k_sysid s /\ k_run_trigger s' = k_run_trigger s /\ k_total s' = k_total s /\
  k_unique s' = unique_error_codes (k_errors s') (k_custom s).
Proof. intros sm mute s H. unfold finalize. rewrite H. cbn. repeat split; reflexivity. Qed.

(* the error total counts exactly the error messages received (no fatal error sent) *)
Theorem C14_error_total : forall a, (forall m, ~ In (CS_fatal m) a) ->
  k_total (collect_all a) = N.of_nat (length (flat_map msg_of a)) /\ k_errors (collect_all a) = flat_map msg_of a.
Proof.
  intros a H. destruct (total_custom_fold a cinit eq_refl H) as [T _]. destruct (errors_fold a cinit eq_refl H) as [E _].
  split; [exact T|exact E].
Qed.

(* the hypotheses are satisfiable: the two-packet input of C03 *)
Example C14_nonvacuous :
  Forall wf_pkt f1_pkts /\ N.of_nat (length f1_pkts) < U32_MAX /\ pay_all f1_pkts < U32_MAX /\
  k_counters (collect_all (stats_arrival (version_of f1_pkts) (scan true true f1_cfg (serialize f1_pkts)) true)) =
    [2; 1; 0; 0] ++ [1; 1; 0; 0; 0; 0; 0; 0; 0; 1; 0; 1; 0; 1; 1; 0; 0; 0; 0; 0] ++ [0; 0; 0; 0; 0; 0; 0].
Proof. split; [exact f1_wf|]. split; [vm_compute; reflexivity|]. split; vm_compute; reflexivity. Qed.

(* ONE WHOLE `check` RUN: what the run ENDS with -- after the messages of every validator thread, the custom checks and the
   finalisation; the state the report is printed from and the statistics file is written from -- equals the ground truth: RDHs
   visited / matching the filter / payload bytes, the SORTED set of links, FEE ids in first-seen order, stop-bit packets and the 20
   trigger-bit counts of the analysed packets, version / run trigger type / data format / system id of the first header, and the
   distinct error codes are those of the stored messages.  For every well-framed input, filter, mode and option. *)
Theorem C14_whole_run : forall c pkts ff s shown e, Forall wf_pkt pkts -> N.of_nat (length pkts) < U32_MAX -> pay_all pkts < U32_MAX ->
  run_check ff c (serialize pkts) = R_done s shown e ->
  let sc := rc_scan c in
  let t := truth (match sc_filter sc with Some _ => true | None => false end) (pmatch sc) pkts in
  counter s IDX_SEEN = gt_rdhs_seen t /\ counter s IDX_FILTERED = gt_rdhs_filtered t /\ counter s IDX_PAYLOAD = gt_payload t /\
  k_links s = sort_N_list (gt_links t) /\ k_fees s = gt_fees t /\
  counter s IDX_HBFS = gt_hbfs (sel_pkts sc pkts) /\
  (forall j, (j < 20)%nat -> counter s (4 + j) = gt_trigger_bit (nth j trigger_bits 0) (sel_pkts sc pkts)) /\
  (forall p r, pkts = p :: r -> known_sysid (r_system_id (hdr p)) = true ->
     k_version s = Some (r_header_id (hdr p)) /\ k_run_trigger s = Some (r_trigger_type (hdr p)) /\
     k_format s = Some (rdh_data_format (hdr p)) /\ k_sysid s = Some (r_system_id (hdr p)) /\ k_set_twice s = false) /\
  k_unique s = unique_error_codes (k_errors s) (k_custom s) /\ k_finalized s = true.
Proof. exact (fun c pkts ff s shown e H1 H2 H3 => c14_whole_run c pkts (eq_refl : Gen.Facts.cdp_offset_sampled_after = true) H1 H2 H3 ff s shown e). Qed.

(* the 20 per-bit trigger counters of the model (Model/Collector.v trigger_bits: bits 0..14 and 27..31, one independent count each) are the
   statements of the source: TriggerStats::collect_stats consists of one `self.<counter> += (trigger & <mask> != 0) as u32;` per counter,
   with these masks in this order (fact re-read on every run; a counter fed any other way makes the list shorter) *)
Theorem C14_trigger_bits_as_modelled : Gen.Facts.trigger_stat_masks = map (fun i => 2 ^ i) trigger_bits.
Proof. vm_compute. reflexivity. Qed.

Print Assumptions C14_statistics_equal_ground_truth.
Print Assumptions C14_scanner_statistics.
Print Assumptions C14_finalize.
Print Assumptions C14_error_total.
Print Assumptions C14_whole_run.
Print Assumptions C14_trigger_bits_as_modelled.
