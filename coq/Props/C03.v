(* C03 -- Scanning follows the RDH chain exactly in every input mode.  Property theorems only. *)
From Coq Require Import List NArith.
From FP Require Import Model.Base Model.Rdh Model.Scanner Spec.RdhRules Spec.Framing Proofs.RdhFacts Proofs.C03_proofs.
From FP Require Gen.Facts.
Import ListNotations.
Open Scope N_scope.

(* For every well-framed input, every filter (none / link / FEE / layer-stave), payloads loaded
   or skipped, file or pipe, any packet count and payload size: the packets handed on are exactly
   the selected packets of the chain, once each and in order, each with its true starting offset,
   the decoded header and (unless skipped) exactly its payload bytes; they arrive in batches of
   CAP, all full but the last; reading ends normally.
   The scanner is the one the current source describes (Gen.Facts.cdp_offset_sampled_after is
   re-read from load_cdp on every run): the proof term only type-checks when that fact is `true`. *)
Theorem C03_scan_exact : forall c pkts, Forall wf_pkt pkts ->
  so_batches (scan_impl c (serialize pkts)) = chunk CAP (map (mk_cdp c) (selected c 0 pkts)) /\
  concat (so_batches (scan_impl c (serialize pkts))) = map (mk_cdp c) (selected c 0 pkts) /\
  so_end (scan_impl c (serialize pkts)) = End_normal.
Proof. exact (c03_scan_exact_when Gen.Facts.cdp_offset_sampled_after Gen.Facts.batch_kept_on_invalid_input eq_refl). Qed.

Theorem C03_batch_shape : forall c pkts, Forall wf_pkt pkts ->
  let bs := chunk CAP (map (mk_cdp c) (selected c 0 pkts)) in
  Forall (fun b => b <> [] /\ (length b <= CAP)%nat) bs /\
  forall i, (S i < length bs)%nat -> length (nth i bs []) = CAP.
Proof. exact c03_batch_shape. Qed.

(* the header values handed on are those of an independent decoding of the 64 bytes
   (Spec/RdhRules.v: the documented bit layout of the 512-bit header) *)
Theorem C03_fields : forall b, rdh_bytes_ok b ->
  let r := decode_rdh b in
  r_header_id r = h_header_id b /\ r_header_size r = h_header_size b /\ r_fee_id r = h_fee_id b /\
  r_priority_bit r = h_priority b /\ r_system_id r = h_system_id b /\
  r_offset_new_packet r = h_offset_next b /\ r_memory_size r = h_memory_size b /\
  r_link_id r = h_link_id b /\ r_packet_counter r = h_packet_counter b /\
  rdh_cru_id r = h_cru_id b /\ rdh_dw r = h_dw b /\ rdh_bc r = h_bc b /\ r_orbit r = h_orbit b /\
  rdh_data_format r = h_data_format b /\ r_trigger_type r = h_trigger_type b /\
  r_pages_counter r = h_pages_counter b /\ r_stop_bit r = h_stop_bit b /\
  r_detector_field r = h_detector_field b /\ r_par_bit r = h_par_bit b.
Proof. exact c03_fields. Qed.

(* a scanner that samples the packet offset before the filter loop has run (defect F1 of the
   pinned commit, repaired by a fix: commit) does not satisfy the statement *)
Theorem C03_refuted_when_offset_sampled_before :
  Forall wf_pkt f1_pkts /\
  concat (so_batches (scan false true f1_cfg (serialize f1_pkts))) <> map (mk_cdp f1_cfg) (selected f1_cfg 0 f1_pkts) /\
  map c_off (concat (so_batches (scan false true f1_cfg (serialize f1_pkts)))) = [0] /\
  map fst (selected f1_cfg 0 f1_pkts) = [64].
Proof. exact c03_refuted_when_offset_sampled_before. Qed.

(* the hypotheses are satisfiable and the conclusion says something *)
Example C03_nonvacuous :
  Forall wf_pkt f1_pkts /\ selected f1_cfg 0 f1_pkts <> [] /\
  map c_off (concat (so_batches (scan true true f1_cfg (serialize f1_pkts)))) = [64].
Proof. split; [exact f1_wf|]. split; [vm_compute; discriminate | vm_compute; reflexivity]. Qed.

Print Assumptions C03_scan_exact.
Print Assumptions C03_batch_shape.
Print Assumptions C03_fields.
Print Assumptions C03_refuted_when_offset_sampled_before.
