(* C15 -- Statistics files round-trip and detect any drift.  Property theorems only. *)
From Coq Require Import List NArith Bool.
From FP Require Import Model.Base Model.Collector Model.StatsCmp Model.StatsTree Proofs.Interleave Proofs.C05_proofs Proofs.C15_proofs.
From FP Require Import Model.Rdh Model.Scanner Model.System Spec.Framing Spec.GroundTruth Proofs.C03_proofs Proofs.C07_run Proofs.C14_proofs Proofs.C05_run Proofs.C15_run.
From FP Require Gen.Facts.
Import ListNotations.
Open Scope N_scope.

(* The comparison (validate_fields! + every validate_other + StatsCollector::validate_other_stats) is modelled over the
   field lists that the translator re-reads from the sources on every run: declared fields, macro argument lists, the struct
   literals rebuilt from `other`, the delegations to sub-structs, serde attributes.  `all_ok` is COMPUTED from those lists:
   every declared field is either in its struct's macro list (read from the same-named field of `other`) or a sub-struct
   that is delegated to its own validate_other (self field against the same field of other); nothing is skipped by serde;
   the only top-level field outside the comparison is the is_finalized marker. *)
Theorem C15_field_lists_complete : all_ok = true.
Proof. exact eq_refl. Qed.

(* for EVERY leaf type with a correct equality test and EVERY two statistics trees of the right shape: no mismatch is reported
   iff all statistics that the run collects agree (a = collected, b = from the file; the ALPIDE part counts only when the
   run collects it).  Left-to-right is drift detection for every leaf at once, right-to-left is acceptance. *)
Theorem C15_no_mismatch_iff_same_statistics :
  forall V (veqb : V -> V -> bool) (dflt : V), veq_ok veqb -> forall a b, sc_wf a -> sc_wf b ->
  (sc_validate veqb dflt a b = [] <-> sc_agree dflt a b).
Proof. exact (c15_iff_when true eq_refl eq_refl). Qed.

Theorem C15_reflexive : forall V (veqb : V -> V -> bool) (dflt : V), veq_ok veqb -> forall a, sc_wf a -> sc_validate veqb dflt a a = [].
Proof. intros V veqb dflt Hv a W. exact (sc_refl veqb dflt Hv C15_field_lists_complete a W). Qed.

Theorem C15_detects : forall V (veqb : V -> V -> bool) (dflt : V), veq_ok veqb -> forall a b, sc_wf a -> sc_wf b ->
  ~ sc_agree dflt a b -> sc_validate veqb dflt a b <> [].
Proof. intros V veqb dflt Hv a b Wa Wb. exact (sc_detects veqb dflt Hv C15_field_lists_complete a b Wa Wb). Qed.

(* every single leaf is part of the agreement *)
Theorem C15_leaf_rdh : forall V (dflt : V) a b i, i < Gen.Facts.rdh_nfields -> ~ In i rdh_subs ->
  nth (N.to_nat i) (r_top (s_rdh a)) dflt <> nth (N.to_nat i) (r_top (s_rdh b)) dflt -> ~ sc_agree dflt a b.
Proof. exact (@c15_rdh_leaf). Qed.
Theorem C15_leaf_its : forall V (dflt : V) (a b : sc_t V), r_its (s_rdh a) <> r_its (s_rdh b) -> ~ sc_agree dflt a b.
Proof. exact (@c15_its_leaf). Qed.
Theorem C15_leaf_trigger : forall V (dflt : V) (a b : sc_t V), r_trg (s_rdh a) <> r_trg (s_rdh b) -> ~ sc_agree dflt a b.
Proof. exact (@c15_trg_leaf). Qed.
Theorem C15_leaf_errors : forall V (dflt : V) (a b : sc_t V), s_err a <> s_err b -> ~ sc_agree dflt a b.
Proof. exact (@c15_err_leaf). Qed.
Theorem C15_leaf_alpide : forall V (dflt : V) (a b : sc_t V) x, s_alp a = Some x ->
  (forall y, s_alp b = Some y -> a_rof x <> a_rof y) -> ~ sc_agree dflt a b.
Proof. exact (@c15_alp_leaf). Qed.

(* a reported mismatch sets the any-errors flag, which selects the configured exit status; no mismatch leaves it alone *)
Theorem C15_mismatch_exit : forall n flag, exit_code (Some n) Init_ok (flag_after_compare flag true) = n.
Proof. exact (c15_exit_when Gen.Facts.stats_mismatch_sets_flag eq_refl eq_refl). Qed.
Theorem C15_match_keeps_flag : forall flag, flag_after_compare flag false = flag.
Proof. exact c15_no_mismatch_keeps_flag. Qed.

(* the collector is finalised before the file is written and before it is compared (controller.rs, regenerated) *)
Theorem C15_finalized_first : Gen.Facts.stats_finalized_before_write_and_compare = true.
Proof. exact eq_refl. Qed.

(* writing replaces whatever the file held before *)
Theorem C15_file_replaced : forall A (old new : list A), written_file Gen.Facts.stats_file_replaced_on_write old new = new.
Proof. exact (c15_file_when Gen.Facts.stats_file_replaced_on_write eq_refl). Qed.

(* round trip, for every serialiser/parser pair that round-trips (serde_json / toml: trusted, exercised by the check), whatever
   the file held before: the later run parses the tree the earlier run wrote and reports nothing *)
Theorem C15_roundtrip : forall V (veqb : V -> V -> bool) (dflt : V), veq_ok veqb ->
  forall (F : Type) (ser : sc_t V -> list F) (de : list F -> option (sc_t V)), (forall x, de (ser x) = Some x) ->
  forall old a, sc_wf a ->
    exists b, de (written_file Gen.Facts.stats_file_replaced_on_write old (ser a)) = Some b /\ sc_validate veqb dflt a b = [].
Proof. exact (c15_roundtrip_when true Gen.Facts.stats_file_replaced_on_write eq_refl eq_refl eq_refl). Qed.

(* the same input under ANY two thread schedules (C05): the statistics of the later run match those of the earlier one *)
Theorem C15_same_input_any_schedule : forall ss a1 a2 mute alp, streams_ok ss -> Interleave ss a1 -> Interleave ss a2 ->
  sc_validate sleaf_eqb L_sub (tree_of alp (finalize Gen.Facts.error_sort_when_muted mute (collect_all a1)))
                              (tree_of alp (finalize Gen.Facts.error_sort_when_muted mute (collect_all a2))) = [].
Proof. exact (c15_same_input_when true Gen.Facts.error_sort_when_muted eq_refl eq_refl eq_refl). Qed.

(* what an incomplete or crossed list would do *)
Theorem C15_refuted_dropped_field : exists a b : list N, a <> b /\ validate_fields N.eqb 0 [0; 1] [(0, 0); (1, 1); (2, 2)] a b = [].
Proof. exact c15_refuted_dropped_field. Qed.
Theorem C15_refuted_crossed_fields : exists a : list N, validate_fields N.eqb 0 [0; 1; 2] [(0, 0); (1, 2); (2, 1)] a a <> [].
Proof. exact c15_refuted_crossed_fields. Qed.
Theorem C15_refuted_file_not_replaced : exists old new : list N, written_file false old new <> new.
Proof. exact c15_file_refuted. Qed.
Theorem C15_nonvacuous : sc_wf (tree_of true cinit) /\ sc_wf (tree_of false cinit) /\ all_ok = true.
Proof. exact c15_nonvacuous. Qed.

(* TWO WHOLE RUNS on the same well-framed input with the same options, under ANY two thread schedules (any two arrival orders of the
   run's own sender streams): the statistics tree the one run ends with is accepted by the comparison of the other without a mismatch,
   and the two runs show the same messages and exit with the same status (C05_whole_run + the reflexivity of the comparison over the
   regenerated field lists) *)
Theorem C15_whole_runs_agree : forall c pkts,
  Forall wf_pkt pkts -> N.of_nat (length pkts) < U32_MAX -> pay_all pkts < U32_MAX ->
  (sc_skip (rc_scan c) = true \/ forall p, In p pkts -> layout_rp (hdr p) (p_payload p)) ->
  (forall p r, pkts = p :: r -> known_sysid (r_system_id (hdr p)) = true) ->
  forall ff a1 a2 s1 sh1 e1 s2 sh2 e2 alp,
  Interleave (sender_streams c (serialize pkts)) a1 -> Interleave (sender_streams c (serialize pkts)) a2 ->
  run_check_sched ff c (serialize pkts) a1 = R_done s1 sh1 e1 -> run_check_sched ff c (serialize pkts) a2 = R_done s2 sh2 e2 ->
  sc_validate sleaf_eqb L_sub (tree_of alp s1) (tree_of alp s2) = [] /\ sh1 = sh2 /\ e1 = e2.
Proof.
  exact (fun c pkts => c15_whole_run true eq_refl eq_refl c pkts (eq_refl : Gen.Facts.cdp_offset_sampled_after = true)
                                     (eq_refl : Gen.Facts.error_sort_when_muted = true)).
Qed.

Print Assumptions C15_field_lists_complete.
Print Assumptions C15_no_mismatch_iff_same_statistics.
Print Assumptions C15_reflexive.
Print Assumptions C15_detects.
Print Assumptions C15_leaf_rdh.
Print Assumptions C15_leaf_its.
Print Assumptions C15_leaf_trigger.
Print Assumptions C15_leaf_errors.
Print Assumptions C15_leaf_alpide.
Print Assumptions C15_mismatch_exit.
Print Assumptions C15_match_keeps_flag.
Print Assumptions C15_finalized_first.
Print Assumptions C15_file_replaced.
Print Assumptions C15_roundtrip.
Print Assumptions C15_same_input_any_schedule.
Print Assumptions C15_refuted_dropped_field.
Print Assumptions C15_refuted_crossed_fields.
Print Assumptions C15_refuted_file_not_replaced.
Print Assumptions C15_nonvacuous.
Print Assumptions C15_whole_runs_agree.
