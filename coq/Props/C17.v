(* C17 -- Early stop is orderly: signals, closed pipes, error cap, fatal errors.  Property theorems only.

   The theorems are about the protocol LTS of Model/Protocol.v instantiated with the structural facts
   regenerated from the current sources (the proto_ definitions of Gen.Facts): [cur]. *)
From Coq Require Import List Arith Bool NArith.
From FP Require Import Model.Protocol Model.ProtoTrace Proofs.C17_inv Proofs.C17_live Proofs.C17_proofs Proofs.C17_run.
From FP Require Import Model.Base Model.Scanner Model.Writer.
From FP Require Gen.Facts.
Import ListNotations.
Close Scope N_scope.

Definition cur : pfacts := cur_pfacts.

(* the loops of validators, input-statistics forwarder and controller end exactly when their channel is
   disconnected, the controller gives up its own sender before it starts, and it raises the stop flag on a
   fatal message and on reaching the cap: the shapes the transitions of the model are written from *)
Theorem C17_source_shape :
  Gen.Facts.proto_validator_until_disconnect = true /\ Gen.Facts.proto_forward_until_disconnect = true /\
  Gen.Facts.proto_ctrl_drops_own_sender = true /\ Gen.Facts.proto_ctrl_raises_stop = true.
Proof. exact (conj eq_refl (conj eq_refl (conj eq_refl eq_refl))). Qed.

Lemma cur_good : goodf cur.
Proof.
  exact (Build_goodf cur eq_refl eq_refl
           (proj1 (Nat.leb_le 1 (pf_dcap cur)) eq_refl) (proj1 (Nat.leb_le 1 (pf_vcap_min cur)) eq_refl)).
Qed.
Lemma cur_handled : handled cur.
Proof. exact (Build_handled cur eq_refl eq_refl eq_refl). Qed.

(* no deadlock: in every reachable state that is not final some thread can move -- for every mode, input,
   interleaving, queue occupancy, every instant at which the stop flag is raised or stdout goes away, and
   whichever validator the next CDP is routed to (i) *)
Theorem C17_no_deadlock : forall c input s i cc,
  reachable cur c input s -> final s = false -> i <= length (s_vs s) -> pf_vcap_min cur <= cc ->
  exists l, step cur l s <> None /\ only_choice l i cc.
Proof. exact (fun c input s i cc R => no_deadlock cur s i cc cur_good (reachable_inv cur c input s cur_good R)). Qed.

(* no livelock: every step decreases the variant, so an execution from s has at most [mu cur s] steps *)
Theorem C17_variant : forall l s s', step cur l s = Some s' -> mu cur s' < mu cur s.
Proof. exact (mu_decreases cur). Qed.
Theorem C17_terminates : forall ls s s', run cur ls s = Some s' -> length ls + mu cur s' <= mu cur s.
Proof. exact (run_length cur). Qed.

(* bounded end after the stop flag is up: the number of steps still possible is bounded by a quantity that
   does not depend on the unread input -- only on the batch being filled, the queued batches / CDPs /
   messages and the live threads (replace the unread tail by anything: same bound) *)
Theorem C17_bounded_after_stop : forall ls s s' rest',
  s_stop s = true -> run cur ls s = Some s' ->
  length ls <= mu cur (set_input (match s_input s with [] => [] | b :: _ => b :: rest' end) s).
Proof. exact (fun ls s s' rest' => stopped_run_bounded cur ls s s' rest' eq_refl). Qed.

(* the stop flag is never lowered; the controller raises it for a fatal message and at the cap *)
Theorem C17_stop_monotone : forall l s s', step cur l s = Some s' -> s_stop s = true -> s_stop s' = true.
Proof. exact (stop_monotone cur). Qed.
Theorem C17_fatal_raises_stop : forall c input ls s s',
  reachable cur c input s -> fatal_pending s -> run cur ls s = Some s' ->
  s_sq s' = [] -> s_iq s' = [] -> s_stop s' = true.
Proof.
  exact (fun c input ls s s' R => fatal_raises_stop cur ls s s' cur_good (reachable_inv cur c input s cur_good R)
                                    (reachable_stop_inv cur c input s R)).
Qed.
Theorem C17_cap_raises_stop : forall c input ls s s',
  reachable cur c input s -> cap_pending s -> run cur ls s = Some s' -> s_sq s' = [] -> s_stop s' = true.
Proof. exact (fun c input ls s s' R => cap_raises_stop cur ls s s' (reachable_stop_inv cur c input s R)). Qed.

(* orderly end: when main exits every worker has finished and every channel is empty and closed *)
Theorem C17_all_joined : forall c input s, reachable cur c input s -> s_m s = M_exit ->
  reader_done s = true /\ consumer_alive s = false /\ all_done (s_vs s) = true /\
  s_c s = C_done /\ s_sq s = [] /\ s_iq s = [] /\ s_mrecv s = false.
Proof. exact (fun c input s R => all_joined s (reachable_inv cur c input s cur_good R)). Qed.

(* no panic: a write to a closed stdout (view, filtered data, statistics) is never unwrapped *)
Theorem C17_no_panic : forall c input s, reachable cur c input s -> s_panic s = false.
Proof. exact (fun c input s R => match R with ex_intro _ ls H => no_panic_run cur ls (init c input) s cur_handled eq_refl H end). Qed.

(* a signal at ANY instant -- also after the controller has already raised the flag for a fatal error or the cap --
   only makes the handler store the flag: the process is never exited with its workers still running *)
Theorem C17_single_signal_is_graceful : forall c input s, reachable cur c input s -> s_hardexit s = false.
Proof. exact (fun c input s R => match R with ex_intro _ ls H => no_hard_exit_run cur ls (init c input) s eq_refl eq_refl H end). Qed.

(* whole packets: whenever the writer thread stops (after any number k of received batches) and whatever the
   flush threshold, what has reached the destination is the serialisation of a prefix of the packets *)
Theorem C17_whole_packets_at_exit : forall max (batches : list (list cdp)) k,
  exists j, write_all max (firstn k batches) = concat (map cdp_bytes (firstn j (concat batches))).
Proof. exact whole_packets_at_exit. Qed.
Theorem C17_whole_packets_always : forall max (batches : list (list cdp)) k,
  exists j, w_out (fold_left (w_push max) (firstn k batches) w_init)
            = concat (map cdp_bytes (firstn j (concat batches))).
Proof. exact whole_packets_always. Qed.

Print Assumptions C17_no_deadlock.
Print Assumptions C17_variant.
Print Assumptions C17_terminates.
Print Assumptions C17_bounded_after_stop.
Print Assumptions C17_fatal_raises_stop.
Print Assumptions C17_cap_raises_stop.
Print Assumptions C17_all_joined.
Print Assumptions C17_no_panic.
Print Assumptions C17_single_signal_is_graceful.
Print Assumptions C17_whole_packets_at_exit.
Print Assumptions C17_whole_packets_always.
Print Assumptions C17_source_shape.
