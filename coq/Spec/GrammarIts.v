(* The conforming-stream grammar at the level of ITS payload words (the ITS tier of C01), shaped like the producer.

   A read-out unit answers every trigger with a trigger packet: a TDH, then -- unless the TDH says no_data -- data
   words of the active lanes, closed by a TDT with packet_done.  The CRU lays the words out on pages: every data
   page opens with an IHW; when a page is full in the middle of a trigger packet the piece is closed with a TDT with
   packet_done = 0 and the next page carries on after IHW + TDH(continuation = 1, same trigger).  After the last data
   page of a heartbeat frame comes the stop page, holding the DDW0 only.

   Words are given by their DOCUMENTED layout (Spec/WordLayout.v: identifier, reserved bits, bit fields of the
   80-bit value), not by the accessors of the code.  Calibration data words and the stave-level (ALPIDE) conditions
   are not part of this tier. *)
From Coq Require Import List NArith Bool.
Import ListNotations.
From FP Require Import Model.Base Model.Rdh Spec.WordLayout Spec.Grammar Proofs.Bits.
Open Scope N_scope.

(* documented fields of a TDH / TDT *)
Definition tdh_f_type (w : list N) : N := f80 w 0 12.
Definition tdh_f_internal (w : list N) : N := f80 w 12 1.
Definition tdh_f_nodata (w : list N) : N := f80 w 13 1.
Definition tdh_f_cont (w : list N) : N := f80 w 14 1.
Definition tdh_f_bc (w : list N) : N := f80 w 16 12.
Definition tdh_f_orbit (w : list N) : N := f80 w 32 32.
Definition tdt_f_done (w : list N) : N := f80 w 64 1.
Definition ihw_f_lanes (w : list N) : N := f80 w 0 28.

Definition W_ihw (w : list N) : Prop := word_ok w /\ ihw_ok w.
Definition W_tdh (w : list N) : Prop := word_ok w /\ tdh_ok w.
Definition W_tdt (w : list N) : Prop := word_ok w /\ tdt_ok w.
Definition W_ddw0 (w : list N) : Prop := word_ok w /\ ddw0_ok w.
(* a data word of an active lane: the documented verdict for it is empty *)
Definition W_data (lanes : N) (w : list N) : Prop :=
  word_ok w /\ data_word_verdict true (id_of w) lanes = [].

(* the pieces a page is made of, after its IHW *)
Inductive pitem :=
| PI_nodata (t : list N)                                (* TDH with no_data = 1 *)
| PI_frame (t : list N) (data : list (list N)) (e : list N)   (* a whole trigger packet: TDH, data, TDT(done) *)
| PI_open (t : list N) (data : list (list N)) (e : list N)    (* start of a packet that goes on on the next page *)
| PI_cont (t : list N) (data : list (list N)) (e : list N)    (* a middle piece: fills its page *)
| PI_close (t : list N) (data : list (list N)) (e : list N).  (* the last piece of a continued packet *)

Definition item_words (i : pitem) : list (list N) :=
  match i with
  | PI_nodata t => [t]
  | PI_frame t d e | PI_open t d e | PI_cont t d e | PI_close t d e => t :: d ++ [e]
  end.
Definition item_tdh (i : pitem) : list N :=
  match i with PI_nodata t | PI_frame t _ _ | PI_open t _ _ | PI_cont t _ _ | PI_close t _ _ => t end.

Record its_page := { ip_ihw : list N; ip_items : list pitem; ip_pad : nat }.
Definition page_words (p : its_page) : list (list N) := ip_ihw p :: flat_map item_words (ip_items p).

Record its_hbf := { ih_pages : list its_page; ih_ddw0 : list N; ih_stop_pad : nat }.

(* byte layout of a page's words in the two data formats, followed by 0..15 bytes of 0xFF *)
Definition layout (fmt : N) (ws : list (list N)) (pad : nat) : list N :=
  (if fmt =? 0 then concat (map (fun w => w ++ repeat 0 6) ws) else concat ws) ++ repeat 255 pad.

(* ---- well-formedness ---- *)
(* a TDH that starts a trigger packet (not a continuation) inside heartbeat frame h; `first` = it is the first TDH of
   page 0, the one that answers the trigger recorded in the RDH *)
Definition tdh_start_ok (h : hbf_desc) (first : bool) (nodata : N) (t : list N) : Prop :=
  W_tdh t /\ tdh_f_cont t = 0 /\ tdh_f_nodata t = nodata /\ tdh_f_orbit t = h_orbit h /\
  (first = true -> (tdh_f_internal t = 1 \/ N.testbit (h_trigger h) 4 = true) ->
     tdh_f_bc t = h_bc h /\ tdh_f_type t = N.land (h_trigger h) 4095).
(* a continuation TDH repeats the trigger of the TDH before it *)
Definition tdh_cont_ok (prev t : list N) : Prop :=
  W_tdh t /\ tdh_f_cont t = 1 /\ tdh_f_nodata t = 0 /\
  tdh_f_bc t = tdh_f_bc prev /\ tdh_f_orbit t = tdh_f_orbit prev /\ tdh_f_type t = tdh_f_type prev.
Definition tdt_ok_done (d : N) (e : list N) : Prop := W_tdt e /\ tdt_f_done e = d.

(* the items of one page, left to right.  [prev]: the TDH processed last (None at the start of a page that does not
   continue a packet: the first TDH of a page is not compared with an earlier one);  [opened]: the TDH of the packet that
   the previous page left open;  [first]: page 0 and no TDH seen yet.  Result: the TDH left open at the end of the page. *)
Inductive items_ok (h : hbf_desc) (lanes : N) : bool -> option (list N) -> option (list N) -> list pitem -> option (list N) -> Prop :=
| IO_nil first prev : items_ok h lanes first prev None [] None
| IO_nodata first prev t r out :
    tdh_start_ok h first 1 t -> (forall p, prev = Some p -> tdh_f_bc p <= tdh_f_bc t) ->
    items_ok h lanes false (Some t) None r out -> items_ok h lanes first prev None (PI_nodata t :: r) out
| IO_frame first prev t d e r out :
    tdh_start_ok h first 0 t -> (forall p, prev = Some p -> tdh_f_bc p <= tdh_f_bc t) ->
    Forall (W_data lanes) d -> tdt_ok_done 1 e ->
    items_ok h lanes false (Some t) None r out -> items_ok h lanes first prev None (PI_frame t d e :: r) out
| IO_open first prev t d e :
    tdh_start_ok h first 0 t -> (forall p, prev = Some p -> tdh_f_bc p <= tdh_f_bc t) ->
    Forall (W_data lanes) d -> tdt_ok_done 0 e ->
    items_ok h lanes first prev None [PI_open t d e] (Some t)
| IO_cont o t d e :
    tdh_cont_ok o t -> Forall (W_data lanes) d -> tdt_ok_done 0 e ->
    items_ok h lanes false None (Some o) [PI_cont t d e] (Some t)
| IO_close o t d e r out :
    tdh_cont_ok o t -> Forall (W_data lanes) d -> tdt_ok_done 1 e ->
    items_ok h lanes false (Some t) None r out -> items_ok h lanes false None (Some o) (PI_close t d e :: r) out.

(* the data pages of a heartbeat frame: every page has an IHW and at least one item; what one page leaves open the
   next one continues; nothing is left open at the end *)
Inductive pages_ok (h : hbf_desc) : bool -> option (list N) -> list its_page -> Prop :=
| PO_nil first : pages_ok h first None []
| PO_page first opened p r out :
    W_ihw (ip_ihw p) -> ip_items p <> [] -> (ip_pad p <= 15)%nat ->
    items_ok h (ihw_f_lanes (ip_ihw p)) first None opened (ip_items p) out ->
    pages_ok h false out r -> pages_ok h first opened (p :: r).

Definition its_hbf_ok (fmt : N) (h : hbf_desc) (ih : its_hbf) : Prop :=
  pages_ok h true None (ih_pages ih) /\ W_ddw0 (ih_ddw0 ih) /\ (ih_stop_pad ih <= 15)%nat /\
  map pg_payload (h_pages h) = map (fun p => layout fmt (page_words p) (ip_pad p)) (ih_pages ih) /\
  pg_payload (h_stop h) = layout fmt [ih_ddw0 ih] (ih_stop_pad ih).

(* a link whose pages carry ITS payloads *)
Definition wf_link_its (ld : link_desc) (ihs : list its_hbf) : Prop :=
  wf_link_rdh ld = true /\ l_system ld = Gen.Facts.its_system_id /\ (l_format ld = 0 \/ l_format ld = 2) /\
  Forall2 (its_hbf_ok (l_format ld)) (l_hbfs ld) ihs.
