(* Stave-level conformity of a trigger packet (the stave tier of C01): the data words of the packet, grouped by lane, must be
   the byte stream of an ALPIDE lane as the independent encoder of Spec/AlpideEnc.v produces it (any hits, regions, busy
   words, idle bytes), with at least one chip, no fatal announcement, no chip twice, all chips of all lanes in the same bunch
   crossing, an inner-barrel lane carrying exactly the chip whose id is the lane; and the set of lanes must be what the
   barrel prescribes (one inner group of 3 / 8 middle / 14 outer lanes).  No user-configured chip count / order. *)
From Coq Require Import List NArith Bool.
Import ListNotations.
From FP Require Import Model.Base Model.ItsWords Model.Alpide Spec.AlpideEnc Proofs.C13_lane Proofs.C13_frame.
Open Scope N_scope.

(* a data word = (lane identifier byte, 9 bytes of lane data) *)
Definition lane_words (data : list (list N)) : list (N * list N) := map (fun w => (nb 9 w, take 9 w)) data.
Definition lane_ids (data : list (list N)) : list N := uniq_N [] (map fst (lane_words data)).

Definition lane_conf (ly : layer) (bc : N) (ws : list (N * list N)) (id : N) : Prop :=
  exists items, forallb item_wf items = true /\ lane_bytes ws id = encode_lane items /\
    la_fatal (lane_summary items) = false /\ la_dup (lane_summary items) = false /\ la_chips (lane_summary items) <> [] /\
    (forall c, In c (la_chips (lane_summary items)) -> snd c = bc) /\
    (ly = L_Inner -> map fst (la_chips (lane_summary items)) = [ib_id_to_lane id]).

Definition packet_stave_ok (ly : layer) (data : list (list N)) : Prop :=
  data <> [] /\ (N.of_nat (length (lane_ids data)) < 1000) /\
  exists bc, lanes_rule ly (lane_ids data) [] /\ Forall (lane_conf ly bc (lane_words data)) (lane_ids data).
