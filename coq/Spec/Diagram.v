(* The documented continuous-mode state diagram (doc/ITS_payload_fsm_continuous_mode.puml)
   as a deterministic acceptor over word classes, written from the diagram, not the code.

   Diagram nodes and our reading (DESIGN.md D3, D12):
     IHW, TDH, c_IHW, c_TDH          single-successor states: exactly that word is legal
     Data / after_Data               the data phase: data words (and CDW) until a TDT
     after_TDH [no_data == 1]        choice: TDH, DDW0 or IHW
     after_TDT [packet_done == 1]    choice: TDH, DDW0 or IHW
     after_TDT [packet_done == 0]    -> Continuation: c_IHW, c_TDH, c_Data* , c_TDT -> after_TDT
     DDW0 -> [*]                     end of HBF; the next packet starts again at IHW
   Guards on the packet header drawn in the diagram ([stop_bit == 0 && Page >= 1]) are
   annotations (D12).  The calibration word CDW is not drawn; it is legal in the data phase
   (checks_list.md: "CDW where user_field != previous CDW ...") and its position rule
   (start of the packet's data) is enforced at word level, see Model/CdpRunning.v. *)
From FP Require Import Model.Base.

Inductive dstate :=
| D_IHW | D_TDH | D_Data | D_AfterNoData | D_AfterTdtDone | D_cIHW | D_cTDH | D_cData.

(* what a word is, as far as the diagram's guards can see *)
Inductive wkind :=
| WK_IHW | WK_TDH (no_data : bool) | WK_TDT (packet_done : bool) | WK_DDW0 | WK_CDW | WK_Data | WK_Unknown.

Definition IHW_ID := 224. Definition TDH_ID := 232. Definition TDT_ID := 240.
Definition DDW0_ID := 228. Definition CDW_ID := 248.
Definition data_id (id : N) : bool :=
  N_in_range 32 40 id || N_in_range 64 70 id || N_in_range 72 78 id ||
  N_in_range 80 86 id || N_in_range 88 94 id.

Definition kind_of (id : N) (nd pd : bool) : wkind :=
  if id =? IHW_ID then WK_IHW else if id =? TDH_ID then WK_TDH nd
  else if id =? TDT_ID then WK_TDT pd else if id =? DDW0_ID then WK_DDW0
  else if id =? CDW_ID then WK_CDW else if data_id id then WK_Data else WK_Unknown.

(* the diagram's successor, None = the word is not legal in this state *)
Definition dnext (d : dstate) (k : wkind) : option dstate :=
  match d, k with
  | D_IHW, WK_IHW => Some D_TDH
  | D_TDH, WK_TDH nd => Some (if nd then D_AfterNoData else D_Data)
  | D_Data, WK_Data | D_Data, WK_CDW => Some D_Data
  | D_Data, WK_TDT pd => Some (if pd then D_AfterTdtDone else D_cIHW)
  | (D_AfterNoData | D_AfterTdtDone), WK_TDH nd => Some (if nd then D_AfterNoData else D_Data)
  | (D_AfterNoData | D_AfterTdtDone), WK_DDW0 => Some D_IHW
  | (D_AfterNoData | D_AfterTdtDone), WK_IHW => Some D_TDH
  | D_cIHW, WK_IHW => Some D_cTDH
  | D_cTDH, WK_TDH _ => Some D_cData
  | D_cData, WK_Data | D_cData, WK_CDW => Some D_cData
  | D_cData, WK_TDT pd => Some (if pd then D_AfterTdtDone else D_cIHW)
  | _, _ => None
  end.

Definition legal (d : dstate) (k : wkind) : bool :=
  match dnext d k with Some _ => true | None => false end.

(* single-successor states and the word they expect; choice states have none *)
Inductive expect := X_IHW | X_TDH | X_choice_tdh_ddw0_ihw | X_choice_data_tdt_cdw.
Definition expected (d : dstate) : expect :=
  match d with
  | D_IHW | D_cIHW => X_IHW
  | D_TDH | D_cTDH => X_TDH
  | D_AfterNoData | D_AfterTdtDone => X_choice_tdh_ddw0_ihw
  | D_Data | D_cData => X_choice_data_tdt_cdw
  end.

(* ---- classification the diagram position prescribes for a legal word ---- *)
Inductive dword :=
| DW_IHW | DW_IHW_cont | DW_TDH | DW_TDH_cont | DW_TDH_after_done | DW_TDT | DW_CDW | DW_Data | DW_DDW0.

Definition dclass (d : dstate) (k : wkind) : option dword :=
  match d, k with
  | D_IHW, WK_IHW => Some DW_IHW
  | D_cIHW, WK_IHW => Some DW_IHW_cont
  | (D_AfterNoData | D_AfterTdtDone), WK_IHW => Some DW_IHW
  | D_TDH, WK_TDH _ => Some DW_TDH
  | D_cTDH, WK_TDH _ => Some DW_TDH_cont
  | (D_AfterNoData | D_AfterTdtDone), WK_TDH _ => Some DW_TDH_after_done
  | (D_Data | D_cData), WK_Data => Some DW_Data
  | (D_Data | D_cData), WK_CDW => Some DW_CDW
  | (D_Data | D_cData), WK_TDT _ => Some DW_TDT
  | (D_AfterNoData | D_AfterTdtDone), WK_DDW0 => Some DW_DDW0
  | _, _ => None
  end.

(* ---- recovery after an illegal word (documented in the AmbigiousError comments and the
   README error table E990/E991/E992: the checker makes a best guess and carries on):
     single-successor state : the word is taken for the expected word;
     data phase             : taken for a data word;
     after no-data TDH      : taken for a TDH (with data);
     after a complete packet: taken for a DDW0. *)
Inductive dverdict :=
| V_as (w : dword)            (* interpreted as this word type (legal, or forced in a single-successor state) *)
| V_unrecognised (code : N).  (* choice state: unrecognised-ID error E990 / E991 / E992 *)

Definition dstep (d : dstate) (id : N) (nd pd : bool) : dstate * dverdict :=
  let k := kind_of id nd pd in
  match dnext d k, dclass d k with
  | Some d', Some c => (d', V_as c)
  | _, _ =>
    match d with
    | D_IHW => (D_TDH, V_as DW_IHW)
    | D_cIHW => (D_cTDH, V_as DW_IHW_cont)
    | D_TDH => (if nd then D_AfterNoData else D_Data, V_as DW_TDH)
    | D_cTDH => (D_cData, V_as DW_TDH_cont)
    | D_Data => (D_Data, V_unrecognised 991)
    | D_cData => (D_cData, V_unrecognised 991)
    | D_AfterNoData => (D_Data, V_unrecognised 990)
    | D_AfterTdtDone => (D_IHW, V_unrecognised 992)
    end
  end.

Definition drun (d : dstate) (ws : list (N * bool * bool)) : dstate * list dverdict :=
  fold_left (fun acc w => let '(st, rs) := acc in
                          let '(id, nd, pd) := w in
                          let '(st', r) := dstep st id nd pd in (st', rs ++ [r])) ws (d, []).
