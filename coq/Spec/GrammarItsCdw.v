(* The word-level grammar of Spec/GrammarIts.v extended by calibration runs: the data of a page may be led by a calibration
   data word (CDW), placed right behind the first TDH of the page that announces data.  The rule of checks_list.md: when the
   user fields of a CDW differ from those of the CDW before it on the link, its word index is 0.  Documented layout of a CDW:
   identifier 0xF8, user fields = bits 47:0, word index = bits 71:48 (no reserved bits). *)
From Coq Require Import List NArith Bool.
Import ListNotations.
From FP Require Import Model.Base Model.Rdh Spec.WordLayout Spec.Grammar Spec.GrammarIts Proofs.Bits.
Open Scope N_scope.

Definition cdw_f_user (w : list N) : N := f80 w 0 48.
Definition cdw_f_index (w : list N) : N := f80 w 48 24.
Definition W_cdw (w : list N) : Prop := word_ok w /\ id_of w = CDW_ID.
(* the CDW rule against the CDW seen last on the link *)
Definition cdw_follows (prev : option (list N)) (c : list N) : Prop :=
  forall p, prev = Some p -> cdw_f_user p = cdw_f_user c \/ cdw_f_index c = 0.

Definition item_has_data (i : pitem) : bool := match i with PI_nodata _ => false | _ => true end.
(* the words of the items of a page with the CDW behind the TDH of the first item that carries data *)
Fixpoint items_words_cdw (c : list N) (items : list pitem) : list (list N) :=
  match items with
  | [] => []
  | i :: r => if item_has_data i then (item_tdh i :: c :: tl (item_words i)) ++ flat_map item_words r
              else item_words i ++ items_words_cdw c r
  end.

Record cpage := { cp_page : its_page; cp_cdw : option (list N) }.
Definition cpage_words (p : cpage) : list (list N) :=
  ip_ihw (cp_page p) :: match cp_cdw p with
                        | Some c => items_words_cdw c (ip_items (cp_page p))
                        | None => flat_map item_words (ip_items (cp_page p))
                        end.
Definition cdw_after (pc : option (list N)) (p : cpage) : option (list N) :=
  match cp_cdw p with Some c => Some c | None => pc end.

(* data pages: as pages_ok, with the CDW of the link threaded through *)
Inductive cpages_ok (h : hbf_desc) : bool -> option (list N) -> option (list N) -> list cpage -> option (list N) -> Prop :=
| CPO_nil first pc : cpages_ok h first None pc [] pc
| CPO_page first opened pc p r out pc' :
    W_ihw (ip_ihw (cp_page p)) -> ip_items (cp_page p) <> [] -> (ip_pad (cp_page p) <= 15)%nat ->
    items_ok h (ihw_f_lanes (ip_ihw (cp_page p))) first None opened (ip_items (cp_page p)) out ->
    (forall c, cp_cdw p = Some c -> W_cdw c /\ cdw_follows pc c /\ existsb item_has_data (ip_items (cp_page p)) = true) ->
    cpages_ok h false out (cdw_after pc p) r pc' -> cpages_ok h first opened pc (p :: r) pc'.

Record chbf := { ch_pages : list cpage; ch_ddw0 : list N; ch_stop_pad : nat }.

Definition chbf_ok (fmt : N) (h : hbf_desc) (pc : option (list N)) (ch : chbf) (pc' : option (list N)) : Prop :=
  cpages_ok h true None pc (ch_pages ch) pc' /\ W_ddw0 (ch_ddw0 ch) /\ (ch_stop_pad ch <= 15)%nat /\
  map pg_payload (h_pages h) = map (fun p => layout fmt (cpage_words p) (ip_pad (cp_page p))) (ch_pages ch) /\
  pg_payload (h_stop h) = layout fmt [ch_ddw0 ch] (ch_stop_pad ch).

Inductive chbfs_ok (fmt : N) : option (list N) -> list hbf_desc -> list chbf -> Prop :=
| CH_nil pc : chbfs_ok fmt pc [] []
| CH_cons pc h ch pc' hs chs : chbf_ok fmt h pc ch pc' -> chbfs_ok fmt pc' hs chs -> chbfs_ok fmt pc (h :: hs) (ch :: chs).

(* a link of a calibration run (or not: with no CDW anywhere this is wf_link_its) *)
Definition wf_link_its_cdw (ld : link_desc) (chs : list chbf) : Prop :=
  wf_link_rdh ld = true /\ l_system ld = Gen.Facts.its_system_id /\ (l_format ld = 0 \/ l_format ld = 2) /\
  chbfs_ok (l_format ld) None (l_hbfs ld) chs.
