(* An executable membership test for the CDW-extended word-level grammar (Spec/GrammarItsCdw.v): like Spec/GrammarItsCheck.v, with
   the first word of identifier 0xF8 of a page taken out as the page's CDW, the CDW rule checked against the CDW of the pages
   before, and the page re-rendered with the CDW at the grammar's position and compared with the payload bytes.
   `link_witness_cdw ld = Some chs` implies `wf_link_its_cdw ld chs` (Proofs/C01_cdw_check.v).  No proofs here. *)
From Coq Require Import List NArith Bool Arith.
Import ListNotations.
From FP Require Import Model.Base Model.Rdh Model.Payload Spec.WordLayout Spec.Grammar Spec.GrammarIts Spec.GrammarItsCdw Spec.GrammarItsCheck Proofs.Bits.
From FP Require Gen.Facts.
Open Scope N_scope.

Definition b_cdw (w : list N) : bool := word_okb w && (id_of w =? CDW_ID).
Definition cdw_followsb (prev : option (list N)) (c : list N) : bool :=
  match prev with Some p => (cdw_f_user p =? cdw_f_user c) || (cdw_f_index c =? 0) | None => true end.

(* the first word with the CDW identifier, and the words without it *)
Fixpoint split_cdw (ws : list (list N)) : option (list N) * list (list N) :=
  match ws with
  | [] => (None, [])
  | w :: r => if id_of w =? CDW_ID then (Some w, r) else let '(c, r') := split_cdw r in (c, w :: r')
  end.

Definition cpage_witness (fmt : N) (h : hbf_desc) (first : bool) (opened pc : option (list N)) (pg : page_desc)
  : option (cpage * option (list N)) :=
  match words_of (pg_payload pg) with
  | Some (i :: ws) =>
      let '(c, ws') := split_cdw ws in
      match parse_items (length ws') ws' with
      | Some items =>
          let pad := (length (pg_payload pg) - length (layout fmt (i :: ws) 0))%nat in
          let cp := {| cp_page := {| ip_ihw := i; ip_items := items; ip_pad := pad |}; cp_cdw := c |} in
          if b_ihw i && negb (match items with [] => true | _ => false end) && Nat.leb pad 15 &&
             list_eqb (layout fmt (cpage_words cp) pad) (pg_payload pg) &&
             match c with Some w => b_cdw w && cdw_followsb pc w && existsb item_has_data items | None => true end
          then match items_okb h (ihw_f_lanes i) first None opened items with
               | Some out => Some (cp, out)
               | None => None
               end
          else None
      | None => None
      end
  | _ => None
  end.

Fixpoint cpages_witness (fmt : N) (h : hbf_desc) (first : bool) (opened pc : option (list N)) (pages : list page_desc)
  : option (list cpage * option (list N)) :=
  match pages with
  | [] => if is_none opened then Some ([], pc) else None
  | pg :: r => match cpage_witness fmt h first opened pc pg with
               | Some (cp, out) => match cpages_witness fmt h false out (cdw_after pc cp) r with
                                   | Some (cps, pc') => Some (cp :: cps, pc')
                                   | None => None
                                   end
               | None => None
               end
  end.

Definition chbf_witness (fmt : N) (pc : option (list N)) (h : hbf_desc) : option (chbf * option (list N)) :=
  match cpages_witness fmt h true None pc (h_pages h), words_of (pg_payload (h_stop h)) with
  | Some (cps, pc'), Some [w] =>
      let pad := (length (pg_payload (h_stop h)) - length (layout fmt [w] 0))%nat in
      if b_ddw0 w && Nat.leb pad 15 && list_eqb (layout fmt [w] pad) (pg_payload (h_stop h))
      then Some ({| ch_pages := cps; ch_ddw0 := w; ch_stop_pad := pad |}, pc') else None
  | _, _ => None
  end.

Fixpoint chbfs_witness (fmt : N) (pc : option (list N)) (hs : list hbf_desc) : option (list chbf) :=
  match hs with
  | [] => Some []
  | h :: r => match chbf_witness fmt pc h with
              | Some (ch, pc') => option_map (cons ch) (chbfs_witness fmt pc' r)
              | None => None
              end
  end.

Definition link_witness_cdw (ld : link_desc) : option (list chbf) :=
  if wf_link_rdh ld && (l_system ld =? Gen.Facts.its_system_id) && ((l_format ld =? 0) || (l_format ld =? 2))
  then chbfs_witness (l_format ld) None (l_hbfs ld) else None.
