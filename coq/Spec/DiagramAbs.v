(* Abstraction from implementation states / results to diagram states / verdicts (C09). *)
From FP Require Import Model.Base Model.ItsFsm Spec.Diagram.

Definition abs (s : fstate) : dstate :=
  match s with
  | S_InitialIHW | S_IHW_ByDdw0 => D_IHW
  | S_TDH_ByIhw => D_TDH
  | S_DATA_ByNoDataFalse | S_DATA_ByWasData => D_Data
  | S_Choice_ByNoDataTrue => D_AfterNoData
  | S_Choice_ByTdtDone => D_AfterTdtDone
  | S_cIHW => D_cIHW
  | S_cTDH => D_cTDH
  | S_cDATA_ByNext | S_cDATA_ByWasData => D_cData
  end.

Definition refine_word (p : pword) : dword :=
  match p with
  | P_IHW => DW_IHW | P_IHW_cont => DW_IHW_cont | P_TDH => DW_TDH | P_TDH_cont => DW_TDH_cont
  | P_TDH_after_done => DW_TDH_after_done | P_TDT => DW_TDT | P_CDW => DW_CDW | P_Data => DW_Data
  | P_DDW0 => DW_DDW0
  end.
Definition refine_res (r : fres) : dverdict :=
  match r with
  | F_ok p => V_as (refine_word p)
  | F_amb A_TDH_or_DDW0 => V_unrecognised 990
  | F_amb A_DW_or_TDT_CDW => V_unrecognised 991
  | F_amb A_DDW0_or_TDH_IHW => V_unrecognised 992
  end.


Definition dstate_id (d : dstate) : N :=
  match d with
  | D_IHW => 0 | D_TDH => 1 | D_Data => 2 | D_AfterNoData => 3 | D_AfterTdtDone => 4
  | D_cIHW => 5 | D_cTDH => 6 | D_cData => 7
  end.
Definition dword_id (w : dword) : N :=
  match w with
  | DW_IHW => 0 | DW_IHW_cont => 1 | DW_TDH => 2 | DW_TDH_cont => 3 | DW_TDH_after_done => 4
  | DW_TDT => 5 | DW_CDW => 6 | DW_Data => 7 | DW_DDW0 => 8
  end.
Definition dverdict_id (v : dverdict) : N :=
  match v with
  | V_as w => dword_id w
  | V_unrecognised c => c - 980     (* 990 -> 10, 991 -> 11, 992 -> 12 *)
  end.
