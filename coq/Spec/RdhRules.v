(* The documented RDH rules (doc/checks_list.md, "RDH sanity check", "ITS specific checks",
   "RDH running checks"), stated on the 512-bit header value (little-endian value of the 64
   bytes) through the bit layout of the RDH v6/v7 definition:

     0:7 header_id | 8:15 header_size | 16:31 FEE id (16:21 stave, 22:23 res, 24:25 fiber,
     26:27 res, 28:30 layer, 31 res) | 32:39 priority | 40:47 system_id | 48:63 reserved
     64:79 offset_to_next | 80:95 memory_size | 96:103 link_id | 104:111 packet_counter
     112:123 cru_id | 124:127 dw | 128:139 bc | 140:159 reserved | 160:191 orbit
     192:199 data_format | 200:255 reserved | 256:287 trigger_type | 288:303 pages_counter
     304:311 stop_bit | 312:319 reserved | 320:383 reserved | 384:415 detector_field
     416:431 par_bit | 432:447 reserved | 448:511 reserved

   D1: BC <= 0xDEB.  D2: detector-field reserved bits are 23:12. *)
From FP Require Import Model.Base.

Definition hf (b : list N) (lo len : N) : N := field (le b) lo len.

Definition h_header_id b := hf b 0 8.        Definition h_header_size b := hf b 8 8.
Definition h_fee_id b := hf b 16 16.         Definition h_stave b := hf b 16 6.
Definition h_layer b := hf b 28 3.           Definition h_priority b := hf b 32 8.
Definition h_system_id b := hf b 40 8.       Definition h_offset_next b := hf b 64 16.
Definition h_memory_size b := hf b 80 16.    Definition h_link_id b := hf b 96 8.
Definition h_packet_counter b := hf b 104 8. Definition h_cru_id b := hf b 112 12.
Definition h_dw b := hf b 124 4.             Definition h_bc b := hf b 128 12.
Definition h_orbit b := hf b 160 32.         Definition h_data_format b := hf b 192 8.
Definition h_trigger_type b := hf b 256 32.  Definition h_pages_counter b := hf b 288 16.
Definition h_stop_bit b := hf b 304 8.       Definition h_detector_field b := hf b 384 32.
Definition h_par_bit b := hf b 416 16.

Definition ITS_SYSTEM_ID := 32.
Definition BC_MAX := 3563.   (* 0xDEB *)

(* one boolean per documented bullet *)
Definition rule_header_id (first : N) b := h_header_id b =? first.
Definition rule_header_size b := h_header_size b =? 64.
Definition rule_fee_layer b := h_layer b <=? 6.
Definition rule_fee_stave b := h_stave b <=? 47.
Definition rule_fee_reserved b := (hf b 22 2 =? 0) && (hf b 26 2 =? 0) && (hf b 31 1 =? 0).
Definition rule_priority b := h_priority b =? 0.
Definition rule_rdh0_reserved b := hf b 48 16 =? 0.
Definition rule_system_id (its : bool) b := if its then h_system_id b =? ITS_SYSTEM_ID else true.
Definition rule_bc b := h_bc b <=? BC_MAX.
Definition rule_rdh1_reserved b := hf b 140 20 =? 0.
Definition rule_stop_bit b := h_stop_bit b <=? 1.
Definition rule_trigger_type b := (1 <=? h_trigger_type b) && (hf b 271 12 =? 0).
Definition rule_rdh2_reserved b := hf b 312 8 =? 0.
Definition rule_rdh3_reserved b := (hf b 432 16 =? 0) && (hf b 396 12 =? 0).
Definition rule_dw b := h_dw b <=? 1.
Definition rule_data_format b := h_data_format b <=? 2.

Definition rdh_sane (first : N) (its : bool) (b : list N) : bool :=
  rule_header_id first b && rule_header_size b && rule_fee_layer b && rule_fee_stave b &&
  rule_fee_reserved b && rule_priority b && rule_rdh0_reserved b && rule_system_id its b &&
  rule_bc b && rule_rdh1_reserved b && rule_stop_bit b && rule_trigger_type b &&
  rule_rdh2_reserved b && rule_rdh3_reserved b && rule_dw b && rule_data_format b.

(* ---- running rules, as a function of the link's history (oldest first) ---- *)
(* expected page counter after a history: +1 per page with stop_bit 0, reset by stop_bit 1 *)
Fixpoint expected_pages (hist : list (list N)) (acc : N) : N :=
  match hist with
  | [] => acc
  | h :: r => expected_pages r (if h_stop_bit h =? 0 then acc + 1
                                else if h_stop_bit h =? 1 then 0 else acc)
  end.

Definition running_violation (hist : list (list N)) (b : list N) : bool :=
  (* stop bit must be 0 or 1 and the page counter the expected one *)
  (if (h_stop_bit b =? 0) || (h_stop_bit b =? 1)
   then negb (h_pages_counter b =? expected_pages hist 0) else true) ||
  (* after a stop page the orbit must change *)
  (match rev hist with
   | l :: _ => (h_stop_bit l =? 1) && (h_orbit l =? h_orbit b)
   | [] => false
   end) ||
  (* inside an HBF (page counter not 0) orbit, trigger and FEE id stay the same *)
  (if h_pages_counter b =? 0 then false
   else match rev hist with
        | l :: _ => negb (h_orbit b =? h_orbit l) || negb (h_trigger_type b =? h_trigger_type l) ||
                    negb (h_fee_id b =? h_fee_id l)
        | [] => false
        end).
