(* An executable membership test for the word-level grammar of Spec/GrammarIts.v: given a link description whose pages carry
   payload BYTES, reconstruct the witness (pages of items) and check every side condition.  `link_witness ld = Some ihs`
   implies `wf_link_its ld ihs` (Proofs/C01_check.v), so the ITS-tier theorem of C01 applies to every description this test
   accepts; the check runs it on every generated conforming link.  No proofs here. *)
From Coq Require Import List NArith Bool Arith.
Import ListNotations.
From FP Require Import Model.Base Model.Rdh Model.Payload Spec.WordLayout Spec.Grammar Spec.GrammarIts Proofs.Bits.
From FP Require Gen.Facts.
Open Scope N_scope.

Fixpoint list_eqb (a b : list N) : bool :=
  match a, b with
  | [], [] => true
  | x :: r, y :: s => (x =? y) && list_eqb r s
  | _, _ => false
  end.

Definition word_okb (w : list N) : bool := Nat.eqb (length w) 10 && forallb byte_okb w.
Definition b_ihw (w : list N) : bool := word_okb w && ihw_okb w.
Definition b_tdh (w : list N) : bool := word_okb w && tdh_okb w.
Definition b_tdt (w : list N) : bool := word_okb w && tdt_okb w.
Definition b_ddw0 (w : list N) : bool := word_okb w && ddw0_okb w.
Definition b_data (lanes : N) (w : list N) : bool :=
  word_okb w && match data_word_verdict true (id_of w) lanes with [] => true | _ => false end.

(* the data words after a TDH up to (and with) the closing TDT *)
Fixpoint take_data (ws : list (list N)) : list (list N) * option (list N * list (list N)) :=
  match ws with
  | [] => ([], None)
  | w :: r => if id_of w =? TDT_ID then ([], Some (w, r))
              else let '(d, x) := take_data r in (w :: d, x)
  end.

Fixpoint parse_items (fuel : nat) (ws : list (list N)) : option (list pitem) :=
  match ws with
  | [] => Some []
  | t :: r =>
    match fuel with
    | O => None
    | S f =>
      if tdh_f_nodata t =? 1 then option_map (cons (PI_nodata t)) (parse_items f r)
      else match take_data r with
           | (d, Some (e, r')) =>
               let it := if tdh_f_cont t =? 1
                         then (if tdt_f_done e =? 1 then PI_close t d e else PI_cont t d e)
                         else (if tdt_f_done e =? 1 then PI_frame t d e else PI_open t d e) in
               option_map (cons it) (parse_items f r')
           | (_, None) => None
           end
    end
  end.

Definition start_okb (h : hbf_desc) (first : bool) (nodata : N) (t : list N) : bool :=
  b_tdh t && (tdh_f_cont t =? 0) && (tdh_f_nodata t =? nodata) && (tdh_f_orbit t =? h_orbit h) &&
  implb (first && ((tdh_f_internal t =? 1) || N.testbit (h_trigger h) 4))
        ((tdh_f_bc t =? h_bc h) && (tdh_f_type t =? N.land (h_trigger h) 4095)).
Definition cont_okb (prev t : list N) : bool :=
  b_tdh t && (tdh_f_cont t =? 1) && (tdh_f_nodata t =? 0) &&
  (tdh_f_bc t =? tdh_f_bc prev) && (tdh_f_orbit t =? tdh_f_orbit prev) && (tdh_f_type t =? tdh_f_type prev).
Definition le_prevb (prev : option (list N)) (t : list N) : bool :=
  match prev with Some p => tdh_f_bc p <=? tdh_f_bc t | None => true end.
Definition tdt_doneb (d : N) (e : list N) : bool := b_tdt e && (tdt_f_done e =? d).
Definition is_none {A} (o : option A) : bool := match o with None => true | Some _ => false end.

Fixpoint items_okb (h : hbf_desc) (lanes : N) (first : bool) (prev opened : option (list N)) (items : list pitem)
  : option (option (list N)) :=
  match items, opened with
  | [], None => Some None
  | PI_nodata t :: r, None =>
      if start_okb h first 1 t && le_prevb prev t then items_okb h lanes false (Some t) None r else None
  | PI_frame t d e :: r, None =>
      if start_okb h first 0 t && le_prevb prev t && forallb (b_data lanes) d && tdt_doneb 1 e
      then items_okb h lanes false (Some t) None r else None
  | [PI_open t d e], None =>
      if start_okb h first 0 t && le_prevb prev t && forallb (b_data lanes) d && tdt_doneb 0 e then Some (Some t) else None
  | [PI_cont t d e], Some o =>
      if negb first && is_none prev && cont_okb o t && forallb (b_data lanes) d && tdt_doneb 0 e then Some (Some t) else None
  | PI_close t d e :: r, Some o =>
      if negb first && is_none prev && cont_okb o t && forallb (b_data lanes) d && tdt_doneb 1 e
      then items_okb h lanes false (Some t) None r else None
  | _, _ => None
  end.

Definition page_witness (fmt : N) (h : hbf_desc) (first : bool) (opened : option (list N)) (pg : page_desc)
  : option (its_page * option (list N)) :=
  match words_of (pg_payload pg) with
  | Some (i :: ws) =>
      match parse_items (length ws) ws with
      | Some items =>
          let pad := (length (pg_payload pg) - length (layout fmt (i :: ws) 0))%nat in
          let ip := {| ip_ihw := i; ip_items := items; ip_pad := pad |} in
          if b_ihw i && negb (match items with [] => true | _ => false end) && Nat.leb pad 15 &&
             list_eqb (layout fmt (page_words ip) pad) (pg_payload pg)
          then match items_okb h (ihw_f_lanes i) first None opened items with
               | Some out => Some (ip, out)
               | None => None
               end
          else None
      | None => None
      end
  | _ => None
  end.

Fixpoint pages_witness (fmt : N) (h : hbf_desc) (first : bool) (opened : option (list N)) (pages : list page_desc)
  : option (list its_page) :=
  match pages with
  | [] => if is_none opened then Some [] else None
  | pg :: r => match page_witness fmt h first opened pg with
               | Some (ip, out) => option_map (cons ip) (pages_witness fmt h false out r)
               | None => None
               end
  end.

Definition hbf_witness (fmt : N) (h : hbf_desc) : option its_hbf :=
  match pages_witness fmt h true None (h_pages h), words_of (pg_payload (h_stop h)) with
  | Some ips, Some [w] =>
      let pad := (length (pg_payload (h_stop h)) - length (layout fmt [w] 0))%nat in
      if b_ddw0 w && Nat.leb pad 15 && list_eqb (layout fmt [w] pad) (pg_payload (h_stop h))
      then Some {| ih_pages := ips; ih_ddw0 := w; ih_stop_pad := pad |} else None
  | _, _ => None
  end.

Fixpoint all_some {A B} (f : A -> option B) (l : list A) : option (list B) :=
  match l with
  | [] => Some []
  | x :: r => match f x, all_some f r with Some y, Some ys => Some (y :: ys) | _, _ => None end
  end.

Definition link_witness (ld : link_desc) : option (list its_hbf) :=
  if wf_link_rdh ld && (l_system ld =? Gen.Facts.its_system_id) && ((l_format ld =? 0) || (l_format ld =? 2))
  then all_some (hbf_witness (l_format ld)) (l_hbfs ld) else None.
