(* Executable membership test for the stave-level conditions of Spec/GrammarStave.v (sound by Proofs/C01_stave_check.v):
   lanes are parsed greedily into encoder items, RE-ENCODED and compared byte for byte, and every side condition is evaluated. *)
From Coq Require Import List NArith Bool Arith.
Import ListNotations.
From FP Require Import Model.Base Model.ItsWords Model.Rdh Model.Alpide Model.CdpRunning Spec.AlpideEnc Spec.Grammar Spec.GrammarIts
  Spec.GrammarItsCheck Spec.GrammarStave Proofs.C13_lane Proofs.C13_frame.
Open Scope N_scope.

(* the words inside a chip frame, up to the trailer *)
Fixpoint parse_body (fuel : nat) (bs : list N) : option (list bitem * N * list N) :=
  match fuel with
  | O => None
  | S f =>
    match bs with
    | [] => None
    | b :: r =>
      if (176 <=? b) && (b <=? 191) then Some ([], b - 176, r)
      else if (192 <=? b) && (b <=? 223) then option_map (fun x => let '(l, t, r') := x in (B_region (b - 192) :: l, t, r')) (parse_body f r)
      else if (64 <=? b) && (b <=? 127) then
        match r with x :: r2 => option_map (fun y => let '(l, t, r') := y in (B_short (b - 64) x :: l, t, r')) (parse_body f r2) | [] => None end
      else if b <=? 63 then
        match r with x :: y :: r2 => option_map (fun z => let '(l, t, r') := z in (B_long b x y :: l, t, r')) (parse_body f r2) | _ => None end
      else if fill_ok b then option_map (fun x => let '(l, t, r') := x in (B_fill b :: l, t, r')) (parse_body f r)
      else if fatal_ok b then option_map (fun x => let '(l, t, r') := x in (B_fatal b :: l, t, r')) (parse_body f r)
      else None
    end
  end.

Fixpoint parse_lane (fuel : nat) (bs : list N) : option (list item) :=
  match fuel with
  | O => match bs with [] => Some [] | _ => None end
  | S f =>
    match bs with
    | [] => Some []
    | b :: r =>
      if b =? 0 then option_map (cons I_pad) (parse_lane f r)
      else if (160 <=? b) && (b <=? 175) then
        match r with
        | bc :: r2 => match parse_body (length r2) r2 with
                      | Some (body, tr, r3) => option_map (cons (I_chip (b - 160) bc body tr)) (parse_lane f r3)
                      | None => None
                      end
        | [] => None
        end
      else if (224 <=? b) && (b <=? 239) then
        match r with bc :: r2 => option_map (cons (I_empty (b - 224) bc)) (parse_lane f r2) | [] => None end
      else if fill_ok b then option_map (cons (I_fill b)) (parse_lane f r)
      else if fatal_ok b then option_map (cons (I_fatal b)) (parse_lane f r)
      else None
    end
  end.

Definition lane_confb (ly : layer) (bc : N) (ws : list (N * list N)) (id : N) : bool :=
  match parse_lane (length (lane_bytes ws id)) (lane_bytes ws id) with
  | Some items =>
      let a := lane_summary items in
      forallb item_wf items && list_eqb (encode_lane items) (lane_bytes ws id) &&
      negb (la_fatal a) && negb (la_dup a) && negb (match la_chips a with [] => true | _ => false end) &&
      forallb (fun c => snd c =? bc) (la_chips a) &&
      match ly with L_Inner => list_N_eqb (map fst (la_chips a)) [ib_id_to_lane id] | _ => true end
  | None => false
  end.

Definition lanes_ruleb (ly : layer) (ids : list N) : bool :=
  (N.of_nat (length ids) + 0 =? expect_lanes ly) &&
  match ly with
  | L_Inner => existsb (fun g => list_N_eqb (sort_N (map ib_id_to_lane ids)) (minus g [])) IB_GROUPS
  | _ => true
  end.

(* the common bunch crossing: that of the first chip of the first lane *)
Definition first_bc (ws : list (N * list N)) (ids : list N) : N :=
  match ids with
  | id :: _ => match parse_lane (length (lane_bytes ws id)) (lane_bytes ws id) with
               | Some items => match la_chips (lane_summary items) with c :: _ => snd c | [] => 0 end
               | None => 0
               end
  | [] => 0
  end.

Definition packet_stave_okb (ly : layer) (data : list (list N)) : bool :=
  negb (match data with [] => true | _ => false end) && (N.of_nat (length (lane_ids data)) <? 1000) &&
  lanes_ruleb ly (lane_ids data) &&
  forallb (lane_confb ly (first_bc (lane_words data) (lane_ids data)) (lane_words data)) (lane_ids data).

Fixpoint stave_itemsb (ly : layer) (acc : list (list N)) (items : list pitem) : option (list (list N)) :=
  match items with
  | [] => Some acc
  | PI_nodata _ :: r => match acc with [] => stave_itemsb ly [] r | _ => None end
  | PI_frame _ d _ :: r => match acc with [] => if packet_stave_okb ly d then stave_itemsb ly [] r else None | _ => None end
  | PI_open _ d _ :: r => match acc with [] => stave_itemsb ly d r | _ => None end
  | PI_cont _ d _ :: r => stave_itemsb ly (acc ++ d) r
  | PI_close _ d _ :: r => if packet_stave_okb ly (acc ++ d) then stave_itemsb ly [] r else None
  end.

Fixpoint stave_pagesb (ly : layer) (acc : list (list N)) (pages : list its_page) : bool :=
  match pages with
  | [] => match acc with [] => true | _ => false end
  | p :: r => match stave_itemsb ly acc (ip_items p) with Some acc' => stave_pagesb ly acc' r | None => false end
  end.

Definition stave_witness (ld : link_desc) : option (list its_hbf * layer) :=
  match link_witness ld, layer_of_feeid (l_fee ld) with
  | Some ihs, Ok ly => if forallb (fun ih => stave_pagesb ly [] (ih_pages ih)) ihs then Some (ihs, ly) else None
  | _, _ => None
  end.
