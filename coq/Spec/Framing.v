(* Well-framed inputs: the property's own description of the RDH chain, independent of the
   scanner.  A packet is its 64 header bytes and the payload bytes that follow. *)
From FP Require Import Model.Base Spec.RdhRules.
From Coq Require Import Arith.

Record packet := { p_hdr : list N; p_payload : list N }.

Definition p_bytes (p : packet) : list N := p_hdr p ++ p_payload p.
Definition p_size (p : packet) : N := N.of_nat (64 + length (p_payload p)).

(* the input is the packets back to back *)
Definition serialize (pkts : list packet) : list N := concat (map p_bytes pkts).

(* each header's offset-to-next equals its memory size, equals the real distance to the next
   header, and lies in the accepted range 64..10064 *)
Definition wf_pkt (p : packet) : Prop :=
  (length (p_hdr p) = 64%nat /\ Forall byte_ok (p_hdr p)) /\
  Forall byte_ok (p_payload p) /\
  h_offset_next (p_hdr p) = p_size p /\
  h_memory_size (p_hdr p) = p_size p /\
  N.of_nat (length (p_payload p)) <= 10000.

(* true starting offsets: the chained byte offsets *)
Fixpoint with_offsets (off : N) (pkts : list packet) : list (N * packet) :=
  match pkts with
  | [] => []
  | p :: r => (off, p) :: with_offsets (off + p_size p) r
  end.

Definition total_size (pkts : list packet) : N := fold_right (fun p a => p_size p + a) 0 pkts.
