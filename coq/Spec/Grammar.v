(* The conforming-stream grammar, shaped like the producer (read-out unit -> CRU pages), not like the checker.
   RDH level: a link is a sequence of heartbeat frames; a heartbeat frame is one or more data pages (stop bit 0, pages counter
   0, 1, ..) followed by a stop page (stop bit 1, the next pages counter); orbit, bunch crossing, trigger type, detector field
   and FEE id are those of the heartbeat frame on all its pages; consecutive heartbeat frames of a link differ in orbit. *)
From Coq Require Import List NArith Bool.
Import ListNotations.
From FP Require Import Model.Base Model.Rdh Model.Scanner.
From FP Require Gen.Facts.
Open Scope N_scope.

Record page_desc := { pg_counter : N (* packet counter: free *); pg_par : N (* PAR bit field: free *); pg_payload : list N }.
Record hbf_desc := { h_orbit : N; h_bc : N; h_trigger : N; h_detfield : N; h_pages : list page_desc; h_stop : page_desc }.
Record link_desc := { l_link : N; l_fee : N; l_version : N; l_system : N; l_format : N; l_cru : N; l_dw : N; l_hbfs : list hbf_desc }.

Definition render_rdh (ld : link_desc) (h : hbf_desc) (idx : N) (stop : N) (pg : page_desc) : rdh :=
  let len := N.of_nat (length (pg_payload pg)) in
  {| r_header_id := l_version ld; r_header_size := 64; r_fee_id := l_fee ld; r_priority_bit := 0; r_system_id := l_system ld;
     r_rdh0_reserved0 := 0;
     r_offset_new_packet := 64 + len; r_memory_size := 64 + len; r_link_id := l_link ld; r_packet_counter := pg_counter pg;
     r_cruid_dw := l_cru ld + 4096 * l_dw ld;
     r_bc_reserved0 := h_bc h; r_orbit := h_orbit h;
     r_dataformat_reserved0 := l_format ld;
     r_trigger_type := h_trigger h; r_pages_counter := idx; r_stop_bit := stop; r_rdh2_reserved0 := 0;
     r_reserved1 := 0;
     r_detector_field := h_detfield h; r_par_bit := pg_par pg; r_rdh3_reserved0 := 0;
     r_reserved2 := 0 |}.

Fixpoint render_pages (ld : link_desc) (h : hbf_desc) (idx : N) (pages : list page_desc) : list (rdh * list N) :=
  match pages with
  | [] => []
  | pg :: rest => (render_rdh ld h idx 0 pg, pg_payload pg) :: render_pages ld h (idx + 1) rest
  end.
Definition render_hbf (ld : link_desc) (h : hbf_desc) : list (rdh * list N) :=
  render_pages ld h 0 (h_pages h) ++ [(render_rdh ld h (N.of_nat (length (h_pages h))) 1 (h_stop h), pg_payload (h_stop h))].
Definition render_link (ld : link_desc) : list (rdh * list N) := flat_map (render_hbf ld) (l_hbfs ld).

(* side conditions: field ranges and reserved bits (the constants are those the translator reads from the sources), page counts
   below the 16-bit counter, consecutive heartbeat frames in different orbits *)
Definition wf_hbf (h : hbf_desc) : bool :=
  (h_bc h <=? Gen.Facts.rdh_bc_max) &&
  negb (h_trigger h =? 0) && (N.land (h_trigger h) Gen.Facts.trigger_spare_mask =? 0) && (h_trigger h <? 4294967296) &&
  (N.land (h_detfield h) Gen.Facts.detfield_reserved_mask =? 0) &&
  negb (match h_pages h with [] => true | _ => false end) && (N.of_nat (length (h_pages h)) <? 65535).
Fixpoint orbits_differ (hs : list hbf_desc) : bool :=
  match hs with
  | a :: ((b :: _) as rest) => negb (h_orbit a =? h_orbit b) && orbits_differ rest
  | _ => true
  end.
Definition wf_link_rdh (ld : link_desc) : bool :=
  (N.land (l_fee ld) Gen.Facts.fee_reserved_mask =? 0) &&
  (Gen.Facts.fee_stave_min <=? stave_number_from_feeid (l_fee ld)) && (stave_number_from_feeid (l_fee ld) <=? Gen.Facts.fee_stave_max) &&
  (Gen.Facts.fee_layer_min <=? layer_from_feeid (l_fee ld)) && (layer_from_feeid (l_fee ld) <=? Gen.Facts.fee_layer_max) &&
  (l_dw ld <=? 1) && (l_cru ld <? 4096) && (l_format ld <=? 2) &&
  forallb wf_hbf (l_hbfs ld) && orbits_differ (l_hbfs ld).
