(* Executable membership test for the stave tier of calibration runs: the CDW-extended word-level test plus the stave-level test of
   every page's items (a CDW is not lane data).  No proofs here. *)
From Coq Require Import List NArith Bool.
Import ListNotations.
From FP Require Import Model.Base Model.Rdh Model.Alpide Model.CdpRunning Spec.Grammar Spec.GrammarIts Spec.GrammarItsCdw Spec.GrammarItsCdwCheck
  Spec.GrammarStaveCheck.
Open Scope N_scope.

Definition stave_witness_cdw (ld : link_desc) : option (list chbf * layer) :=
  match link_witness_cdw ld, layer_of_feeid (l_fee ld) with
  | Some chs, Ok ly => if forallb (fun ch => stave_pagesb ly [] (map cp_page (ch_pages ch))) chs then Some (chs, ly) else None
  | _, _ => None
  end.
