(* Ground truth of the statistics, computed from the packet list alone (C14). *)
From FP Require Import Model.Base Model.Rdh Spec.Framing.
From Coq Require Import Arith.

Definition addn (x : N) (l : list N) : list N := if existsb (N.eqb x) l then l else l ++ [x].
(* distinct values in order of first appearance *)
Definition first_seen_list (l : list N) : list N := fold_left (fun acc x => addn x acc) l [].

Definition hdr (p : packet) : rdh := decode_rdh (p_hdr p).
Definition sumN (l : list N) : N := fold_right N.add 0 l.

Record ground_truth := {
  gt_rdhs_seen : N;            (* RDHs visited: every packet of the chain, skipped links included *)
  gt_rdhs_filtered : N;        (* RDHs matching the filter (0 without a filter) *)
  gt_payload : N;              (* payload bytes of the returned packets *)
  gt_links : list N;           (* distinct link ids, first-seen order (the report sorts them) *)
  gt_fees : list N;            (* distinct FEE ids, first-seen order *)
  gt_first : option (N * N * N * N) (* run trigger type, data format, system id, RDH version: of the first header *)
}.

Definition truth (filtered : bool) (sel : packet -> bool) (pkts : list packet) : ground_truth :=
  {| gt_rdhs_seen := N.of_nat (length pkts);
     gt_rdhs_filtered := if filtered then N.of_nat (length (filter sel pkts)) else 0;
     gt_payload := sumN (map (fun p => N.of_nat (length (p_payload p))) (filter sel pkts));
     gt_links := first_seen_list (map (fun p => r_link_id (hdr p)) pkts);
     gt_fees := first_seen_list (map (fun p => r_fee_id (hdr p)) pkts);
     gt_first := match pkts with
                 | p :: _ => Some (r_trigger_type (hdr p), rdh_data_format (hdr p), r_system_id (hdr p), r_header_id (hdr p))
                 | [] => None end |}.

(* analysed packets (check and view modes): heartbeat frames, trigger bits, layer/stave pairs *)
Definition gt_hbfs (sel : list packet) : N := N.of_nat (length (filter (fun p => r_stop_bit (hdr p) =? 1) sel)).
Definition gt_trigger_bit (i : N) (sel : list packet) : N :=
  N.of_nat (length (filter (fun p => N.testbit (r_trigger_type (hdr p)) i) sel)).
