(* Documented layout of the 80-bit ITS status words and the sanity rules of
   doc/checks_list.md ("ITS Payload sanity checks"), stated on the 80-bit value
   (little-endian value of the 10 bytes), independently of how the code slices it.

   Layouts (bit ranges of the 80-bit word):
     IHW   27:0 active_lanes | 71:28 reserved | 79:72 id = 0xE0
     TDH   11:0 trigger_type | 12 internal_trigger | 13 no_data | 14 continuation | 15 reserved
           27:16 trigger_bc | 31:28 reserved | 63:32 trigger_orbit | 71:64 reserved | 79:72 id = 0xE8
     TDT   55:0 lane_status | 60:56 reserved | 61 timeout_in_idle | 62 timeout_start_stop
           63 timeout_to_start | 64 packet_done | 65 transmission_timeout | 66 reserved
           67 lane_starts_violation | 71:68 reserved | 79:72 id = 0xF0
     DDW0  55:0 lane_status | 63:56 reserved | 64 reserved | 65 transmission_timeout | 66 reserved
           67 lane_starts_violation | 71:68 index | 79:72 id = 0xE4
   (D4: DDW0 index must be 0.) *)
From FP Require Import Model.Base.

Definition w80 (w : list N) : N := le w.
Definition f80 (w : list N) (lo len : N) : N := field (w80 w) lo len.
Definition id_of (w : list N) : N := f80 w 72 8.

Definition IHW_ID := 224.  (* 0xE0 *)
Definition TDH_ID := 232.  (* 0xE8 *)
Definition TDT_ID := 240.  (* 0xF0 *)
Definition DDW0_ID := 228. (* 0xE4 *)
Definition CDW_ID := 248.  (* 0xF8 *)

Definition ihw_reserved_zero (w : list N) : Prop := f80 w 28 44 = 0.
Definition tdh_reserved_zero (w : list N) : Prop :=
  f80 w 15 1 = 0 /\ f80 w 28 4 = 0 /\ f80 w 64 8 = 0.
Definition tdh_trigger_rule (w : list N) : Prop := ~ (f80 w 0 12 = 0 /\ f80 w 12 1 = 0).
Definition tdt_reserved_zero (w : list N) : Prop :=
  f80 w 56 5 = 0 /\ f80 w 66 1 = 0 /\ f80 w 68 4 = 0.
Definition ddw0_reserved_zero (w : list N) : Prop :=
  f80 w 56 8 = 0 /\ f80 w 64 1 = 0 /\ f80 w 66 1 = 0.
Definition ddw0_index_zero (w : list N) : Prop := f80 w 68 4 = 0.

Definition ihw_ok (w : list N) : Prop := id_of w = IHW_ID /\ ihw_reserved_zero w.
Definition tdh_ok (w : list N) : Prop :=
  id_of w = TDH_ID /\ tdh_reserved_zero w /\ tdh_trigger_rule w.
Definition tdt_ok (w : list N) : Prop := id_of w = TDT_ID /\ tdt_reserved_zero w.
Definition ddw0_ok (w : list N) : Prop :=
  id_of w = DDW0_ID /\ ddw0_reserved_zero w /\ ddw0_index_zero w.

(* executable versions (used by the correspondence oracle) *)
Definition ihw_okb (w : list N) : bool := (id_of w =? IHW_ID) && (f80 w 28 44 =? 0).
Definition tdh_okb (w : list N) : bool :=
  (id_of w =? TDH_ID) && (f80 w 15 1 =? 0) && (f80 w 28 4 =? 0) && (f80 w 64 8 =? 0) &&
  negb ((f80 w 0 12 =? 0) && (f80 w 12 1 =? 0)).
Definition tdt_okb (w : list N) : bool :=
  (id_of w =? TDT_ID) && (f80 w 56 5 =? 0) && (f80 w 66 1 =? 0) && (f80 w 68 4 =? 0).
Definition ddw0_okb (w : list N) : bool :=
  (id_of w =? DDW0_ID) && (f80 w 56 8 =? 0) && (f80 w 64 1 =? 0) && (f80 w 66 1 =? 0) &&
  (f80 w 68 4 =? 0).

(* ---- data words: identifier classes and lane numbering, from checks_list.md and the
   identifier table in words/its/data_words.rs comments:
     7:5 = 001 inner barrel, 4:0 = lane (0..8)
     7:5 = 010 outer/middle barrel, 4:3 = connector (0..3), 2:0 = input on connector (0..6);
     lane = 7 * connector + input *)
Definition valid_il (id : N) : bool := N_in_range 32 40 id.
Definition valid_ml (id : N) : bool :=
  N_in_range 67 70 id || N_in_range 72 75 id || N_in_range 83 86 id || N_in_range 88 91 id.
Definition valid_ol (id : N) : bool :=
  N_in_range 64 70 id || N_in_range 72 78 id || N_in_range 80 86 id || N_in_range 88 94 id.
Definition valid_data_id (id : N) : bool := valid_il id || valid_ml id || valid_ol id.

Definition is_ib_class (id : N) : bool := field id 5 3 =? 1.
Definition is_ob_class (id : N) : bool := field id 5 3 =? 2.
Definition ib_lane (id : N) : N := field id 0 5.
Definition ob_connector (id : N) : N := field id 3 2.
Definition ob_input (id : N) : N := field id 0 3.
Definition ob_lane (id : N) : N := 7 * ob_connector id + ob_input id.
Definition lane_active (lane lanes : N) : bool := N.testbit lanes lane.

(* Documented verdict for a data word under `check all` (running = true) or
   `check sanity` (running = false): the set of codes that must be reported. *)
Definition data_word_verdict (running : bool) (id lanes : N) : list N :=
  (if valid_data_id id then [] else [70]) ++
  (if negb running then []
   else if valid_il id then (if lane_active (ib_lane id) lanes then [] else [72])
   else if valid_ml id || valid_ol id then (if lane_active (ob_lane id) lanes then [] else [71])
   else []).
