(* An independent ALPIDE lane encoder, written from the ALPIDE word table (ALPIDE operations manual, as quoted in the comments of
   words/its/alpide/alpide_word.rs), and the hit-free "skeleton" of a lane: which chips, with which bunch counters, which
   readout flags, whether a fatal protocol extension was sent.

     IDLE / padding      0000 0000                  (between chips only)
     CHIP HEADER         1010 <id:4>  <bc:8>
     CHIP EMPTY FRAME    1110 <id:4>  <bc:8>
     CHIP TRAILER        1011 <flags:4>
     REGION HEADER       110 <region:5>
     DATA SHORT          01 <enc:4><addr hi:2>  <addr lo:8>
     DATA LONG           00 <enc:4><addr hi:2>  <addr lo:8>  0 <hitmap:7>
     BUSY ON / OFF       1111 0000 / 1111 0001
     protocol extensions 0xF2, 0xFD, 0xFE (warning); 0xF4 .. 0xFC (lane FATAL)                                          *)
From Coq Require Import List NArith Bool.
Import ListNotations.
Open Scope N_scope.

Inductive bitem :=
| B_region (r : N)            (* r < 32 *)
| B_short (a b : N)           (* a < 64: encoder id + address high bits; b: any byte *)
| B_long (a b c : N)          (* a < 64; b, c: any bytes (the hit map is not even required to have its top bit clear) *)
| B_fill (f : N)              (* a one-byte word that carries no frame information: busy on/off, warning extensions, unknown *)
| B_fatal (f : N).            (* 0xF4 .. 0xFC *)

Inductive item :=
| I_pad                       (* an idle byte between chips *)
| I_fill (f : N)
| I_fatal (f : N)
| I_empty (id bc : N)         (* id < 16 *)
| I_chip (id bc : N) (body : list bitem) (tr : N).   (* id < 16, tr < 16 *)

Definition fill_ok (f : N) : bool := ((240 <=? f) && (f <=? 243)) || ((253 <=? f) && (f <=? 255)).
Definition fatal_ok (f : N) : bool := (244 <=? f) && (f <=? 252).

Definition bitem_wf (x : bitem) : bool :=
  match x with
  | B_region r => r <? 32
  | B_short a b => (a <? 64) && (b <? 256)
  | B_long a b c => (a <? 64) && (b <? 256) && (c <? 256)
  | B_fill f => fill_ok f
  | B_fatal f => fatal_ok f
  end.
Definition item_wf (x : item) : bool :=
  match x with
  | I_pad => true
  | I_fill f => fill_ok f
  | I_fatal f => fatal_ok f
  | I_empty id bc => (id <? 16) && (bc <? 256)
  | I_chip id bc body tr => (id <? 16) && (bc <? 256) && forallb bitem_wf body && (tr <? 16)
  end.

Definition encode_b (x : bitem) : list N :=
  match x with
  | B_region r => [192 + r]
  | B_short a b => [64 + a; b]
  | B_long a b c => [a; b; c]
  | B_fill f => [f]
  | B_fatal f => [f]
  end.
Definition encode_item (x : item) : list N :=
  match x with
  | I_pad => [0]
  | I_fill f => [f]
  | I_fatal f => [f]
  | I_empty id bc => [224 + id; bc]
  | I_chip id bc body tr => [160 + id; bc] ++ flat_map encode_b body ++ [176 + tr]
  end.
Definition encode_lane (items : list item) : list N := flat_map encode_item items.

(* ---- the skeleton: everything but the hits ---- *)
Inductive bskel := K_fatal | K_other.
Inductive skel :=
| S_fatal
| S_empty (id bc : N)
| S_chip (id bc : N) (fatal_inside : bool) (tr : N)
| S_none.
Definition body_fatal (body : list bitem) : bool := existsb (fun x => match x with B_fatal _ => true | _ => false end) body.
Definition skel_of (x : item) : skel :=
  match x with
  | I_pad | I_fill _ => S_none
  | I_fatal _ => S_fatal
  | I_empty id bc => S_empty id bc
  | I_chip id bc body tr => S_chip id bc (body_fatal body) tr
  end.
(* two lanes have the same skeleton when they differ only in hits, regions, idle bytes and one-byte filler words *)
Definition skeleton (items : list item) : list skel := filter (fun s => match s with S_none => false | _ => true end) (map skel_of items).
