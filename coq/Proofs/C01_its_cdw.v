(* C01, the ITS tier for calibration runs: every link of the CDW-extended word-level grammar (Spec/GrammarItsCdw.v) is accepted
   silently by `check sanity its` and `check all its`.  Built on the word steps and run lemmas of Proofs/C01_its.v: the predicate
   St there does not mention the start-of-data flag nor the remembered CDW, so these two are tracked here by frame lemmas that
   hold for EVERY word, and the one new word step is the CDW itself. *)
From Coq Require Import List NArith ZArith Bool Lia ZifyBool ZifyN Arith.
From FP Require Import Model.Base Model.ItsWords Model.ItsFsm Model.Rdh Model.RdhChecks Model.Payload Model.Alpide
  Model.CdpRunning Model.Scanner Model.Link Spec.WordLayout Spec.Grammar Spec.GrammarIts Spec.GrammarItsCdw
  Proofs.Bits Proofs.WordFacts Proofs.C11_proofs Proofs.C12_proofs Proofs.C12_packet Proofs.C01_rdh Proofs.C01_its Proofs.C02_cdw.
From FP Require Gen.Facts.
Import ListNotations.
Open Scope N_scope.

(* ---- runs compose ---- *)
Lemma cdp_words_app c ws1 : forall ws2 s acc, cdp_words c s (ws1 ++ ws2) acc =
  match cdp_words c s ws1 acc with Ok (s1, m1) => cdp_words c s1 ws2 m1 | Panic p => Panic p end.
Proof.
  induction ws1 as [|w ws1 IH]; intros ws2 s acc; cbn [app cdp_words]; [reflexivity|].
  destruct (cdp_check c s w) as [[s1 m]|p]; [apply IH|reflexivity].
Qed.

Lemma cdp_words_cons c s w ws acc : cdp_words c s (w :: ws) acc =
  match cdp_check c s w with Ok (s1, m) => cdp_words c s1 ws (acc ++ m) | Panic p => Panic p end.
Proof. reflexivity. Qed.

(* ---- what a word can do to the start-of-data flag and to the remembered CDW: frame lemmas for EVERY state and word ---- *)
Definition data_kind (r : fres) : bool :=
  match r with F_ok P_Data | F_ok P_CDW | F_amb A_DW_or_TDT_CDW => true | _ => false end.

Lemma advance_nondata f w : is_data_state f = false -> data_kind (snd (advance f w)) = false /\ snd (advance f w) <> F_ok P_TDT.
Proof.
  intros H. unfold advance, advance_k, choice_arm.
  destruct f; try discriminate H; cbn [snd];
    repeat match goal with |- context [if ?b then _ else _] => destruct b end; cbn [snd data_kind]; split; try reflexivity; discriminate.
Qed.

Lemma preprocess_tdh_frame s w : cs_start_of_data (fst (preprocess_tdh s w)) = cs_start_of_data s /\
  sw_cdw (cs_words (fst (preprocess_tdh s w))) = sw_cdw (cs_words s).
Proof.
  unfold preprocess_tdh. cbn [fst]. destruct (cs_rfv _) as [rf|]; [destruct (negb _ && _)|]; split; reflexivity.
Qed.
Lemma process_readout_frame_frame c s rf s' m : process_readout_frame c s rf = Ok (s', m) ->
  cs_start_of_data s' = cs_start_of_data s /\ sw_cdw (cs_words s') = sw_cdw (cs_words s).
Proof.
  unfold process_readout_frame. destruct (rf_frame rf) as [fr|]; [|intros H; injection H as <- _; split; reflexivity].
  destruct (fr_lanes fr); [intros H; injection H as <- _; split; reflexivity|].
  destruct (check_frame _ _ _ _); [|discriminate]. destruct (frame_lanes_valid _ _ _); [|discriminate].
  intros H; injection H as <- _; split; reflexivity.
Qed.
Lemma preprocess_tdt_frame c s w s' m : preprocess_tdt c s w = Ok (s', m) ->
  cs_start_of_data s' = cs_start_of_data s /\ sw_cdw (cs_words s') = sw_cdw (cs_words s).
Proof.
  unfold preprocess_tdt. destruct (cs_rfv _) as [rf|]; [|intros H; injection H as <- _; split; reflexivity].
  destruct (tdt_packet_done w); [|intros H; injection H as <- _; split; reflexivity].
  destruct (process_readout_frame c _ rf) as [[s2 m2]|] eqn:E; [|discriminate]. intros H; injection H as <- _.
  apply process_readout_frame_frame in E. exact E.
Qed.
Lemma preprocess_data_frame c s w s' m : preprocess_data_word c s w = Ok (s', m) ->
  cs_start_of_data s' = false /\
  (cs_start_of_data s && (nb 9 w =? Gen.Facts.cdw_id) = false -> sw_cdw (cs_words s') = sw_cdw (cs_words s)).
Proof.
  unfold preprocess_data_word. destruct (cs_start_of_data s && _) eqn:E.
  - destruct (negb (v_running c)); intros H; injection H as <- _; split; try reflexivity; discriminate.
  - destruct (negb (v_running c) || _); [intros H; injection H as <- _; split; reflexivity|].
    unfold store_data. destruct (cs_rfv s) as [rf|]; [destruct (rf_frame rf); [|destruct Gen.Facts.data_word_without_frame_is_ignored; [|discriminate]]|];
      intros H; injection H as <- _; split; reflexivity.
Qed.

(* a word read in a state that is no data state: both untouched *)
Lemma frame_status c s w s' m : is_data_state (cs_fsm s) = false -> cdp_check c s w = Ok (s', m) ->
  cs_start_of_data s' = cs_start_of_data s /\ sw_cdw (cs_words s') = sw_cdw (cs_words s).
Proof.
  intros Hnd. destruct (advance_nondata (cs_fsm s) w Hnd) as [Hk Ht]. unfold cdp_check.
  destruct (advance (cs_fsm (set_counter s _)) w) as [f' r] eqn:E. cbn [cs_fsm set_counter] in E. rewrite E in Hk, Ht. cbn [snd] in Hk, Ht.
  destruct r as [p|a]; [destruct p|destruct a]; try discriminate Hk; try (exfalso; apply Ht; reflexivity).
  all: try (destruct (preprocess_tdh _ w) as [s1 m1] eqn:P; intros H; injection H as <- _;
            pose proof (preprocess_tdh_frame (set_fsm (set_counter s (wrap16 (cs_counter s + 1))) f') w) as F; rewrite P in F; exact F).
  all: try (unfold preprocess_ihw; intros H; injection H as <- _; split; reflexivity).
  all: try (unfold preprocess_ddw0; intros H; injection H as <- _; split; reflexivity).
  all: try (destruct (preprocess_ddw0 c _ w) as [s1 m1] eqn:P; intros H; injection H as <- _; unfold preprocess_ddw0 in P; injection P as <- _; split; reflexivity).
Qed.

(* any word at all: the remembered CDW changes at most when the word is taken for a CDW (start of data, identifier 0xF8) *)
Lemma frame_cdw c s w s' m : cdp_check c s w = Ok (s', m) ->
  cs_start_of_data s && (nb 9 w =? Gen.Facts.cdw_id) = false -> sw_cdw (cs_words s') = sw_cdw (cs_words s).
Proof.
  intros H Hn. unfold cdp_check in H.
  destruct (advance (cs_fsm (set_counter s _)) w) as [f' r] eqn:E.
  destruct r as [p|a]; [destruct p|destruct a].
  all: try (destruct (preprocess_tdh _ w) as [s1 m1] eqn:P; injection H as <- _;
            pose proof (preprocess_tdh_frame (set_fsm (set_counter s (wrap16 (cs_counter s + 1))) f') w) as F; rewrite P in F; apply F).
  all: try (unfold preprocess_ihw in H; injection H as <- _; reflexivity).
  all: try (unfold preprocess_ddw0 in H; injection H as <- _; reflexivity).
  all: try (destruct (preprocess_ddw0 c _ w) as [s1 m1] eqn:P; injection H as <- _; unfold preprocess_ddw0 in P; injection P as <- _; reflexivity).
  all: try (apply preprocess_tdt_frame in H; apply H).
  all: try (apply preprocess_data_frame in H; apply H; exact Hn).
  destruct (preprocess_data_word c _ w) as [[s1 m1]|] eqn:P; [|discriminate]. injection H as <- _.
  apply preprocess_data_frame in P. apply P. exact Hn.
Qed.

Lemma frame_cdw_words c ws : forall s acc s' m, cdp_words c s ws acc = Ok (s', m) ->
  Forall (fun w => nb 9 w <> Gen.Facts.cdw_id) ws -> sw_cdw (cs_words s') = sw_cdw (cs_words s).
Proof.
  induction ws as [|w ws IH]; intros s acc s' m H Hall; cbn [cdp_words] in H; [injection H as <- _; reflexivity|].
  inversion Hall as [|? ? Hw Hall']; subst.
  destruct (cdp_check c s w) as [[s1 m1]|] eqn:E; [|discriminate].
  rewrite (IH _ _ _ _ H Hall'). apply (frame_cdw c s w s1 m1 E).
  apply N.eqb_neq in Hw. rewrite Hw. apply andb_false_r.
Qed.

(* ---- the CDW step ---- *)
Lemma cdw_not_data_pat :
  in_pat Gen.Facts.fsm_data_pat_data_by_wasdata 248 = false /\ in_pat Gen.Facts.fsm_data_pat_data_by_nodatafalse 248 = false /\
  in_pat Gen.Facts.fsm_data_pat_c_data_by_wasdata 248 = false /\ in_pat Gen.Facts.fsm_data_pat_c_data_by_next 248 = false.
Proof. repeat split; reflexivity. Qed.

Definition prev_cdw_ok (pc : option (list N)) : Prop := forall p, pc = Some p -> W_cdw p.

Lemma step_cdw running s f r ihw tdh w pc : St s f r ihw tdh -> is_data_state f = true -> W_cdw w ->
  cs_start_of_data s = true -> (running = true -> sw_cdw (cs_words s) = pc) -> prev_cdw_ok pc -> cdw_follows pc w ->
  exists s', cdp_check (its_cfg running) s w = Ok (s', []) /\ St s' (after_data f) r ihw tdh /\
             cs_start_of_data s' = false /\ (running = true -> sw_cdw (cs_words s') = Some w).
Proof.
  intros (Hf & Hr & Hv & Hi & Ht) Hst [Hw Hid] Hsod Hpc Hpok Hrule.
  assert (Hid9 : nb 9 w = 248) by (rewrite (nb9_id w Hw); exact Hid).
  destruct cdw_not_data_pat as (Q1 & Q2 & Q3 & Q4).
  unfold cdp_check. cbn [cs_fsm set_counter]. rewrite Hf.
  assert (Hadv : advance f w = (after_data f, F_ok P_CDW)).
  { unfold advance, advance_k, data_arm. rewrite Hid9. destruct f; try discriminate; cbn [after_data]; rewrite ?Q1, ?Q2, ?Q3, ?Q4; reflexivity. }
  rewrite Hadv. unfold preprocess_data_word. cbn [cs_start_of_data set_fsm set_counter cs_words]. rewrite Hsod, Hid9.
  change (248 =? Gen.Facts.cdw_id) with true. cbn [andb].
  destruct running; cbn [v_running its_cfg negb].
  2:{ eexists. split; [reflexivity|]. split; [st_split|]. split; [reflexivity|discriminate]. }
  rewrite (Hpc eq_refl).
  assert (Hm : match pc with
               | Some p => if negb (cdw_user_fields p =? cdw_user_fields w) && negb (cdw_index w =? 0)
                           then [werr (set_fsm (set_counter s (wrap16 (cs_counter s + 1))) (after_data f)) 81 w] else []
               | None => []
               end = []).
  { destruct pc as [p|]; [|reflexivity]. destruct (Hpok p eq_refl) as [Hpw _].
    rewrite (cdw_user_fields_spec p Hpw), (cdw_user_fields_spec w Hw), (cdw_index_spec w Hw).
    destruct (Hrule p eq_refl) as [E|E]; unfold cdw_f_user, cdw_f_index in E; rewrite E; [rewrite N.eqb_refl|]; cbn [negb andb];
      [reflexivity|rewrite andb_false_r; reflexivity]. }
  rewrite Hm. eexists. split; [reflexivity|]. split; [st_split|]. split; [reflexivity|]. intros _. reflexivity.
Qed.

(* ---- no word of a page's items carries the CDW identifier ---- *)
Definition nc (w : list N) : Prop := nb 9 w <> Gen.Facts.cdw_id.
Lemma nc_tdh w : W_tdh w -> nc w.
Proof. intros [Hw Hok]. unfold nc. rewrite (nb9_id w Hw). destruct Hok as [-> _]. discriminate. Qed.
Lemma nc_tdt w : W_tdt w -> nc w.
Proof. intros [Hw Hok]. unfold nc. rewrite (nb9_id w Hw). destruct Hok as [-> _]. discriminate. Qed.
Lemma nc_data lanes w : W_data lanes w -> nc w.
Proof.
  intros [Hw Hverd]. unfold nc. rewrite (nb9_id w Hw). intros E. rewrite E in Hverd. vm_compute in Hverd. discriminate.
Qed.
Lemma piece_nc lanes t d e : W_tdh t -> Forall (W_data lanes) d -> W_tdt e -> Forall nc (t :: d ++ [e]).
Proof.
  intros Ht Hd He. constructor; [apply nc_tdh; exact Ht|]. apply Forall_app. split.
  - eapply Forall_impl; [|exact Hd]. intros a Ha. eapply nc_data. exact Ha.
  - constructor; [apply nc_tdt; exact He|constructor].
Qed.
Lemma items_nc h lanes first prev opened items out : items_ok h lanes first prev opened items out ->
  Forall nc (flat_map item_words items).
Proof.
  induction 1 as [first prev
                 |first prev t rr out Ht Hle Hr IH
                 |first prev t d e rr out Ht Hle Hd He Hr IH
                 |first prev t d e Ht Hle Hd He
                 |o t d e Ht Hd He
                 |o t d e rr out Ht Hd He Hr IH]; cbn [flat_map item_words].
  - constructor.
  - constructor; [apply nc_tdh; apply Ht|exact IH].
  - apply Forall_app. split; [|exact IH]. apply (piece_nc lanes); [apply Ht|exact Hd|apply He].
  - rewrite app_nil_r. apply (piece_nc lanes); [apply Ht|exact Hd|apply He].
  - rewrite app_nil_r. apply (piece_nc lanes); [apply Ht|exact Hd|apply He].
  - apply Forall_app. split; [|exact IH]. apply (piece_nc lanes); [apply Ht|exact Hd|apply He].
Qed.

(* ---- the items of one page, with a CDW ---- *)
Section ItemsC.
  Context (running : bool) (h : hbf_desc) (r : rdh) (ihw : list N).
  Context (Hihw : W_ihw ihw) (Horb : r_orbit r = h_orbit h) (Hbc : rdh_bc r = h_bc h) (Htrig : r_trigger_type r = h_trigger h).
  Notation cfg := (its_cfg running).

  (* complete-run forms of the lemmas of Proofs/C01_its.v *)
  Lemma piece_tail_full s f tdh d e dn : St s f r (Some ihw) tdh -> is_data_state f = true ->
    Forall (W_data (ihw_f_lanes ihw)) d -> (dn = 0 \/ dn = 1) -> tdt_ok_done dn e ->
    forall acc, exists s', cdp_words cfg s (d ++ [e]) acc = Ok (s', acc) /\ St s' (after_tdt dn) r (Some ihw) tdh /\
                           sw_cdw (cs_words s') = sw_cdw (cs_words s).
  Proof.
    intros Hs Hf Hd Hdn He acc.
    destruct (piece_tail running r ihw Hihw s f tdh d e dn Hs Hf Hd Hdn He acc []) as [s' [E S']].
    rewrite app_nil_r in E. cbn [cdp_words] in E. exists s'. split; [exact E|]. split; [exact S'|].
    apply (frame_cdw_words cfg (d ++ [e]) s acc s' acc E). apply Forall_app. split.
    - eapply Forall_impl; [|exact Hd]. intros a Ha. eapply nc_data. exact Ha.
    - constructor; [apply nc_tdt; apply He|constructor].
  Qed.

  Lemma run_items_full first prev opened items out : items_ok h (ihw_f_lanes ihw) first prev opened items out ->
    forall s acc, (prev = None -> opened = None -> r_pages_counter r = 0 -> first = true) -> entry r ihw prev opened s -> items <> [] ->
    exists s', cdp_words cfg s (flat_map item_words items) acc = Ok (s', acc) /\ leave r ihw out s' /\
               sw_cdw (cs_words s') = sw_cdw (cs_words s).
  Proof.
    intros Hit s acc Hf He Hne.
    destruct (run_items running h r ihw Hihw Horb Hbc Htrig first prev opened items out Hit s acc [] Hf He Hne) as [s' [E L]].
    rewrite app_nil_r in E. cbn [cdp_words] in E. exists s'. split; [exact E|]. split; [exact L|].
    apply (frame_cdw_words cfg _ s acc s' acc E). eapply items_nc. exact Hit.
  Qed.

  (* TDH (already taken), CDW, data, TDT: the piece of the page that carries the CDW *)
  Lemma cdw_piece s1 f tdh c d e dn pc : St s1 f r (Some ihw) tdh -> is_data_state f = true ->
    cs_start_of_data s1 = true -> (running = true -> sw_cdw (cs_words s1) = pc) ->
    W_cdw c -> prev_cdw_ok pc -> cdw_follows pc c ->
    Forall (W_data (ihw_f_lanes ihw)) d -> (dn = 0 \/ dn = 1) -> tdt_ok_done dn e ->
    forall acc, exists s', cdp_words cfg s1 (c :: d ++ [e]) acc = Ok (s', acc) /\ St s' (after_tdt dn) r (Some ihw) tdh /\
                           (running = true -> sw_cdw (cs_words s') = Some c).
  Proof.
    intros S1 Hf Hsod Hpc Hc Hpok Hrule Hd Hdn He acc.
    destruct (step_cdw running s1 f r (Some ihw) tdh c pc S1 Hf Hc Hsod Hpc Hpok Hrule) as [s2 [E2 [S2 [_ C2]]]].
    assert (Hf2 : is_data_state (after_data f) = true) by (destruct f; try discriminate; reflexivity).
    destruct (piece_tail_full s2 _ tdh d e dn S2 Hf2 Hd Hdn He acc) as [s3 [E3 [S3 C3]]].
    cbn [cdp_words]. rewrite E2, app_nil_r, E3. exists s3. split; [reflexivity|]. split; [exact S3|].
    intros X. rewrite C3. apply C2. exact X.
  Qed.

  Lemma entry_not_data prev opened s : entry r ihw prev opened s -> is_data_state (cs_fsm s) = false.
  Proof.
    unfold entry. destruct opened as [o|]; [intros [(Hf & _) _]; rewrite Hf; reflexivity|].
    destruct prev as [p|]; [intros (f & Hc & (Hf & _) & _); rewrite Hf; destruct f; try discriminate Hc; reflexivity|].
    intros (t & (Hf & _)). rewrite Hf. reflexivity.
  Qed.

  Lemma run_items_c : forall first prev opened items out,
    items_ok h (ihw_f_lanes ihw) first prev opened items out ->
    forall c pc s acc, (prev = None -> opened = None -> r_pages_counter r = 0 -> first = true) -> entry r ihw prev opened s ->
      existsb item_has_data items = true -> W_cdw c -> prev_cdw_ok pc -> cdw_follows pc c ->
      cs_start_of_data s = true -> (running = true -> sw_cdw (cs_words s) = pc) ->
      exists s', cdp_words cfg s (items_words_cdw c items) acc = Ok (s', acc) /\ leave r ihw out s' /\
                 (running = true -> sw_cdw (cs_words s') = Some c).
  Proof.
    intros first prev opened items out H.
    induction H as [first prev
                   |first prev t rr out Ht Hle Hr IH
                   |first prev t d e rr out Ht Hle Hd He Hr IH
                   |first prev t d e Ht Hle Hd He
                   |o t d e Ht Hd He
                   |o t d e rr out Ht Hd He Hr IH]; intros c pc s acc Hfirst Hen Hex Hc Hpok Hrule Hsod Hpc.
    - discriminate Hex.
    - (* a no-data TDH: the CDW comes later *)
      pose proof (entry_not_data _ _ _ Hen) as Hnd.
      destruct (start_tdh running h r ihw Horb Hbc Htrig first prev 1 t s (or_intror eq_refl) Ht Hle (fun P => Hfirst P eq_refl) Hen) as [s1 [E1 S1]].
      destruct (frame_status cfg s t s1 [] Hnd E1) as [F1 F2].
      cbn [items_words_cdw item_has_data item_words app cdp_words]. rewrite E1, app_nil_r.
      assert (En : entry r ihw (Some t) None s1) by (cbn [entry]; exists S_Choice_ByNoDataTrue; split; [reflexivity|split; [exact S1|apply Ht]]).
      cbn [existsb item_has_data orb] in Hex.
      apply (IH c pc s1 acc); auto; [intros X; discriminate|rewrite F1; exact Hsod|intros X; rewrite F2; apply Hpc; exact X].
    - (* a whole trigger packet with the CDW *)
      pose proof (entry_not_data _ _ _ Hen) as Hnd.
      destruct (start_tdh running h r ihw Horb Hbc Htrig first prev 0 t s (or_introl eq_refl) Ht Hle (fun P => Hfirst P eq_refl) Hen) as [s1 [E1 S1]].
      destruct (frame_status cfg s t s1 [] Hnd E1) as [F1 F2].
      destruct (cdw_piece s1 _ _ c d e 1 pc S1 eq_refl ltac:(rewrite F1; exact Hsod) ltac:(intros X; rewrite F2; apply Hpc; exact X)
                  Hc Hpok Hrule Hd (or_intror eq_refl) He acc) as [s2 [E2 [S2 C2]]].
      cbn [items_words_cdw item_has_data item_tdh item_words tl]. rewrite <- app_comm_cons. cbn [cdp_words]. rewrite E1, app_nil_r.
      rewrite cdp_words_app, E2.
      assert (En : entry r ihw (Some t) None s2) by (cbn [entry]; exists S_Choice_ByTdtDone; split; [reflexivity|split; [exact S2|apply Ht]]).
      destruct rr as [|i rr].
      + inversion Hr; subst. cbn [flat_map cdp_words]. exists s2. split; [reflexivity|]. split; [|exact C2].
        cbn [leave]. exists S_Choice_ByTdtDone, t. split; [reflexivity|split; [exact S2|apply Ht]].
      + destruct (run_items_full false (Some t) None (i :: rr) out Hr s2 acc ltac:(intros X; discriminate) En ltac:(discriminate)) as [s3 [E3 [L3 C3]]].
        rewrite E3. exists s3. split; [reflexivity|]. split; [exact L3|]. intros X. rewrite C3. apply C2. exact X.
    - (* a packet left open at the end of the page *)
      pose proof (entry_not_data _ _ _ Hen) as Hnd.
      destruct (start_tdh running h r ihw Horb Hbc Htrig first prev 0 t s (or_introl eq_refl) Ht Hle (fun P => Hfirst P eq_refl) Hen) as [s1 [E1 S1]].
      destruct (frame_status cfg s t s1 [] Hnd E1) as [F1 F2].
      destruct (cdw_piece s1 _ _ c d e 0 pc S1 eq_refl ltac:(rewrite F1; exact Hsod) ltac:(intros X; rewrite F2; apply Hpc; exact X)
                  Hc Hpok Hrule Hd (or_introl eq_refl) He acc) as [s2 [E2 [S2 C2]]].
      cbn [items_words_cdw item_has_data item_tdh item_words tl flat_map]. rewrite app_nil_r. rewrite cdp_words_cons, E1, app_nil_r, E2.
      exists s2. split; [reflexivity|]. split; [|exact C2]. split; [exact S2|apply Ht].
    - (* a middle piece *)
      pose proof (entry_not_data _ _ _ Hen) as Hnd.
      destruct Hen as [Hs Ho]. destruct Ht as (Hw & Hcc & Hn & Hb & Hob & Hty).
      destruct (step_tdh_cont running s r (Some ihw) o t Hs Hw Ho Hcc Hb Hob Hty) as [s1 [E1 S1]].
      destruct (frame_status cfg s t s1 [] Hnd E1) as [F1 F2].
      destruct (cdw_piece s1 _ _ c d e 0 pc S1 eq_refl ltac:(rewrite F1; exact Hsod) ltac:(intros X; rewrite F2; apply Hpc; exact X)
                  Hc Hpok Hrule Hd (or_introl eq_refl) He acc) as [s2 [E2 [S2 C2]]].
      cbn [items_words_cdw item_has_data item_tdh item_words tl flat_map]. rewrite app_nil_r. rewrite cdp_words_cons, E1, app_nil_r, E2.
      exists s2. split; [reflexivity|]. split; [|exact C2]. split; [exact S2|exact Hw].
    - (* the last piece, possibly followed by further packets *)
      pose proof (entry_not_data _ _ _ Hen) as Hnd.
      destruct Hen as [Hs Ho]. destruct Ht as (Hw & Hcc & Hn & Hb & Hob & Hty).
      destruct (step_tdh_cont running s r (Some ihw) o t Hs Hw Ho Hcc Hb Hob Hty) as [s1 [E1 S1]].
      destruct (frame_status cfg s t s1 [] Hnd E1) as [F1 F2].
      destruct (cdw_piece s1 _ _ c d e 1 pc S1 eq_refl ltac:(rewrite F1; exact Hsod) ltac:(intros X; rewrite F2; apply Hpc; exact X)
                  Hc Hpok Hrule Hd (or_intror eq_refl) He acc) as [s2 [E2 [S2 C2]]].
      cbn [items_words_cdw item_has_data item_tdh item_words tl]. rewrite <- app_comm_cons. cbn [cdp_words]. rewrite E1, app_nil_r.
      rewrite cdp_words_app, E2.
      assert (En : entry r ihw (Some t) None s2) by (cbn [entry]; exists S_Choice_ByTdtDone; split; [reflexivity|split; [exact S2|exact Hw]]).
      destruct rr as [|i rr].
      + inversion Hr; subst. cbn [flat_map cdp_words]. exists s2. split; [reflexivity|]. split; [|exact C2].
        cbn [leave]. exists S_Choice_ByTdtDone, t. split; [reflexivity|split; [exact S2|exact Hw]].
      + destruct (run_items_full false (Some t) None (i :: rr) out Hr s2 acc ltac:(intros X; discriminate) En ltac:(discriminate)) as [s3 [E3 [L3 C3]]].
        rewrite E3. exists s3. split; [reflexivity|]. split; [exact L3|]. intros X. rewrite C3. apply C2. exact X.
  Qed.
End ItemsC.

(* ---- pages ---- *)
Lemma items_words_cdw_forall (P : list N -> Prop) c items :
  Forall P (flat_map item_words items) -> P c -> Forall P (items_words_cdw c items).
Proof.
  intros H Hc. induction items as [|i r IH]; cbn [items_words_cdw]; [constructor|].
  cbn [flat_map] in H. apply Forall_app in H. destruct H as [Hi Hr].
  destruct i as [t|t d e|t d e|t d e|t d e]; cbn [item_has_data item_words item_tdh tl] in *.
  - apply Forall_app. split; [exact Hi|apply IH; exact Hr].
  - inversion Hi; subst. apply Forall_app. split; [constructor; [assumption|constructor; assumption]|exact Hr].
  - inversion Hi; subst. apply Forall_app. split; [constructor; [assumption|constructor; assumption]|exact Hr].
  - inversion Hi; subst. apply Forall_app. split; [constructor; [assumption|constructor; assumption]|exact Hr].
  - inversion Hi; subst. apply Forall_app. split; [constructor; [assumption|constructor; assumption]|exact Hr].
Qed.

Lemma gw_cdw w : W_cdw w -> gw w.
Proof. intros [Hw Hid]. split; [exact Hw|]. rewrite (nb9_id w Hw), Hid. discriminate. Qed.

Lemma items_words_cdw_head h lanes first prev opened i items out c : items_ok h lanes first prev opened (i :: items) out ->
  exists tl, items_words_cdw c (i :: items) = item_tdh i :: tl.
Proof.
  intros H. cbn [items_words_cdw]. inversion H; subst; cbn [item_has_data item_tdh item_words tl app]; eexists; reflexivity.
Qed.

Definition Ccd (running : bool) (pc : option (list N)) (s : cdp_state) : Prop := running = true -> sw_cdw (cs_words s) = pc.

Lemma set_rdh_sod s r pos s1 : set_current_rdh s r pos = Ok s1 -> cs_start_of_data s1 = true.
Proof.
  unfold set_current_rdh. destruct (cs_rfv s) as [rf|]; [destruct (rf_layer rf); [|destruct (layer_of_feeid _); [|discriminate]]|];
    intros H; injection H as <-; reflexivity.
Qed.

Lemma run_cpage running ld h k pg cp first opened out s pos pc :
  (l_format ld = 0 \/ l_format ld = 2) -> h_bc h < 4096 ->
  W_ihw (ip_ihw (cp_page cp)) -> ip_items (cp_page cp) <> [] -> (ip_pad (cp_page cp) <= 15)%nat ->
  items_ok h (ihw_f_lanes (ip_ihw (cp_page cp))) first None opened (ip_items (cp_page cp)) out ->
  (forall c, cp_cdw cp = Some c -> W_cdw c /\ cdw_follows pc c /\ existsb item_has_data (ip_items (cp_page cp)) = true) ->
  prev_cdw_ok pc ->
  pg_payload pg = layout (l_format ld) (cpage_words cp) (ip_pad (cp_page cp)) ->
  (k = 0 -> first = true) -> PEntry opened s -> Ccd running pc s ->
  exists s', do_payload_checks (its_cfg running) s (render_rdh ld h k 0 pg) (pg_payload pg) pos = Ok (s', []) /\ PExit out s' /\
             Ccd running (cdw_after pc cp) s'.
Proof.
  intros Hfmt Hbc Hihw Hne Hpad Hitems Hcdw Hpok Hpl Hk [Hrfv Hen] Hcd.
  set (ip := cp_page cp) in *. set (r := render_rdh ld h k 0 pg).
  destruct (set_rdh_its s r pos Hrfv) as (s1 & E1 & F1 & R1 & V1 & W1).
  pose proof (set_rdh_sod s r pos s1 E1) as Sod1.
  destruct (ip_items ip) as [|i items] eqn:Eit; [contradiction|].
  assert (Hgw0 : Forall gw (flat_map item_words (i :: items))) by (eapply items_gw; exact Hitems).
  assert (Hnc0 : Forall nc (flat_map item_words (i :: items))) by (eapply items_nc; exact Hitems).
  destruct (items_head_tdh _ _ _ _ _ _ _ _ Hitems) as [Htdh [tl0 Etl0]].
  assert (Horb : r_orbit r = h_orbit h) by reflexivity.
  assert (Hb : rdh_bc r = h_bc h) by (apply rdh_bc_rendered; exact Hbc).
  assert (Htr : r_trigger_type r = h_trigger h) by reflexivity.
  assert (Hstop : r_stop_bit r = 0) by reflexivity.
  assert (Hpc : r_pages_counter r = k) by reflexivity.
  (* the IHW step, for both kinds of page: state after it, start-of-data still up, CDW untouched *)
  assert (Hihwstep : exists s2, cdp_check (its_cfg running) s1 (ip_ihw ip) = Ok (s2, []) /\
            entry r (ip_ihw ip) None opened s2 /\ cs_start_of_data s2 = true /\ sw_cdw (cs_words s2) = sw_cdw (cs_words s)).
  { destruct opened as [o|].
    - destruct Hen as (Hf & Ht & Ho).
      assert (S1 : St s1 S_cIHW r (sw_ihw (cs_words s1)) (Some o)) by (unfold St; rewrite F1, W1; repeat split; auto).
      destruct (step_ihw_cont running s1 r _ _ (ip_ihw ip) S1 Hihw) as [s2 [E2 S2]].
      destruct (frame_status (its_cfg running) s1 (ip_ihw ip) s2 [] ltac:(rewrite F1, Hf; reflexivity) E2) as [G1 G2].
      exists s2. split; [exact E2|]. split; [split; [exact S2|exact Ho]|]. split; [rewrite G1; exact Sod1|rewrite G2, W1; reflexivity].
    - assert (S1 : St s1 (cs_fsm s) r (sw_ihw (cs_words s1)) (sw_tdh (cs_words s1))) by (unfold St; repeat split; auto).
      destruct (step_ihw running s1 _ r _ _ (ip_ihw ip) S1 Hen Hihw Hstop) as [s2 [E2 S2]].
      destruct (frame_status (its_cfg running) s1 (ip_ihw ip) s2 []
                  ltac:(rewrite F1; destruct (cs_fsm s); try discriminate Hen; reflexivity) E2) as [G1 G2].
      exists s2. split; [exact E2|]. split; [eexists; exact S2|]. split; [rewrite G1; exact Sod1|rewrite G2, W1; reflexivity]. }
  destruct Hihwstep as (s2 & E2 & En2 & Sod2 & C2).
  assert (Hfirst2 : @None (list N) = None -> opened = None -> r_pages_counter r = 0 -> first = true) by (intros _ _ X; apply Hk; rewrite <- Hpc; exact X).
  unfold cdw_after, cpage_words in *. fold ip in Hpl |- *. rewrite Eit in Hpl. destruct (cp_cdw cp) as [c|] eqn:Ec.
  - (* a page with a CDW *)
    destruct (Hcdw c eq_refl) as (Hc & Hrule & Hex).
    destruct (items_words_cdw_head _ _ _ _ _ i items _ c Hitems) as [tl1 Etl1].
    assert (Hgw : Forall gw (ip_ihw ip :: items_words_cdw c (i :: items))).
    { constructor; [apply gw_ihw; exact Hihw|]. apply items_words_cdw_forall; [exact Hgw0|apply gw_cdw; exact Hc]. }
    assert (Hwords : words_of (pg_payload pg) = Some (ip_ihw ip :: items_words_cdw c (i :: items))).
    { rewrite Hpl. apply (layout_words _ _ _ (item_tdh i) tl1); auto. rewrite Etl1. reflexivity. }
    rewrite (c12_packet_words _ _ _ _ _ s1 _ E1 Hwords).
    rewrite cdp_words_cons, E2. cbn [app].
    destruct (run_items_c running h r (ip_ihw ip) Hihw Horb Hb Htr first None opened (i :: items) out Hitems c pc s2 []
                Hfirst2 En2 Hex Hc Hpok Hrule Sod2 ltac:(intros X; rewrite C2; apply Hcd; exact X)) as [s3 [E3 [L3 C3]]].
    rewrite E3. exists s3. split; [reflexivity|]. split; [|exact C3].
    unfold leave in L3. unfold PExit. destruct out as [t|].
    + destruct L3 as [(A & B & C & D & E) Wt]. split; [exact C|]. split; [exact A|]. split; [exact E|exact Wt].
    + destruct L3 as (f & p & Hch & (A & B & C & D & E) & Wp). split; [exact C|]. rewrite A. exact Hch.
  - (* a page without: the proof of C01_its, and the remembered CDW stays *)
    assert (Hgw : Forall gw (ip_ihw ip :: flat_map item_words (i :: items))) by (constructor; [apply gw_ihw; exact Hihw|exact Hgw0]).
    assert (Hwords : words_of (pg_payload pg) = Some (ip_ihw ip :: flat_map item_words (i :: items))).
    { rewrite Hpl. apply (layout_words _ _ _ (item_tdh i) (tl0 ++ flat_map item_words items)); auto.
      cbn [flat_map hd]. rewrite Etl0. reflexivity. }
    rewrite (c12_packet_words _ _ _ _ _ s1 _ E1 Hwords).
    rewrite cdp_words_cons, E2. cbn [app].
    destruct (run_items_full running h r (ip_ihw ip) Hihw Horb Hb Htr first None opened (i :: items) out Hitems s2 []
                Hfirst2 En2 ltac:(discriminate)) as [s3 [E3 [L3 C3]]].
    rewrite E3. exists s3. split; [reflexivity|]. split; [|intros X; rewrite C3, C2; apply Hcd; exact X].
    unfold leave in L3. unfold PExit. destruct out as [t|].
    + destruct L3 as [(A & B & C & D & E) Wt]. split; [exact C|]. split; [exact A|]. split; [exact E|exact Wt].
    + destruct L3 as (f & p & Hch & (A & B & C & D & E) & Wp). split; [exact C|]. rewrite A. exact Hch.
Qed.

(* ---- the remembered CDW across a whole packet that carries no CDW identifier ---- *)
Lemma set_rdh_words s r pos s1 : set_current_rdh s r pos = Ok s1 -> cs_words s1 = cs_words s.
Proof.
  unfold set_current_rdh. destruct (cs_rfv s) as [rf|]; [destruct (rf_layer rf); [|destruct (layer_of_feeid _); [|discriminate]]|];
    intros H; injection H as <-; reflexivity.
Qed.
Lemma frame_cdw_link_step c s p s' m ws : link_step c s p = Ok (s', m) ->
  words_of (c_payload p) = Some ws -> Forall nc ws -> sw_cdw (cs_words (lk_cdp s')) = sw_cdw (cs_words (lk_cdp s)).
Proof.
  intros H Hw Hnc. unfold link_step in H. destruct (rdh_sanity _ _) as [ss t10]. destruct (if v_running c then _ else _) as [rs m11].
  destruct (v_target c); [injection H as <- _; reflexivity| |];
    (destruct (c_payload p) eqn:Ep; [injection H as <- _; reflexivity|]; rewrite <- Ep in *;
     destruct (do_payload_checks c (lk_cdp s) (c_rdh p) (c_payload p) (c_off p)) as [[cs m']|] eqn:D; [|discriminate];
     injection H as <- _; cbn [lk_cdp];
     unfold do_payload_checks in D; destruct (set_current_rdh _ _ _) as [s1|] eqn:E1; [|discriminate];
     unfold words_of in Hw; destruct (preprocess (c_payload p)) as [|slot chunks]; [discriminate|]; injection Hw as <-;
     rewrite (frame_cdw_words c _ s1 [] cs m' D Hnc), (set_rdh_words _ _ _ _ E1); reflexivity).
Qed.

Section CdwLink.
  Context (ld : link_desc) (Hwf : wf_link_rdh ld = true) (Hsys : l_system ld = Gen.Facts.its_system_id)
          (Hfmt : l_format ld = 0 \/ l_format ld = 2).
  Let layc (p : cpage) : list N := layout (l_format ld) (cpage_words p) (ip_pad (cp_page p)).

  Lemma cdw_data_page running h k pg cp first opened out s off pc :
    wf_hbf h = true -> latch_ok ld (lk_sanity s) -> PEntry opened (lk_cdp s) -> Ccd running pc (lk_cdp s) -> prev_cdw_ok pc ->
    (running = true -> RInv ld h k (lk_running s)) -> k + 1 < 65536 ->
    W_ihw (ip_ihw (cp_page cp)) -> ip_items (cp_page cp) <> [] -> (ip_pad (cp_page cp) <= 15)%nat ->
    items_ok h (ihw_f_lanes (ip_ihw (cp_page cp))) first None opened (ip_items (cp_page cp)) out ->
    (forall c, cp_cdw cp = Some c -> W_cdw c /\ cdw_follows pc c /\ existsb item_has_data (ip_items (cp_page cp)) = true) ->
    pg_payload pg = layc cp -> (k = 0 -> first = true) ->
    exists s', link_step (its_cfg running) s {| c_rdh := render_rdh ld h k 0 pg; c_payload := pg_payload pg; c_off := off |} = Ok (s', []) /\
               latch_ok ld (lk_sanity s') /\ PExit out (lk_cdp s') /\ Ccd running (cdw_after pc cp) (lk_cdp s') /\
               (running = true -> RInv ld h (k + 1) (lk_running s')).
  Proof.
    intros Hh Hl Hp Hcd Hpok Hr Hk Hihw Hne Hpad Hitems Hcdw Hpl Hfirst.
    destruct (sane_rendered ld Hwf (lk_sanity s) h k 0 pg Hl Hh ltac:(lia)) as [S1 S2].
    destruct (rdh_sanity (lk_sanity s) (render_rdh ld h k 0 pg)) as [ss t10] eqn:E10. cbn [fst snd] in S1, S2. subst t10.
    assert (Hpne : pg_payload pg <> []).
    { rewrite Hpl. unfold layc, cpage_words. apply layout_nonempty. destruct Hihw as [[L _] _]. exact L. }
    destruct (run_cpage running ld h k pg cp first opened out (lk_cdp s) off pc Hfmt (hbf_bc_small ld Hsys Hfmt h Hh) Hihw Hne Hpad Hitems Hcdw Hpok Hpl Hfirst Hp Hcd)
      as [cs [Ecs [Pcs Ccs]]].
    destruct running.
    - destruct (running_data_page ld h k pg (lk_running s) (Hr eq_refl) Hk) as [R1 R2].
      destruct (running_check (lk_running s) (render_rdh ld h k 0 pg)) as [rs t11] eqn:E11. cbn [fst snd] in R1, R2. subst t11.
      rewrite (its_step true s _ _ off ss rs E10 E11 Hpne), Ecs.
      eexists. split; [reflexivity|]. cbn. split; [exact S2|]. split; [exact Pcs|]. split; [exact Ccs|]. intros _. exact R2.
    - rewrite (its_step false s _ _ off ss (lk_running s) E10 eq_refl Hpne), Ecs.
      eexists. split; [reflexivity|]. cbn. split; [exact S2|]. split; [exact Pcs|]. split; [exact Ccs|]. intros X; discriminate.
  Qed.

  Lemma cdw_stop_page running h k pg w pad s off pc :
    wf_hbf h = true -> latch_ok ld (lk_sanity s) -> PExit None (lk_cdp s) -> Ccd running pc (lk_cdp s) ->
    (running = true -> RInv ld h k (lk_running s)) -> k <> 0 ->
    W_ddw0 w -> (pad <= 15)%nat -> pg_payload pg = layout (l_format ld) [w] pad ->
    exists s', link_step (its_cfg running) s {| c_rdh := render_rdh ld h k 1 pg; c_payload := pg_payload pg; c_off := off |} = Ok (s', []) /\
               latch_ok ld (lk_sanity s') /\ PEntry None (lk_cdp s') /\ Ccd running pc (lk_cdp s') /\
               (running = true -> Between ld (Some h) (lk_running s')).
  Proof.
    intros Hh Hl Hp Hcd Hr Hk Hw Hpad Hpl.
    destruct (its_stop_page ld Hwf Hsys Hfmt running h k pg w pad s off Hh Hl Hp Hr Hk Hw Hpad Hpl) as [s' [E [L [P B]]]].
    exists s'. split; [exact E|]. split; [exact L|]. split; [exact P|]. split; [|exact B].
    intros X. rewrite (frame_cdw_link_step _ _ _ _ _ [w] E); [apply Hcd; exact X| |].
    - cbn [c_payload]. rewrite Hpl. apply layout_stop_words; auto.
    - constructor; [|constructor]. destruct Hw as [Hww Hok]. unfold nc. rewrite (nb9_id w Hww). destruct Hok as [-> _]. discriminate.
  Qed.
End CdwLink.

Lemma cdw_after_ok pc p : prev_cdw_ok pc -> (forall c, cp_cdw p = Some c -> W_cdw c) -> prev_cdw_ok (cdw_after pc p).
Proof.
  intros Hp Hc q Hq. unfold cdw_after in Hq. destruct (cp_cdw p) as [c|] eqn:E; [injection Hq as <-; apply Hc; reflexivity|apply Hp; exact Hq].
Qed.

Section CdwRun.
  Context (ld : link_desc) (Hwf : wf_link_rdh ld = true) (Hsys : l_system ld = Gen.Facts.its_system_id)
          (Hfmt : l_format ld = 0 \/ l_format ld = 2).
  Let layc (p : cpage) : list N := layout (l_format ld) (cpage_words p) (ip_pad (cp_page p)).

  Lemma cdw_run_pages running h : wf_hbf h = true -> forall first opened pc cps pc', cpages_ok h first opened pc cps pc' -> cps <> [] ->
    forall pages k s ps acc, map strip ps = render_pages ld h k pages -> map pg_payload pages = map layc cps ->
      latch_ok ld (lk_sanity s) -> PEntry opened (lk_cdp s) -> Ccd running pc (lk_cdp s) -> prev_cdw_ok pc ->
      (running = true -> RInv ld h k (lk_running s)) ->
      k + N.of_nat (length pages) < 65536 -> (k = 0 -> first = true) ->
      forall rest, exists s', link_run (its_cfg running) s (ps ++ rest) acc = link_run (its_cfg running) s' rest acc /\
                              latch_ok ld (lk_sanity s') /\ PExit None (lk_cdp s') /\ Ccd running pc' (lk_cdp s') /\ prev_cdw_ok pc' /\
                              (running = true -> RInv ld h (k + N.of_nat (length pages)) (lk_running s')).
  Proof.
    intros Hh first opened pc cps pc' Hpo.
    induction Hpo as [first pc|first opened pc p r out pc' Hihw Hne Hpad Hitems Hcdw Hrest IH];
      intros Hnn pages k s ps acc Hm Hpl Hl Hp Hcd Hpok Hr Hk Hfirst rest.
    - contradiction.
    - destruct pages as [|pg pages]; [discriminate Hpl|]. cbn [map] in Hpl. injection Hpl as Hpl1 Hpl2.
      destruct ps as [|q ps]; [discriminate Hm|]. cbn [map render_pages] in Hm. injection Hm as Hq1 Hq2 Hps.
      destruct q as [qr qp off]. cbn [c_rdh c_payload] in Hq1, Hq2. subst qr qp.
      destruct (cdw_data_page ld Hwf Hsys Hfmt running h k pg p first opened out s off pc Hh Hl Hp Hcd Hpok Hr ltac:(cbn [length] in Hk; lia)
                  Hihw Hne Hpad Hitems Hcdw Hpl1 Hfirst) as [s1 [E1 [L1 [P1 [C1 R1]]]]].
      assert (Hpok1 : prev_cdw_ok (cdw_after pc p)) by (apply cdw_after_ok; [exact Hpok|intros c Hc; apply (Hcdw c Hc)]).
      cbn [app link_run]. rewrite E1, app_nil_r.
      destruct r as [|p2 r].
      + destruct pages; [|discriminate Hpl2]. destruct ps; [|discriminate Hps].
        inversion Hrest; subst. exists s1. cbn [app length]. split; [reflexivity|]. split; [exact L1|]. split; [exact P1|].
        split; [exact C1|]. split; [exact Hpok1|].
        intros X. specialize (R1 X). replace (k + N.of_nat 1) with (k + 1) by lia. exact R1.
      + destruct (IH ltac:(discriminate) pages (k + 1) s1 ps acc Hps Hpl2 L1 (pexit_entry _ _ P1) C1 Hpok1 R1
                    ltac:(cbn [length] in Hk; lia) ltac:(intros X; lia) rest) as [s2 [E2 [L2 [P2 [C2 [K2 R2]]]]]].
        exists s2. split; [exact E2|]. split; [exact L2|]. split; [exact P2|]. split; [exact C2|]. split; [exact K2|]. intros X. specialize (R2 X).
        replace (k + N.of_nat (length (pg :: pages))) with (k + 1 + N.of_nat (length pages)) by (cbn [length]; lia). exact R2.
  Qed.

  Lemma cdw_run_hbf running h ch ps s acc prev pc pc' : wf_hbf h = true -> chbf_ok (l_format ld) h pc ch pc' ->
    map strip ps = render_hbf ld h -> latch_ok ld (lk_sanity s) -> PEntry None (lk_cdp s) -> Ccd running pc (lk_cdp s) -> prev_cdw_ok pc ->
    (running = true -> Between ld prev (lk_running s)) -> (forall p, prev = Some p -> h_orbit p <> h_orbit h) ->
    forall rest, exists s', link_run (its_cfg running) s (ps ++ rest) acc = link_run (its_cfg running) s' rest acc /\
                            latch_ok ld (lk_sanity s') /\ PEntry None (lk_cdp s') /\ Ccd running pc' (lk_cdp s') /\ prev_cdw_ok pc' /\
                            (running = true -> Between ld (Some h) (lk_running s')).
  Proof.
    intros Hh (Hpo & Hd & Hspad & Hpls & Hstop) Hm Hl Hp Hcd Hpok Hb Ho rest. unfold render_hbf in Hm.
    assert (Hsplit : exists ps1 p2, ps = ps1 ++ [p2] /\ map strip ps1 = render_pages ld h 0 (h_pages h) /\
                                    strip p2 = (render_rdh ld h (N.of_nat (length (h_pages h))) 1 (h_stop h), pg_payload (h_stop h))).
    { destruct (exists_last (l := ps)) as [ps1 [p2 E]]; [intros ->; destruct (render_pages ld h 0 (h_pages h)); discriminate|].
      subst ps. rewrite map_app in Hm. apply app_inj_tail in Hm. destruct Hm as [H1 H2]. exists ps1, p2. auto. }
    destruct Hsplit as [ps1 [p2 [-> [H1 H2]]]].
    pose proof Hh as Hh'. unfold wf_hbf in Hh'. repeat (apply andb_true_iff in Hh'; destruct Hh' as [Hh' ?]).
    match goal with H : (N.of_nat (length (h_pages h)) <? 65535) = true |- _ => apply N.ltb_lt in H; rename H into Hn end.
    match goal with H : negb ?x = true |- _ => lazymatch x with context [h_pages] => rename H into Hne end end.
    assert (Hipsne : ch_pages ch <> []).
    { intros E. rewrite E in Hpls. destruct (h_pages h); [discriminate Hne|discriminate Hpls]. }
    rewrite <- app_assoc.
    destruct (cdw_run_pages running h Hh true None pc (ch_pages ch) pc' Hpo Hipsne (h_pages h) 0 s ps1 acc H1 Hpls Hl Hp Hcd Hpok
                (fun X => between_inv ld prev _ h (Hb X) Ho) ltac:(lia) ltac:(reflexivity) ([p2] ++ rest)) as [s1 [E1 [L1 [P1 [C1 [K1 R1]]]]]].
    rewrite E1. destruct p2 as [r pl off]. unfold strip in H2. cbn [c_rdh c_payload] in H2. injection H2 as -> ->.
    assert (Hk : 0 + N.of_nat (length (h_pages h)) <> 0) by (destruct (h_pages h); [discriminate Hne|cbn [length]; lia]).
    destruct (cdw_stop_page ld Hwf Hsys Hfmt running h _ (h_stop h) (ch_ddw0 ch) (ch_stop_pad ch) s1 off pc' Hh L1 P1 C1 R1 Hk Hd Hspad Hstop)
      as [s2 [E2 [L2 [P2 [C2 R2]]]]].
    cbn [app link_run]. rewrite N.add_0_l in E2. rewrite E2, app_nil_r. exists s2. auto 10.
  Qed.

  Lemma cdw_run_hbfs running : forall pc hbfs chs, chbfs_ok (l_format ld) pc hbfs chs ->
    forall ps s acc prev, forallb wf_hbf hbfs = true ->
    orbits_differ (match prev with Some p => p :: hbfs | None => hbfs end) = true ->
    map strip ps = flat_map (render_hbf ld) hbfs -> latch_ok ld (lk_sanity s) -> PEntry None (lk_cdp s) ->
    Ccd running pc (lk_cdp s) -> prev_cdw_ok pc ->
    (running = true -> Between ld prev (lk_running s)) ->
    exists s', link_run (its_cfg running) s ps acc = Ok (s', acc).
  Proof.
    induction 1 as [pc|pc h ch pc' hbfs chs Hok Hrest IH]; intros ps s acc prev Hw Ho Hm Hl Hp Hcd Hpok Hb.
    - destruct ps; [|discriminate]. exists s. reflexivity.
    - cbn [forallb] in Hw. apply andb_true_iff in Hw. destruct Hw as [Hh Hw]. cbn [flat_map] in Hm.
      assert (Hsp : exists ps1 ps2, ps = ps1 ++ ps2 /\ map strip ps1 = render_hbf ld h /\ map strip ps2 = flat_map (render_hbf ld) hbfs).
      { exists (firstn (length (render_hbf ld h)) ps), (skipn (length (render_hbf ld h)) ps). split; [symmetry; apply firstn_skipn|].
        rewrite <- firstn_map, <- skipn_map, Hm. split; [apply firstn_app_exact|apply skipn_app_exact]. }
      destruct Hsp as [ps1 [ps2 [-> [H1 H2]]]].
      assert (Hoh : forall p, prev = Some p -> h_orbit p <> h_orbit h).
      { intros p ->. cbn in Ho. apply andb_true_iff in Ho. destruct Ho as [Ho _]. apply negb_true_iff in Ho. apply N.eqb_neq. exact Ho. }
      destruct (cdw_run_hbf running h ch ps1 s acc prev pc pc' Hh Hok H1 Hl Hp Hcd Hpok Hb Hoh ps2) as [s1 [E1 [L1 [P1 [C1 [K1 B1]]]]]]. rewrite E1.
      apply (IH ps2 s1 acc (Some h) Hw); auto.
      destruct prev as [p|]; cbn in Ho |- *; [apply andb_true_iff in Ho; destruct Ho as [_ Ho]; exact Ho|exact Ho].
  Qed.
End CdwRun.

(* the ITS tier of C01 for calibration runs: every link of the CDW-extended grammar -- every page's data optionally led by a CDW
   whose user fields equal those of the CDW before it on the link, or whose word index is 0 -- is accepted silently by
   `check sanity its` and `check all its` *)
Theorem c01_its_cdw_link ld chs running ps : wf_link_its_cdw ld chs -> map strip ps = render_link ld ->
  run_validator (its_cfg running) ps = Ok [].
Proof.
  intros (Hwf & Hsys & Hfmt & Hall) Hm. unfold run_validator.
  pose proof (wf_parts ld Hwf) as (_ & _ & _ & _ & _ & _ & _ & _ & Hh & Ho).
  destruct (cdw_run_hbfs ld Hwf Hsys Hfmt running None (l_hbfs ld) chs Hall ps (link_init (its_cfg running)) [] None Hh Ho Hm) as [s' E].
  - unfold latch_ok, link_init, its_cfg, sanity_init. cbn. split; [left; reflexivity|right; rewrite Hsys; reflexivity].
  - split; reflexivity.
  - intros _. reflexivity.
  - intros p X; discriminate.
  - intros _. reflexivity.
  - rewrite E. reflexivity.
Qed.
