(* C10: RDH sanity and running checks implement the documented rules exactly. *)
From Coq Require Import List NArith ZArith Bool Lia ZifyBool ZifyN Arith.
From FP Require Import Model.Base Model.Rdh Model.RdhChecks Spec.RdhRules Proofs.Bits Proofs.WordFacts Proofs.RdhFacts.
From FP Require Gen.Facts.
Import ListNotations.
Open Scope N_scope.
Ltac Zify.zify_post_hook ::= Z.div_mod_to_equations.

Lemma tagif_nil c t : tagif c t = [] <-> c = false.
Proof. destruct c; cbn; split; (reflexivity || discriminate). Qed.
Lemma app_nil_iff {A} (l1 l2 : list A) : l1 ++ l2 = [] <-> l1 = [] /\ l2 = [].
Proof. split; [apply app_eq_nil|intros [-> ->]; reflexivity]. Qed.

(* regenerated constants are the documented ones *)
Lemma gen_rdh_consts :
  Gen.Facts.fee_reserved_mask = N.lor (N.lor (N.shiftl (N.ones 2) 6) (N.shiftl (N.ones 2) 10)) (N.shiftl (N.ones 1) 15) /\
  Gen.Facts.fee_stave_min = 0 /\ Gen.Facts.fee_stave_max = 47 /\
  Gen.Facts.fee_layer_min = 0 /\ Gen.Facts.fee_layer_max = 6 /\
  Gen.Facts.rdh_header_size = 64 /\ Gen.Facts.rdh_bc_max = BC_MAX /\
  Gen.Facts.trigger_spare_mask = N.shiftl (N.ones 12) 15 /\
  Gen.Facts.detfield_reserved_mask = N.shiftl (N.ones 12) 12 /\
  Gen.Facts.its_system_id = ITS_SYSTEM_ID.
Proof. repeat split; reflexivity. Qed.

Lemma fee_reserved_iff b : rdh_bytes_ok b ->
  (N.land (r_fee_id (decode_rdh b)) Gen.Facts.fee_reserved_mask =? 0) = rule_fee_reserved b.
Proof.
  intros H. destruct gen_rdh_consts as (->&_). rewrite (f_fee_id b H). unfold rule_fee_reserved, h_fee_id, hf.
  apply eq_true_iff_eq. rewrite !andb_true_iff, !N.eqb_eq, !land_lor_eq0.
  rewrite (land_lit_eq0 _ _ 6 2 eq_refl), (land_lit_eq0 _ _ 10 2 eq_refl), (land_lit_eq0 _ _ 15 1 eq_refl).
  rewrite !field_field by lia. cbn [N.add]. tauto.
Qed.

Lemma trigger_spare_iff b : rdh_bytes_ok b ->
  (N.land (r_trigger_type (decode_rdh b)) Gen.Facts.trigger_spare_mask =? 0) = (hf b 271 12 =? 0).
Proof.
  intros H. destruct gen_rdh_consts as (_&_&_&_&_&_&_&->&_). rewrite (f_trigger b H). unfold h_trigger_type, hf.
  apply eq_true_iff_eq. rewrite !N.eqb_eq, (land_lit_eq0 _ _ 15 12 eq_refl), field_field by lia. reflexivity.
Qed.

Lemma detfield_iff b : rdh_bytes_ok b ->
  (N.land (r_detector_field (decode_rdh b)) Gen.Facts.detfield_reserved_mask =? 0) = (hf b 396 12 =? 0).
Proof.
  intros H. destruct gen_rdh_consts as (_&_&_&_&_&_&_&_&->&_). rewrite (f_detfield b H). unfold h_detector_field, hf.
  apply eq_true_iff_eq. rewrite !N.eqb_eq, (land_lit_eq0 _ _ 12 12 eq_refl), field_field by lia. reflexivity.
Qed.

(* the sanity verdict for a latched header id *)
Definition st_of (first : N) (its : bool) : sanity_state :=
  {| ss_header_id := Some first; ss_system_id := if its then Some Gen.Facts.its_system_id else None |}.

Lemma c10_sanity_latched b first its : rdh_bytes_ok b ->
  (snd (rdh_sanity (st_of first its) (decode_rdh b)) = [] <-> rdh_sane first its b = true).
Proof.
  intros H. unfold rdh_sanity, rdh0_check, st_of, fee_id_tags, rdh1_tags, rdh2_tags, rdh3_tags.
  cbn [ss_header_id ss_system_id snd].
  rewrite !app_nil_iff, !tagif_nil.
  rewrite (fee_reserved_iff b H), (trigger_spare_iff b H), (detfield_iff b H).
  destruct gen_rdh_consts as (_&->&->&->&->&->&->&_&_&Hsys).
  rewrite (f_header_id b H), (f_header_size b H), (f_stave b H), (f_layer b H), (f_priority b H),
    (f_rdh0_reserved0 b H), (f_rdh1_reserved0 b H), (f_bc b H), (f_rdh2_reserved0 b H), (f_stop b H),
    (f_trigger b H), (f_rdh3_reserved0 b H), (f_dw b H), (f_data_format b H).
  unfold rdh_sane, rule_header_id, rule_header_size, rule_fee_layer, rule_fee_stave, rule_priority,
    rule_rdh0_reserved, rule_system_id, rule_bc, rule_rdh1_reserved, rule_stop_bit, rule_trigger_type,
    rule_rdh2_reserved, rule_rdh3_reserved, rule_dw, rule_data_format.
  assert (Hsid : (match (if its then Some Gen.Facts.its_system_id else None) with
                  | Some sid => tagif (negb (r_system_id (decode_rdh b) =? sid)) T_system_id
                  | None => []
                  end = [] <-> (if its then h_system_id b =? ITS_SYSTEM_ID else true) = true)).
  { destruct its; [|tauto]. rewrite tagif_nil, Hsys, (f_system_id b H).
    destruct (h_system_id b =? ITS_SYSTEM_ID); cbn; split; congruence. }
  rewrite Hsid. clear Hsid.
  rewrite !andb_true_iff.
  destruct (rule_fee_reserved b); destruct (if its then h_system_id b =? ITS_SYSTEM_ID else true);
    split; intros; repeat match goal with Hc : _ /\ _ |- _ => destruct Hc end; try discriminate;
    repeat split; try reflexivity; lia.
Qed.

(* the first RDH of a link latches its own header id *)
Lemma c10_sanity_first b custom its : rdh_bytes_ok b ->
  let st := sanity_init custom its in
  let first := match custom with Some v => v | None => h_header_id b end in
  fst (rdh_sanity st (decode_rdh b)) = st_of first its /\
  (snd (rdh_sanity st (decode_rdh b)) = [] <-> rdh_sane first its b = true).
Proof.
  intros H st first. subst st first. destruct custom as [v|].
  - split; [reflexivity|]. apply (c10_sanity_latched b v its H).
  - rewrite <- (f_header_id b H). split; [reflexivity|].
    rewrite <- (c10_sanity_latched b (r_header_id (decode_rdh b)) its H). reflexivity.
Qed.

Lemma c10_sanity_state b first its :
  fst (rdh_sanity (st_of first its) (decode_rdh b)) = st_of first its.
Proof. reflexivity. Qed.

(* ------------------------------------------------------------------ running checks *)
Definition run_fold (st : running_state) (hist : list (list N)) : running_state :=
  fold_left (fun s b => fst (running_check s (decode_rdh b))) hist st.

(* the property's quantifier: the link's sequence begins at an HBF start *)
Definition starts_at_hbf (seq : list (list N)) : Prop :=
  match seq with
  | b0 :: b1 :: _ => h_pages_counter b0 = 0 /\ h_pages_counter b1 = 1
  | _ => True
  end.
(* no u16 wrap of the expected page counter along the sequence *)
Fixpoint no_wrap (hist : list (list N)) (acc : N) : Prop :=
  match hist with
  | [] => acc < 65536
  | h :: r => acc < 65536 /\ no_wrap r (if h_stop_bit h =? 0 then acc + 1 else if h_stop_bit h =? 1 then 0 else acc)
  end.

Definition last_of (hist : list (list N)) : option (list N) :=
  match rev hist with l :: _ => Some l | [] => None end.

(* invariant connecting the checker's state to the history *)
Definition RInv (hist : list (list N)) (st : running_state) : Prop :=
  rs_expect_pages st = expected_pages hist 0 /\
  rs_last st = option_map decode_rdh (last_of hist) /\
  rs_seen st = (match hist with [] => 0 | [_] => 1 | _ => 2 end) /\
  (rs_increment st = 1 \/ (exists b0, hist = [b0])) /\
  (match hist with [_] => rs_increment st = 1 | _ => True end).

Lemma expected_pages_app hist b acc :
  expected_pages (hist ++ [b]) acc =
  let e := expected_pages hist acc in
  if h_stop_bit b =? 0 then e + 1 else if h_stop_bit b =? 1 then 0 else e.
Proof. revert acc; induction hist as [|h r IH]; intros acc; cbn; [reflexivity|]. apply IH. Qed.

Lemma no_wrap_app hist b acc : no_wrap (hist ++ [b]) acc ->
  no_wrap hist acc /\ expected_pages (hist ++ [b]) acc < 65536.
Proof.
  revert acc; induction hist as [|h r IH]; intros acc; cbn [app no_wrap expected_pages].
  - intros [Ha Hb]. split; assumption.
  - intros [Ha Hr]. destruct (IH _ Hr) as [H1 H2]. repeat split; assumption.
Qed.

Lemma no_wrap_bound hist acc : no_wrap hist acc -> expected_pages hist acc < 65536.
Proof.
  revert acc; induction hist as [|h r IH]; intros acc; cbn; [tauto|]. intros [_ Hr]. apply IH, Hr.
Qed.

Lemma last_of_app hist b : last_of (hist ++ [b]) = Some b.
Proof. unfold last_of. rewrite rev_app_distr. reflexivity. Qed.

Lemma rinv_step hist b st :
  Forall rdh_bytes_ok (hist ++ [b]) -> starts_at_hbf (hist ++ [b]) -> no_wrap (hist ++ [b]) 0 ->
  RInv hist st -> RInv (hist ++ [b]) (fst (running_check st (decode_rdh b))).
Proof.
  intros Hok Hhbf Hnw (He&Hl&Hs&Hi&Hi1).
  apply Forall_app in Hok. destruct Hok as [_ Hb]. inversion Hb as [|? ? Hb1 _]; subst.
  destruct (no_wrap_app _ _ _ Hnw) as [Hnw1 Hbound].
  unfold RInv, running_check. cbn [fst rs_expect_pages rs_last rs_seen rs_increment].
  rewrite (f_stop b Hb1), (f_pages b Hb1).
  assert (Hinc : (if rs_seen st =? 1 then h_pages_counter b else rs_increment st) = 1).
  { rewrite Hs. destruct hist as [|b0 [|b1 r]]; cbn [N.eqb].
    - destruct Hi as [Hi|(?&Hx)]; [assumption|discriminate].
    - cbn in Hhbf. tauto.
    - destruct Hi as [Hi|(?&Hx)]; [assumption|discriminate]. }
  rewrite Hinc. repeat split.
  - rewrite expected_pages_app, He. cbn zeta.
    rewrite expected_pages_app in Hbound. cbn zeta in Hbound.
    destruct (h_stop_bit b =? 0); [|destruct (h_stop_bit b =? 1); reflexivity].
    unfold wrap16. apply N.mod_small. exact Hbound.
  - rewrite last_of_app. reflexivity.
  - rewrite Hs. destruct hist as [|b0 [|b1 r]]; reflexivity.
  - left. reflexivity.
  - destruct hist as [|b0 [|b1 r]]; cbn; trivial.
Qed.

Lemma rinv_init : RInv [] running_init.
Proof. unfold RInv, running_init; cbn. repeat split; auto. Qed.

Lemma firstn_prefix_props (seq : list (list N)) k :
  Forall rdh_bytes_ok seq -> starts_at_hbf seq -> no_wrap seq 0 ->
  Forall rdh_bytes_ok (firstn k seq) /\ starts_at_hbf (firstn k seq) /\ no_wrap (firstn k seq) 0.
Proof.
  intros Hok Hh Hnw. split; [|split].
  - rewrite <- (firstn_skipn k seq) in Hok. apply Forall_app in Hok. tauto.
  - destruct seq as [|b0 [|b1 r]]; destruct k as [|[|k]]; cbn in *; trivial.
  - clear Hok Hh. revert Hnw. generalize 0 as acc. revert k.
    induction seq as [|h r IH]; intros k acc Hnw; destruct k; cbn in *; try tauto.
    destruct Hnw as [Ha Hr]. split; [assumption|]. apply IH, Hr.
Qed.

Lemma rinv_run hist :
  Forall rdh_bytes_ok hist -> starts_at_hbf hist -> no_wrap hist 0 ->
  RInv hist (run_fold running_init hist).
Proof.
  induction hist as [|b hist IH] using rev_ind; intros Hok Hh Hnw.
  - apply rinv_init.
  - unfold run_fold. rewrite fold_left_app. cbn [fold_left].
    apply rinv_step; try assumption.
    pose proof (firstn_prefix_props (hist ++ [b]) (length hist) Hok Hh Hnw) as Hp.
    rewrite firstn_app, firstn_all, Nat.sub_diag in Hp. cbn [firstn] in Hp. rewrite app_nil_r in Hp.
    destruct Hp as (H1&H2&H3). apply IH; assumption.
Qed.

(* E11 is reported for the last RDH of a sequence iff the documented running rule is broken *)
Lemma c10_running_iff hist b :
  Forall rdh_bytes_ok (hist ++ [b]) -> starts_at_hbf (hist ++ [b]) -> no_wrap (hist ++ [b]) 0 ->
  (snd (running_check (run_fold running_init hist) (decode_rdh b)) <> [] <->
   running_violation hist b = true).
Proof.
  intros Hok Hh Hnw.
  pose proof (firstn_prefix_props (hist ++ [b]) (length hist) Hok Hh Hnw) as Hp.
  rewrite firstn_app, firstn_all, Nat.sub_diag in Hp. cbn [firstn] in Hp. rewrite app_nil_r in Hp.
  destruct Hp as (H1&H2&H3).
  pose proof (rinv_run hist H1 H2 H3) as (He&Hl&_&_&_).
  apply Forall_app in Hok. destruct Hok as [Hokh Hb]. inversion Hb as [|? ? Hb1 _]; subst.
  set (st := run_fold running_init hist) in *.
  unfold running_check. cbn [snd]. rewrite He, Hl.
  rewrite (f_stop b Hb1), (f_pages b Hb1), (f_orbit b Hb1), (f_trigger b Hb1), (f_fee_id b Hb1).
  unfold running_violation, last_of.
  destruct (rev hist) as [|l rh] eqn:Hrev; cbn [option_map].
  - (* no previous RDH *)
    destruct (h_stop_bit b =? 0) eqn:E0; [|destruct (h_stop_bit b =? 1) eqn:E1]; cbn [orb];
      destruct (h_pages_counter b =? expected_pages hist 0); destruct (h_pages_counter b =? 0);
      cbn; split; intros; try discriminate; try reflexivity; try congruence; try (exfalso; auto; fail).
  - assert (Hlok : rdh_bytes_ok l).
    { assert (Hin : In l hist) by (apply in_rev; rewrite Hrev; left; reflexivity).
      exact (proj1 (Forall_forall _ _) Hokh l Hin). }
    rewrite (f_stop l Hlok), (f_orbit l Hlok), (f_trigger l Hlok), (f_fee_id l Hlok).
    rewrite (N.eqb_sym (h_orbit b) (h_orbit l)).
    destruct (h_stop_bit b =? 0) eqn:E0; [|destruct (h_stop_bit b =? 1) eqn:E1]; cbn [orb];
      destruct (h_pages_counter b =? expected_pages hist 0); destruct (h_pages_counter b =? 0);
      destruct (h_stop_bit l =? 1); destruct (h_orbit l =? h_orbit b);
      destruct (h_trigger_type b =? h_trigger_type l); destruct (h_fee_id b =? h_fee_id l);
      cbn; split; intros; try discriminate; try reflexivity; try congruence; try (exfalso; auto; fail).
Qed.
