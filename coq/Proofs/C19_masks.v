(* C19: the trigger column of the RDH rows of the frame views, in terms of the documented bit positions (the masks and the order of the
   tests are regenerated facts). *)
From Coq Require Import List NArith Bool Lia.
From FP Require Import Model.Base Model.Rdh Model.Views.
From FP Require Gen.Facts.
Import ListNotations.
Open Scope N_scope.

Lemma land_pow2 t k : N.land t (2 ^ k) = if N.testbit t k then 2 ^ k else 0.
Proof.
  apply N.bits_inj. intros i. rewrite N.land_spec, N.pow2_bits_eqb.
  destruct (N.eqb_spec k i) as [<-|Hne].
  - destruct (N.testbit t k); [rewrite N.pow2_bits_true; reflexivity|rewrite N.bits_0; reflexivity].
  - rewrite andb_false_r. destruct (N.testbit t k); [rewrite N.pow2_bits_false by exact Hne; reflexivity|rewrite N.bits_0; reflexivity].
Qed.

Lemma land_pow2_nz t k : negb (N.land t (2 ^ k) =? 0) = N.testbit t k.
Proof.
  rewrite land_pow2. destruct (N.testbit t k); [|reflexivity].
  destruct (N.eqb_spec (2 ^ k) 0) as [E|_]; [|reflexivity]. exfalso. revert E. apply N.pow_nonzero. discriminate.
Qed.

(* RDH rows of the frame views: Start of Continuous (bit 9) before Start of Triggered (bit 7) before HeartBeat (bit 1) before Physics (bit 4) *)
Theorem rdh_trig_kind_documented_when :
  Gen.Facts.view_soc_bit_mask = 2 ^ 9 -> Gen.Facts.view_sot_bit_mask = 2 ^ 7 -> Gen.Facts.view_hb_bit_mask = 2 ^ 1 ->
  Gen.Facts.view_pht_bit_mask = 2 ^ 4 -> Gen.Facts.view_trigger_priority = [0; 1; 2; 3] ->
  forall t, rdh_trig_kind t = if N.testbit t 9 then 0 else if N.testbit t 7 then 1 else if N.testbit t 1 then 2 else if N.testbit t 4 then 3 else 4.
Proof.
  intros H0 H1 H2 H3 Hp t. unfold rdh_trig_kind. rewrite Hp. cbn [first_set]. unfold trig_mask. cbn [N.eqb Pos.eqb].
  rewrite H0, H1, H2, H3, !land_pow2_nz. reflexivity.
Qed.
