(* The layer/stave filter key: two FEE ids are matched by `--filter-its-stave` exactly when they agree on the six stave bits (5:0) and the
   three layer bits (14:12) of the documented FEE-id layout -- staves n and n+32 of one layer are told apart. *)
From Coq Require Import List NArith Bool Lia.
From FP Require Gen.Facts.
Import ListNotations.
Open Scope N_scope.

Definition key_bit (i : N) : bool := (i <? 6) || ((12 <=? i) && (i <? 15)).

Lemma land_eq_bits a b m : N.land a m = N.land b m <-> (forall i, N.testbit m i = true -> N.testbit a i = N.testbit b i).
Proof.
  split.
  - intros E i Hi. apply (f_equal (fun x => N.testbit x i)) in E. rewrite !N.land_spec, Hi, !andb_true_r in E. exact E.
  - intros H. apply N.bits_inj. intros i. rewrite !N.land_spec. destruct (N.testbit m i) eqn:Hm; [rewrite (H i Hm); reflexivity|rewrite !andb_false_r; reflexivity].
Qed.

Lemma mask_bits_16 : forallb (fun i => Bool.eqb (N.testbit 28735 i) (key_bit i)) (map N.of_nat (seq 0 16)) = true.
Proof. vm_compute. reflexivity. Qed.

Lemma mask_bits i : N.testbit 28735 i = key_bit i.
Proof.
  destruct (N.ltb_spec i 16) as [Hlt|Hge].
  - pose proof mask_bits_16 as H. rewrite forallb_forall in H. apply eqb_prop, H. apply in_map_iff.
    exists (N.to_nat i). split; [lia|]. apply in_seq. lia.
  - rewrite N.bits_above_log2.
    + unfold key_bit. symmetry. apply orb_false_iff. split; [apply N.ltb_ge; lia|]. apply andb_false_iff. right. apply N.ltb_ge. lia.
    + change (N.log2 28735) with 14. lia.
Qed.

Theorem stave_filter_key_when : Gen.Facts.layer_stave_mask = 28735 -> forall a b,
  N.land a Gen.Facts.layer_stave_mask = N.land b Gen.Facts.layer_stave_mask <->
  (forall i, i < 6 \/ 12 <= i < 15 -> N.testbit a i = N.testbit b i).
Proof.
  intros -> a b. rewrite land_eq_bits. split; intros H i Hi.
  - apply H. rewrite mask_bits. unfold key_bit. destruct Hi as [Hi|[H1 H2]].
    + apply orb_true_iff. left. apply N.ltb_lt. exact Hi.
    + apply orb_true_iff. right. apply andb_true_iff. split; [apply N.leb_le|apply N.ltb_lt]; assumption.
  - apply H. rewrite mask_bits in Hi. unfold key_bit in Hi. apply orb_true_iff in Hi. destruct Hi as [Hi|Hi].
    + left. apply N.ltb_lt. exact Hi.
    + right. apply andb_true_iff in Hi. destruct Hi as [H1 H2]. split; [apply N.leb_le|apply N.ltb_lt]; assumption.
Qed.

(* staves n and n+32 of one layer are told apart *)
Example stave_32_apart : N.land (N.lor (N.shiftl 6 12) 1) 28735 <> N.land (N.lor (N.shiftl 6 12) 33) 28735.
Proof. vm_compute. discriminate. Qed.
