(* C06 for one whole `check` run: the messages of the final report that lie in the packets of one dispatch unit (one link id; one FEE id
   under `check all its-stave`) are exactly -- as a list, in the report's order -- the stably sorted messages of ONE SEQUENTIAL PASS of a
   validator over that unit's packets alone.  Other units' traffic, its interleaving and its corruption change nothing. *)
From Coq Require Import List NArith ZArith Bool Lia ZifyBool ZifyN ZifyNat Arith Sorting.Sorted Permutation.
From FP Require Import Model.Base Model.Rdh Model.RdhChecks Model.Payload Model.Alpide Model.Scanner Model.CdpRunning Model.Link
  Model.Collector Model.System Spec.RdhRules Spec.Framing Spec.GroundTruth
  Proofs.Interleave Proofs.C03_proofs Proofs.C05_proofs Proofs.C06_proofs Proofs.C07_proofs Proofs.C07_run Proofs.C14_proofs Proofs.C04_system Proofs.C05_run.
From FP Require Gen.Facts.
Import ListNotations.
Open Scope N_scope.

(* a stable sort commutes with filtering *)
Lemma filter_filter_comm {A} (P Q : A -> bool) l : filter P (filter Q l) = filter Q (filter P l).
Proof. induction l as [|x l IH]; [reflexivity|]. cbn [filter]. destruct (P x) eqn:Ep, (Q x) eqn:Eq; cbn [filter]; rewrite ?Ep, ?Eq, IH; reflexivity. Qed.

Lemma filter_sort_msgs (P : emsg -> bool) l : filter P (sort_msgs l) = sort_msgs (filter P l).
Proof.
  apply sorted_unique; [apply sorted_filter, sort_msgs_sorted|apply sort_msgs_sorted|].
  intros k. unfold selk. rewrite filter_filter_comm. fold (selk k (sort_msgs l)). rewrite sort_msgs_selk.
  fold (selk k (sort_msgs (filter P l))). rewrite sort_msgs_selk. unfold selk. apply filter_filter_comm.
Qed.

(* does offset x lie in a packet of the list? *)
Definition in_unitb (unit : list cdp) (x : N) : bool :=
  existsb (fun p => (c_off p <=? x) && (x <? c_off p + 64 + N.of_nat (length (c_payload p)))) unit.
Lemma in_unitb_true unit x : in_unitb unit x = true <-> exists p, In p unit /\ inside_pkt p x.
Proof.
  unfold in_unitb. rewrite existsb_exists. split; intros (p & Hp & H); exists p; (split; [exact Hp|]); unfold inside_pkt in *; lia.
Qed.

(* the error messages of a validator's result, as the collector stores them *)
Definition errs_of (ms : list vmsg) : list emsg := flat_map msg_of (map vmsg_to_cstat ms).

Lemma flat_map_nil_all {A B} (f : A -> list B) l : (forall x, In x l -> f x = []) -> flat_map f l = [].
Proof. induction l as [|x l IH]; intros H; [reflexivity|]. cbn [flat_map]. rewrite (H x (or_introl eq_refl)), IH; [reflexivity|]. intros y Hy. apply H. right. exact Hy. Qed.

Lemma finalize_errors_sorted sm mute s0 ce : sm = true -> k_finalized s0 = false ->
  k_errors (finalize sm mute (add_custom s0 ce)) = sort_msgs (k_errors s0).
Proof.
  intros -> Hf. unfold finalize, add_custom. cbn [k_finalized upd_errs]. rewrite Hf. cbn [k_errors upd_errs]. rewrite orb_true_r. reflexivity.
Qed.

Section Whole.
Context (c : run_cfg) (pkts : list packet).
Context (Hoff : Gen.Facts.cdp_offset_sampled_after = true).
Context (Hsort : Gen.Facts.error_sort_when_muted = true).
Context (Hwf : Forall wf_pkt pkts).
Context (Hn : N.of_nat (length pkts) < U32_MAX).
Context (Hpay : pay_all pkts < U32_MAX).
Context (Hlay : sc_skip (rc_scan c) = true \/ forall p, In p pkts -> layout_rp (hdr p) (p_payload p)).
Context (Hknown : forall p r, pkts = p :: r -> known_sysid (r_system_id (hdr p)) = true).

Let input := serialize pkts.
Let cdps := map (mk_cdp (rc_scan c)) (selected (rc_scan c) 0 pkts).
Let vc := rc_check c.

(* every error message of the stream of unit id' is inside a packet of unit id' *)
Lemma stream_owned id' m : In (CS_error m) (vstream_of (run_validator vc (sel vc id' cdps))) -> in_unitb (sel vc id' cdps) (m_off m) = true.
Proof.
  intros H. destruct whole_streams with (c := c) (pkts := pkts) as (o & tl & _ & _ & Hk & _); try assumption.
  destruct (validator_err_owner vc (rc_scan c) pkts 0 o Hwf (whole_size pkts Hn Hpay) Hlay Hk id' m H) as (q & Q1 & Q2 & Q3).
  apply in_unitb_true. exists q. split; [|apply start_inside, Q3]. unfold sel. apply filter_In. split; [exact Q1|apply N.eqb_eq, Q2].
Qed.

Lemma other_unit id id' x : id <> id' -> in_unitb (sel vc id' cdps) x = true -> in_unitb (sel vc id cdps) x = false.
Proof.
  intros Hne H. destruct (in_unitb (sel vc id cdps) x) eqn:E; [|reflexivity]. exfalso.
  apply in_unitb_true in H. apply in_unitb_true in E. destruct H as (q & Hq & Iq). destruct E as (p & Hp & Ip).
  unfold sel in Hq, Hp. apply filter_In in Hq. apply filter_In in Hp. destruct Hq as [Hq Dq]. destruct Hp as [Hp Dp].
  pose proof (sorted_owner _ (cdps_sorted (rc_scan c) pkts) p q x Hp Hq Ip Iq) as <-. apply Hne. lia.
Qed.

Lemma filter_stream_other id id' : id <> id' ->
  filter (fun m => in_unitb (sel vc id cdps) (m_off m)) (flat_map msg_of (vstream_of (run_validator vc (sel vc id' cdps)))) = [].
Proof.
  intros Hne. apply Interleave.filter_none. intros m Hm. apply in_flat_map in Hm. destruct Hm as (x & Hx & Hmx).
  destruct x; cbn in Hmx; try contradiction. destruct Hmx as [->|[]]. exact (other_unit id id' _ Hne (stream_owned id' m Hx)).
Qed.
Lemma filter_stream_own id :
  filter (fun m => in_unitb (sel vc id cdps) (m_off m)) (flat_map msg_of (vstream_of (run_validator vc (sel vc id cdps)))) =
  flat_map msg_of (vstream_of (run_validator vc (sel vc id cdps))).
Proof.
  set (l := vstream_of _). assert (H : forall m, In (CS_error m) l -> in_unitb (sel vc id cdps) (m_off m) = true) by (intros m; apply stream_owned).
  clearbody l. induction l as [|x l IH]; [reflexivity|]. cbn [flat_map]. rewrite filter_app, IH by (intros m Hm; apply H; right; exact Hm).
  f_equal. destruct x; try reflexivity. cbn. rewrite (H m (or_introl eq_refl)). reflexivity.
Qed.

Lemma filter_streams id : forall procs, NoDup procs ->
  filter (fun m => in_unitb (sel vc id cdps) (m_off m))
         (flat_map msg_of (concat (map (fun id' => vstream_of (run_validator vc (sel vc id' cdps))) procs))) =
  if in_dec N.eq_dec id procs then flat_map msg_of (vstream_of (run_validator vc (sel vc id cdps))) else [].
Proof.
  induction procs as [|p procs IH]; intros Hnd; [reflexivity|]. inversion Hnd as [|? ? Hni Hnd']; subst.
  cbn [map concat]. rewrite flat_map_app, filter_app, (IH Hnd').
  destruct (N.eq_dec id p) as [->|Hne].
  - rewrite filter_stream_own. destruct (in_dec N.eq_dec p procs) as [Hi|_]; [contradiction|]. rewrite app_nil_r.
    destruct (in_dec N.eq_dec p (p :: procs)) as [_|Hx]; [reflexivity|exfalso; apply Hx; left; reflexivity].
  - rewrite (filter_stream_other id p Hne). cbn [app].
    destruct (in_dec N.eq_dec id procs) as [Hi|Hi]; destruct (in_dec N.eq_dec id (p :: procs)) as [Hj|Hj]; try reflexivity.
    + exfalso. apply Hj. right. exact Hi.
    + exfalso. destruct Hj as [E|Hj]; [apply Hne; symmetry; exact E|exact (Hi Hj)].
Qed.

Theorem c06_whole_run ff s shown e id ms : run_check ff c input = R_done s shown e ->
  sel vc id cdps <> [] -> run_validator vc (sel vc id cdps) = Ok ms ->
  filter (fun m => in_unitb (sel vc id cdps) (m_off m)) (k_errors s) = sort_msgs (errs_of ms).
Proof.
  intros H Hs Hr. rewrite run_check_is_sched in H. unfold run_check_sched in H.
  destruct (Nat.ltb _ _); [discriminate|]. destruct (negb _); [discriminate|]. destruct (gather _); [|discriminate].
  unfold finish in H. cbv zeta in H. injection H as <- _ _.
  set (arr := concat (sender_streams c input)) in *.
  pose proof (whole_streams_ok c pkts Hoff Hwf Hn Hpay Hlay Hknown) as Hok. fold input in Hok.
  pose proof (interleave_concat (sender_streams c input)) as Ia. fold arr in Ia.
  pose proof (interleave_nofatal _ arr Ia (so_nofatal _ Hok)) as Nf.
  destruct (errors_fold arr cinit eq_refl Nf) as [X _]. fold (collect_all arr) in X. cbn [k_errors cinit app] in X.
  pose proof (rest_const arr) as R. unfold g_rest in R. injection R as _ _ R. cbn [k_finalized cinit] in R.
  rewrite (finalize_errors_sorted _ _ _ _ Hsort R), X, filter_sort_msgs. f_equal.
  destruct (whole_streams c pkts Hoff Hwf Hn Hpay Hknown) as (o & tl & E & Hpl & Hk & Htl & _). fold input in E. fold cdps in E.
  destruct (c06_isolated vc cdps) as (procs & Hnd & Hprocs & Ed). unfold arr. rewrite E. fold vc. rewrite Ed, map_map. cbn [snd concat].
  rewrite !flat_map_app, !filter_app.
  assert (Z1 : flat_map msg_of (main_stream (nth 0 input 0) (o ++ tl)) = []).
  { apply flat_map_nil_all. intros x Hx. pose proof (main_stream_kind _ o tl Hpl Hk Htl _ Hx) as K. destruct x; try discriminate; reflexivity. }
  assert (Z2 : flat_map msg_of (analysis_stream (chunk CAP cdps)) = []).
  { apply flat_map_nil_all. intros x Hx. pose proof (analysis_stream_kind _ _ Hx) as K. destruct x; try discriminate; reflexivity. }
  rewrite Z1, Z2. cbn [filter app]. rewrite (filter_streams id procs Hnd).
  destruct (in_dec N.eq_dec id procs) as [_|Hni].
  - rewrite Hr. reflexivity.
  - exfalso. apply Hni, Hprocs. destruct (sel vc id cdps) as [|q r] eqn:Eq; [congruence|].
    assert (Hq : In q (sel vc id cdps)) by (rewrite Eq; left; reflexivity). unfold sel in Hq. apply filter_In in Hq. destruct Hq as [Hq Dq].
    exists q. split; [exact Hq|lia].
Qed.
End Whole.
