(* C02: the detection theorems whose statement had to allow for a crash of the validator (`| Panic _ => True`), restated without
   that escape: no word makes a validator crash (Proofs/C04_stave.v; the three handled sites are regenerated facts). *)
From Coq Require Import List NArith Bool.
Import ListNotations.
From FP Require Import Model.Base Model.ItsWords Model.ItsFsm Model.CdpRunning Model.Link.
From FP Require Import Proofs.C02_proofs Proofs.C04_stave.
Open Scope N_scope.

Section Handled.
Context (H : sites_handled).

Lemma c02_word_total c s w : exists s1 m, cdp_check c s w = Ok (s1, m) /\ word_msgs c s w = m.
Proof. destruct (cdp_check_ok H c s w) as [[s1 m] E]. exists s1, m. unfold word_msgs. rewrite E. auto. Qed.

Lemma c02_tdt_sanity_total c s w : snd (advance (cs_fsm s) w) = F_ok P_TDT -> tdt_sanity w <> [] ->
  exists s1 m, cdp_check c s w = Ok (s1, m) /\ has_err (pos_of s) 50 m.
Proof.
  intros Ha Hne. pose proof (c02_tdt_sanity c s w Ha Hne) as X. destruct (cdp_check_ok H c s w) as [[s1 m] E]. rewrite E in X. eauto.
Qed.

Lemma c02_unrecognised_total c s w a : snd (advance (cs_fsm s) w) = F_amb a ->
  exists s1 m, cdp_check c s w = Ok (s1, m) /\
    has_err (pos_of s) (match a with A_TDH_or_DDW0 => 990 | A_DW_or_TDT_CDW => 991 | A_DDW0_or_TDH_IHW => 992 end) m.
Proof.
  intros Ha. pose proof (c02_unrecognised c s w a Ha) as X. destruct (cdp_check_ok H c s w) as [[s1 m] E]. rewrite E in X. eauto.
Qed.
End Handled.
