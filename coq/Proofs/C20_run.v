(* C20 for one whole `check` run: the two end-of-run custom checks (expected packet count, expected physics-trigger count) against the
   ground truth of the input. *)
From Coq Require Import List NArith ZArith Bool Lia.
From FP Require Import Model.Base Model.Rdh Model.Scanner Model.CdpRunning Model.Link Model.Collector Model.System
  Spec.Framing Spec.GroundTruth Proofs.C03_proofs Proofs.C05_proofs Proofs.C14_proofs Proofs.C04_system Proofs.C05_run Proofs.C14_run Proofs.C20_proofs.
From FP Require Gen.Facts.
Import ListNotations.
Open Scope N_scope.

Lemma custom_fold : forall a s, k_custom (fold_left update a s) = k_custom s.
Proof.
  induction a as [|x a IH]; intros s; [reflexivity|]. cbn [fold_left]. rewrite IH.
  destruct x; cbn [update]; try reflexivity;
    repeat match goal with |- context [set_once ?o ?v] => destruct (set_once o v) end; try reflexivity;
    destruct (k_fatal s); reflexivity.
Qed.

Lemma run_check_done_form ff c input s sh e : run_check ff c input = R_done s sh e ->
  exists a, s = finalize Gen.Facts.error_sort_when_muted (rc_mute c) (add_custom (collect_all a) (custom_errors (rc_counts c) (collect_all a))).
Proof.
  unfold run_check. destruct (Nat.ltb _ _); [discriminate|]. destruct (negb _); [discriminate|]. cbv zeta.
  match goal with |- context [fold_right ?f ?i ?l] => destruct (fold_right f i l) as [v|q] end; [|discriminate].
  intros H. injection H as <- _ _. eexists. reflexivity.
Qed.

Lemma finish_custom sm mute s0 cc : k_finalized s0 = false ->
  let s := finalize sm mute (add_custom s0 (custom_errors cc s0)) in
  k_custom s = k_custom s0 ++ custom_errors cc s0 /\ forall i, counter s i = counter s0 i.
Proof.
  intros R. cbv zeta. unfold finalize, add_custom, counter. cbn [k_finalized upd_errs]. rewrite R. cbn [k_custom k_counters upd_errs]. split; reflexivity.
Qed.

Section Whole.
Context (c : run_cfg) (pkts : list packet).
Context (Hoff : Gen.Facts.cdp_offset_sampled_after = true).
Context (Hwf : Forall wf_pkt pkts).
Context (Hn : N.of_nat (length pkts) < U32_MAX).
Context (Hpay : pay_all pkts < U32_MAX).

Theorem c20_whole_run ff s shown e : run_check ff c (serialize pkts) = R_done s shown e ->
  (has_code 9001 (k_custom s) <-> exists n, cc_cdps (rc_counts c) = Some n /\ N.of_nat (length pkts) <> n) /\
  (has_code 9002 (k_custom s) <-> exists n, cc_pht (rc_counts c) = Some n /\ gt_trigger_bit 4 (sel_pkts (rc_scan c) pkts) <> n).
Proof.
  intros H. destruct (c14_whole_run c pkts Hoff Hwf Hn Hpay ff s shown e H) as (T1 & _ & _ & _ & _ & _ & T7 & _).
  specialize (T7 4%nat ltac:(lia)). change (nth 4 trigger_bits 0) with 4 in T7. change (4 + 4)%nat with IDX_PHT in T7.
  destruct (run_check_done_form _ _ _ _ _ _ H) as [a ->].
  pose proof (rest_const a) as R. unfold g_rest in R. injection R as _ _ R. cbn [k_finalized cinit] in R.
  destruct (finish_custom Gen.Facts.error_sort_when_muted (rc_mute c) (collect_all a) (rc_counts c) R) as [Ec Ek].
  rewrite Ek in T1, T7. rewrite Ec. unfold collect_all at 1 3. rewrite custom_fold. cbn [k_custom cinit app]. split.
  - rewrite (c20_cdps (rc_counts c) (collect_all a)), T1. cbn [gt_rdhs_seen truth]. reflexivity.
  - rewrite (c20_pht (rc_counts c) (collect_all a)), T7. reflexivity.
Qed.
End Whole.
