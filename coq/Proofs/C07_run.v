(* C07 at the level of one validator's whole pass and of one whole `check` run: every error message lies inside one of the
   packets that validator was given -- at the packet's own offset (RDH messages, the un-coded payload message), at the start of one
   of its 80-bit words, or at the start of a readout frame opened by an earlier word of the same validator.
   The proviso is the property's own: the slot size the payload is cut with is the slot size of the header's data format. *)
From Coq Require Import List NArith ZArith Bool Lia ZifyBool ZifyN ZifyNat Arith.
From FP Require Import Model.Base Model.ItsWords Model.ItsFsm Model.Rdh Model.RdhChecks Model.Payload Model.Alpide
  Model.Scanner Model.CdpRunning Model.Link Proofs.C12_proofs Proofs.C07_proofs.
From FP Require Gen.Facts.
Import ListNotations.
Open Scope N_scope.
Ltac Zify.zify_post_hook ::= Z.div_mod_to_equations.

(* x is the offset of a byte of packet p: header (64 bytes) or payload *)
Definition inside_pkt (p : cdp) (x : N) : Prop := c_off p <= x /\ x < c_off p + 64 + N.of_nat (length (c_payload p)).
Definition inside (ps : list cdp) (x : N) : Prop := exists p, In p ps /\ inside_pkt p x.

(* the property's proviso, per packet: the payload is cut with the slot size of the header's data format *)
Definition layout_rp (r : rdh) (payload : list N) : Prop :=
  match preprocess payload with
  | Prep_ok slot (_ :: _) => N.of_nat slot = 10 + pad_of r
  | _ => True
  end.
Definition layout_ok (p : cdp) : Prop := layout_rp (c_rdh p) (c_payload p).
(* sizes as the scanner hands them on: payloads of at most 10000 bytes, offsets far from the 64-bit limit *)
Definition small (p : cdp) : Prop := N.of_nat (length (c_payload p)) <= 10000 /\ c_off p < 9223372036854775808.

(* x is the start of packet p's RDH, or the start of its j-th 80-bit word: slot j of the payload, slots of the size the header's
   data format prescribes, ten bytes of it lying inside the payload *)
Definition start_of (p : cdp) (x : N) : Prop :=
  x = c_off p \/
  exists j, x = c_off p + 64 + N.of_nat j * (10 + pad_of (c_rdh p)) /\
            (j * slot_of (c_payload p) + 10 <= length (c_payload p))%nat /\
            N.of_nat (slot_of (c_payload p)) = 10 + pad_of (c_rdh p).
Definition starts (ps : list cdp) (x : N) : Prop := exists p, In p ps /\ start_of p x.

Lemma start_inside p x : start_of p x -> inside_pkt p x.
Proof.
  unfold inside_pkt. intros [->|(j & -> & L & S)]; [lia|]. rewrite <- S. split; [lia|nia].
Qed.
Lemma starts_inside ps x : starts ps x -> inside ps x.
Proof. intros (p & Hp & H). exists p. split; [exact Hp|apply start_inside, H]. Qed.

Lemma slot_of_ge p ws : words_of p = Some ws -> (slot_of p = 10 \/ slot_of p = 16)%nat.
Proof.
  unfold words_of, slot_of, preprocess. destruct (Nat.ltb 15 (ff_run p)); [discriminate|].
  destruct (detect_fmt0 p); [right; reflexivity|]. destruct (Nat.ltb 9 (ff_run p)); left; reflexivity.
Qed.

Lemma words_len p ws : words_of p = Some ws -> (length ws * 10 <= length p)%nat.
Proof.
  intros H. destruct (Nat.eq_dec (length ws) 0) as [Z|Z]; [rewrite Z; lia|].
  assert (Hj : (length ws - 1 < length ws)%nat) by lia.
  destruct (words_of_nth p ws _ H Hj) as [_ L]. destruct (slot_of_ge p ws H) as [S|S]; rewrite S in L; lia.
Qed.

Lemma layout_slot p ws : layout_ok p -> words_of (c_payload p) = Some ws -> ws <> [] -> N.of_nat (slot_of (c_payload p)) = 10 + pad_of (c_rdh p).
Proof.
  unfold layout_ok, layout_rp, words_of, slot_of. destruct (preprocess (c_payload p)) as [|slot chunks]; [discriminate|].
  intros H E Hne. destruct chunks; [injection E as <-; congruence|exact H].
Qed.

(* ---------------------------------------------------------------- one packet *)
Section OnePass.
Context (c : vcfg).
Context (ps : list cdp).
Context (Hlay : Forall layout_ok ps).
Context (Hsmall : Forall small ps).

Definition located (m : vmsg) : Prop := match m with VErr e => starts ps (e_off e) | VStats _ => True end.

Lemma word_inside p j : In p ps -> (j * slot_of (c_payload p) + 10 <= length (c_payload p))%nat ->
  forall ws, words_of (c_payload p) = Some ws -> (j < length ws)%nat ->
  starts ps (wpos (c_off p + 64) (10 + pad_of (c_rdh p)) j).
Proof.
  intros Hp L ws Hw Hj. exists p. split; [exact Hp|]. right. exists j. unfold wpos.
  assert (Hl : layout_ok p) by (rewrite Forall_forall in Hlay; apply Hlay, Hp).
  assert (Hne : ws <> []) by (destruct ws; [cbn in Hj; lia|discriminate]).
  split; [reflexivity|]. split; [exact L|exact (layout_slot p ws Hl Hw Hne)].
Qed.

Lemma payload_located s p s' ms : In p ps ->
  do_payload_checks c s (c_rdh p) (c_payload p) (c_off p) = Ok (s', ms) ->
  (forall x, frame_start s = Some x -> starts ps x) ->
  Forall located ms /\ (forall x, frame_start s' = Some x -> starts ps x).
Proof.
  intros Hp H HQ.
  assert (Hs : small p) by (rewrite Forall_forall in Hsmall; apply Hsmall, Hp). destruct Hs as [Hs1 Hs2].
  destruct (words_of (c_payload p)) as [ws|] eqn:Hw.
  - pose proof (words_len _ _ Hw) as Hlen.
    destruct (c07_packet c (starts ps) s (c_rdh p) (c_payload p) (c_off p) s' ms ws H Hw) as [HF HQ'].
    + lia.
    + lia.
    + exact HQ.
    + intros j Hj. destruct (words_of_nth _ _ j Hw Hj) as [_ L]. exact (word_inside p j Hp L ws Hw Hj).
    + split; [|exact HQ']. rewrite Forall_forall in HF |- *. intros m Hm. destruct (HF m Hm) as (j & Hj & Hok).
      destruct m as [e|f]; [|exact I]. cbn in Hok |- *.
      destruct (words_of_nth _ _ j Hw Hj) as [_ L]. pose proof (word_inside p j Hp L ws Hw Hj) as HI.
      destruct (e_word e); [destruct Hok as [_ ->]; exact HI|]. destruct Hok as [->|Hok]; [exact HI|exact Hok].
  - unfold do_payload_checks in H. unfold words_of in Hw.
    destruct (set_current_rdh s (c_rdh p) (c_off p)) as [s1|q] eqn:E1; [|discriminate].
    destruct (set_current_rdh_ok _ _ _ _ E1) as (_ & _ & _ & F).
    destruct (preprocess (c_payload p)); [|discriminate]. injection H as <- <-. split.
    + constructor; [|constructor]. cbn. exists p. split; [exact Hp|]. left. reflexivity.
    + intros x Hx. apply HQ. rewrite <- F. exact Hx.
Qed.

Lemma link_step_cdp s p s' ms : link_step c s p = Ok (s', ms) ->
  lk_cdp s' = lk_cdp s \/ exists m, do_payload_checks c (lk_cdp s) (c_rdh p) (c_payload p) (c_off p) = Ok (lk_cdp s', m).
Proof.
  unfold link_step.
  destruct (rdh_sanity (lk_sanity s) (c_rdh p)) as [ss t10].
  destruct (if v_running c then let '(rs, t11) := running_check (lk_running s) (c_rdh p) in
                                 (rs, match t11 with [] => [] | _ => [rdh_err (c_off p) 11 t11] end)
            else (lk_running s, [])) as [rs m11].
  destruct (v_target c).
  - intros H. injection H as <- _. left. reflexivity.
  - destruct (c_payload p) eqn:Epl; [intros H; injection H as <- _; left; reflexivity|]. rewrite <- Epl.
    destruct (do_payload_checks c (lk_cdp s) (c_rdh p) (c_payload p) (c_off p)) as [[cs m]|q]; [|discriminate].
    intros H. injection H as <- _. right. exists m. reflexivity.
  - destruct (c_payload p) eqn:Epl; [intros H; injection H as <- _; left; reflexivity|]. rewrite <- Epl.
    destruct (do_payload_checks c (lk_cdp s) (c_rdh p) (c_payload p) (c_off p)) as [[cs m]|q]; [|discriminate].
    intros H. injection H as <- _. right. exists m. reflexivity.
Qed.

Lemma step_located s p s' ms : In p ps -> link_step c s p = Ok (s', ms) ->
  (forall x, frame_start (lk_cdp s) = Some x -> starts ps x) ->
  Forall located ms /\ (forall x, frame_start (lk_cdp s') = Some x -> starts ps x).
Proof.
  intros Hp H HQ.
  assert (Hat : starts ps (c_off p)) by (exists p; split; [exact Hp|left; reflexivity]).
  destruct (link_step_msgs c s p s' ms H) as (mr & mp & -> & Hr & Hpay).
  assert (Hmr : Forall located mr).
  { rewrite Forall_forall. intros m Hm. destruct (Hr m Hm) as (code & tags & _ & ->). exact Hat. }
  split.
  - apply Forall_app. split; [exact Hmr|]. destruct Hpay as [->|[cs Hcs]]; [constructor|].
    exact (proj1 (payload_located _ _ _ _ Hp Hcs HQ)).
  - destruct (link_step_cdp s p s' _ H) as [->|[m Hm]]; [exact HQ|].
    exact (proj2 (payload_located _ _ _ _ Hp Hm HQ)).
Qed.

Lemma run_located : forall qs s acc s' ms, (forall q, In q qs -> In q ps) ->
  link_run c s qs acc = Ok (s', ms) ->
  (forall x, frame_start (lk_cdp s) = Some x -> starts ps x) -> Forall located acc ->
  Forall located ms.
Proof.
  induction qs as [|q qs IH]; intros s acc s' ms Hsub H HQ Hacc; cbn [link_run] in H.
  - injection H as _ <-. exact Hacc.
  - destruct (link_step c s q) as [[s1 m]|site] eqn:E; [|discriminate].
    destruct (step_located s q s1 m (Hsub q (or_introl eq_refl)) E HQ) as [Hm HQ1].
    apply (IH s1 (acc ++ m) s' ms); [intros x Hx; apply Hsub; right; exact Hx|exact H|exact HQ1|].
    apply Forall_app. split; assumption.
Qed.
End OnePass.

Lemma frame_start_init c : frame_start (lk_cdp (link_init c)) = None.
Proof. unfold link_init, frame_start. cbn [lk_cdp]. unfold cdp_init. destruct (v_target c); reflexivity. Qed.

(* every message of one validator's pass is located at the start of the RDH or of an 80-bit word of one of the packets it was given *)
Theorem c07_validator_starts c ps ms : Forall layout_ok ps -> Forall small ps -> run_validator c ps = Ok ms ->
  forall e, In (VErr e) ms -> starts ps (e_off e).
Proof.
  intros Hl Hs H e He. unfold run_validator in H.
  destruct (link_run c (link_init c) ps []) as [[s' m]|site] eqn:E; [|discriminate]. injection H as <-.
  pose proof (run_located c ps Hl Hs ps (link_init c) [] s' m (fun q H => H) E) as HF.
  assert (HF' : Forall (located ps) m).
  { apply HF; [|constructor]. intros x Hx. rewrite frame_start_init in Hx. discriminate. }
  rewrite Forall_forall in HF'. exact (HF' (VErr e) He).
Qed.

Corollary c07_validator c ps ms : Forall layout_ok ps -> Forall small ps -> run_validator c ps = Ok ms ->
  forall e, In (VErr e) ms -> inside ps (e_off e).
Proof. intros Hl Hs H e He. apply starts_inside. exact (c07_validator_starts c ps ms Hl Hs H e He). Qed.
