(* C08: over the distinct values of the filter key the selections are a PARTITION of the input in the strong sense: the input packet
   sequence is an order-preserving merge (Interleave) of the selections -- nothing lost, duplicated, altered or reordered. *)
From Coq Require Import List NArith Lia Bool Arith.
From FP Require Import Proofs.Interleave.
Import ListNotations.
Open Scope N_scope.

Section Part.
Context {A : Type} (key : A -> N).

Definition sel (l : list A) (v : N) : list A := filter (fun x => key x =? v) l.

Lemma sel_nil_all ks : Forall (fun s : list A => s = []) (map (sel []) ks).
Proof. apply Forall_forall. intros s Hs. apply in_map_iff in Hs. destruct Hs as (v & <- & _). reflexivity. Qed.

Lemma sel_cons_at x l : forall ks i, NoDup ks -> nth_error ks i = Some (key x) ->
  nth_error (map (sel (x :: l)) ks) i = Some (x :: sel l (key x)) /\
  replace_nth i (sel l (key x)) (map (sel (x :: l)) ks) = map (sel l) ks.
Proof.
  induction ks as [|k ks IH]; intros [|i] Hnd Hn; cbn in Hn; try discriminate.
  - injection Hn as ->. inversion Hnd as [|? ? Hni Hnd']; subst. split.
    + cbn [map nth_error]. unfold sel at 1. cbn [filter]. rewrite N.eqb_refl. reflexivity.
    + cbn [map replace_nth]. f_equal. apply map_ext_in. intros v Hv. unfold sel. cbn [filter].
      destruct (N.eqb_spec (key x) v) as [E|_]; [subst; contradiction|reflexivity].
  - inversion Hnd as [|? ? Hni Hnd']; subst. destruct (IH i Hnd' Hn) as [H1 H2]. split.
    + cbn [map nth_error]. exact H1.
    + cbn [map replace_nth]. rewrite H2. f_equal. unfold sel. cbn [filter].
      destruct (N.eqb_spec (key x) k) as [E|_]; [|reflexivity].
      exfalso. apply Hni. rewrite <- E. exact (nth_error_In _ _ Hn).
Qed.

Theorem partition_interleave : forall (l : list A) ks, NoDup ks -> (forall x, In x l -> In (key x) ks) ->
  Interleave (map (sel l) ks) l.
Proof.
  induction l as [|x l IH]; intros ks Hnd Hin.
  - apply IL_nil. apply sel_nil_all.
  - destruct (In_nth_error ks (key x) (Hin x (or_introl eq_refl))) as [i Hi].
    destruct (sel_cons_at x l ks i Hnd Hi) as [H1 H2].
    eapply IL_cons; [exact H1|]. rewrite H2. apply IH; [exact Hnd|]. intros y Hy. apply Hin. right. exact Hy.
Qed.
End Part.
