(* C01, the ITS tier: every link the word-level grammar (Spec/GrammarIts.v) renders is accepted silently by
   `check sanity its` and `check all its`.  Word steps -> items -> pages -> heartbeat frames -> link. *)
From Coq Require Import List NArith ZArith Bool Lia ZifyBool ZifyN Arith.
From FP Require Import Model.Base Model.ItsWords Model.ItsFsm Model.Rdh Model.RdhChecks Model.Payload Model.Alpide
  Model.CdpRunning Model.Scanner Model.Link Spec.WordLayout Spec.Grammar Spec.GrammarIts
  Proofs.Bits Proofs.WordFacts Proofs.C11_proofs Proofs.C12_proofs Proofs.C12_packet Proofs.C01_rdh.
From FP Require Gen.Facts.
Import ListNotations.
Open Scope N_scope.

Definition its_cfg (running : bool) : vcfg :=
  {| v_running := running; v_target := T_its; v_period := None; v_custom_version := None; v_chip_count := None; v_chip_orders := None |}.

(* the part of the packet validator's state the ITS tier depends on *)
Definition St (s : cdp_state) (f : fstate) (r : rdh) (ihw tdh : option (list N)) : Prop :=
  cs_fsm s = f /\ cs_rdh s = Some r /\ cs_rfv s = None /\ sw_ihw (cs_words s) = ihw /\ sw_tdh (cs_words s) = tdh.

Lemma nb9_id w : word_ok w -> nb 9 w = id_of w.
Proof.
  intros H. unfold id_of. byte_field 72 9%nat 0. unfold field. pow_norm. rewrite N.div_1_r.
  symmetry. apply N.mod_small. apply (nb_lt w 9 H).
Qed.

(* finite facts about identifiers, by complete enumeration *)
Definition data_id_facts (id : N) : bool :=
  implb (valid_data_id id)
    (in_pat Gen.Facts.fsm_data_pat_data_by_wasdata id && in_pat Gen.Facts.fsm_data_pat_data_by_nodatafalse id &&
     in_pat Gen.Facts.fsm_data_pat_c_data_by_wasdata id && in_pat Gen.Facts.fsm_data_pat_c_data_by_next id &&
     negb (id =? Gen.Facts.cdw_id) && is_valid_any_id id).
Lemma data_id_facts_all : forall id, id < 256 -> data_id_facts id = true.
Proof. apply byte_forall. vm_compute. reflexivity. Qed.

Lemma tdt_not_data :
  in_pat Gen.Facts.fsm_data_pat_data_by_wasdata 240 = false /\ in_pat Gen.Facts.fsm_data_pat_data_by_nodatafalse 240 = false /\
  in_pat Gen.Facts.fsm_data_pat_c_data_by_wasdata 240 = false /\ in_pat Gen.Facts.fsm_data_pat_c_data_by_next 240 = false.
Proof. repeat split; reflexivity. Qed.

Definition is_data_state (f : fstate) : bool :=
  match f with S_DATA_ByNoDataFalse | S_DATA_ByWasData | S_cDATA_ByNext | S_cDATA_ByWasData => true | _ => false end.
Definition after_data (f : fstate) : fstate :=
  match f with S_cDATA_ByNext | S_cDATA_ByWasData => S_cDATA_ByWasData | _ => S_DATA_ByWasData end.
Definition is_choice_state (f : fstate) : bool :=
  match f with S_Choice_ByNoDataTrue | S_Choice_ByTdtDone => true | _ => false end.
Definition ihw_state (f : fstate) : bool :=
  match f with S_InitialIHW | S_IHW_ByDdw0 | S_Choice_ByNoDataTrue | S_Choice_ByTdtDone => true | _ => false end.

Ltac st_split := unfold St; cbn; repeat split; try assumption; try reflexivity.

(* ---- IHW at the head of a page ---- *)
Lemma step_ihw running s f r ihw tdh w : St s f r ihw tdh -> ihw_state f = true -> W_ihw w -> r_stop_bit r = 0 ->
  exists s', cdp_check (its_cfg running) s w = Ok (s', []) /\ St s' S_TDH_ByIhw r (Some w) tdh.
Proof.
  intros (Hf & Hr & Hv & Hi & Ht) Hst [Hw Hok] Hstop.
  assert (Hid : nb 9 w = 224) by (rewrite (nb9_id w Hw); apply Hok).
  assert (Hsan : ihw_sanity w = []) by (apply (c11_ihw w Hw); exact Hok).
  unfold cdp_check. cbn [cs_fsm set_counter]. rewrite Hf.
  assert (Hadv : advance f w = (S_TDH_ByIhw, F_ok P_IHW)).
  { unfold advance, advance_k. rewrite Hid. destruct f; try discriminate; reflexivity. }
  rewrite Hadv. unfold preprocess_ihw, sanity_msgs. rewrite Hsan. cbn [app].
  unfold check_rdh_at_initial_ihw, cur_rdh. cbn [cs_rdh set_words set_fsm set_counter]. rewrite Hr, Hstop.
  cbn [N.eqb negb]. destruct running; cbn [v_running its_cfg]; eexists; (split; [reflexivity|]); st_split.
Qed.

Lemma step_ihw_cont running s r ihw tdh w : St s S_cIHW r ihw tdh -> W_ihw w ->
  exists s', cdp_check (its_cfg running) s w = Ok (s', []) /\ St s' S_cTDH r (Some w) tdh.
Proof.
  intros (Hf & Hr & Hv & Hi & Ht) [Hw Hok].
  assert (Hsan : ihw_sanity w = []) by (apply (c11_ihw w Hw); exact Hok).
  unfold cdp_check. cbn [cs_fsm set_counter]. rewrite Hf.
  change (advance S_cIHW w) with (S_cTDH, F_ok P_IHW_cont).
  unfold preprocess_ihw, sanity_msgs. rewrite Hsan. eexists; (split; [reflexivity|]); st_split.
Qed.

(* ---- TDH ---- *)
Lemma tdh_word_facts w : W_tdh w ->
  nb 9 w = 232 /\ tdh_sanity w = [] /\ sl_tdh_no_data w = (tdh_f_nodata w =? 1) /\
  tdh_continuation w = tdh_f_cont w /\ tdh_orbit w = tdh_f_orbit w /\ tdh_trigger_bc w = tdh_f_bc w /\
  tdh_trigger_type w = tdh_f_type w /\ tdh_internal_trigger w = tdh_f_internal w.
Proof.
  intros [Hw Hok]. split; [rewrite (nb9_id w Hw); apply Hok|]. split; [apply (c11_tdh w Hw); exact Hok|].
  split; [apply sl_tdh_no_data_spec; assumption|]. split; [apply tdh_continuation_spec; assumption|].
  split; [apply tdh_orbit_spec; assumption|]. split; [apply tdh_trigger_bc_spec; assumption|].
  split; [apply tdh_trigger_type_spec; assumption|apply tdh_internal_trigger_spec; assumption].
Qed.

Definition after_tdh (nodata : N) : fstate := if nodata =? 1 then S_Choice_ByNoDataTrue else S_DATA_ByNoDataFalse.

Lemma pht_bit x : (N.land (N.shiftr x 4) 1 =? 1) = N.testbit x 4.
Proof.
  change 1 with (N.ones 1) at 1. rewrite N.land_ones. change (2 ^ 1) with 2.
  rewrite <- N.bit0_mod, N.shiftr_spec'. change (0 + 4) with 4. destruct (N.testbit x 4); reflexivity.
Qed.

(* the first TDH of a page (after the IHW) *)
Lemma step_tdh_first running s r ihw tdh w nodata :
  St s S_TDH_ByIhw r ihw tdh -> W_tdh w -> (nodata = 0 \/ nodata = 1) ->
  tdh_f_cont w = 0 -> tdh_f_nodata w = nodata -> tdh_f_orbit w = r_orbit r ->
  (r_pages_counter r = 0 -> (tdh_f_internal w = 1 \/ N.testbit (r_trigger_type r) 4 = true) ->
     tdh_f_bc w = rdh_bc r /\ tdh_f_type w = N.land (r_trigger_type r) 4095) ->
  exists s', cdp_check (its_cfg running) s w = Ok (s', []) /\ St s' (after_tdh nodata) r ihw (Some w).
Proof.
  intros (Hf & Hr & Hv & Hi & Ht) Hw Hnd Hc Hn Ho Hfirst.
  destruct (tdh_word_facts w Hw) as (Hid & Hsan & Hsl & Hcont & Horb & Hbc & Hty & Hint).
  unfold cdp_check. cbn [cs_fsm set_counter]. rewrite Hf.
  assert (Hadv : advance S_TDH_ByIhw w = (after_tdh nodata, F_ok P_TDH)).
  { unfold advance, advance_k, after_tdh. rewrite Hsl, Hn. destruct Hnd as [-> | ->]; reflexivity. }
  rewrite Hadv. unfold preprocess_tdh, sanity_msgs. rewrite Hsan. cbn [set_fsm set_words cs_rfv set_counter]. rewrite Hv.
  cbn [app]. destruct running; cbn [v_running its_cfg].
  2:{ eexists. split; [reflexivity|]. st_split. }
  unfold check_tdh_no_continuation, check_tdh_trigger_interval, cur_rdh.
  cbn [cs_rdh cs_words set_words set_fsm set_counter v_period its_cfg]. rewrite Hr.
  rewrite Hcont, Hc, Horb, Ho, !N.eqb_refl. cbn [N.eqb negb app].
  destruct (N.eqb_spec (r_pages_counter r) 0) as [Hp|Hp]; cbn [andb].
  2:{ eexists. split; [reflexivity|]. st_split. }
  destruct ((tdh_internal_trigger w =? 1) || rdh_is_pht r) eqn:Hcond.
  2:{ eexists. split; [reflexivity|]. st_split. }
  assert (Hpre : tdh_f_internal w = 1 \/ N.testbit (r_trigger_type r) 4 = true).
  { apply orb_true_iff in Hcond. destruct Hcond as [Hc1|Hc1]; [left; apply N.eqb_eq in Hc1; rewrite <- Hint; exact Hc1|right].
    unfold rdh_is_pht in Hc1. rewrite pht_bit in Hc1. exact Hc1. }
  destruct (Hfirst Hp Hpre) as [Hb Htt]. rewrite Hbc, Hb, Hty, Htt, !N.eqb_refl. cbn [negb app].
  eexists. split; [reflexivity|]. st_split.
Qed.

(* a TDH that follows a completed trigger packet (or a no-data TDH) on the same page *)
Lemma step_tdh_after running s f r ihw prev w nodata :
  St s f r ihw (Some prev) -> is_choice_state f = true -> W_tdh w -> W_tdh prev -> (nodata = 0 \/ nodata = 1) ->
  tdh_f_cont w = 0 -> tdh_f_nodata w = nodata -> tdh_f_bc prev <= tdh_f_bc w ->
  exists s', cdp_check (its_cfg running) s w = Ok (s', []) /\ St s' (after_tdh nodata) r ihw (Some w).
Proof.
  intros (Hf & Hr & Hv & Hi & Ht) Hst Hw Hpw Hnd Hc Hn Hle.
  destruct (tdh_word_facts w Hw) as (Hid & Hsan & Hsl & Hcont & Horb & Hbc & Hty & Hint).
  destruct (tdh_word_facts prev Hpw) as (_ & _ & _ & _ & _ & Hbcp & _ & _).
  unfold cdp_check. cbn [cs_fsm set_counter]. rewrite Hf.
  assert (Hadv : advance f w = (after_tdh nodata, F_ok P_TDH_after_done)).
  { unfold advance, advance_k, choice_arm, after_tdh. rewrite Hid, Hsl, Hn.
    destruct f; try discriminate; destruct Hnd as [-> | ->]; reflexivity. }
  rewrite Hadv. unfold preprocess_tdh, sanity_msgs. rewrite Hsan. cbn [set_fsm set_words cs_rfv set_counter]. rewrite Hv.
  cbn [app]. destruct running; cbn [v_running its_cfg].
  2:{ eexists. split; [reflexivity|]. st_split. }
  unfold check_tdh_after_done, check_tdh_trigger_interval.
  cbn [cs_rdh cs_words set_words set_fsm set_counter v_period its_cfg replace_tdh sw_prev_tdh]. rewrite Ht.
  rewrite Hcont, Hc. cbn [N.eqb negb andb app].
  rewrite Hbc, Hbcp. assert (Hlt : (tdh_f_bc w <? tdh_f_bc prev) = false) by (apply N.ltb_ge; exact Hle). rewrite Hlt.
  rewrite andb_false_r. cbn [app].
  eexists. split; [reflexivity|]. st_split.
Qed.

(* the TDH that carries a trigger packet on after a page break *)
Lemma step_tdh_cont running s r ihw prev w :
  St s S_cTDH r ihw (Some prev) -> W_tdh w -> W_tdh prev ->
  tdh_f_cont w = 1 -> tdh_f_bc w = tdh_f_bc prev -> tdh_f_orbit w = tdh_f_orbit prev -> tdh_f_type w = tdh_f_type prev ->
  exists s', cdp_check (its_cfg running) s w = Ok (s', []) /\ St s' S_cDATA_ByNext r ihw (Some w).
Proof.
  intros (Hf & Hr & Hv & Hi & Ht) Hw Hpw Hc Hb Ho Hty'.
  destruct (tdh_word_facts w Hw) as (Hid & Hsan & Hsl & Hcont & Horb & Hbc & Hty & Hint).
  destruct (tdh_word_facts prev Hpw) as (_ & _ & _ & _ & Horbp & Hbcp & Htyp & _).
  unfold cdp_check. cbn [cs_fsm set_counter]. rewrite Hf.
  change (advance S_cTDH w) with (S_cDATA_ByNext, F_ok P_TDH_cont).
  unfold preprocess_tdh, sanity_msgs. rewrite Hsan. cbn [set_fsm set_words cs_rfv set_counter]. rewrite Hv.
  cbn [app]. destruct running; cbn [v_running its_cfg].
  2:{ eexists. split; [reflexivity|]. st_split. }
  unfold check_tdh_continuation. cbn [cs_words set_words set_fsm set_counter replace_tdh sw_prev_tdh]. rewrite Ht.
  rewrite Hcont, Hc, Hbc, Hbcp, Hb, Horb, Horbp, Ho, Hty, Htyp, Hty', !N.eqb_refl. cbn [negb app].
  eexists. split; [reflexivity|]. st_split.
Qed.

(* ---- data words ---- *)
Lemma step_data running s f r ihw tdh w :
  St s f r (Some ihw) tdh -> is_data_state f = true -> W_ihw ihw -> W_data (ihw_f_lanes ihw) w ->
  exists s', cdp_check (its_cfg running) s w = Ok (s', []) /\ St s' (after_data f) r (Some ihw) tdh.
Proof.
  intros (Hf & Hr & Hv & Hi & Ht) Hst [Hiw _] [Hw Hverd].
  assert (Hid9 : nb 9 w = id_of w) by (apply nb9_id; exact Hw).
  assert (Hvalid : valid_data_id (nb 9 w) = true).
  { rewrite Hid9. unfold data_word_verdict in Hverd. destruct (valid_data_id (id_of w)); [reflexivity|discriminate]. }
  pose proof (data_id_facts_all (nb 9 w) (nb_lt w 9 Hw)) as Hfacts. unfold data_id_facts in Hfacts. rewrite Hvalid in Hfacts.
  cbn [implb] in Hfacts. rewrite !andb_true_iff in Hfacts. destruct Hfacts as (((((P1 & P2) & P3) & P4) & Pc) & Pv).
  unfold cdp_check. cbn [cs_fsm set_counter]. rewrite Hf.
  assert (Hadv : advance f w = (after_data f, F_ok P_Data)).
  { unfold advance, advance_k, data_arm. destruct f; try discriminate; cbn [after_data]; rewrite ?P1, ?P2, ?P3, ?P4; reflexivity. }
  rewrite Hadv. unfold preprocess_data_word.
  apply negb_true_iff in Pc. rewrite Pc, andb_false_r. rewrite Pv.
  assert (Hcodes : data_word_codes true w (ihw_active_lanes ihw) = []).
  { rewrite (c11_data_valid true w _ Hw Hvalid). rewrite (ihw_active_lanes_spec ihw Hiw). rewrite Hid9. exact Hverd. }
  unfold data_word_codes in Hcodes. rewrite Pv in Hcodes. cbn [app negb] in Hcodes.
  unfold store_data, active_lanes_of. cbn [cs_rfv cs_words set_fsm set_counter]. rewrite Hv, Hi.
  destruct running; cbn [v_running its_cfg negb orb].
  2:{ eexists. split; [reflexivity|]. st_split. }
  destruct (N.shiftr (nb 9 w) 5 =? 1) eqn:E1.
  - cbn [orb negb]. destruct (is_lane_active (ib_id_to_lane (nb 9 w)) (ihw_active_lanes ihw)); [|discriminate].
    eexists. split; [reflexivity|]. st_split.
  - destruct (N.shiftr (nb 9 w) 5 =? 2) eqn:E2; cbn [orb negb].
    + destruct (is_lane_active (ob_id_to_lane (nb 9 w)) (ihw_active_lanes ihw)); [|discriminate].
      destruct (6 <? ob_id_to_input (nb 9 w)); [discriminate|]. eexists. split; [reflexivity|]. st_split.
    + eexists. split; [reflexivity|]. st_split.
Qed.

(* ---- TDT ---- *)
Definition after_tdt (d : N) : fstate := if d =? 1 then S_Choice_ByTdtDone else S_cIHW.

Lemma step_tdt running s f r ihw tdh w d :
  St s f r ihw tdh -> is_data_state f = true -> W_tdt w -> (d = 0 \/ d = 1) -> tdt_f_done w = d ->
  exists s', cdp_check (its_cfg running) s w = Ok (s', []) /\ St s' (after_tdt d) r ihw tdh.
Proof.
  intros (Hf & Hr & Hv & Hi & Ht) Hst [Hw Hok] Hd Hdone.
  assert (Hid : nb 9 w = 240) by (rewrite (nb9_id w Hw); apply Hok).
  assert (Hsan : tdt_sanity w = []) by (apply (c11_tdt w Hw); exact Hok).
  assert (Hsl : sl_tdt_packet_done w = (d =? 1)) by (rewrite (sl_tdt_packet_done_spec w Hw); unfold tdt_f_done in Hdone; rewrite Hdone; reflexivity).
  destruct tdt_not_data as (Q1 & Q2 & Q3 & Q4).
  unfold cdp_check. cbn [cs_fsm set_counter]. rewrite Hf.
  assert (Hadv : advance f w = (after_tdt d, F_ok P_TDT)).
  { unfold advance, advance_k, data_arm, after_tdt. rewrite Hid, Hsl.
    destruct f; try discriminate; rewrite ?Q1, ?Q2, ?Q3, ?Q4; destruct Hd as [-> | ->]; reflexivity. }
  rewrite Hadv. unfold preprocess_tdt, sanity_msgs. rewrite Hsan. cbn [set_fsm set_words cs_rfv set_counter]. rewrite Hv.
  eexists. split; [reflexivity|]. st_split.
Qed.

(* ---- DDW0 on the stop page ---- *)
Lemma step_ddw0 running s f r ihw tdh w :
  St s f r ihw tdh -> is_choice_state f = true -> W_ddw0 w -> r_stop_bit r = 1 -> r_pages_counter r <> 0 ->
  exists s', cdp_check (its_cfg running) s w = Ok (s', []) /\ St s' S_IHW_ByDdw0 r ihw tdh.
Proof.
  intros (Hf & Hr & Hv & Hi & Ht) Hst [Hw Hok] Hstop Hpg.
  assert (Hid : nb 9 w = 228) by (rewrite (nb9_id w Hw); apply Hok).
  assert (Hsan : ddw0_sanity w = []) by (apply (c11_ddw0 w Hw); exact Hok).
  unfold cdp_check. cbn [cs_fsm set_counter]. rewrite Hf.
  assert (Hadv : advance f w = (S_IHW_ByDdw0, F_ok P_DDW0)).
  { unfold advance, advance_k, choice_arm. rewrite Hid. destruct f; try discriminate; reflexivity. }
  rewrite Hadv. unfold preprocess_ddw0, sanity_msgs, cur_rdh. rewrite Hsan. cbn [cs_rdh set_fsm set_counter]. rewrite Hr, Hstop.
  apply N.eqb_neq in Hpg. rewrite Hpg. cbn [N.eqb negb app].
  destruct running; cbn [v_running its_cfg]; eexists; (split; [reflexivity|]); st_split.
Qed.

(* ---- runs of words ---- *)
Lemma run_data running : forall d s f r ihw tdh acc,
  St s f r (Some ihw) tdh -> is_data_state f = true -> W_ihw ihw -> Forall (W_data (ihw_f_lanes ihw)) d ->
  forall rest, exists s' f', cdp_words (its_cfg running) s (d ++ rest) acc = cdp_words (its_cfg running) s' rest acc /\
                             St s' f' r (Some ihw) tdh /\ is_data_state f' = true.
Proof.
  induction d as [|w d IH]; intros s f r ihw tdh acc Hs Hf Hi Hd rest.
  - exists s, f. cbn. auto.
  - inversion Hd as [|? ? Hw Hd']; subst.
    destruct (step_data running s f r ihw tdh w Hs Hf Hi Hw) as [s1 [E1 S1]].
    cbn [app cdp_words]. rewrite E1, app_nil_r.
    assert (Hf1 : is_data_state (after_data f) = true) by (destruct f; try discriminate; reflexivity).
    destruct (IH s1 (after_data f) r ihw tdh acc S1 Hf1 Hi Hd' rest) as [s2 [f2 [E2 [S2 F2]]]].
    exists s2, f2. auto.
Qed.

(* ---- the items of one page ---- *)
Section Items.
  Context (running : bool) (h : hbf_desc) (r : rdh) (ihw : list N).
  Context (Hihw : W_ihw ihw) (Horb : r_orbit r = h_orbit h) (Hbc : rdh_bc r = h_bc h) (Htrig : r_trigger_type r = h_trigger h).

  (* where the validator stands before an item *)
  Definition entry (prev opened : option (list N)) (s : cdp_state) : Prop :=
    match opened, prev with
    | Some o, _ => St s S_cTDH r (Some ihw) (Some o) /\ W_tdh o
    | None, Some p => exists f, is_choice_state f = true /\ St s f r (Some ihw) (Some p) /\ W_tdh p
    | None, None => exists t, St s S_TDH_ByIhw r (Some ihw) t
    end.
  (* ... and after the last item of the page *)
  Definition leave (out : option (list N)) (s : cdp_state) : Prop :=
    match out with
    | Some t => St s S_cIHW r (Some ihw) (Some t) /\ W_tdh t
    | None => exists f p, is_choice_state f = true /\ St s f r (Some ihw) (Some p) /\ W_tdh p
    end.

  Lemma start_tdh first prev nodata t s : (nodata = 0 \/ nodata = 1) ->
    tdh_start_ok h first nodata t -> (forall p, prev = Some p -> tdh_f_bc p <= tdh_f_bc t) ->
    (prev = None -> r_pages_counter r = 0 -> first = true) -> entry prev None s ->
    exists s', cdp_check (its_cfg running) s t = Ok (s', []) /\ St s' (after_tdh nodata) r (Some ihw) (Some t).
  Proof.
    intros Hnd Ht Hle Hfirst He. destruct Ht as (Hw & Hc & Hn & Ho & Hf). unfold entry in He. destruct prev as [p|].
    - destruct He as (f & Hch & Hs & Hp). apply (step_tdh_after running s f r (Some ihw) p t nodata); auto.
    - destruct He as (t0 & Hs). apply (step_tdh_first running s r (Some ihw) t0 t nodata); auto.
      + rewrite Horb. exact Ho.
      + intros Hp Hcond. rewrite Hbc, Htrig. apply Hf; [apply Hfirst; auto|]. rewrite <- Htrig. exact Hcond.
  Qed.

  Lemma piece_tail s f tdh d e dn : St s f r (Some ihw) tdh -> is_data_state f = true ->
    Forall (W_data (ihw_f_lanes ihw)) d -> (dn = 0 \/ dn = 1) -> tdt_ok_done dn e ->
    forall acc rest, exists s', cdp_words (its_cfg running) s ((d ++ [e]) ++ rest) acc = cdp_words (its_cfg running) s' rest acc /\
                                St s' (after_tdt dn) r (Some ihw) tdh.
  Proof.
    intros Hs Hf Hd Hdn He acc rest. destruct He as [Hw Hdone]. rewrite <- app_assoc.
    destruct (run_data running d s f r ihw tdh acc Hs Hf Hihw Hd ([e] ++ rest)) as [s1 [f1 [E1 [S1 F1]]]].
    rewrite E1. destruct (step_tdt running s1 f1 r (Some ihw) tdh e dn S1 F1 Hw Hdn Hdone) as [s2 [E2 S2]].
    cbn [app cdp_words]. rewrite E2, app_nil_r. exists s2. auto.
  Qed.

  Lemma run_items : forall first prev opened items out,
    items_ok h (ihw_f_lanes ihw) first prev opened items out ->
    forall s acc rest, (prev = None -> opened = None -> r_pages_counter r = 0 -> first = true) -> entry prev opened s -> items <> [] ->
    exists s', cdp_words (its_cfg running) s (flat_map item_words items ++ rest) acc = cdp_words (its_cfg running) s' rest acc /\ leave out s'.
  Proof.
    intros first prev opened items out H.
    induction H as [first prev
                   |first prev t rr out Ht Hle Hr IH
                   |first prev t d e rr out Ht Hle Hd He Hr IH
                   |first prev t d e Ht Hle Hd He
                   |o t d e Ht Hd He
                   |o t d e rr out Ht Hd He Hr IH]; intros s acc rest Hfirst Hen Hne.
    - contradiction.
    - (* no-data TDH *)
      destruct (start_tdh first prev 1 t s (or_intror eq_refl) Ht Hle (fun P => Hfirst P eq_refl) Hen) as [s1 [E1 S1]].
      cbn [flat_map item_words app cdp_words]. rewrite E1, app_nil_r.
      assert (En : entry (Some t) None s1) by (cbn [entry]; exists S_Choice_ByNoDataTrue; split; [reflexivity|split; [exact S1|apply Ht]]).
      destruct rr as [|i rr].
      + inversion Hr; subst. exists s1. split; [reflexivity|]. cbn [leave]. exists S_Choice_ByNoDataTrue, t. split; [reflexivity|split; [exact S1|apply Ht]].
      + apply IH; [intros X; discriminate|exact En|discriminate].
    - (* a whole trigger packet *)
      destruct (start_tdh first prev 0 t s (or_introl eq_refl) Ht Hle (fun P => Hfirst P eq_refl) Hen) as [s1 [E1 S1]].
      cbn [flat_map item_words]. rewrite <- app_assoc. cbn [app cdp_words]. rewrite E1, app_nil_r.
      destruct (piece_tail s1 _ _ d e 1 S1 eq_refl Hd (or_intror eq_refl) He acc (flat_map item_words rr ++ rest)) as [s2 [E2 S2]].
      rewrite E2.
      assert (En : entry (Some t) None s2) by (cbn [entry]; exists S_Choice_ByTdtDone; split; [reflexivity|split; [exact S2|apply Ht]]).
      destruct rr as [|i rr].
      + inversion Hr; subst. exists s2. split; [reflexivity|]. cbn [leave]. exists S_Choice_ByTdtDone, t. split; [reflexivity|split; [exact S2|apply Ht]].
      + apply IH; [intros X; discriminate|exact En|discriminate].
    - (* a packet left open at the end of the page *)
      destruct (start_tdh first prev 0 t s (or_introl eq_refl) Ht Hle (fun P => Hfirst P eq_refl) Hen) as [s1 [E1 S1]].
      cbn [flat_map item_words app]. rewrite app_nil_r. cbn [app cdp_words]. rewrite E1, app_nil_r.
      destruct (piece_tail s1 _ _ d e 0 S1 eq_refl Hd (or_introl eq_refl) He acc rest) as [s2 [E2 S2]].
      rewrite E2. exists s2. split; [reflexivity|]. split; [exact S2|apply Ht].
    - (* a middle piece *)
      destruct Hen as [Hs Ho]. destruct Ht as (Hw & Hc & Hn & Hb & Hob & Hty).
      destruct (step_tdh_cont running s r (Some ihw) o t Hs Hw Ho Hc Hb Hob Hty) as [s1 [E1 S1]].
      cbn [flat_map item_words app]. rewrite app_nil_r. cbn [app cdp_words]. rewrite E1, app_nil_r.
      destruct (piece_tail s1 _ _ d e 0 S1 eq_refl Hd (or_introl eq_refl) He acc rest) as [s2 [E2 S2]].
      rewrite E2. exists s2. split; [reflexivity|]. split; [exact S2|exact Hw].
    - (* the last piece, possibly followed by further packets *)
      destruct Hen as [Hs Ho]. destruct Ht as (Hw & Hc & Hn & Hb & Hob & Hty).
      destruct (step_tdh_cont running s r (Some ihw) o t Hs Hw Ho Hc Hb Hob Hty) as [s1 [E1 S1]].
      cbn [flat_map item_words]. rewrite <- app_assoc. cbn [app cdp_words]. rewrite E1, app_nil_r.
      destruct (piece_tail s1 _ _ d e 1 S1 eq_refl Hd (or_intror eq_refl) He acc (flat_map item_words rr ++ rest)) as [s2 [E2 S2]].
      rewrite E2.
      assert (En : entry (Some t) None s2) by (cbn [entry]; exists S_Choice_ByTdtDone; split; [reflexivity|split; [exact S2|exact Hw]]).
      destruct rr as [|i rr].
      + inversion Hr; subst. exists s2. split; [reflexivity|]. cbn [leave]. exists S_Choice_ByTdtDone, t. split; [reflexivity|split; [exact S2|exact Hw]].
      + apply IH; [intros X; discriminate|exact En|discriminate].
  Qed.
End Items.

(* ---- words of a page and their byte layout ---- *)
Definition gw (w : list N) : Prop := word_ok w /\ nb 9 w <> 255.

Lemma gw_ihw w : W_ihw w -> gw w.
Proof. intros [Hw Hok]. split; [exact Hw|]. rewrite (nb9_id w Hw). destruct Hok as [-> _]. discriminate. Qed.
Lemma gw_tdh w : W_tdh w -> gw w.
Proof. intros [Hw Hok]. split; [exact Hw|]. rewrite (nb9_id w Hw). destruct Hok as [-> _]. discriminate. Qed.
Lemma gw_tdt w : W_tdt w -> gw w.
Proof. intros [Hw Hok]. split; [exact Hw|]. rewrite (nb9_id w Hw). destruct Hok as [-> _]. discriminate. Qed.
Lemma gw_ddw0 w : W_ddw0 w -> gw w.
Proof. intros [Hw Hok]. split; [exact Hw|]. rewrite (nb9_id w Hw). destruct Hok as [-> _]. discriminate. Qed.
Lemma gw_data lanes w : W_data lanes w -> gw w.
Proof.
  intros [Hw Hv]. split; [exact Hw|]. rewrite (nb9_id w Hw). intros E. rewrite E in Hv. vm_compute in Hv. discriminate.
Qed.

Lemma piece_gw lanes t d e : W_tdh t -> Forall (W_data lanes) d -> W_tdt e -> Forall gw (t :: d ++ [e]).
Proof.
  intros Ht Hd He. constructor; [apply gw_tdh; exact Ht|]. apply Forall_app. split.
  - eapply Forall_impl; [|exact Hd]. intros a Ha. eapply gw_data. exact Ha.
  - constructor; [apply gw_tdt; exact He|constructor].
Qed.

Lemma items_gw h lanes first prev opened items out : items_ok h lanes first prev opened items out ->
  Forall gw (flat_map item_words items).
Proof.
  induction 1 as [first prev
                 |first prev t rr out Ht Hle Hr IH
                 |first prev t d e rr out Ht Hle Hd He Hr IH
                 |first prev t d e Ht Hle Hd He
                 |o t d e Ht Hd He
                 |o t d e rr out Ht Hd He Hr IH]; cbn [flat_map item_words].
  - constructor.
  - constructor; [apply gw_tdh; apply Ht|exact IH].
  - apply Forall_app. split; [|exact IH]. apply (piece_gw lanes); [apply Ht|exact Hd|apply He].
  - rewrite app_nil_r. apply (piece_gw lanes); [apply Ht|exact Hd|apply He].
  - rewrite app_nil_r. apply (piece_gw lanes); [apply Ht|exact Hd|apply He].
  - apply Forall_app. split; [|exact IH]. apply (piece_gw lanes); [apply Ht|exact Hd|apply He].
Qed.

Lemma items_head_tdh h lanes first prev opened i items out : items_ok h lanes first prev opened (i :: items) out ->
  W_tdh (item_tdh i) /\ exists tl, item_words i = item_tdh i :: tl.
Proof.
  intros H. inversion H; subst; cbn [item_tdh item_words];
    (split; [match goal with X : tdh_start_ok _ _ _ _ |- _ => apply X | X : tdh_cont_ok _ _ |- _ => apply X end|eexists; reflexivity]).
Qed.

Lemma gw_word10 ws : Forall gw ws -> Forall word10 ws.
Proof. intros H. eapply Forall_impl; [|exact H]. intros a [[Hl _] _]. exact Hl. Qed.

Lemma last_not_ff_words ws : Forall gw ws -> ws <> [] -> last_not_ff (concat ws).
Proof.
  intros H Hne. destruct (exists_last Hne) as (ws' & w & ->).
  apply Forall_app in H. destruct H as [_ Hw]. inversion Hw as [|? ? [[Hl Hb] H9] _]; subst.
  unfold last_not_ff. rewrite concat_app. cbn [concat]. rewrite app_nil_r, rev_app_distr.
  destruct w as [|b0 [|b1 [|b2 [|b3 [|b4 [|b5 [|b6 [|b7 [|b8 [|b9 [|]]]]]]]]]]]; try discriminate Hl.
  cbn. unfold nb in H9. cbn in H9. exact H9.
Qed.

(* a TDH never starts with six zero bytes: the payload of a format-2 page is not mistaken for 16-byte slots *)
Lemma tdh_not_six_zeros t tail : W_tdh t -> Nat.eqb (take_while_zero (take 6 (t ++ tail))) 6 = false.
Proof.
  intros [Hw Hok]. destruct Hok as (_ & _ & Hrule).
  pose proof (tdh_trigger_type_spec t Hw) as Hty. pose proof (tdh_internal_trigger_spec t Hw) as Hin.
  word_destruct Hw. cbn [app take take_while_zero].
  destruct (N.eqb_spec b0 0) as [E0|E0]; [|reflexivity]. destruct (N.eqb_spec b1 0) as [E1|E1]; [|reflexivity].
  exfalso. apply Hrule. subst b0 b1. rewrite <- Hty, <- Hin. split; reflexivity.
Qed.

(* the words the checker is handed for a rendered page are the page's words *)
Lemma layout_words fmt ws pad second tl : (fmt = 0 \/ fmt = 2) -> Forall gw ws -> (pad <= 15)%nat ->
  ws = hd [] ws :: second :: tl -> W_tdh second ->
  words_of (layout fmt ws pad) = Some ws.
Proof.
  intros Hfmt Hg Hpad Hshape Hsec. pose proof (gw_word10 ws Hg) as H10.
  assert (Hne : ws <> []) by (rewrite Hshape; discriminate).
  unfold layout. destruct Hfmt as [-> | ->]; cbn [N.eqb].
  - exact (proj1 (c12_fmt0 ws pad H10 Hne Hpad)).
  - refine (proj1 (c12_fmt2 ws pad H10 Hpad (last_not_ff_words ws Hg Hne) _)).
    unfold detect_fmt0. rewrite Hshape. cbn [concat].
    assert (L : length (hd [] ws) = 10%nat).
    { rewrite Hshape in H10. inversion H10; subst. cbn [hd]. assumption. }
    rewrite <- app_assoc. rewrite <- L at 1. rewrite drop_app_exact. rewrite <- app_assoc.
    apply tdh_not_six_zeros. exact Hsec.
Qed.

Lemma layout_stop_words fmt w pad : (fmt = 0 \/ fmt = 2) -> W_ddw0 w -> (pad <= 15)%nat ->
  words_of (layout fmt [w] pad) = Some [w].
Proof.
  intros Hfmt Hw Hpad. pose proof (gw_ddw0 w Hw) as Hg.
  assert (Hgs : Forall gw [w]) by (constructor; [exact Hg|constructor]).
  pose proof (gw_word10 [w] Hgs) as H10.
  unfold layout. destruct Hfmt as [-> | ->]; cbn [N.eqb].
  - exact (proj1 (c12_fmt0 [w] pad H10 ltac:(discriminate) Hpad)).
  - refine (proj1 (c12_fmt2 [w] pad H10 Hpad (last_not_ff_words [w] Hgs ltac:(discriminate)) _)).
    unfold detect_fmt0. cbn [concat]. rewrite app_nil_r.
    assert (L : length w = 10%nat) by (destruct Hg as [[L _] _]; exact L).
    rewrite <- L at 1. rewrite drop_app_exact.
    destruct pad as [|pad]; [reflexivity|]. cbn [repeat take take_while_zero N.eqb]. reflexivity.
Qed.

(* ---- pages ---- *)
Definition PEntry (opened : option (list N)) (s : cdp_state) : Prop :=
  cs_rfv s = None /\
  match opened with
  | None => ihw_state (cs_fsm s) = true
  | Some o => cs_fsm s = S_cIHW /\ sw_tdh (cs_words s) = Some o /\ W_tdh o
  end.
Definition PExit (out : option (list N)) (s : cdp_state) : Prop :=
  cs_rfv s = None /\
  match out with
  | None => is_choice_state (cs_fsm s) = true
  | Some o => cs_fsm s = S_cIHW /\ sw_tdh (cs_words s) = Some o /\ W_tdh o
  end.
Lemma pexit_entry out s : PExit out s -> PEntry out s.
Proof. intros [H1 H2]. split; [exact H1|]. destruct out; [exact H2|]. destruct (cs_fsm s); try discriminate; reflexivity. Qed.

Lemma set_rdh_its s r pos : cs_rfv s = None ->
  exists s1, set_current_rdh s r pos = Ok s1 /\ cs_fsm s1 = cs_fsm s /\ cs_rdh s1 = Some r /\ cs_rfv s1 = None /\ cs_words s1 = cs_words s.
Proof. intros H. unfold set_current_rdh. rewrite H. eexists. split; [reflexivity|]. cbn. auto. Qed.

Lemma rdh_bc_rendered ld h k stop pg : h_bc h < 4096 -> rdh_bc (render_rdh ld h k stop pg) = h_bc h.
Proof.
  intros H. unfold rdh_bc. cbn [render_rdh r_bc_reserved0]. rewrite (small_land _ H). unfold wrap16. apply N.mod_small. lia.
Qed.

Lemma run_its_data_page running ld h k pg ip first opened out s pos :
  (l_format ld = 0 \/ l_format ld = 2) -> h_bc h < 4096 ->
  W_ihw (ip_ihw ip) -> ip_items ip <> [] -> (ip_pad ip <= 15)%nat ->
  items_ok h (ihw_f_lanes (ip_ihw ip)) first None opened (ip_items ip) out ->
  pg_payload pg = layout (l_format ld) (page_words ip) (ip_pad ip) ->
  (k = 0 -> first = true) -> PEntry opened s ->
  exists s', do_payload_checks (its_cfg running) s (render_rdh ld h k 0 pg) (pg_payload pg) pos = Ok (s', []) /\ PExit out s'.
Proof.
  intros Hfmt Hbc Hihw Hne Hpad Hitems Hpl Hk [Hrfv Hen].
  set (r := render_rdh ld h k 0 pg).
  destruct (set_rdh_its s r pos Hrfv) as (s1 & E1 & F1 & R1 & V1 & W1).
  (* the words *)
  destruct (ip_items ip) as [|i items] eqn:Eit; [contradiction|].
  destruct (items_head_tdh _ _ _ _ _ _ _ _ Hitems) as [Htdh [tl Etl]].
  assert (Hgw : Forall gw (page_words ip)).
  { unfold page_words. rewrite Eit. constructor; [apply gw_ihw; exact Hihw|]. eapply items_gw. exact Hitems. }
  assert (Hwords : words_of (pg_payload pg) = Some (page_words ip)).
  { rewrite Hpl. apply (layout_words _ _ _ (item_tdh i) (tl ++ flat_map item_words items)); auto.
    unfold page_words. rewrite Eit. cbn [flat_map hd]. rewrite Etl. reflexivity. }
  rewrite (c12_packet_words _ _ _ _ _ s1 _ E1 Hwords).
  unfold page_words. rewrite Eit.
  assert (Horb : r_orbit r = h_orbit h) by reflexivity.
  assert (Hb : rdh_bc r = h_bc h) by (apply rdh_bc_rendered; exact Hbc).
  assert (Htr : r_trigger_type r = h_trigger h) by reflexivity.
  assert (Hstop : r_stop_bit r = 0) by reflexivity.
  assert (Hpc : r_pages_counter r = k) by reflexivity.
  destruct opened as [o|].
  - (* the page carries on a packet *)
    destruct Hen as (Hf & Ht & Ho).
    assert (S1 : St s1 S_cIHW r (sw_ihw (cs_words s1)) (Some o)).
    { unfold St. rewrite F1, W1. repeat split; auto. }
    destruct (step_ihw_cont running s1 r _ _ (ip_ihw ip) S1 Hihw) as [s2 [E2 S2]].
    cbn [cdp_words]. rewrite E2. cbn [app].
    destruct (run_items running h r (ip_ihw ip) Hihw Horb Hb Htr first None (Some o) (i :: items) out Hitems s2 [] []
                ltac:(intros _ X; discriminate) (conj S2 Ho) ltac:(discriminate)) as [s3 [E3 L3]].
    rewrite app_nil_r in E3. rewrite E3. cbn [cdp_words]. exists s3. split; [reflexivity|].
    unfold leave in L3. unfold PExit. destruct out as [t|].
    + destruct L3 as [(A & B & C & D & E) Wt]. split; [exact C|]. split; [exact A|]. split; [exact E|exact Wt].
    + destruct L3 as (f & p & Hc & (A & B & C & D & E) & Wp). split; [exact C|]. rewrite A. exact Hc.
  - (* a fresh page *)
    assert (S1 : St s1 (cs_fsm s) r (sw_ihw (cs_words s1)) (sw_tdh (cs_words s1))).
    { unfold St. repeat split; auto. }
    destruct (step_ihw running s1 _ r _ _ (ip_ihw ip) S1 Hen Hihw Hstop) as [s2 [E2 S2]].
    cbn [cdp_words]. rewrite E2. cbn [app].
    destruct (run_items running h r (ip_ihw ip) Hihw Horb Hb Htr first None None (i :: items) out Hitems s2 [] []
                ltac:(intros _ _ X; apply Hk; rewrite <- Hpc; exact X) (ex_intro _ _ S2) ltac:(discriminate)) as [s3 [E3 L3]].
    rewrite app_nil_r in E3. rewrite E3. cbn [cdp_words]. exists s3. split; [reflexivity|].
    unfold leave in L3. unfold PExit. destruct out as [t|].
    + destruct L3 as [(A & B & C & D & E) Wt]. split; [exact C|]. split; [exact A|]. split; [exact E|exact Wt].
    + destruct L3 as (f & p & Hc & (A & B & C & D & E) & Wp). split; [exact C|]. rewrite A. exact Hc.
Qed.

Lemma run_its_stop_page running ld h k pg w pad s pos :
  (l_format ld = 0 \/ l_format ld = 2) -> W_ddw0 w -> (pad <= 15)%nat ->
  pg_payload pg = layout (l_format ld) [w] pad -> k <> 0 -> PExit None s ->
  exists s', do_payload_checks (its_cfg running) s (render_rdh ld h k 1 pg) (pg_payload pg) pos = Ok (s', []) /\ PEntry None s'.
Proof.
  intros Hfmt Hw Hpad Hpl Hk [Hrfv Hch].
  set (r := render_rdh ld h k 1 pg).
  destruct (set_rdh_its s r pos Hrfv) as (s1 & E1 & F1 & R1 & V1 & W1).
  assert (Hwords : words_of (pg_payload pg) = Some [w]) by (rewrite Hpl; apply layout_stop_words; auto).
  rewrite (c12_packet_words _ _ _ _ _ s1 _ E1 Hwords).
  assert (S1 : St s1 (cs_fsm s) r (sw_ihw (cs_words s1)) (sw_tdh (cs_words s1))) by (unfold St; repeat split; auto).
  destruct (step_ddw0 running s1 _ r _ _ w S1 Hch Hw eq_refl Hk) as [s2 [E2 (A & B & C & D & E)]].
  cbn [cdp_words]. rewrite E2. cbn [app cdp_words]. exists s2. split; [reflexivity|]. split; [exact C|]. rewrite A. reflexivity.
Qed.

(* ---- packets, heartbeat frames, the link ---- *)
Lemma layout_nonempty fmt w ws pad : word10 w -> layout fmt (w :: ws) pad <> [].
Proof.
  intros Hw. unfold layout. destruct w as [|b w']; [discriminate Hw|]. destruct (fmt =? 0); cbn [map concat app]; discriminate.
Qed.

Section ItsLink.
  Context (ld : link_desc) (Hwf : wf_link_rdh ld = true) (Hsys : l_system ld = Gen.Facts.its_system_id)
          (Hfmt : l_format ld = 0 \/ l_format ld = 2).

  Lemma hbf_bc_small h : wf_hbf h = true -> h_bc h < 4096.
  Proof.
    intros Hh. unfold wf_hbf in Hh. repeat (apply andb_true_iff in Hh; destruct Hh as [Hh ?]).
    apply N.leb_le in Hh. unfold Gen.Facts.rdh_bc_max in Hh. lia.
  Qed.

  (* the RDH part of link_step on a rendered data page / stop page: silent, latches and running state advance *)
  Lemma its_step (running : bool) s r payload off ss rs :
    rdh_sanity (lk_sanity s) r = (ss, []) ->
    (if running then running_check (lk_running s) r else (lk_running s, @nil rtag)) = (rs, []) ->
    payload <> [] ->
    link_step (its_cfg running) s {| c_rdh := r; c_payload := payload; c_off := off |} =
    match do_payload_checks (its_cfg running) (lk_cdp s) r payload off with
    | Ok (cs, m) => Ok ({| lk_sanity := ss; lk_running := rs; lk_cdp := cs |}, m)
    | Panic p => Panic p
    end.
  Proof.
    intros H10 H11 Hne. unfold link_step. cbn [c_rdh c_payload c_off]. rewrite H10.
    cbn [its_cfg v_running v_target]. destruct running.
    - destruct (running_check (lk_running s) r) as [rs' t11]. injection H11 as -> ->.
      destruct payload; [contradiction|]. cbn [app]. reflexivity.
    - injection H11 as <-. destruct payload; [contradiction|]. cbn [app]. reflexivity.
  Qed.

  Definition LInvI (opened : option (list N)) (exitp : bool) (s : link_state) : Prop :=
    latch_ok ld (lk_sanity s) /\ (if exitp then PExit opened (lk_cdp s) else PEntry opened (lk_cdp s)).

  Lemma its_data_page running h k pg ip first opened out s off :
    wf_hbf h = true -> latch_ok ld (lk_sanity s) -> PEntry opened (lk_cdp s) ->
    (running = true -> RInv ld h k (lk_running s)) -> k + 1 < 65536 ->
    W_ihw (ip_ihw ip) -> ip_items ip <> [] -> (ip_pad ip <= 15)%nat ->
    items_ok h (ihw_f_lanes (ip_ihw ip)) first None opened (ip_items ip) out ->
    pg_payload pg = layout (l_format ld) (page_words ip) (ip_pad ip) -> (k = 0 -> first = true) ->
    exists s', link_step (its_cfg running) s {| c_rdh := render_rdh ld h k 0 pg; c_payload := pg_payload pg; c_off := off |} = Ok (s', []) /\
               latch_ok ld (lk_sanity s') /\ PExit out (lk_cdp s') /\ (running = true -> RInv ld h (k + 1) (lk_running s')).
  Proof.
    intros Hh Hl Hp Hr Hk Hihw Hne Hpad Hitems Hpl Hfirst.
    destruct (sane_rendered ld Hwf (lk_sanity s) h k 0 pg Hl Hh ltac:(lia)) as [S1 S2].
    destruct (rdh_sanity (lk_sanity s) (render_rdh ld h k 0 pg)) as [ss t10] eqn:E10. cbn [fst snd] in S1, S2. subst t10.
    assert (Hpne : pg_payload pg <> []).
    { rewrite Hpl. unfold page_words. apply layout_nonempty. destruct Hihw as [[L _] _]. exact L. }
    destruct (run_its_data_page running ld h k pg ip first opened out (lk_cdp s) off Hfmt (hbf_bc_small h Hh) Hihw Hne Hpad Hitems Hpl Hfirst Hp)
      as [cs [Ecs Pcs]].
    destruct running.
    - destruct (running_data_page ld h k pg (lk_running s) (Hr eq_refl) Hk) as [R1 R2].
      destruct (running_check (lk_running s) (render_rdh ld h k 0 pg)) as [rs t11] eqn:E11. cbn [fst snd] in R1, R2. subst t11.
      rewrite (its_step true s _ _ off ss rs E10 E11 Hpne), Ecs.
      eexists. split; [reflexivity|]. cbn. split; [exact S2|]. split; [exact Pcs|]. intros _. exact R2.
    - rewrite (its_step false s _ _ off ss (lk_running s) E10 eq_refl Hpne), Ecs.
      eexists. split; [reflexivity|]. cbn. split; [exact S2|]. split; [exact Pcs|]. intros X; discriminate.
  Qed.

  Lemma its_stop_page running h k pg w pad s off :
    wf_hbf h = true -> latch_ok ld (lk_sanity s) -> PExit None (lk_cdp s) ->
    (running = true -> RInv ld h k (lk_running s)) -> k <> 0 ->
    W_ddw0 w -> (pad <= 15)%nat -> pg_payload pg = layout (l_format ld) [w] pad ->
    exists s', link_step (its_cfg running) s {| c_rdh := render_rdh ld h k 1 pg; c_payload := pg_payload pg; c_off := off |} = Ok (s', []) /\
               latch_ok ld (lk_sanity s') /\ PEntry None (lk_cdp s') /\ (running = true -> Between ld (Some h) (lk_running s')).
  Proof.
    intros Hh Hl Hp Hr Hk Hw Hpad Hpl.
    destruct (sane_rendered ld Hwf (lk_sanity s) h k 1 pg Hl Hh ltac:(lia)) as [S1 S2].
    destruct (rdh_sanity (lk_sanity s) (render_rdh ld h k 1 pg)) as [ss t10] eqn:E10. cbn [fst snd] in S1, S2. subst t10.
    assert (Hpne : pg_payload pg <> []).
    { rewrite Hpl. apply layout_nonempty. destruct Hw as [[L _] _]. exact L. }
    destruct (run_its_stop_page running ld h k pg w pad (lk_cdp s) off Hfmt Hw Hpad Hpl Hk Hp) as [cs [Ecs Pcs]].
    destruct running.
    - destruct (running_stop_page ld h k pg (lk_running s) (Hr eq_refl) Hk) as [R1 R2].
      destruct (running_check (lk_running s) (render_rdh ld h k 1 pg)) as [rs t11] eqn:E11. cbn [fst snd] in R1, R2. subst t11.
      rewrite (its_step true s _ _ off ss rs E10 E11 Hpne), Ecs.
      eexists. split; [reflexivity|]. cbn. split; [exact S2|]. split; [exact Pcs|]. intros _. exact R2.
    - rewrite (its_step false s _ _ off ss (lk_running s) E10 eq_refl Hpne), Ecs.
      eexists. split; [reflexivity|]. cbn. split; [exact S2|]. split; [exact Pcs|]. intros X; discriminate.
  Qed.
End ItsLink.

Section ItsRun.
  Context (ld : link_desc) (Hwf : wf_link_rdh ld = true) (Hsys : l_system ld = Gen.Facts.its_system_id)
          (Hfmt : l_format ld = 0 \/ l_format ld = 2).
  Let layf (p : its_page) : list N := layout (l_format ld) (page_words p) (ip_pad p).

  Lemma its_run_pages running h : wf_hbf h = true -> forall first opened ips, pages_ok h first opened ips -> ips <> [] ->
    forall pages k s ps acc, map strip ps = render_pages ld h k pages -> map pg_payload pages = map layf ips ->
      latch_ok ld (lk_sanity s) -> PEntry opened (lk_cdp s) -> (running = true -> RInv ld h k (lk_running s)) ->
      k + N.of_nat (length pages) < 65536 -> (k = 0 -> first = true) ->
      forall rest, exists s', link_run (its_cfg running) s (ps ++ rest) acc = link_run (its_cfg running) s' rest acc /\
                              latch_ok ld (lk_sanity s') /\ PExit None (lk_cdp s') /\
                              (running = true -> RInv ld h (k + N.of_nat (length pages)) (lk_running s')).
  Proof.
    intros Hh first opened ips Hpo.
    induction Hpo as [first|first opened p r out Hihw Hne Hpad Hitems Hrest IH]; intros Hnn pages k s ps acc Hm Hpl Hl Hp Hr Hk Hfirst rest.
    - contradiction.
    - destruct pages as [|pg pages]; [discriminate Hpl|]. cbn [map] in Hpl. injection Hpl as Hpl1 Hpl2.
      destruct ps as [|q ps]; [discriminate Hm|]. cbn [map render_pages] in Hm. injection Hm as Hq1 Hq2 Hps.
      destruct q as [qr qp off]. cbn [c_rdh c_payload] in Hq1, Hq2. subst qr qp.
      destruct (its_data_page ld Hwf Hsys Hfmt running h k pg p first opened out s off Hh Hl Hp Hr ltac:(cbn [length] in Hk; lia)
                  Hihw Hne Hpad Hitems Hpl1 Hfirst) as [s1 [E1 [L1 [P1 R1]]]].
      cbn [app link_run]. rewrite E1, app_nil_r.
      destruct r as [|p2 r].
      + (* the last data page *)
        destruct pages; [|discriminate Hpl2]. destruct ps; [|discriminate Hps].
        inversion Hrest; subst. exists s1. cbn [app length]. split; [reflexivity|]. split; [exact L1|]. split; [exact P1|].
        intros X. specialize (R1 X). replace (k + N.of_nat 1) with (k + 1) by lia. exact R1.
      + destruct (IH ltac:(discriminate) pages (k + 1) s1 ps acc Hps Hpl2 L1 (pexit_entry _ _ P1) R1
                    ltac:(cbn [length] in Hk; lia) ltac:(intros X; lia) rest) as [s2 [E2 [L2 [P2 R2]]]].
        exists s2. split; [exact E2|]. split; [exact L2|]. split; [exact P2|]. intros X. specialize (R2 X).
        replace (k + N.of_nat (length (pg :: pages))) with (k + 1 + N.of_nat (length pages)) by (cbn [length]; lia). exact R2.
  Qed.

  Lemma its_run_hbf running h ih ps s acc prev : wf_hbf h = true -> its_hbf_ok (l_format ld) h ih ->
    map strip ps = render_hbf ld h -> latch_ok ld (lk_sanity s) -> PEntry None (lk_cdp s) ->
    (running = true -> Between ld prev (lk_running s)) -> (forall p, prev = Some p -> h_orbit p <> h_orbit h) ->
    forall rest, exists s', link_run (its_cfg running) s (ps ++ rest) acc = link_run (its_cfg running) s' rest acc /\
                            latch_ok ld (lk_sanity s') /\ PEntry None (lk_cdp s') /\
                            (running = true -> Between ld (Some h) (lk_running s')).
  Proof.
    intros Hh (Hpo & Hd & Hspad & Hpls & Hstop) Hm Hl Hp Hb Ho rest. unfold render_hbf in Hm.
    assert (Hsplit : exists ps1 p2, ps = ps1 ++ [p2] /\ map strip ps1 = render_pages ld h 0 (h_pages h) /\
                                    strip p2 = (render_rdh ld h (N.of_nat (length (h_pages h))) 1 (h_stop h), pg_payload (h_stop h))).
    { destruct (exists_last (l := ps)) as [ps1 [p2 E]]; [intros ->; destruct (render_pages ld h 0 (h_pages h)); discriminate|].
      subst ps. rewrite map_app in Hm. apply app_inj_tail in Hm. destruct Hm as [H1 H2]. exists ps1, p2. auto. }
    destruct Hsplit as [ps1 [p2 [-> [H1 H2]]]].
    pose proof Hh as Hh'. unfold wf_hbf in Hh'. repeat (apply andb_true_iff in Hh'; destruct Hh' as [Hh' ?]).
    match goal with H : (N.of_nat (length (h_pages h)) <? 65535) = true |- _ => apply N.ltb_lt in H; rename H into Hn end.
    match goal with H : negb ?x = true |- _ => lazymatch x with context [h_pages] => rename H into Hne end end.
    assert (Hipsne : ih_pages ih <> []).
    { intros E. rewrite E in Hpls. destruct (h_pages h); [discriminate Hne|discriminate Hpls]. }
    rewrite <- app_assoc.
    destruct (its_run_pages running h Hh true None (ih_pages ih) Hpo Hipsne (h_pages h) 0 s ps1 acc H1 Hpls Hl Hp
                (fun X => between_inv ld prev _ h (Hb X) Ho) ltac:(lia) ltac:(reflexivity) ([p2] ++ rest)) as [s1 [E1 [L1 [P1 R1]]]].
    rewrite E1. destruct p2 as [r pl off]. unfold strip in H2. cbn [c_rdh c_payload] in H2. injection H2 as -> ->.
    assert (Hk : 0 + N.of_nat (length (h_pages h)) <> 0) by (destruct (h_pages h); [discriminate Hne|cbn [length]; lia]).
    destruct (its_stop_page ld Hwf Hsys Hfmt running h _ (h_stop h) (ih_ddw0 ih) (ih_stop_pad ih) s1 off Hh L1 P1 R1 Hk Hd Hspad Hstop)
      as [s2 [E2 [L2 [P2 R2]]]].
    cbn [app link_run]. rewrite N.add_0_l in E2. rewrite E2, app_nil_r. exists s2. auto.
  Qed.

  Lemma its_run_hbfs running : forall hbfs ihs, Forall2 (its_hbf_ok (l_format ld)) hbfs ihs ->
    forall ps s acc prev, forallb wf_hbf hbfs = true ->
    orbits_differ (match prev with Some p => p :: hbfs | None => hbfs end) = true ->
    map strip ps = flat_map (render_hbf ld) hbfs -> latch_ok ld (lk_sanity s) -> PEntry None (lk_cdp s) ->
    (running = true -> Between ld prev (lk_running s)) ->
    exists s', link_run (its_cfg running) s ps acc = Ok (s', acc).
  Proof.
    induction 1 as [|h ih hbfs ihs Hok Hrest IH]; intros ps s acc prev Hw Ho Hm Hl Hp Hb.
    - destruct ps; [|discriminate]. exists s. reflexivity.
    - cbn [forallb] in Hw. apply andb_true_iff in Hw. destruct Hw as [Hh Hw]. cbn [flat_map] in Hm.
      assert (Hsp : exists ps1 ps2, ps = ps1 ++ ps2 /\ map strip ps1 = render_hbf ld h /\ map strip ps2 = flat_map (render_hbf ld) hbfs).
      { exists (firstn (length (render_hbf ld h)) ps), (skipn (length (render_hbf ld h)) ps). split; [symmetry; apply firstn_skipn|].
        rewrite <- firstn_map, <- skipn_map, Hm. split; [apply firstn_app_exact|apply skipn_app_exact]. }
      destruct Hsp as [ps1 [ps2 [-> [H1 H2]]]].
      assert (Hoh : forall p, prev = Some p -> h_orbit p <> h_orbit h).
      { intros p ->. cbn in Ho. apply andb_true_iff in Ho. destruct Ho as [Ho _]. apply negb_true_iff in Ho. apply N.eqb_neq. exact Ho. }
      destruct (its_run_hbf running h ih ps1 s acc prev Hh Hok H1 Hl Hp Hb Hoh ps2) as [s1 [E1 [L1 [P1 B1]]]]. rewrite E1.
      apply (IH ps2 s1 acc (Some h) Hw); auto.
      destruct prev as [p|]; cbn in Ho |- *; [apply andb_true_iff in Ho; destruct Ho as [_ Ho]; exact Ho|exact Ho].
  Qed.
End ItsRun.

(* the ITS tier of C01: every link the word-level grammar renders -- any number of heartbeat frames, pages, trigger packets,
   continuations over any number of pages, no-data triggers, data words of active lanes, either data format, 0..15 bytes of
   padding; any placement of its packets in the input -- is accepted silently by `check sanity its` and `check all its` *)
Theorem c01_its_link ld ihs running ps : wf_link_its ld ihs -> map strip ps = render_link ld ->
  run_validator (its_cfg running) ps = Ok [].
Proof.
  intros (Hwf & Hsys & Hfmt & Hall) Hm. unfold run_validator.
  pose proof (wf_parts ld Hwf) as (_ & _ & _ & _ & _ & _ & _ & _ & Hh & Ho).
  destruct (its_run_hbfs ld Hwf Hsys Hfmt running (l_hbfs ld) ihs Hall ps (link_init (its_cfg running)) [] None Hh Ho Hm) as [s' E].
  - unfold latch_ok, link_init, its_cfg, sanity_init. cbn. split; [left; reflexivity|right; rewrite Hsys; reflexivity].
  - split; reflexivity.
  - intros _. reflexivity.
  - rewrite E. reflexivity.
Qed.

(* ---- non-vacuity: a link with no-data triggers, a whole trigger packet, a packet continued over three pages, two heartbeat
   frames, in data format 2 ---- *)
Module Example.
  Definition ihw : list N := [255; 1; 0; 0; 0; 0; 0; 0; 0; 224].                       (* lanes 0..8 active *)
  Definition tdh (flags bc orbit : N) : list N := [3; 26 + flags; bc; 0; orbit; 0; 0; 0; 0; 232].   (* internal trigger, type 0xA03 *)
  Definition tdt (done : N) : list N := [0; 0; 0; 0; 0; 0; 0; 0; done; 240].
  Definition ddw0 : list N := [0; 0; 0; 0; 0; 0; 0; 0; 0; 228].
  Definition dw (lane x : N) : list N := [x; 0; 0; 0; 0; 0; 0; 0; 0; 32 + lane].
  Definition NODATA := 32. Definition CONT := 64.

  Definition page0 (o : N) : its_page :=
    {| ip_ihw := ihw; ip_items := [PI_nodata (tdh NODATA 5 o); PI_frame (tdh 0 7 o) [dw 0 1; dw 3 2] (tdt 1); PI_open (tdh 0 9 o) [dw 1 7] (tdt 0)];
       ip_pad := 3 |}.
  Definition page1 (o : N) : its_page := {| ip_ihw := ihw; ip_items := [PI_cont (tdh CONT 9 o) [dw 2 9; dw 8 1] (tdt 0)]; ip_pad := 0 |}.
  Definition page2 (o : N) : its_page :=
    {| ip_ihw := ihw; ip_items := [PI_close (tdh CONT 9 o) [] (tdt 1); PI_nodata (tdh NODATA 200 o)]; ip_pad := 15 |}.
  Definition ih (o : N) : its_hbf := {| ih_pages := [page0 o; page1 o; page2 o]; ih_ddw0 := ddw0; ih_stop_pad := 6 |}.
  Definition pgd (p : its_page) : page_desc := {| pg_counter := 0; pg_par := 0; pg_payload := layout 2 (page_words p) (ip_pad p) |}.
  Definition hb (o : N) : hbf_desc :=
    {| h_orbit := o; h_bc := 5; h_trigger := 27139; h_detfield := 0; h_pages := map pgd (ih_pages (ih o));
       h_stop := {| pg_counter := 0; pg_par := 0; pg_payload := layout 2 [ddw0] 6 |} |}.
  Definition ld : link_desc :=
    {| l_link := 3; l_fee := 20522; l_version := 7; l_system := 32; l_format := 2; l_cru := 24; l_dw := 0; l_hbfs := [hb 10; hb 11] |}.

  Ltac side := intros; repeat match goal with H : Some _ = Some _ |- _ => injection H as <- | H : None = Some _ |- _ => discriminate H end;
    first [ reflexivity
          | match goal with |- word_ok _ => split; [reflexivity|repeat constructor] end
          | match goal with |- Forall _ _ => repeat constructor end
          | vm_compute; intuition (try discriminate; try congruence) ].
  Ltac wsolve := repeat (first [progress side | split]).

  Lemma hbf_ok10 : its_hbf_ok 2 (hb 10) (ih 10).
  Proof.
    unfold its_hbf_ok. split; [|split; [|split; [|split]]].
    - unfold ih, ih_pages. repeat (econstructor; cbn [ip_ihw ip_items ip_pad page0 page1 page2]); wsolve.
    - wsolve.
    - cbn. repeat constructor.
    - reflexivity.
    - reflexivity.
  Qed.
  Lemma hbf_ok11 : its_hbf_ok 2 (hb 11) (ih 11).
  Proof.
    unfold its_hbf_ok. split; [|split; [|split; [|split]]].
    - unfold ih, ih_pages. repeat (econstructor; cbn [ip_ihw ip_items ip_pad page0 page1 page2]); wsolve.
    - wsolve.
    - cbn. repeat constructor.
    - reflexivity.
    - reflexivity.
  Qed.

  Lemma example_wf : wf_link_its ld [ih 10; ih 11] /\ length (render_link ld) = 8%nat.
  Proof.
    split; [|reflexivity]. unfold wf_link_its. split; [vm_compute; reflexivity|]. split; [reflexivity|]. split; [right; reflexivity|].
    constructor; [exact hbf_ok10|]. constructor; [exact hbf_ok11|constructor].
  Qed.
End Example.
