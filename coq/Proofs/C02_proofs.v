(* C02: every documented violation is detected with its code and location -- the local detection lemmas of every layer,
   "messages are never retracted", and the exit status. *)
From Coq Require Import List NArith Bool Lia.
Import ListNotations.
From FP Require Import Model.Base Model.ItsWords Model.ItsFsm Model.Rdh Model.RdhChecks Model.Payload Model.CdpRunning Model.Scanner Model.Link Model.Collector.
From FP Require Import Proofs.C12_packet Proofs.C18_proofs.
From FP Require Gen.Facts.
Open Scope N_scope.

Definition err_at (off code : N) (m : vmsg) : Prop := match m with VErr e => e_off e = off /\ e_code e = code | VStats _ => False end.
Definition has_err (off code : N) (l : list vmsg) : Prop := exists m, In m l /\ err_at off code m.

(* ---- RDH rules: one [E10] / [E11] at the offset of the offending RDH, in every mode; [E11] never under `check sanity` ---- *)
Lemma c02_rdh_sanity c s p s' m : link_step c s p = Ok (s', m) ->
  snd (rdh_sanity (lk_sanity s) (c_rdh p)) <> [] -> has_err (c_off p) 10 m.
Proof.
  unfold link_step. destruct (rdh_sanity (lk_sanity s) (c_rdh p)) as [ss t10]. cbn [snd].
  intros H Hne. destruct t10 as [|t ts]; [contradiction|].
  set (m10 := [rdh_err (c_off p) 10 (t :: ts)]) in *.
  assert (Hin : forall rest, has_err (c_off p) 10 (m10 ++ rest)).
  { intros rest. exists (rdh_err (c_off p) 10 (t :: ts)). split; [left; reflexivity|]. cbn. auto. }
  destruct (if v_running c then _ else _) as [rs m11].
  destruct (v_target c).
  - injection H as _ <-. apply Hin.
  - destruct (c_payload p); [injection H as _ <-; apply Hin|].
    destruct (do_payload_checks _ _ _ _ _) as [[cs mm]|]; [|discriminate]. injection H as _ <-. apply Hin.
  - destruct (c_payload p); [injection H as _ <-; apply Hin|].
    destruct (do_payload_checks _ _ _ _ _) as [[cs mm]|]; [|discriminate]. injection H as _ <-. apply Hin.
Qed.

Lemma c02_rdh_running c s p s' m : link_step c s p = Ok (s', m) -> v_running c = true ->
  snd (running_check (lk_running s) (c_rdh p)) <> [] -> has_err (c_off p) 11 m.
Proof.
  unfold link_step. destruct (rdh_sanity (lk_sanity s) (c_rdh p)) as [ss t10].
  intros H Hr Hne. rewrite Hr in H. destruct (running_check (lk_running s) (c_rdh p)) as [rs t11]. cbn [snd] in Hne.
  destruct t11 as [|t ts]; [contradiction|].
  set (m10 := match t10 with [] => [] | _ => _ end) in *.
  assert (Hin : forall rest, has_err (c_off p) 11 (m10 ++ [rdh_err (c_off p) 11 (t :: ts)] ++ rest)).
  { intros rest. exists (rdh_err (c_off p) 11 (t :: ts)). split; [apply in_or_app; right; left; reflexivity|]. cbn. auto. }
  destruct (v_target c).
  - injection H as _ <-. specialize (Hin []). rewrite app_nil_r in Hin. exact Hin.
  - destruct (c_payload p); [injection H as _ <-; specialize (Hin []); rewrite app_nil_r in Hin; exact Hin|].
    destruct (do_payload_checks _ _ _ _ _) as [[cs mm]|]; [|discriminate]. injection H as _ <-. apply Hin.
  - destruct (c_payload p); [injection H as _ <-; specialize (Hin []); rewrite app_nil_r in Hin; exact Hin|].
    destruct (do_payload_checks _ _ _ _ _) as [[cs mm]|]; [|discriminate]. injection H as _ <-. apply Hin.
Qed.

(* a purely stateful RDH violation is not reported by `check sanity`: no [E11] at all *)
Lemma c02_no_running_in_sanity c s p s' m : link_step c s p = Ok (s', m) -> v_running c = false -> v_target c = T_none ->
  forall off, ~ has_err off 11 m.
Proof.
  unfold link_step. destruct (rdh_sanity (lk_sanity s) (c_rdh p)) as [ss t10]. intros H Hr Ht off. rewrite Hr, Ht in H.
  injection H as _ <-. rewrite app_nil_r. intros [x [Hin He]]. destruct t10; [destruct Hin|]. destruct Hin as [<-|[]]. cbn in He. destruct He as [_ E]. discriminate.
Qed.

(* ---- messages are never retracted ---- *)
Lemma link_run_keeps c ps : forall s acc s' out, link_run c s ps acc = Ok (s', out) -> exists more, out = acc ++ more.
Proof.
  induction ps as [|p ps IH]; intros s acc s' out H; cbn [link_run] in H.
  - injection H as _ <-. exists []. rewrite app_nil_r. reflexivity.
  - destruct (link_step c s p) as [[s1 m]|]; [|discriminate]. destruct (IH _ _ _ _ H) as [more E]. exists (m ++ more). rewrite E, app_assoc. reflexivity.
Qed.

Lemma has_err_app off code a b : has_err off code a \/ has_err off code b -> has_err off code (a ++ b).
Proof. intros [[m [H E]]|[m [H E]]]; exists m; split; auto; apply in_or_app; auto. Qed.

(* a violation at packet p of the run of a validator is in the final message list *)
Lemma c02_reported_in_run c ps1 p ps2 s0 acc0 s1 acc1 s2 m sf out off code :
  link_run c s0 ps1 acc0 = Ok (s1, acc1) -> link_step c s1 p = Ok (s2, m) -> has_err off code m ->
  link_run c s0 (ps1 ++ p :: ps2) acc0 = Ok (sf, out) -> has_err off code out.
Proof.
  intros H1 H2 He H. rewrite (link_run_app c ps1 s0 (p :: ps2) acc0), H1 in H. cbn [link_run] in H. rewrite H2 in H.
  destruct (link_run_keeps c ps2 _ _ _ _ H) as [more E]. rewrite E. apply has_err_app. left. apply has_err_app. right. exact He.
Qed.

(* ---- payload: padding limit ---- *)
Lemma c02_padding c s r payload pos s1 : set_current_rdh s r pos = Ok s1 -> (15 < ff_run payload)%nat ->
  exists s', do_payload_checks c s r payload pos = Ok (s', [VErr (mk_err pos CODE_PAYLOAD None)]).
Proof. intros H1 H2. destruct (c12_packet_too_much c s r payload pos s1 H1 H2) as [E _]. eauto. Qed.

(* ---- payload words: the sanity rules of the word the state machine expects, and unrecognisable identifiers ---- *)
Definition word_msgs (c : vcfg) (s : cdp_state) (w : list N) : list vmsg :=
  match cdp_check c s w with Ok (_, m) => m | Panic _ => [] end.
Definition pos_of (s : cdp_state) : N := word_pos (set_counter s (wrap16 (cs_counter s + 1))).

Lemma word_pos_set_fsm s f : word_pos (set_fsm s f) = word_pos s.
Proof. reflexivity. Qed.
Lemma word_pos_set_words s w : word_pos (set_words s w) = word_pos s.
Proof. reflexivity. Qed.

Lemma has_err_one off code w s : word_pos s = off -> has_err off code [werr s code w].
Proof. intros H. exists (werr s code w). split; [left; reflexivity|]. cbn. auto. Qed.

Lemma c02_ihw_sanity c s w p : fst (advance (cs_fsm s) w) = fst (advance (cs_fsm s) w) ->
  snd (advance (cs_fsm s) w) = F_ok p -> (p = P_IHW \/ p = P_IHW_cont) -> ihw_sanity w <> [] ->
  has_err (pos_of s) 30 (word_msgs c s w).
Proof.
  intros _ Ha Hp Hne. unfold word_msgs, cdp_check. destruct (advance (cs_fsm (set_counter s _)) w) as [f' r] eqn:E.
  cbn [cs_fsm set_counter] in E. rewrite E in Ha. cbn [snd] in Ha. subst r.
  destruct Hp as [-> | ->]; unfold preprocess_ihw, sanity_msgs; destruct (ihw_sanity w) as [|t ts]; try contradiction;
    cbn [app]; (eexists; split; [left; reflexivity|]; cbn; split; reflexivity).
Qed.

Lemma c02_tdh_sanity c s w p : snd (advance (cs_fsm s) w) = F_ok p -> (p = P_TDH \/ p = P_TDH_cont \/ p = P_TDH_after_done) ->
  tdh_sanity w <> [] -> has_err (pos_of s) 40 (word_msgs c s w).
Proof.
  intros Ha Hp Hne. unfold word_msgs, cdp_check. destruct (advance (cs_fsm (set_counter s _)) w) as [f' r] eqn:E.
  cbn [cs_fsm set_counter] in E. rewrite E in Ha. cbn [snd] in Ha. subst r.
  destruct Hp as [-> | [-> | ->]]; unfold preprocess_tdh, sanity_msgs; destruct (tdh_sanity w) as [|t ts]; try contradiction;
    match goal with |- context [cs_rfv ?x] => destruct (cs_rfv x) as [rf|] end;
    try (destruct (negb (rf_in_frame rf) && (tdh_continuation w =? 0)));
    cbn [app]; (eexists; split; [left; reflexivity|]; cbn; split; reflexivity).
Qed.

Lemma c02_ddw0_sanity c s w : snd (advance (cs_fsm s) w) = F_ok P_DDW0 -> ddw0_sanity w <> [] ->
  has_err (pos_of s) 60 (word_msgs c s w).
Proof.
  intros Ha Hne. unfold word_msgs, cdp_check. destruct (advance (cs_fsm (set_counter s _)) w) as [f' r] eqn:E.
  cbn [cs_fsm set_counter] in E. rewrite E in Ha. cbn [snd] in Ha. subst r.
  unfold preprocess_ddw0, sanity_msgs. destruct (ddw0_sanity w) as [|t ts]; [contradiction|].
  cbn [app]. eexists. split; [left; reflexivity|]. cbn. split; reflexivity.
Qed.

Lemma c02_tdt_sanity c s w : snd (advance (cs_fsm s) w) = F_ok P_TDT -> tdt_sanity w <> [] ->
  match cdp_check c s w with Ok (_, m) => has_err (pos_of s) 50 m | Panic _ => True end.
Proof.
  intros Ha Hne. unfold cdp_check. destruct (advance (cs_fsm (set_counter s _)) w) as [f' r] eqn:E.
  cbn [cs_fsm set_counter] in E. rewrite E in Ha. cbn [snd] in Ha. subst r.
  unfold preprocess_tdt, sanity_msgs. destruct (tdt_sanity w) as [|t ts]; [contradiction|].
  match goal with |- context [cs_rfv ?x] => destruct (cs_rfv x) as [rf|] end.
  - destruct (tdt_packet_done w).
    + destruct (process_readout_frame _ _ _) as [[s2 m2]|]; [|exact I]. eexists. split; [left; reflexivity|]. cbn. split; reflexivity.
    + eexists. split; [left; reflexivity|]. cbn. split; reflexivity.
  - eexists. split; [left; reflexivity|]. cbn. split; reflexivity.
Qed.

(* an identifier that fits none of the words possible in a choice state: [E990] / [E991] / [E992] at the word *)
Lemma c02_unrecognised c s w a : snd (advance (cs_fsm s) w) = F_amb a ->
  match cdp_check c s w with
  | Ok (_, m) => has_err (pos_of s) (match a with A_TDH_or_DDW0 => 990 | A_DW_or_TDT_CDW => 991 | A_DDW0_or_TDH_IHW => 992 end) m
  | Panic _ => True
  end.
Proof.
  intros Ha. unfold cdp_check. destruct (advance (cs_fsm (set_counter s _)) w) as [f' r] eqn:E.
  cbn [cs_fsm set_counter] in E. rewrite E in Ha. cbn [snd] in Ha. subst r.
  destruct a.
  - destruct (preprocess_tdh _ w) as [s1 m]. eexists. split; [left; reflexivity|]. cbn. split; reflexivity.
  - destruct (preprocess_data_word c _ w) as [[s1 m]|]; [|exact I]. eexists. split; [left; reflexivity|]. cbn. split; reflexivity.
  - destruct (preprocess_ddw0 c _ w) as [s1 m]. eexists. split; [left; reflexivity|]. cbn. split; reflexivity.
Qed.

(* ---- state-dependent rules of checks_list.md ---- *)
(* DDW0 only on a stop page that is not page 0 *)
Lemma c02_ddw0_page c s w : snd (advance (cs_fsm s) w) = F_ok P_DDW0 -> v_running c = true ->
  (r_stop_bit (cur_rdh s) <> 1 -> has_err (pos_of s) 110 (word_msgs c s w)) /\
  (r_pages_counter (cur_rdh s) = 0 -> has_err (pos_of s) 111 (word_msgs c s w)).
Proof.
  intros Ha Hr. unfold word_msgs, cdp_check. destruct (advance (cs_fsm (set_counter s _)) w) as [f' r] eqn:E.
  cbn [cs_fsm set_counter] in E. rewrite E in Ha. cbn [snd] in Ha. subst r.
  unfold preprocess_ddw0. rewrite Hr.
  assert (Hc : cur_rdh (set_fsm (set_counter s (wrap16 (cs_counter s + 1))) f') = cur_rdh s) by reflexivity. rewrite Hc.
  split; intros H.
  - apply has_err_app. right. apply N.eqb_neq in H. rewrite H. cbn [negb app].
    eexists. split; [left; reflexivity|]. cbn. split; reflexivity.
  - apply has_err_app. right. apply has_err_app. right. rewrite H. cbn [N.eqb].
    eexists. split; [left; reflexivity|]. cbn. split; reflexivity.
Qed.

(* IHW (not the continuation IHW) on a page whose RDH has the stop bit *)
Lemma c02_ihw_stop_bit c s w : snd (advance (cs_fsm s) w) = F_ok P_IHW -> v_running c = true ->
  r_stop_bit (cur_rdh s) <> 0 -> has_err (pos_of s) 12 (word_msgs c s w).
Proof.
  intros Ha Hr H. unfold word_msgs, cdp_check. destruct (advance (cs_fsm (set_counter s _)) w) as [f' r] eqn:E.
  cbn [cs_fsm set_counter] in E. rewrite E in Ha. cbn [snd] in Ha. subst r.
  unfold preprocess_ihw. rewrite Hr. apply has_err_app. right. unfold check_rdh_at_initial_ihw.
  match goal with |- context [cur_rdh ?x] => assert (Hc : cur_rdh x = cur_rdh s) by reflexivity; rewrite Hc end.
  apply N.eqb_neq in H. rewrite H. cbn [negb].
  eexists. split; [left; reflexivity|]. cbn. split; reflexivity.
Qed.

(* TDH after a TDT with packet_done = 0 must be a continuation ... *)
Lemma c02_tdh_continuation c s w : snd (advance (cs_fsm s) w) = F_ok P_TDH_cont -> v_running c = true ->
  tdh_continuation w <> 1 -> has_err (pos_of s) 41 (word_msgs c s w).
Proof.
  intros Ha Hr H. unfold word_msgs, cdp_check. destruct (advance (cs_fsm (set_counter s _)) w) as [f' r] eqn:E.
  cbn [cs_fsm set_counter] in E. rewrite E in Ha. cbn [snd] in Ha. subst r.
  destruct (preprocess_tdh _ w) as [s1 m] eqn:P. rewrite Hr. apply has_err_app. right. unfold check_tdh_continuation.
  apply has_err_app. left. apply N.eqb_neq in H. rewrite H. cbn [negb].
  assert (Hp : word_pos s1 = pos_of s).
  { unfold preprocess_tdh in P. injection P as <- _. match goal with |- context [cs_rfv ?x] => destruct (cs_rfv x) as [rf|] end;
      [destruct (negb (rf_in_frame rf) && (tdh_continuation w =? 0))|]; reflexivity. }
  eexists. split; [left; reflexivity|]. cbn. split; [exact Hp|reflexivity].
Qed.

(* ... and the first TDH of a page must not be one *)
Lemma c02_tdh_no_continuation c s w : snd (advance (cs_fsm s) w) = F_ok P_TDH -> v_running c = true ->
  tdh_continuation w <> 0 -> has_err (pos_of s) 42 (word_msgs c s w).
Proof.
  intros Ha Hr H. unfold word_msgs, cdp_check. destruct (advance (cs_fsm (set_counter s _)) w) as [f' r] eqn:E.
  cbn [cs_fsm set_counter] in E. rewrite E in Ha. cbn [snd] in Ha. subst r.
  destruct (preprocess_tdh _ w) as [s1 m] eqn:P. rewrite Hr. apply has_err_app. right. apply has_err_app. left. unfold check_tdh_no_continuation.
  apply has_err_app. left. apply N.eqb_neq in H. rewrite H. cbn [negb].
  assert (Hp : word_pos s1 = pos_of s).
  { unfold preprocess_tdh in P. injection P as <- _. match goal with |- context [cs_rfv ?x] => destruct (cs_rfv x) as [rf|] end;
      [destruct (negb (rf_in_frame rf) && (tdh_continuation w =? 0))|]; reflexivity. }
  eexists. split; [left; reflexivity|]. cbn. split; [exact Hp|reflexivity].
Qed.

(* TDH after a complete packet (TDT with packet_done = 1) must not be a continuation: reported when the source performs the test
   (regenerated fact) ... *)
Lemma c02_tdh_after_done_continuation_when (b : bool) : b = true -> b = Gen.Facts.tdh_after_done_checks_continuation ->
  forall c s w, snd (advance (cs_fsm s) w) = F_ok P_TDH_after_done -> v_running c = true ->
  tdh_continuation w <> 0 -> has_err (pos_of s) 42 (word_msgs c s w).
Proof.
  intros Hb Hg c s w Ha Hr H. unfold word_msgs, cdp_check. destruct (advance (cs_fsm (set_counter s _)) w) as [f' r] eqn:E.
  cbn [cs_fsm set_counter] in E. rewrite E in Ha. cbn [snd] in Ha. subst r.
  destruct (preprocess_tdh _ w) as [s1 m] eqn:P. rewrite Hr. apply has_err_app. right. apply has_err_app. left. unfold check_tdh_after_done.
  apply has_err_app. left. rewrite <- Hg, Hb. apply N.eqb_neq in H. rewrite H. cbn [negb andb].
  assert (Hp : word_pos s1 = pos_of s).
  { unfold preprocess_tdh in P. injection P as <- _. match goal with |- context [cs_rfv ?x] => destruct (cs_rfv x) as [rf|] end;
      [destruct (negb (rf_in_frame rf) && (tdh_continuation w =? 0))|]; reflexivity. }
  eexists. split; [left; reflexivity|]. cbn. split; [exact Hp|reflexivity].
Qed.

(* ... and what the pinned commit did (finding F15): no [E42] at such a TDH, whatever its continuation bit *)
Lemma c02_refuted_after_done_continuation :
  let c := {| v_running := true; v_target := T_its; v_period := None; v_custom_version := None; v_chip_count := None; v_chip_orders := None |} in
  forall s w, (if false && negb (tdh_continuation w =? 0) then [werr s 42 w] else []) = [].
Proof. reflexivity. Qed.

(* ---- exit status: any reported error selects the configured status ---- *)
Lemma c02_exit n : exit_code (Some n) Init_ok true = n.
Proof. reflexivity. Qed.
