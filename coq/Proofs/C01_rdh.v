(* C01, RDH tier: every link rendered by the grammar passes the RDH sanity and running checks, for every description. *)
From Coq Require Import List NArith Bool Lia Arith.
Import ListNotations.
From FP Require Import Model.Base Model.Rdh Model.RdhChecks Model.CdpRunning Model.Scanner Model.Link Spec.Grammar Proofs.Bits.
From FP Require Gen.Facts.
Open Scope N_scope.

Lemma tagif_false t : tagif false t = [].
Proof. reflexivity. Qed.

(* the 12-bit CRU id and the 4-bit data-wrapper id share a 16-bit field *)
Definition dw_cell (x : N) : bool :=
  (wrap8 (N.shiftr (N.land x 61440) 12) =? 0) && (wrap8 (N.shiftr (N.land (x + 4096) 61440) 12) =? 1).
Lemma dw_table : forallb dw_cell (map N.of_nat (seq 0 4096)) = true.
Proof. vm_compute. reflexivity. Qed.
Lemma dw_field cru dw : cru < 4096 -> dw <= 1 -> wrap8 (N.shiftr (N.land (cru + 4096 * dw) 61440) 12) = dw.
Proof.
  intros Hc Hd. pose proof dw_table as T. rewrite forallb_forall in T.
  assert (Hin : In cru (map N.of_nat (seq 0 4096))).
  { apply in_map_iff. exists (N.to_nat cru). split; [lia|]. apply in_seq. lia. }
  specialize (T cru Hin). unfold dw_cell in T. apply andb_true_iff in T. destruct T as [T0 T1]. apply N.eqb_eq in T0, T1.
  assert (D : dw = 0 \/ dw = 1) by lia. destruct D as [->| ->].
  - rewrite N.mul_0_r, N.add_0_r. exact T0.
  - rewrite N.mul_1_r. exact T1.
Qed.

Lemma small_land x : x < 4096 -> N.land x 4095 = x.
Proof. intros H. change 4095 with (N.ones 12). rewrite N.land_ones. apply N.mod_small. exact H. Qed.
Lemma small_shiftr x : x < 4096 -> N.shiftr x 12 = 0.
Proof. intros H. rewrite N.shiftr_div_pow2. apply N.div_small. exact H. Qed.
Lemma small_land255 x : x <= 2 -> N.land x 255 = x.
Proof. intros H. change 255 with (N.ones 8). rewrite N.land_ones. apply N.mod_small. change (2 ^ 8) with 256. lia. Qed.

Section OneLink.
  Context (ld : link_desc) (Hwf : wf_link_rdh ld = true).

  Lemma wf_parts :
    N.land (l_fee ld) Gen.Facts.fee_reserved_mask = 0 /\
    (stave_number_from_feeid (l_fee ld) <? Gen.Facts.fee_stave_min) = false /\ (Gen.Facts.fee_stave_max <? stave_number_from_feeid (l_fee ld)) = false /\
    (layer_from_feeid (l_fee ld) <? Gen.Facts.fee_layer_min) = false /\ (Gen.Facts.fee_layer_max <? layer_from_feeid (l_fee ld)) = false /\
    l_dw ld <= 1 /\ l_cru ld < 4096 /\ l_format ld <= 2 /\ forallb wf_hbf (l_hbfs ld) = true /\ orbits_differ (l_hbfs ld) = true.
  Proof.
    pose proof Hwf as W. unfold wf_link_rdh in W. repeat (apply andb_true_iff in W; destruct W as [W ?]).
    repeat match goal with H : (_ =? _) = true |- _ => apply N.eqb_eq in H | H : (_ <=? _) = true |- _ => apply N.leb_le in H
                      | H : (_ <? _) = true |- _ => apply N.ltb_lt in H end.
    repeat split; try assumption; try (apply N.ltb_ge; assumption).
  Qed.

  (* sanity: a rendered RDH draws no tag and leaves the latches as they are (or sets the version latch the first time) *)
  Definition latch_ok (st : sanity_state) : Prop :=
    (ss_header_id st = None \/ ss_header_id st = Some (l_version ld)) /\
    (ss_system_id st = None \/ ss_system_id st = Some (l_system ld)).

  Lemma sane_rendered st h idx stop pg : latch_ok st -> wf_hbf h = true -> stop <= 1 ->
    snd (rdh_sanity st (render_rdh ld h idx stop pg)) = [] /\ latch_ok (fst (rdh_sanity st (render_rdh ld h idx stop pg))).
  Proof.
    intros [Hh Hs] Hwh Hstop.
    destruct wf_parts as (F0 & F1 & F2 & F3 & F4 & Hdw & Hcru & Hfmt & _ & _).
    unfold wf_hbf in Hwh. repeat (apply andb_true_iff in Hwh; destruct Hwh as [Hwh ?]).
    repeat match goal with H : (_ =? _) = true |- _ => apply N.eqb_eq in H | H : (_ <=? _) = true |- _ => apply N.leb_le in H
                      | H : (_ <? _) = true |- _ => apply N.ltb_lt in H | H : negb _ = true |- _ => apply negb_true_iff in H end.
    assert (Hbc : h_bc h < 4096) by (unfold Gen.Facts.rdh_bc_max in *; lia).
    unfold rdh_sanity, rdh0_check, rdh1_tags, rdh2_tags, rdh3_tags, fee_id_tags.
    cbn [render_rdh r_header_id r_header_size r_fee_id r_priority_bit r_system_id r_rdh0_reserved0 r_stop_bit r_trigger_type r_rdh2_reserved0
         r_rdh3_reserved0 r_detector_field fst snd].
    assert (Hid : (l_version ld =? match ss_header_id st with Some h0 => h0 | None => l_version ld end) = true).
    { destruct Hh as [-> | ->]; apply N.eqb_refl. }
    rewrite Hid. rewrite F0, F1, F2, F3, F4. cbn [negb orb tagif app N.eqb].
    assert (Hsys : match ss_system_id st with Some sid => tagif (negb (l_system ld =? sid)) T_system_id | None => [] end = []).
    { destruct Hs as [-> | ->]; [reflexivity|]. rewrite N.eqb_refl. reflexivity. }
    rewrite Hsys.
    (* RDH1 *)
    unfold rdh1_reserved0, rdh_bc. cbn [render_rdh r_bc_reserved0]. rewrite (small_shiftr _ Hbc), (small_land _ Hbc).
    unfold wrap16. rewrite (N.mod_small (h_bc h)) by lia.
    assert (B1 : (Gen.Facts.rdh_bc_max <? h_bc h) = false) by (apply N.ltb_ge; assumption).
    rewrite B1.
    (* RDH2 *)
    assert (S1 : (1 <? stop) = false) by (apply N.ltb_ge; exact Hstop). rewrite S1.
    match goal with H : (h_trigger h =? 0) = false |- _ => rewrite H end.
    match goal with H : N.land (h_trigger h) _ = 0 |- _ => rewrite H end.
    match goal with H : N.land (h_detfield h) _ = 0 |- _ => rewrite H end.
    (* dw, data format *)
    unfold rdh_dw, rdh_data_format. cbn [render_rdh r_cruid_dw r_dataformat_reserved0].
    rewrite (dw_field _ _ Hcru Hdw), (small_land255 _ Hfmt). unfold wrap8. rewrite (N.mod_small (l_format ld)) by lia.
    assert (D1 : (1 <? l_dw ld) = false) by (apply N.ltb_ge; exact Hdw).
    assert (D2 : (2 <? l_format ld) = false) by (apply N.ltb_ge; exact Hfmt).
    rewrite D1, D2. cbn. split; [reflexivity|].
    split; cbn; [right; destruct Hh as [-> | ->]; reflexivity|exact Hs].
  Qed.
End OneLink.

(* ---- running checks ---- *)
(* state of the running validator at a page boundary inside a heartbeat frame (k pages rendered) or between heartbeat frames (k = 0) *)
Definition same_hbf_fields (ld : link_desc) (h : hbf_desc) (l : rdh) : Prop :=
  r_orbit l = h_orbit h /\ r_trigger_type l = h_trigger h /\ r_fee_id l = l_fee ld /\ r_stop_bit l = 0.
Definition RInv (ld : link_desc) (h : hbf_desc) (k : N) (st : running_state) : Prop :=
  rs_expect_pages st = k /\ rs_increment st = 1 /\
  (rs_seen st = 0 /\ k = 0 /\ rs_last st = None \/ rs_seen st = 1 /\ k = 1 \/ rs_seen st = 2) /\
  (k <> 0 -> exists l, rs_last st = Some l /\ same_hbf_fields ld h l) /\
  (k = 0 -> forall l, rs_last st = Some l -> r_stop_bit l = 1 /\ r_orbit l <> h_orbit h).

Lemma running_data_page ld h k pg st : RInv ld h k st -> k + 1 < 65536 ->
  snd (running_check st (render_rdh ld h k 0 pg)) = [] /\ RInv ld h (k + 1) (fst (running_check st (render_rdh ld h k 0 pg))).
Proof.
  intros (He & Hi & Hseen & Hl & Hz) Hk. unfold running_check.
  cbn [render_rdh r_pages_counter r_stop_bit r_orbit r_trigger_type r_fee_id fst snd N.eqb]. rewrite He, N.eqb_refl. cbn [negb tagif app].
  assert (Hinc : (if rs_seen st =? 1 then k else rs_increment st) = 1).
  { destruct Hseen as [[S _]|[[S K]|S]]; rewrite S; cbn; [exact Hi|exact K|exact Hi]. }
  rewrite Hinc.
  assert (T2 : match rs_last st with Some l => tagif ((r_stop_bit l =? 1) && (r_orbit l =? h_orbit h)) T_orbit_same | None => [] end = []).
  { destruct (rs_last st) as [l|] eqn:E; [|reflexivity].
    destruct (N.eq_dec k 0) as [K0|K0].
    - destruct (Hz K0 l eq_refl) as [_ Ho]. apply N.eqb_neq in Ho. rewrite Ho, andb_false_r. reflexivity.
    - destruct (Hl K0) as [l' [E' (_ & _ & _ & S)]]. injection E' as <-. rewrite S. reflexivity. }
  rewrite T2.
  assert (T3 : (if k =? 0 then [] else match rs_last st with
            | Some l => tagif (negb (h_orbit h =? r_orbit l)) T_orbit_changed ++ tagif (negb (h_trigger h =? r_trigger_type l)) T_trigger_changed ++
                        tagif (negb (l_fee ld =? r_fee_id l)) T_feeid_changed
            | None => [] end) = []).
  { destruct (N.eqb_spec k 0) as [K0|K0]; [reflexivity|]. destruct (Hl K0) as [l [E (O & T & F & _)]]. rewrite E, O, T, F, !N.eqb_refl. reflexivity. }
  rewrite T3. split; [reflexivity|].
  unfold RInv. cbn [rs_expect_pages rs_increment rs_seen rs_last]. unfold wrap16. rewrite N.mod_small by lia.
  split; [reflexivity|]. split; [reflexivity|]. split.
  - destruct Hseen as [[S [K _]]|[[S K]|S]]; rewrite S; cbn; [right; left; split; [reflexivity|lia]|right; right; reflexivity|right; right; reflexivity].
  - split; [intros _; eexists; split; [reflexivity|]; cbn; repeat split|intros K; lia].
Qed.

Lemma running_stop_page ld h k pg st : RInv ld h k st -> k <> 0 ->
  snd (running_check st (render_rdh ld h k 1 pg)) = [] /\
  let st' := fst (running_check st (render_rdh ld h k 1 pg)) in
  rs_expect_pages st' = 0 /\ rs_increment st' = 1 /\ rs_seen st' = 2 /\
  exists l, rs_last st' = Some l /\ r_stop_bit l = 1 /\ r_orbit l = h_orbit h.
Proof.
  intros (He & Hi & Hseen & Hl & Hz) Hk. unfold running_check.
  cbn [render_rdh r_pages_counter r_stop_bit r_orbit r_trigger_type r_fee_id fst snd N.eqb Pos.eqb]. rewrite He, N.eqb_refl. cbn [negb tagif app].
  destruct (Hl Hk) as [l [E (O & T & F & S)]]. rewrite E, S, O, T, F, !N.eqb_refl. cbn [N.eqb andb negb tagif app].
  destruct (N.eqb_spec k 0) as [K0|_]; [contradiction|]. split; [reflexivity|].
  cbn zeta. cbn [rs_expect_pages rs_increment rs_seen rs_last].
  assert (Hinc : (if rs_seen st =? 1 then k else rs_increment st) = 1).
  { destruct Hseen as [[S0 [K _]]|[[S1 K]|S2]]; [contradiction|rewrite S1; exact K|rewrite S2; exact Hi]. }
  assert (Hs2 : (if rs_seen st =? 0 then 1 else 2) = 2).
  { destruct Hseen as [[S0 [K _]]|[[S1 K]|S2]]; [contradiction|rewrite S1; reflexivity|rewrite S2; reflexivity]. }
  rewrite Hinc, Hs2. repeat split. eexists. split; [reflexivity|]. cbn. split; reflexivity.
Qed.

(* ---- one packet, a heartbeat frame, a link ---- *)
Definition strip (p : cdp) : rdh * list N := (c_rdh p, c_payload p).
Definition no_target (running : bool) : vcfg :=
  {| v_running := running; v_target := T_none; v_period := None; v_custom_version := None; v_chip_count := None; v_chip_orders := None |}.

Definition Between (ld : link_desc) (prev : option hbf_desc) (st : running_state) : Prop :=
  match prev with
  | None => st = running_init
  | Some h => rs_expect_pages st = 0 /\ rs_increment st = 1 /\ rs_seen st = 2 /\
              exists l, rs_last st = Some l /\ r_stop_bit l = 1 /\ r_orbit l = h_orbit h
  end.

Lemma between_inv ld prev st h : Between ld prev st -> (forall p, prev = Some p -> h_orbit p <> h_orbit h) -> RInv ld h 0 st.
Proof.
  intros B Ho. destruct prev as [p|]; cbn in B.
  - destruct B as (E & I & S & l & L & St & O). unfold RInv.
    split; [exact E|]. split; [exact I|]. split; [right; right; exact S|]. split; [intros K; contradiction|].
    intros _ l' L'. rewrite L in L'. injection L' as <-. split; [exact St|]. rewrite O. apply Ho. reflexivity.
  - subst st. unfold RInv, running_init. cbn.
    split; [reflexivity|]. split; [reflexivity|]. split; [left; auto|]. split; [intros K; contradiction|]. intros _ l' L'. discriminate.
Qed.

Lemma firstn_app_exact {A} (a b : list A) : firstn (length a) (a ++ b) = a.
Proof. induction a as [|x a IH]; [reflexivity|]. cbn. rewrite IH. reflexivity. Qed.
Lemma skipn_app_exact {A} (a b : list A) : skipn (length a) (a ++ b) = b.
Proof. induction a as [|x a IH]; [reflexivity|]. cbn. exact IH. Qed.

Section LinkRun.
  Context (ld : link_desc) (Hwf : wf_link_rdh ld = true).

  Definition LInv (running : bool) (s : link_state) : Prop := latch_ok ld (lk_sanity s) /\ lk_cdp s = lk_cdp (link_init (no_target running)).

  Lemma step_data_page running h k pg s off : wf_hbf h = true -> LInv running s -> (running = true -> RInv ld h k (lk_running s)) -> k + 1 < 65536 ->
    exists s', link_step (no_target running) s {| c_rdh := render_rdh ld h k 0 pg; c_payload := pg_payload pg; c_off := off |} = Ok (s', []) /\
               LInv running s' /\ (running = true -> RInv ld h (k + 1) (lk_running s')).
  Proof.
    intros Hh [Hl Hc] Hr Hk. unfold link_step. cbn [c_rdh c_payload c_off].
    destruct (sane_rendered ld Hwf (lk_sanity s) h k 0 pg Hl Hh ltac:(lia)) as [S1 S2].
    destruct (rdh_sanity (lk_sanity s) (render_rdh ld h k 0 pg)) as [ss t10]. cbn [fst snd] in S1, S2. subst t10.
    unfold no_target. cbn [v_running v_target]. destruct running.
    - destruct (running_data_page ld h k pg (lk_running s) (Hr eq_refl) Hk) as [R1 R2].
      destruct (running_check (lk_running s) (render_rdh ld h k 0 pg)) as [rs t11]. cbn [fst snd] in R1, R2. subst t11.
      eexists. split; [reflexivity|]. split; [split; [exact S2|exact Hc]|]. intros _. exact R2.
    - eexists. split; [reflexivity|]. split; [split; [exact S2|exact Hc]|]. intros X; discriminate.
  Qed.

  Lemma step_stop_page running h k pg s off : wf_hbf h = true -> LInv running s -> (running = true -> RInv ld h k (lk_running s)) -> k <> 0 ->
    exists s', link_step (no_target running) s {| c_rdh := render_rdh ld h k 1 pg; c_payload := pg_payload pg; c_off := off |} = Ok (s', []) /\
               LInv running s' /\ (running = true -> Between ld (Some h) (lk_running s')).
  Proof.
    intros Hh [Hl Hc] Hr Hk. unfold link_step. cbn [c_rdh c_payload c_off].
    destruct (sane_rendered ld Hwf (lk_sanity s) h k 1 pg Hl Hh ltac:(lia)) as [S1 S2].
    destruct (rdh_sanity (lk_sanity s) (render_rdh ld h k 1 pg)) as [ss t10]. cbn [fst snd] in S1, S2. subst t10.
    unfold no_target. cbn [v_running v_target]. destruct running.
    - destruct (running_stop_page ld h k pg (lk_running s) (Hr eq_refl) Hk) as [R1 R2].
      destruct (running_check (lk_running s) (render_rdh ld h k 1 pg)) as [rs t11]. cbn [fst snd] in R1, R2. subst t11.
      eexists. split; [reflexivity|]. split; [split; [exact S2|exact Hc]|]. intros _. exact R2.
    - eexists. split; [reflexivity|]. split; [split; [exact S2|exact Hc]|]. intros X; discriminate.
  Qed.

  Lemma run_pages running h : wf_hbf h = true -> forall pages k s ps acc,
    map strip ps = render_pages ld h k pages -> LInv running s -> (running = true -> RInv ld h k (lk_running s)) ->
    k + N.of_nat (length pages) < 65536 ->
    forall rest, exists s', link_run (no_target running) s (ps ++ rest) acc = link_run (no_target running) s' rest acc /\ LInv running s' /\
                            (running = true -> RInv ld h (k + N.of_nat (length pages)) (lk_running s')).
  Proof.
    intros Hh. induction pages as [|pg pages IH]; intros k s ps acc Hm Hl Hr Hk rest.
    - destruct ps; [|discriminate]. exists s. cbn. rewrite N.add_0_r. auto.
    - destruct ps as [|p ps]; [discriminate|]. cbn [map render_pages] in Hm. injection Hm as Hp1 Hp2 Hps.
      destruct p as [r pl off]. cbn [c_rdh c_payload] in Hp1, Hp2. subst r pl.
      destruct (step_data_page running h k pg s off Hh Hl Hr ltac:(cbn [length] in Hk; lia)) as [s1 [E [L1 R1]]].
      cbn [app link_run]. rewrite E. rewrite app_nil_r.
      destruct (IH (k + 1) s1 ps acc Hps L1 R1 ltac:(cbn [length] in Hk; lia) rest) as [s2 [E2 [L2 R2]]].
      exists s2. split; [exact E2|]. split; [exact L2|]. intros X. specialize (R2 X).
      replace (k + N.of_nat (length (pg :: pages))) with (k + 1 + N.of_nat (length pages)) by (cbn [length]; lia). exact R2.
  Qed.

  Lemma run_hbf running h ps s acc prev : wf_hbf h = true -> map strip ps = render_hbf ld h -> LInv running s ->
    (running = true -> Between ld prev (lk_running s)) -> (forall p, prev = Some p -> h_orbit p <> h_orbit h) ->
    forall rest, exists s', link_run (no_target running) s (ps ++ rest) acc = link_run (no_target running) s' rest acc /\ LInv running s' /\
                            (running = true -> Between ld (Some h) (lk_running s')).
  Proof.
    intros Hh Hm Hl Hb Ho rest. unfold render_hbf in Hm.
    assert (Hsplit : exists ps1 p2, ps = ps1 ++ [p2] /\ map strip ps1 = render_pages ld h 0 (h_pages h) /\
                                    strip p2 = (render_rdh ld h (N.of_nat (length (h_pages h))) 1 (h_stop h), pg_payload (h_stop h))).
    { destruct (exists_last (l := ps)) as [ps1 [p2 E]]; [intros ->; destruct (render_pages ld h 0 (h_pages h)); discriminate|].
      subst ps. rewrite map_app in Hm. apply app_inj_tail in Hm. destruct Hm as [H1 H2]. exists ps1, p2. auto. }
    destruct Hsplit as [ps1 [p2 [-> [H1 H2]]]].
    pose proof Hh as Hh'. unfold wf_hbf in Hh'. repeat (apply andb_true_iff in Hh'; destruct Hh' as [Hh' ?]).
    match goal with H : (N.of_nat (length (h_pages h)) <? 65535) = true |- _ => apply N.ltb_lt in H; rename H into Hn end.
    match goal with H : negb ?x = true |- _ => lazymatch x with context [h_pages] => rename H into Hne end end.
    rewrite <- app_assoc.
    destruct (run_pages running h Hh (h_pages h) 0 s ps1 acc H1 Hl (fun X => between_inv ld prev _ h (Hb X) Ho) ltac:(lia) ([p2] ++ rest)) as [s1 [E1 [L1 R1]]].
    rewrite E1. destruct p2 as [r pl off]. unfold strip in H2. cbn [c_rdh c_payload] in H2. injection H2 as -> ->.
    assert (Hk : 0 + N.of_nat (length (h_pages h)) <> 0) by (destruct (h_pages h); [discriminate Hne|cbn [length]; lia]).
    destruct (step_stop_page running h _ (h_stop h) s1 off Hh L1 R1 Hk) as [s2 [E2 [L2 R2]]].
    cbn [app link_run]. rewrite N.add_0_l in E2. rewrite E2, app_nil_r. exists s2. auto.
  Qed.

  Lemma run_hbfs running : forall hbfs ps s acc prev, forallb wf_hbf hbfs = true ->
    orbits_differ (match prev with Some p => p :: hbfs | None => hbfs end) = true ->
    map strip ps = flat_map (render_hbf ld) hbfs -> LInv running s -> (running = true -> Between ld prev (lk_running s)) ->
    exists s', link_run (no_target running) s ps acc = Ok (s', acc).
  Proof.
    induction hbfs as [|h hbfs IH]; intros ps s acc prev Hw Ho Hm Hl Hb.
    - destruct ps; [|discriminate]. exists s. reflexivity.
    - cbn [forallb] in Hw. apply andb_true_iff in Hw. destruct Hw as [Hh Hw]. cbn [flat_map] in Hm.
      assert (Hsp : exists ps1 ps2, ps = ps1 ++ ps2 /\ map strip ps1 = render_hbf ld h /\ map strip ps2 = flat_map (render_hbf ld) hbfs).
      { exists (firstn (length (render_hbf ld h)) ps), (skipn (length (render_hbf ld h)) ps). split; [symmetry; apply firstn_skipn|].
        rewrite <- firstn_map, <- skipn_map, Hm. split; [apply firstn_app_exact|apply skipn_app_exact]. }
      destruct Hsp as [ps1 [ps2 [-> [H1 H2]]]].
      assert (Hoh : forall p, prev = Some p -> h_orbit p <> h_orbit h).
      { intros p ->. cbn in Ho. apply andb_true_iff in Ho. destruct Ho as [Ho _]. apply negb_true_iff in Ho. apply N.eqb_neq. exact Ho. }
      destruct (run_hbf running h ps1 s acc prev Hh H1 Hl Hb Hoh ps2) as [s1 [E1 [L1 B1]]]. rewrite E1.
      apply (IH ps2 s1 acc (Some h) Hw); auto.
      destruct prev as [p|]; cbn in Ho |- *; [apply andb_true_iff in Ho; destruct Ho as [_ Ho]; exact Ho|exact Ho].
  Qed.
End LinkRun.


(* the RDH tier of C01: every link the grammar renders -- any description, any placement of its packets in the input -- is
   accepted silently by `check sanity` and `check all` without a target *)
Theorem c01_rdh_link ld running ps : wf_link_rdh ld = true -> map strip ps = render_link ld ->
  run_validator (no_target running) ps = Ok [].
Proof.
  intros Hwf Hm. unfold run_validator.
  pose proof (wf_parts ld Hwf) as (_ & _ & _ & _ & _ & _ & _ & _ & Hh & Ho).
  destruct (run_hbfs ld Hwf running (l_hbfs ld) ps (link_init (no_target running)) [] None Hh Ho Hm) as [s' E].
  - split; [|reflexivity]. unfold latch_ok, link_init, no_target, sanity_init. cbn. auto.
  - intros _. reflexivity.
  - rewrite E. reflexivity.
Qed.

(* non-vacuity: a description with two heartbeat frames, three pages and a wrap of nothing *)
Example c01_rdh_example :
  let pg n := {| pg_counter := n; pg_par := 0; pg_payload := repeat 0 16 |} in
  let h o := {| h_orbit := o; h_bc := 3563; h_trigger := 27139; h_detfield := 15; h_pages := [pg 1; pg 2]; h_stop := pg 3 |} in
  let ld := {| l_link := 5; l_fee := 20522; l_version := 7; l_system := 32; l_format := 2; l_cru := 24; l_dw := 1; l_hbfs := [h 10; h 11] |} in
  wf_link_rdh ld = true /\ length (render_link ld) = 6%nat.
Proof. vm_compute. split; reflexivity. Qed.
