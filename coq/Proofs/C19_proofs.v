(* C19: the views show exactly what is in the data. *)
From Coq Require Import List NArith ZArith Bool Lia ZifyBool ZifyN Arith.
Import ListNotations.
From FP Require Import Model.Base Model.ItsWords Model.ItsFsm Model.Rdh Model.Payload Model.Scanner Model.Views.
From FP Require Import Spec.WordLayout Spec.Diagram Spec.DiagramAbs Proofs.Bits Proofs.WordFacts Proofs.C09_proofs Proofs.C12_proofs.
From FP Require Gen.Facts.
Open Scope N_scope.
Ltac Zify.zify_post_hook ::= Z.div_mod_to_equations.
Arguments N.add : simpl never. Arguments N.mul : simpl never. Arguments N.div : simpl never.
Arguments N.modulo : simpl never. Arguments N.pow : simpl never. Arguments N.land : simpl never.

(* ---- one row per RDH, in order, at its offset, with its field values ---- *)
Lemma view_rdh_rows cdps : length (view_rdh cdps) = length cdps /\
  forall i c, nth_error cdps i = Some c -> nth_error (view_rdh cdps) i = Some (rdh_view_row c).
Proof.
  unfold view_rdh. split; [apply map_length|]. intros i c H. rewrite nth_error_map, H. reflexivity.
Qed.

(* ---- the word type shown = the type the checker assigns, on every word that is legal where it stands ---- *)
Definition erase (p : pword) : vkind :=
  match p with
  | P_IHW | P_IHW_cont => VK_ihw
  | P_TDH | P_TDH_cont | P_TDH_after_done => VK_tdh
  | P_TDT => VK_tdt | P_CDW => VK_cdw | P_Data => VK_data | P_DDW0 => VK_ddw0
  end.
Definition vkind_eqb (a b : vkind) : bool :=
  match a, b with
  | VK_data, VK_data | VK_tdh, VK_tdh | VK_tdt, VK_tdt | VK_ihw, VK_ihw | VK_ddw0, VK_ddw0 | VK_cdw, VK_cdw => true
  | _, _ => false
  end.
Lemma vkind_eqb_eq a b : vkind_eqb a b = true -> a = b.
Proof. destruct a, b; cbn; congruence. Qed.

Definition agree_cell (s : fstate) (id : N) (nd pd : bool) : bool :=
  if legal (abs s) (kind_of id nd pd) then
    match snd (advance_k s id nd pd), kind_of_id id with
    | F_ok p, Some k => vkind_eqb k (erase p)
    | _, _ => false
    end
  else true.
Definition agree_check : bool :=
  forallb (fun s => forallb (fun id => agree_cell s id false false && agree_cell s id false true &&
                                       agree_cell s id true false && agree_cell s id true true) all_bytes) all_fstates.
Lemma agree_check_true : agree_check = true.
Proof. vm_compute. reflexivity. Qed.

Lemma c19_agrees_with_checker s w : word_ok w -> legal (abs s) (kind_of (nb 9 w) (sl_tdh_no_data w) (sl_tdt_packet_done w)) = true ->
  exists p, snd (advance s w) = F_ok p /\ kind_of_id (nb 9 w) = Some (erase p).
Proof.
  intros Hw Hl. pose proof agree_check_true as H. unfold agree_check in H.
  rewrite forallb_forall in H. specialize (H s (all_fstates_complete s)).
  rewrite forallb_forall in H. specialize (H (nb 9 w) (all_bytes_complete _ (nb_lt w 9 Hw))).
  rewrite !andb_true_iff in H. destruct H as (((H00&H01)&H10)&H11).
  assert (Hc : agree_cell s (nb 9 w) (sl_tdh_no_data w) (sl_tdt_packet_done w) = true)
    by (destruct (sl_tdh_no_data w), (sl_tdt_packet_done w); assumption).
  unfold agree_cell in Hc. rewrite Hl in Hc. unfold advance.
  destruct (snd (advance_k s (nb 9 w) (sl_tdh_no_data w) (sl_tdt_packet_done w))) as [p|a]; [|discriminate].
  destruct (kind_of_id (nb 9 w)) as [k|]; [|discriminate]. exists p. split; [reflexivity|]. f_equal. apply vkind_eqb_eq. exact Hc.
Qed.

(* ---- word rows: one per word, at the word's position, quoting the word's bytes ---- *)
Lemma word_rows_offsets dv fmt off chunks : forall idx r,
  In r (word_rows dv fmt off idx chunks) ->
  exists i, (i < length chunks)%nat /\
    match r with
    | VR_word o _ b _ | VR_unknown o b => o = word_pos (idx + i) fmt off /\ b = take 10 (nth i chunks [])
    | _ => False
    end.
Proof.
  induction chunks as [|c chunks IH]; intros idx r Hin; [destruct Hin|].
  cbn [word_rows] in Hin. apply in_app_iff in Hin. destruct Hin as [Hin|Hin].
  - exists 0%nat. split; [cbn; lia|]. rewrite Nat.add_0_r. unfold word_row in Hin.
    destruct (kind_of_id (nb 9 (take 10 c))) as [k|].
    + destruct k; try (destruct dv); cbn in Hin; try contradiction; destruct Hin as [<-|[]]; cbn; auto.
    + destruct Hin as [<-|[]]. cbn. auto.
  - destruct (IH (S idx) r Hin) as [i [Hi Hr]]. exists (S i). split; [cbn; lia|].
    replace (idx + S i)%nat with (S idx + i)%nat by lia. exact Hr.
Qed.

(* every status word gets exactly one row (data words too in the data view); unknown ids get none *)
Lemma word_row_count dv fmt off idx c :
  word_row dv fmt off idx c =
  match kind_of_id (nb 9 (take 10 c)) with
  | None => [VR_unknown (word_pos idx fmt off) (take 10 c)]
  | Some VK_data => if dv then [VR_word (word_pos idx fmt off) VK_data (take 10 c) []] else []
  | Some k => [VR_word (word_pos idx fmt off) k (take 10 c) (word_attrs k (take 10 c))]
  end.
Proof. reflexivity. Qed.

(* the position shown is the position in the input: payload start + index * slot, when the slot the payload is cut with is the one
   of the RDH's data format (true of every conforming payload: C12_fmt0 / C12_fmt2) *)
Lemma c19_word_position_when (pad start : N) : pad = 6 -> start = 64 -> pad = Gen.Facts.view_word_padding_fmt0 -> start = Gen.Facts.view_payload_start ->
  forall idx fmt off, off + 64 + N.of_nat idx * 16 < 18446744073709551616 ->
  word_pos idx fmt off = off + 64 + N.of_nat idx * (if fmt =? 0 then 16 else 10).
Proof.
  intros Hp Hs Gp Gs idx fmt off Hb. unfold word_pos. rewrite <- Gp, <- Gs, Hp, Hs. unfold wrap64.
  destruct (fmt =? 0).
  - rewrite (N.mod_small (N.of_nat idx * (10 + 6))) by lia. rewrite N.mod_small by lia. lia.
  - rewrite (N.mod_small (N.of_nat idx * (10 + 0))) by lia. rewrite N.mod_small by lia. lia.
Qed.

Lemma take_take_le : forall n m (l : list N), (n <= m)%nat -> take n (take m l) = take n l.
Proof.
  induction n as [|n IH]; intros m l H; [reflexivity|]. destruct m as [|m]; [lia|]. destruct l as [|x l]; [reflexivity|].
  cbn [take]. f_equal. apply IH. lia.
Qed.
Lemma drop_take : forall k L (l : list N), drop k (take L l) = take (L - k) (drop k l).
Proof.
  induction k as [|k IH]; intros L l; [rewrite Nat.sub_0_r; reflexivity|].
  destruct L as [|L]; [cbn; destruct (drop (S k) l); reflexivity|]. destruct l as [|x l]; [cbn; destruct (L - k)%nat; reflexivity|].
  cbn [take drop]. rewrite IH. reflexivity.
Qed.

Lemma c19_chunk_is_payload_slice p slot chunks i : preprocess p = Prep_ok slot chunks -> (i < length chunks)%nat ->
  (slot = 16%nat \/ slot = 10%nat) /\
  take 10 (nth i chunks []) = take 10 (drop (i * slot) p).
Proof.
  unfold preprocess. intros H Hi.
  destruct (Nat.ltb 15 (ff_run p)); [discriminate|].
  destruct (detect_fmt0 p).
  - injection H as <- <-. split; [auto|]. destruct (c12_chunk_at 16 p i ltac:(lia) Hi) as [E _]. rewrite E.
    apply take_take_le. lia.
  - destruct (Nat.ltb 9 (ff_run p)); injection H as <- <-; (split; [auto|]).
    + destruct (c12_chunk_at 10 _ i ltac:(lia) Hi) as [E B]. rewrite E. rewrite take_take_le by lia.
      rewrite drop_take. apply take_take_le.
      assert (length (take (length p - ff_run p) p) <= length p - ff_run p)%nat.
      { clear. generalize (length p - ff_run p)%nat as n. induction p as [|x p IH]; intros [|n]; cbn; try lia. specialize (IH n). lia. }
      lia.
    + destruct (c12_chunk_at 10 p i ltac:(lia) Hi) as [E _]. rewrite E. apply take_take_le. lia.
Qed.

(* ---- decoded attributes = the documented bit fields of the quoted bytes ---- *)
Lemma bit_f80 w (k : nat) (j m : N) : word_ok w -> j < 8 -> m = N.shiftl 1 j ->
  negb (N.land (nb k w) m =? 0) = (f80 w (8 * N.of_nat k + j) 1 =? 1).
Proof.
  intros H Hj ->. rewrite f80_byte by (assumption || lia).
  rewrite (land_lit _ (N.shiftl 1 j) j 1 eq_refl). unfold field. change (2 ^ 1) with 2.
  assert (P : 2 ^ j <> 0) by (apply N.pow_nonzero; lia).
  assert (B : (nb k w / 2 ^ j) mod 2 < 2) by (apply N.mod_upper_bound; discriminate).
  set (v := (nb k w / 2 ^ j) mod 2) in *. clearbody v.
  destruct (N.eqb_spec v 1) as [E|E].
  - rewrite E. rewrite N.mul_1_l. apply negb_true_iff. apply N.eqb_neq. exact P.
  - assert (Z : v = 0) by lia. rewrite Z. reflexivity.
Qed.

Definition spec_tdh_trigger (w : list N) : N :=
  if f80 w 9 1 =? 1 then 0 else if f80 w 12 1 =? 1 then 1 else if f80 w 4 1 =? 1 then 2 else 3.

Lemma c19_tdh_attrs_when (soc int_ pht cont nd : list N) :
  soc = [2; 1] -> int_ = [1; 16] -> pht = [0; 16] -> cont = [1; 64; 0] -> nd = [1; 32; 0] ->
  soc = Gen.Facts.view_tdh_soc -> int_ = Gen.Facts.view_tdh_internal -> pht = Gen.Facts.view_tdh_physics ->
  cont = Gen.Facts.pin_util_tdh_continuation -> nd = Gen.Facts.pin_util_tdh_no_data ->
  forall w, word_ok w ->
  word_attrs VK_tdh w = [spec_tdh_trigger w; b2N (f80 w 14 1 =? 1); b2N (f80 w 13 1 =? 1); f80 w 32 32; f80 w 16 12].
Proof.
  intros S I P C D Gs Gi Gp Gc Gd w H. unfold word_attrs, view_tdh_trigger, view_tdh_cont, view_tdh_no_data, spec_tdh_trigger.
  rewrite <- Gs, <- Gi, <- Gp, <- Gc, <- Gd, S, I, P, C, D. cbn [nth]. unfold bit_set. cbn [N.to_nat]. change (Pos.to_nat 1) with 1%nat.
  rewrite (bit_f80 w 1 1 2 H ltac:(lia) eq_refl), (bit_f80 w 1 4 16 H ltac:(lia) eq_refl), (bit_f80 w 0 4 16 H ltac:(lia) eq_refl),
          (bit_f80 w 1 6 64 H ltac:(lia) eq_refl), (bit_f80 w 1 5 32 H ltac:(lia) eq_refl).
  change (8 * N.of_nat 1 + 1) with 9. change (8 * N.of_nat 1 + 4) with 12. change (8 * N.of_nat 0 + 4) with 4.
  change (8 * N.of_nat 1 + 6) with 14. change (8 * N.of_nat 1 + 5) with 13.
  f_equal. f_equal. f_equal. f_equal; [|f_equal].
  - exact (tdh_orbit_spec w H).
  - exact (tdh_trigger_bc_spec w H).
Qed.

Lemma c19_tdt_done_when (pd : list N) : pd = [8; 1; 0] -> pd = Gen.Facts.pin_util_tdt_packet_done ->
  forall w, word_ok w -> view_tdt_done w = b2N (f80 w 64 1 =? 1).
Proof.
  intros P G w H. unfold view_tdt_done. rewrite <- G, P. cbn [nth]. unfold bit_set. cbn [N.to_nat]. change (Pos.to_nat 8) with 8%nat.
  rewrite (bit_f80 w 8 0 1 H ltac:(lia) eq_refl). reflexivity.
Qed.

(* lane status of TDT / DDW0: 28 lanes, two bits each (0 ok, 1 warning, 2 error, 3 fatal); the view shows the worst *)
Definition lane_ids : list N := flat_map (fun k => map (fun j => 4 * N.of_nat k + j) [0; 1; 2; 3]) (seq 0 7).
Lemma lane_ids_are_0_27 : lane_ids = map N.of_nat (seq 0 28).
Proof. vm_compute. reflexivity. Qed.
Definition lane_stats (w : list N) : list N := map (fun i => f80 w (2 * i) 2) lane_ids.
Definition worst (l : list N) : N :=
  if existsb (fun x => x =? 3) l then 3 else if existsb (fun x => 2 <=? x) l then 2 else if existsb N.odd l then 1 else 0.

Definition lanes_of_byte (b : N) : list N := map (fun j => field b (2 * j) 2) [0; 1; 2; 3].
Lemma byte_fatal : forall b, b < 256 ->
  ((N.land b 3 =? 3) || (N.land b 12 =? 12) || (N.land b 48 =? 48) || (N.land b 192 =? 192)) = existsb (fun x => x =? 3) (lanes_of_byte b).
Proof.
  intros b Hb. apply Bool.eqb_prop. revert b Hb.
  apply (byte_forall (fun b => Bool.eqb ((N.land b 3 =? 3) || (N.land b 12 =? 12) || (N.land b 48 =? 48) || (N.land b 192 =? 192)) (existsb (fun x => x =? 3) (lanes_of_byte b)))).
  vm_compute. reflexivity.
Qed.
Lemma byte_error : forall b, b < 256 -> negb (N.land b 170 =? 0) = existsb (fun x => 2 <=? x) (lanes_of_byte b).
Proof.
  intros b Hb. apply Bool.eqb_prop. revert b Hb.
  apply (byte_forall (fun b => Bool.eqb (negb (N.land b 170 =? 0)) (existsb (fun x => 2 <=? x) (lanes_of_byte b)))). vm_compute. reflexivity.
Qed.
Lemma byte_warning : forall b, b < 256 -> negb (N.land b 85 =? 0) = existsb N.odd (lanes_of_byte b).
Proof.
  intros b Hb. apply Bool.eqb_prop. revert b Hb.
  apply (byte_forall (fun b => Bool.eqb (negb (N.land b 85 =? 0)) (existsb N.odd (lanes_of_byte b)))). vm_compute. reflexivity.
Qed.

Lemma existsb_flat_map {A B} (p : B -> bool) (g : A -> list B) l : existsb p (flat_map g l) = existsb (fun k => existsb p (g k)) l.
Proof. induction l as [|x l IH]; [reflexivity|]. cbn [flat_map existsb]. rewrite existsb_app, IH. reflexivity. Qed.
Lemma map_flat_map {A B C} (f : B -> C) (g : A -> list B) l : map f (flat_map g l) = flat_map (fun k => map f (g k)) l.
Proof. induction l as [|x l IH]; [reflexivity|]. cbn [flat_map]. rewrite map_app, IH. reflexivity. Qed.

Lemma lane_stats_bytes w : word_ok w -> lane_stats w = flat_map (fun k => lanes_of_byte (nb k w)) (seq 0 7).
Proof.
  intros H. unfold lane_stats, lane_ids. rewrite map_flat_map. apply flat_map_ext. intros k.
  unfold lanes_of_byte. rewrite map_map. apply map_ext_in. intros j Hj.
  assert (Hj4 : j < 4) by (cbn in Hj; lia).
  replace (2 * (4 * N.of_nat k + j)) with (8 * N.of_nat k + 2 * j) by lia. apply f80_byte; [exact H|lia].
Qed.

Lemma c19_lane_status_when (m : list N) : m = [85; 7; 170; 7; 3; 12; 48; 192; 7] -> m = Gen.Facts.view_lane_status_masks ->
  forall w, word_ok w -> view_lane_status w = worst (lane_stats w).
Proof.
  intros M G w H. unfold view_lane_status, lm. rewrite <- G, M. cbn [nth]. cbn [N.to_nat]. change (Pos.to_nat 7) with 7%nat.
  rewrite (lane_stats_bytes w H). unfold worst. rewrite !existsb_flat_map.
  word_destruct H. cbn [take seq existsb nb nth].
  repeat match goal with Hb : ?b < 256 |- _ => rewrite <- ?(byte_fatal b Hb), <- ?(byte_error b Hb), <- ?(byte_warning b Hb); revert Hb end.
  intros. reflexivity.
Qed.

(* ---- the frame views: per packet one RDH row, then its words, each placed with the packet's OWN data format ---- *)
Definition chunks_of (c : cdp) : list (list N) := match preprocess (c_payload c) with Prep_ok _ cs => cs | Prep_err _ => [] end.
Definition frdh_of (c : cdp) : vrow := match frame_rdh_row c with Ok r => r | Panic _ => VR_frdh 0 [] end.
Definition viewable (c : cdp) : Prop := (exists r, frame_rdh_row c = Ok r) /\ exists s cs, preprocess (c_payload c) = Prep_ok s cs.

Lemma c19_frames_rows_when (b : bool) : b = true -> b = Gen.Facts.view_word_offsets_use_own_rdh_format ->
  forall dv batch, Forall viewable batch ->
  view_frames dv batch =
  (flat_map (fun c => frdh_of c :: word_rows dv (rdh_data_format (c_rdh c)) (c_off c) 0 (chunks_of c)) batch, VE_done).
Proof.
  intros Hb Hg dv batch Hv. unfold view_frames. generalize (match batch with c :: _ => rdh_data_format (c_rdh c) | [] => 0 end) as bf.
  induction Hv as [|c rest [[r Hr] [s [cs Hp]]] _ IH]; intros bf; [reflexivity|].
  cbn [view_frames_batch flat_map]. unfold frdh_of, chunks_of. rewrite Hr, Hp, <- Hg, Hb, (IH bf). reflexivity.
Qed.

(* what the seeded alternative (one data format per batch) would show: a witness of a wrong position *)
Lemma c19_refuted_batch_format :
  word_pos 1 0 0 <> word_pos 1 2 0.
Proof. vm_compute. discriminate. Qed.
