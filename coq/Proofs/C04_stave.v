(* C04, the `check all its-stave` target: the only panic site a validator can reach is the invalid-layer site of
   Stave::from_feeid (recorded finding F6) -- for EVERY packet list, every configuration.  The other sites of the stave-level code
   (data word outside a frame F5, lane without a chip F8, fatal lane number that is no inner barrel lane F17) are handled by the
   source as it is now: the three regenerated facts below.  With one of them false the statement is not provable. *)
From Coq Require Import List NArith Bool Lia.
Import ListNotations.
From FP Require Import Model.Base Model.ItsWords Model.ItsFsm Model.Rdh Model.RdhChecks Model.Payload Model.Alpide Model.CdpRunning Model.Scanner Model.Link.
From FP Require Import Proofs.C04_proofs.
From FP Require Gen.Facts.
Open Scope N_scope.

Definition sites_handled : Prop :=
  Gen.Facts.data_word_without_frame_is_ignored = true /\ Gen.Facts.lane_without_chip_is_reported = true /\
  Gen.Facts.fatal_lane_beyond_barrel_is_ignored = true.

Section Handled.
Context (H : sites_handled).

Lemma frame_lanes_ok ly cc co lanes : forall errs valid fatal fl, exists r, frame_lanes ly cc co lanes errs valid fatal fl = Ok r.
Proof.
  destruct H as (_ & Hchip & _).
  induction lanes as [|[id data] r IH]; intros errs valid fatal fl; cbn [frame_lanes]; [eauto|].
  rewrite c04_unreachable_never.
  destruct (c04_no_chip_when _ eq_refl (eq_sym Hchip) ly (lane_number_of ly id) cc co (lane_run data)) as [o E]. rewrite E.
  destruct o; apply IH.
Qed.

Lemma check_frame_ok ly cc co fr : exists r, check_frame ly cc co fr = Ok r.
Proof.
  unfold check_frame. destruct (frame_lanes_ok ly cc co (fr_lanes fr) [] [] [] rflags_zero) as [[[[e v] f] fl] E]. rewrite E. eauto.
Qed.

Lemma inner_groupings_ok ids fatal : exists r, inner_groupings ids fatal = Ok r.
Proof.
  destruct H as (_ & _ & Hign). unfold inner_groupings, inner_groupings_gen. rewrite Hign. cbn [negb]. rewrite andb_false_r.
  destruct (_ || _ || _); eauto.
Qed.

Lemma frame_lanes_valid_ok ly fr fatal : exists r, frame_lanes_valid ly fr fatal = Ok r.
Proof.
  unfold frame_lanes_valid. destruct (negb _); [eauto|]. destruct ly; eauto. apply inner_groupings_ok.
Qed.

Lemma process_readout_frame_ok c s rf : exists r, process_readout_frame c s rf = Ok r.
Proof.
  unfold process_readout_frame. destruct (rf_frame rf) as [fr|]; [|eauto].
  destruct (fr_lanes fr) as [|l ls]; [eauto|].
  match goal with |- context [check_frame ?ly ?cc ?co fr] => destruct (check_frame_ok ly cc co fr) as [res E]; rewrite E end.
  match goal with |- context [frame_lanes_valid ?ly fr ?f] => destruct (frame_lanes_valid_ok ly fr f) as [lv E2]; rewrite E2 end.
  eauto.
Qed.

Lemma store_data_ok s w : exists s1, store_data s w = Ok s1.
Proof. destruct H as (Hfr & _ & _). exact (c04_no_frame_when _ eq_refl (eq_sym Hfr) s w). Qed.

Lemma preprocess_data_word_ok c s w : exists r, preprocess_data_word c s w = Ok r.
Proof.
  unfold preprocess_data_word. destruct (cs_start_of_data s && _).
  - destruct (negb (v_running c)); eauto.
  - destruct (negb (v_running c) || _); [eauto|]. destruct (store_data_ok s w) as [s1 E]. rewrite E. eauto.
Qed.

Lemma preprocess_tdt_ok c s w : exists r, preprocess_tdt c s w = Ok r.
Proof.
  unfold preprocess_tdt. destruct (cs_rfv _) as [rf|]; [|eauto]. destruct (tdt_packet_done w); [|eauto].
  match goal with |- context [process_readout_frame c ?s1 rf] => destruct (process_readout_frame_ok c s1 rf) as [[s2 m2] E]; rewrite E end.
  eauto.
Qed.

Lemma cdp_check_ok c s w : exists r, cdp_check c s w = Ok r.
Proof.
  unfold cdp_check. destruct (advance _ w) as [f' r]. destruct r as [p|a].
  - destruct p; try (destruct (preprocess_tdh _ w)); try (destruct (preprocess_ihw _ w)); eauto;
      try apply preprocess_tdt_ok; try apply preprocess_data_word_ok.
  - destruct a; try (destruct (preprocess_tdh _ w)); try (destruct (preprocess_ddw0 c _ w)); eauto.
    match goal with |- context [preprocess_data_word c ?s1 w] => destruct (preprocess_data_word_ok c s1 w) as [[s2 m] E]; rewrite E end.
    eauto.
Qed.

Lemma cdp_words_ok c ws : forall s acc, exists r, cdp_words c s ws acc = Ok r.
Proof.
  induction ws as [|w ws IH]; intros s acc; cbn [cdp_words]; [eauto|].
  destruct (cdp_check_ok c s w) as [[s1 m] E]. rewrite E. apply IH.
Qed.

(* the layer site: reached at most when a packet with FEE layer 7 opens the validator's frame bookkeeping *)
Lemma set_current_rdh_cases s r pos :
  (exists s1, set_current_rdh s r pos = Ok s1) \/
  (set_current_rdh s r pos = Panic SITE_stave_from_feeid /\ 6 < layer_from_feeid (r_fee_id r)).
Proof.
  unfold set_current_rdh. destruct (cs_rfv s) as [rf|]; [|eauto]. destruct (rf_layer rf); [eauto|].
  destruct (layer_of_feeid (r_fee_id r)) as [ly|p] eqn:E; [eauto|]. right.
  unfold layer_of_feeid in E.
  destruct (N.leb_spec (layer_from_feeid (r_fee_id r)) 2); [discriminate|].
  destruct (N.leb_spec (layer_from_feeid (r_fee_id r)) 4); [discriminate|].
  destruct (N.leb_spec (layer_from_feeid (r_fee_id r)) 6); [discriminate|]. injection E as <-. split; [reflexivity|lia].
Qed.

Lemma do_payload_checks_cases c s r p pos :
  (exists x, do_payload_checks c s r p pos = Ok x) \/
  (do_payload_checks c s r p pos = Panic SITE_stave_from_feeid /\ 6 < layer_from_feeid (r_fee_id r)).
Proof.
  unfold do_payload_checks. destruct (set_current_rdh_cases s r pos) as [[s1 E]|[E G]]; rewrite E; [|auto].
  left. destruct (preprocess p); [eauto|]. apply cdp_words_ok.
Qed.

Lemma link_step_cases c s p :
  (exists x, link_step c s p = Ok x) \/
  (link_step c s p = Panic SITE_stave_from_feeid /\ 6 < layer_from_feeid (r_fee_id (c_rdh p))).
Proof.
  unfold link_step. destruct (rdh_sanity _ _) as [ss t10]. destruct (if v_running c then _ else _) as [rs m11].
  destruct (v_target c); [eauto| |];
    (destruct (c_payload p) eqn:Ep; [eauto|]; rewrite <- Ep;
     destruct (do_payload_checks_cases c (lk_cdp s) (c_rdh p) (c_payload p) (c_off p)) as [[[cs m] E]|[E G]]; rewrite E; eauto).
Qed.

Lemma link_run_cases c ps : forall s acc,
  (exists x, link_run c s ps acc = Ok x) \/
  (link_run c s ps acc = Panic SITE_stave_from_feeid /\ exists p, In p ps /\ 6 < layer_from_feeid (r_fee_id (c_rdh p))).
Proof.
  induction ps as [|p ps IH]; intros s acc; cbn [link_run]; [eauto|].
  destruct (link_step_cases c s p) as [[[s1 m] E]|[E G]]; rewrite E.
  - destruct (IH s1 (acc ++ m)) as [X|[X [q [Hq G]]]]; [auto|]. right. split; [exact X|]. exists q. split; [right; exact Hq|exact G].
  - right. split; [reflexivity|]. exists p. split; [left; reflexivity|exact G].
Qed.

(* every mode, every packet list: a validator either runs through or stops at the invalid-layer site, and then some packet
   names layer 7 *)
Theorem c04_only_layer_site c ps :
  (exists m, run_validator c ps = Ok m) \/
  (run_validator c ps = Panic SITE_stave_from_feeid /\ exists p, In p ps /\ 6 < layer_from_feeid (r_fee_id (c_rdh p))).
Proof.
  unfold run_validator. destruct (link_run_cases c ps (link_init c) []) as [[[s m] E]|[E G]]; rewrite E; eauto.
Qed.

Corollary c04_no_panic_valid_layers c ps :
  (forall p, In p ps -> layer_from_feeid (r_fee_id (c_rdh p)) <= 6) -> exists m, run_validator c ps = Ok m.
Proof.
  intros Hl. destruct (c04_only_layer_site c ps) as [X|[_ [p [Hp G]]]]; [exact X|]. specialize (Hl p Hp). lia.
Qed.
End Handled.
