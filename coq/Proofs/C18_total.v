(* C18: the prefix theorem for validators without the `unless it crashes` escape: the longer run either extends the findings of the
   shorter one or stops at the invalid-layer site (recorded finding F6), and then some packet of the longer input names layer 7. *)
From Coq Require Import List NArith Bool.
Import ListNotations.
From FP Require Import Model.Base Model.Rdh Model.Alpide Model.CdpRunning Model.Scanner Model.Link Proofs.C18_proofs Proofs.C04_stave.
Open Scope N_scope.

Theorem c18_validator_prefix_total (H : sites_handled) c ps1 ps2 msgs : run_validator c ps1 = Ok msgs ->
  (exists more, run_validator c (ps1 ++ ps2) = Ok (msgs ++ more)) \/
  (run_validator c (ps1 ++ ps2) = Panic SITE_stave_from_feeid /\
   exists q, In q (ps1 ++ ps2) /\ 6 < layer_from_feeid (r_fee_id (c_rdh q))).
Proof.
  intros E. pose proof (c18_validator_prefix c ps1 ps2 msgs E) as P.
  destruct (c04_only_layer_site H c (ps1 ++ ps2)) as [[m Em]|[Ep G]].
  - rewrite Em in P. destruct P as [more ->]. left. exists more. exact Em.
  - right. split; [exact Ep|exact G].
Qed.
