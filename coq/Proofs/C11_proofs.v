(* C11: word-level sanity predicates are exact for all 80-bit values. *)
From Coq Require Import List NArith ZArith Bool Lia ZifyBool ZifyN.
From FP Require Import Model.Base Model.ItsWords Spec.WordLayout Proofs.Bits Proofs.WordFacts.
From FP Require Gen.Facts.
Import ListNotations.
Open Scope N_scope.

(* The identifiers the code uses (regenerated from the sources) are the documented ones. *)
Lemma gen_ids :
  Gen.Facts.ihw_id = IHW_ID /\ Gen.Facts.tdh_id = TDH_ID /\ Gen.Facts.tdt_id = TDT_ID /\
  Gen.Facts.ddw0_id = DDW0_ID /\ Gen.Facts.cdw_id = CDW_ID.
Proof. repeat split; reflexivity. Qed.

Lemma not_in_nil {A} (x : A) : ~ In x [] .
Proof. intros []. Qed.

(* ------------------------------------------------------------------ IHW *)
Lemma ihw_sanity_cases w : word_ok w ->
  (id_of w <> IHW_ID /\ ihw_sanity w = [SR_id]) \/
  (id_of w = IHW_ID /\ ~ ihw_reserved_zero w /\ ihw_sanity w = [SR_reserved]) \/
  (id_of w = IHW_ID /\ ihw_reserved_zero w /\ ihw_sanity w = []).
Proof.
  intros H. unfold ihw_sanity, ihw_is_reserved_0.
  rewrite (ihw_id_spec w H). destruct gen_ids as (->&_).
  destruct (N.eqb_spec (id_of w) IHW_ID) as [He|He]; cbn [negb].
  2:{ left; split; [assumption|reflexivity]. }
  right. destruct (N.eqb_spec (ihw_reserved w) 0) as [Hr|Hr]; cbn [negb];
    rewrite (ihw_reserved_zero_spec w H) in Hr.
  - right; repeat split; assumption.
  - left; repeat split; assumption.
Qed.

Lemma c11_ihw w : word_ok w -> (ihw_sanity w = [] <-> ihw_ok w).
Proof.
  intros H. unfold ihw_ok.
  destruct (ihw_sanity_cases w H) as [(Hi&->)|[(Hi&Hr&->)|(Hi&Hr&->)]];
    split; try discriminate; try tauto.
Qed.

(* ------------------------------------------------------------------ TDH *)
Lemma tdh_reserved_zero_b w : word_ok w ->
  (tdh_is_reserved_0 w = true <-> tdh_reserved_zero w).
Proof.
  intros H. unfold tdh_is_reserved_0, tdh_reserved_zero.
  rewrite (tdh_reserved0_spec w H), (tdh_reserved1_spec w H), (tdh_reserved2_spec w H).
  rewrite !andb_true_iff, !N.eqb_eq. lia.
Qed.

Lemma tdh_trigger_rule_b w : word_ok w ->
  ((tdh_trigger_type w =? 0) && (tdh_internal_trigger w =? 0) = false <-> tdh_trigger_rule w).
Proof.
  intros H. unfold tdh_trigger_rule.
  rewrite (tdh_trigger_type_spec w H), (tdh_internal_trigger_spec w H).
  rewrite andb_false_iff, !N.eqb_neq. lia.
Qed.

Lemma c11_tdh_id w : word_ok w -> id_of w <> TDH_ID -> tdh_sanity w = [SR_id].
Proof.
  intros H Hi. unfold tdh_sanity. rewrite (tdh_id_spec w H). destruct gen_ids as (_&->&_).
  destruct (N.eqb_spec (id_of w) TDH_ID); [contradiction|reflexivity].
Qed.

Lemma c11_tdh_body w : word_ok w -> id_of w = TDH_ID ->
  tdh_sanity w = (if tdh_is_reserved_0 w then [] else [SR_reserved]) ++
                 (if (tdh_trigger_type w =? 0) && (tdh_internal_trigger w =? 0) then [SR_trigger] else []).
Proof.
  intros H Hi. unfold tdh_sanity. rewrite (tdh_id_spec w H). destruct gen_ids as (_&->&_).
  rewrite Hi, N.eqb_refl. cbn [negb]. destruct (tdh_is_reserved_0 w); reflexivity.
Qed.

Lemma c11_tdh w : word_ok w -> (tdh_sanity w = [] <-> tdh_ok w).
Proof.
  intros H. unfold tdh_ok.
  destruct (N.eq_dec (id_of w) TDH_ID) as [Hi|Hi].
  - rewrite (c11_tdh_body w H Hi).
    pose proof (tdh_reserved_zero_b w H) as Hr. pose proof (tdh_trigger_rule_b w H) as Ht.
    destruct (tdh_is_reserved_0 w); destruct ((tdh_trigger_type w =? 0) && (tdh_internal_trigger w =? 0));
      cbn [app]; split; try discriminate; try tauto; intros (_&H1&H2);
      try (apply Hr in H1; discriminate); try (apply Ht in H2; discriminate).
  - rewrite (c11_tdh_id w H Hi). split; [discriminate|tauto].
Qed.

Lemma c11_tdh_reserved_reported w : word_ok w -> id_of w = TDH_ID ->
  (In SR_reserved (tdh_sanity w) <-> ~ tdh_reserved_zero w).
Proof.
  intros H Hi. rewrite (c11_tdh_body w H Hi). rewrite <- (tdh_reserved_zero_b w H).
  destruct (tdh_is_reserved_0 w); destruct ((tdh_trigger_type w =? 0) && (tdh_internal_trigger w =? 0));
    cbn [app In]; intuition (try discriminate; try congruence).
Qed.

Lemma c11_tdh_trigger_reported w : word_ok w -> id_of w = TDH_ID ->
  (In SR_trigger (tdh_sanity w) <-> ~ tdh_trigger_rule w).
Proof.
  intros H Hi. rewrite (c11_tdh_body w H Hi). rewrite <- (tdh_trigger_rule_b w H).
  destruct (tdh_is_reserved_0 w); destruct ((tdh_trigger_type w =? 0) && (tdh_internal_trigger w =? 0));
    cbn [app In]; intuition (try discriminate; try congruence).
Qed.

(* ------------------------------------------------------------------ TDT *)
Lemma tdt_reserved_zero_b w : word_ok w ->
  (tdt_is_reserved_0 w = true <-> tdt_reserved_zero w).
Proof.
  intros H. unfold tdt_is_reserved_0, tdt_reserved_zero.
  rewrite (tdt_reserved0_spec w H), (tdt_reserved1_spec w H), (tdt_reserved2_spec w H).
  rewrite !andb_true_iff, !N.eqb_eq. lia.
Qed.

Lemma c11_tdt w : word_ok w -> (tdt_sanity w = [] <-> tdt_ok w).
Proof.
  intros H. unfold tdt_ok, tdt_sanity. rewrite (tdt_id_spec w H). destruct gen_ids as (_&_&->&_).
  pose proof (tdt_reserved_zero_b w H) as Hr.
  destruct (N.eqb_spec (id_of w) TDT_ID) as [Hi|Hi]; cbn [negb].
  - destruct (tdt_is_reserved_0 w); cbn [negb]; split; try discriminate; try tauto.
    intros (_&H1). apply Hr in H1. discriminate.
  - split; [discriminate|tauto].
Qed.

(* ------------------------------------------------------------------ DDW0 *)
Lemma ddw0_reserved_zero_b w : word_ok w ->
  (ddw0_is_reserved_0 w = true <-> ddw0_reserved_zero w).
Proof.
  intros H. unfold ddw0_is_reserved_0, ddw0_reserved_zero.
  rewrite andb_true_iff, !N.eqb_eq, (ddw0_reserved0_1_spec w H), (ddw0_res3_spec w H). tauto.
Qed.

Lemma c11_ddw0 w : word_ok w -> (ddw0_sanity w = [] <-> ddw0_ok w).
Proof.
  intros H. unfold ddw0_ok, ddw0_sanity, ddw0_index_zero.
  rewrite (ddw0_id_spec w H). destruct gen_ids as (_&_&_&->&_).
  pose proof (ddw0_reserved_zero_b w H) as Hr. rewrite (ddw0_index_spec w H).
  destruct (N.eqb_spec (id_of w) DDW0_ID) as [Hi|Hi]; cbn [negb].
  - destruct (ddw0_is_reserved_0 w); destruct (N.eqb_spec (f80 w 68 4) 0); cbn [negb app];
      split; try discriminate; try tauto; intros (_&H1&H2); try contradiction;
      apply Hr in H1; discriminate.
  - split; [discriminate|tauto].
Qed.

(* ------------------------------------------------------------------ data words *)
Lemma is_lane_active_testbit lane lanes :
  lane < 32 -> is_lane_active lane lanes = lane_active lane lanes.
Proof.
  intros Hl. unfold is_lane_active, lane_active. rewrite N.mod_small by assumption.
  apply testbit_pow2_land.
Qed.

(* finite facts about the 256 identifiers, by complete enumeration *)
Definition id_facts (id : N) : bool :=
  Bool.eqb (is_valid_any_id id) (valid_data_id id) &&
  implb (valid_il id) ((N.shiftr id 5 =? 1) && (ib_id_to_lane id =? ib_lane id) && (ib_lane id <? 32)) &&
  implb (valid_ml id || valid_ol id)
        ((N.shiftr id 5 =? 2) && negb (valid_il id) && (ob_id_to_lane id =? ob_lane id) && (ob_lane id <? 32) &&
         negb (6 <? ob_id_to_input id)) &&
  implb (negb (valid_data_id id)) true &&
  implb ((N.shiftr id 5 =? 2) && (6 <? ob_id_to_input id)) (negb (valid_data_id id)) &&
  Bool.eqb (fsm_data_id id) (valid_data_id id).

Lemma id_facts_all : forall id, id < 256 -> id_facts id = true.
Proof. apply byte_forall. vm_compute. reflexivity. Qed.

(* exact codes for every valid identifier *)
Lemma c11_data_valid running w lanes :
  word_ok w -> valid_data_id (nb 9 w) = true ->
  data_word_codes running w lanes = data_word_verdict running (nb 9 w) lanes.
Proof.
  intros H Hv. pose proof (id_facts_all (nb 9 w) (nb_lt w 9 H)) as Hf.
  unfold id_facts in Hf. rewrite !andb_true_iff in Hf.
  destruct Hf as (((((Hf1&Hf2)&Hf3)&_)&_)&_).
  apply eqb_prop in Hf1.
  unfold data_word_codes, data_word_verdict. rewrite Hf1, Hv. cbn [app].
  destruct running; cbn [negb]; [|reflexivity].
  destruct (valid_il (nb 9 w)) eqn:Hil.
  - cbn [implb] in Hf2. rewrite !andb_true_iff in Hf2. destruct Hf2 as ((Hc&Hl)&Hlt).
    rewrite Hc. apply N.eqb_eq in Hl. apply N.ltb_lt in Hlt.
    rewrite Hl, is_lane_active_testbit by assumption. reflexivity.
  - unfold valid_data_id in Hv. rewrite Hil in Hv. cbn [orb] in Hv. rewrite Hv in Hf3 |- *.
    cbn [implb] in Hf3. rewrite !andb_true_iff in Hf3. destruct Hf3 as ((((Hc&_)&Hl)&Hlt)&Hin).
    apply N.eqb_eq in Hc. rewrite Hc. change (2 =? 1) with false. change (2 =? 2) with true. cbn iota.
    apply N.eqb_eq in Hl. apply N.ltb_lt in Hlt. apply negb_true_iff in Hin.
    rewrite Hl, is_lane_active_testbit, Hin, app_nil_r by assumption. reflexivity.
Qed.

(* an invalid identifier is always reported with E70 *)
Lemma c11_data_invalid running w lanes :
  word_ok w -> valid_data_id (nb 9 w) = false -> In 70 (data_word_codes running w lanes).
Proof.
  intros H Hv. pose proof (id_facts_all (nb 9 w) (nb_lt w 9 H)) as Hf.
  unfold id_facts in Hf. rewrite !andb_true_iff in Hf.
  destruct Hf as (((((Hf1&_)&_)&_)&_)&_). apply eqb_prop in Hf1.
  unfold data_word_codes. rewrite Hf1, Hv. left. reflexivity.
Qed.

Lemma c11_data_e70 running w lanes :
  word_ok w -> (In 70 (data_word_codes running w lanes) <-> valid_data_id (nb 9 w) = false).
Proof.
  intros H. split.
  - intros Hin. destruct (valid_data_id (nb 9 w)) eqn:Hv; [|reflexivity].
    rewrite (c11_data_valid running w lanes H Hv) in Hin.
    unfold data_word_verdict in Hin. rewrite Hv in Hin. cbn [app] in Hin.
    destruct running; cbn [negb] in Hin; [|destruct Hin].
    destruct (valid_il (nb 9 w)).
    + destruct (lane_active _ _); cbn in Hin; [tauto|destruct Hin as [Hx|[]]; discriminate].
    + destruct (valid_ml (nb 9 w) || valid_ol (nb 9 w)); [|destruct Hin].
      destruct (lane_active _ _); cbn in Hin; [tauto|destruct Hin as [Hx|[]]; discriminate].
  - apply c11_data_invalid; assumption.
Qed.

(* The documented lane of a valid identifier *)
Definition spec_lane (id : N) : N := if valid_il id then ib_lane id else ob_lane id.

(* The property as worded: a data word is reported (any code) exactly when its identifier
   is outside the valid ranges, its lane is not active, or its OB connector input exceeds 6. *)
Lemma c11_data_reported w lanes :
  word_ok w ->
  (data_word_codes true w lanes <> [] <->
   valid_data_id (nb 9 w) = false \/
   (valid_data_id (nb 9 w) = true /\ lane_active (spec_lane (nb 9 w)) lanes = false) \/
   (is_ob_class (nb 9 w) = true /\ 6 < ob_input (nb 9 w))).
Proof.
  intros H. destruct (valid_data_id (nb 9 w)) eqn:Hv.
  - rewrite (c11_data_valid true w lanes H Hv). unfold data_word_verdict, spec_lane. rewrite Hv.
    cbn [app negb].
    pose proof (id_facts_all (nb 9 w) (nb_lt w 9 H)) as Hf.
    unfold id_facts in Hf. rewrite !andb_true_iff in Hf.
    destruct Hf as (((((_&_)&_)&_)&Hf5)&_).
    assert (Hno : ~ (is_ob_class (nb 9 w) = true /\ 6 < ob_input (nb 9 w))).
    { intros (Hc&Hi). unfold is_ob_class, field in Hc. change (2 ^ 5) with 32 in Hc.
      change (2 ^ 3) with 8 in Hc.
      assert (Hs : (N.shiftr (nb 9 w) 5 =? 2) = true).
      { rewrite N.shiftr_div_pow2. change (2 ^ 5) with 32.
        pose proof (nb_lt w 9 H). apply N.eqb_eq in Hc. apply N.eqb_eq.
        rewrite N.mod_small in Hc; [assumption|].
        apply N.div_lt_upper_bound; lia. }
      assert (Hi' : (6 <? ob_id_to_input (nb 9 w)) = true).
      { apply N.ltb_lt. unfold ob_id_to_input. change 7 with (N.ones 3). rewrite N.land_ones.
        unfold ob_input, field in Hi. change (2 ^ 0) with 1 in Hi. rewrite N.div_1_r in Hi. exact Hi. }
      rewrite Hs, Hi', Hv in Hf5. discriminate. }
    destruct (valid_il (nb 9 w)) eqn:Hil.
    + destruct (lane_active (ib_lane (nb 9 w)) lanes) eqn:Hla.
      * split; [intros Hc; exfalso; apply Hc; reflexivity|].
        intros [Hx|[(_&Hx)|Hx]]; [discriminate|discriminate|contradiction].
      * split; [intros _; right; left; split; reflexivity | intros _; discriminate].
    + unfold valid_data_id in Hv. rewrite Hil in Hv. cbn [orb] in Hv. rewrite Hv.
      destruct (lane_active (ob_lane (nb 9 w)) lanes) eqn:Hla.
      * split; [intros Hc; exfalso; apply Hc; reflexivity|].
        intros [Hx|[(_&Hx)|Hx]]; [discriminate|discriminate|contradiction].
      * split; [intros _; right; left; split; reflexivity | intros _; discriminate].
  - split; [intros _; left; reflexivity|]. intros _ Hnil.
    pose proof (c11_data_invalid true w lanes H Hv) as Hin. rewrite Hnil in Hin. destruct Hin.
Qed.

(* sanity mode: only the identifier rule *)
Lemma c11_data_sanity_mode w lanes :
  word_ok w -> data_word_codes false w lanes = if valid_data_id (nb 9 w) then [] else [70].
Proof.
  intros H. pose proof (id_facts_all (nb 9 w) (nb_lt w 9 H)) as Hf.
  unfold id_facts in Hf. rewrite !andb_true_iff in Hf.
  destruct Hf as (((((Hf1&_)&_)&_)&_)&_). apply eqb_prop in Hf1.
  unfold data_word_codes. rewrite Hf1. cbn [negb]. rewrite app_nil_r. reflexivity.
Qed.
