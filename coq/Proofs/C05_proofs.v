(* C05: results do not depend on thread scheduling -- the collector. *)
From Coq Require Import List NArith ZArith Bool Lia ZifyBool ZifyN Arith Permutation Sorted.
From FP Require Import Model.Base Model.Alpide Model.Collector Proofs.Interleave.
From FP Require Gen.Facts.
Import ListNotations.
Open Scope N_scope.

(* ------------------------------------------------------------------ a stable sort is determined by the per-key subsequences *)
Definition selk (k : N) (l : list emsg) : list emsg := filter (fun m => m_off m =? k) l.
Definition le_msg (a b : emsg) : Prop := m_off a <= m_off b.

Lemma insert_In m z : forall l, In z (insert_msg m l) -> z = m \/ In z l.
Proof.
  induction l as [|w l IH]; cbn [insert_msg].
  - intros [<-|[]]; left; reflexivity.
  - destruct (m_off m <? m_off w).
    + intros [<-|Hz]; [left; reflexivity|right; exact Hz].
    + intros [<-|Hz]; [right; left; reflexivity|].
      destruct (IH Hz) as [->|H]; [left; reflexivity|right; right; exact H].
Qed.

Lemma insert_sorted m : forall l, StronglySorted le_msg l -> StronglySorted le_msg (insert_msg m l).
Proof.
  induction l as [|y l IH]; intros Hs; cbn [insert_msg]; [repeat constructor|].
  inversion Hs as [|? ? Hl Hy]; subst.
  destruct (N.ltb_spec (m_off m) (m_off y)).
  - constructor; [exact Hs|]. constructor; [unfold le_msg; lia|].
    eapply Forall_impl; [|exact Hy]. unfold le_msg. intros; lia.
  - constructor; [apply IH, Hl|].
    apply Forall_forall. intros z Hz. destruct (insert_In m z l Hz) as [->|Hz'].
    + unfold le_msg. lia.
    + exact (proj1 (Forall_forall _ _) Hy z Hz').
Qed.

Lemma selk_insert k m : forall l, StronglySorted le_msg l ->
  selk k (insert_msg m l) = if m_off m =? k then selk k l ++ [m] else selk k l.
Proof.
  induction l as [|y l IH]; intros Hs; cbn [insert_msg].
  - unfold selk. cbn. destruct (m_off m =? k); reflexivity.
  - inversion Hs as [|? ? Hl Hy]; subst.
    destruct (N.ltb_spec (m_off m) (m_off y)).
    + unfold selk. change (filter (fun m0 => m_off m0 =? k) (m :: y :: l))
        with (if m_off m =? k then m :: filter (fun m0 => m_off m0 =? k) (y :: l) else filter (fun m0 => m_off m0 =? k) (y :: l)).
      destruct (N.eqb_spec (m_off m) k) as [E|E]; [|reflexivity].
      (* everything in y :: l has a larger key than k *)
      assert (Hn : filter (fun z => m_off z =? k) (y :: l) = []).
      { apply filter_none. intros z [<-|Hz]; [apply N.eqb_neq; lia|].
        pose proof (proj1 (Forall_forall _ _) Hy z Hz) as Hle. unfold le_msg in Hle. apply N.eqb_neq. lia. }
      rewrite Hn. reflexivity.
    + unfold selk in *. cbn [filter]. rewrite (IH Hl).
      destruct (m_off y =? k); destruct (m_off m =? k); reflexivity.
Qed.

Lemma sort_fold_sorted l : forall acc, StronglySorted le_msg acc ->
  StronglySorted le_msg (fold_left (fun a m => insert_msg m a) l acc).
Proof. induction l as [|m l IH]; intros acc H; cbn [fold_left]; [exact H|apply IH, insert_sorted, H]. Qed.

Lemma selk_nil k : selk k [] = [].  Proof. reflexivity. Qed.
Lemma selk_cons k m l : selk k (m :: l) = if m_off m =? k then m :: selk k l else selk k l.
Proof. reflexivity. Qed.

Lemma sort_fold_selk k l : forall acc, StronglySorted le_msg acc ->
  selk k (fold_left (fun a m => insert_msg m a) l acc) = selk k acc ++ selk k l.
Proof.
  induction l as [|m l IH]; intros acc H; cbn [fold_left]; [rewrite selk_nil, app_nil_r; reflexivity|].
  rewrite (IH _ (insert_sorted m acc H)), (selk_insert k m acc H), selk_cons.
  destruct (m_off m =? k); [rewrite <- app_assoc; reflexivity|reflexivity].
Qed.

Lemma sort_msgs_sorted l : StronglySorted le_msg (sort_msgs l).
Proof. apply sort_fold_sorted. constructor. Qed.
Lemma sort_msgs_selk k l : selk k (sort_msgs l) = selk k l.
Proof. unfold sort_msgs. rewrite sort_fold_selk by constructor. reflexivity. Qed.

(* two sorted lists with the same per-key subsequences are equal *)
Lemma sorted_unique : forall l1 l2, StronglySorted le_msg l1 -> StronglySorted le_msg l2 ->
  (forall k, selk k l1 = selk k l2) -> l1 = l2.
Proof.
  induction l1 as [|x l1 IH]; intros l2 H1 H2 Hk.
  - destruct l2 as [|y l2]; [reflexivity|]. specialize (Hk (m_off y)). unfold selk in Hk. cbn in Hk. rewrite N.eqb_refl in Hk. discriminate.
  - destruct l2 as [|y l2].
    + specialize (Hk (m_off x)). unfold selk in Hk. cbn in Hk. rewrite N.eqb_refl in Hk. discriminate.
    + inversion H1 as [|? ? Hl1 Hx]; inversion H2 as [|? ? Hl2 Hy]; subst.
      assert (Hxy : m_off x = m_off y).
      { (* the smaller head key must occur in the other list *)
        pose proof (Hk (m_off x)) as Ka. pose proof (Hk (m_off y)) as Kb. unfold selk in Ka, Kb. cbn [filter] in Ka, Kb.
        rewrite N.eqb_refl in Ka, Kb.
        destruct (N.lt_trichotomy (m_off x) (m_off y)) as [Hlt|[E|Hgt]]; [|exact E|].
        - exfalso. destruct (N.eqb_spec (m_off y) (m_off x)); [lia|].
          assert (Hn : filter (fun m => m_off m =? m_off x) l2 = []).
          { apply filter_none. intros z Hz. pose proof (proj1 (Forall_forall _ _) Hy z Hz) as Hle. unfold le_msg in Hle. apply N.eqb_neq. lia. }
          rewrite Hn in Ka. discriminate.
        - exfalso. destruct (N.eqb_spec (m_off x) (m_off y)); [lia|].
          assert (Hn : filter (fun m => m_off m =? m_off y) l1 = []).
          { apply filter_none. intros z Hz. pose proof (proj1 (Forall_forall _ _) Hx z Hz) as Hle. unfold le_msg in Hle. apply N.eqb_neq. lia. }
          rewrite Hn in Kb. discriminate. }
      assert (Exy : x = y).
      { pose proof (Hk (m_off x)) as Ka. unfold selk in Ka. cbn [filter] in Ka. rewrite N.eqb_refl, <- Hxy, N.eqb_refl in Ka. congruence. }
      subst y. f_equal. apply IH; [assumption|assumption|].
      intros k. specialize (Hk k). unfold selk in *. cbn [filter] in Hk. destruct (m_off x =? k); congruence.
Qed.

Lemma stable_sort_det l1 l2 : (forall k, selk k l1 = selk k l2) -> sort_msgs l1 = sort_msgs l2.
Proof.
  intros H. apply sorted_unique; try apply sort_msgs_sorted. intros k. rewrite !sort_msgs_selk. apply H.
Qed.

(* ------------------------------------------------------------------ the collector fold, component by component *)
(* a component g of the state that only messages satisfying P touch, and whose new value depends
   only on its old value and the message *)
Lemma comp_fold {T : Type} (g : cstate -> T) (P : cstat -> bool)
  (skip : forall s x, P x = false -> g (update s x) = g s)
  (cong : forall s s' x, g s = g s' -> g (update s x) = g (update s' x)) :
  forall a s s', g s = g s' -> g (fold_left update a s) = g (fold_left update (filter P a) s').
Proof.
  induction a as [|x a IH]; intros s s' E; cbn [fold_left filter]; [exact E|].
  destruct (P x) eqn:Px; cbn [fold_left].
  - apply IH, cong, E.
  - apply IH. rewrite (skip s x Px). exact E.
Qed.

Lemma comp_eq {T : Type} (g : cstate -> T) (P : cstat -> bool)
  (skip : forall s x, P x = false -> g (update s x) = g s)
  (cong : forall s s' x, g s = g s' -> g (update s x) = g (update s' x)) a1 a2 :
  filter P a1 = filter P a2 -> g (collect_all a1) = g (collect_all a2).
Proof.
  intros E. unfold collect_all.
  rewrite (comp_fold g P skip cong a1 cinit cinit eq_refl), (comp_fold g P skip cong a2 cinit cinit eq_refl), E. reflexivity.
Qed.

Definition is_link x := match x with CS_link _ => true | _ => false end.
Definition is_fee x := match x with CS_fee _ => true | _ => false end.
Definition is_ls x := match x with CS_layer_stave _ _ => true | _ => false end.
Definition is_once x := match x with CS_version _ | CS_format _ | CS_sysid _ | CS_run_trigger _ => true | _ => false end.
Definition is_errmsg x := match x with CS_error _ | CS_fatal _ => true | _ => false end.
Definition is_counter x := match x with CS_seen _ | CS_filtered _ | CS_payload _ | CS_hbfs _ | CS_trigger _ | CS_alpide _ => true | _ => false end.

Definition g_once (s : cstate) := (k_version s, k_format s, k_sysid s, k_run_trigger s, k_set_twice s).
Definition g_err (s : cstate) := (k_errors s, k_fatal s, k_custom s, k_total s).
Definition g_rest (s : cstate) := (k_unique s, k_staves_err s, k_finalized s).

Ltac comp_tac := intros; match goal with x : cstat |- _ => destruct x end; cbn in *; try discriminate; try reflexivity.

Lemma links_eq a1 a2 : filter is_link a1 = filter is_link a2 -> k_links (collect_all a1) = k_links (collect_all a2).
Proof.
  apply (comp_eq k_links is_link).
  - comp_tac; repeat match goal with |- context [set_once ?o ?v] => destruct (set_once o v) end; cbn; try reflexivity;
      match goal with |- context [k_fatal ?s] => destruct (k_fatal s); reflexivity end.
  - intros s s' x E. destruct x; cbn; try exact E; try (rewrite E; reflexivity);
      repeat match goal with |- context [set_once ?o ?v] => destruct (set_once o v) end; cbn; try exact E;
      destruct (k_fatal s); destruct (k_fatal s'); cbn; exact E.
Qed.

Ltac skip_tac :=
  intros s x Px; destruct x; cbn in Px |- *; try discriminate; try reflexivity;
  repeat match goal with |- context [set_once ?o ?v] => destruct (set_once o v) end; cbn; try reflexivity;
  try (destruct (k_fatal s); reflexivity).
Ltac cong_tac :=
  intros s s' x E; destruct x; cbn in E |- *; try exact E;
  try (injection E as ?; repeat match goal with H : _ = _ |- _ => rewrite H end; reflexivity);
  try (rewrite E; reflexivity).

Lemma fees_eq a1 a2 : filter is_fee a1 = filter is_fee a2 -> k_fees (collect_all a1) = k_fees (collect_all a2).
Proof.
  apply (comp_eq k_fees is_fee); [skip_tac|].
  intros s s' x E. destruct x; cbn; try exact E; try (rewrite E; reflexivity);
    repeat match goal with |- context [set_once ?o ?v] => destruct (set_once o v) end; cbn; try exact E;
    destruct (k_fatal s); destruct (k_fatal s'); cbn; exact E.
Qed.
Lemma ls_eq a1 a2 : filter is_ls a1 = filter is_ls a2 -> k_layer_staves (collect_all a1) = k_layer_staves (collect_all a2).
Proof.
  apply (comp_eq k_layer_staves is_ls); [skip_tac|].
  intros s s' x E. destruct x; cbn; try exact E; try (rewrite E; reflexivity);
    repeat match goal with |- context [set_once ?o ?v] => destruct (set_once o v) end; cbn; try exact E;
    destruct (k_fatal s); destruct (k_fatal s'); cbn; exact E.
Qed.

Lemma once_eq a1 a2 : filter is_once a1 = filter is_once a2 -> g_once (collect_all a1) = g_once (collect_all a2).
Proof.
  apply (comp_eq g_once is_once).
  - intros s x Px; destruct x; cbn in Px |- *; try discriminate; try reflexivity.
    all: unfold g_once; cbn; try reflexivity; destruct (k_fatal s); reflexivity.
  - intros s s' x E. unfold g_once in *. injection E as E1 E2 E3 E4 E5.
    destruct x; cbn; try (rewrite E1, E2, E3, E4, E5; reflexivity).
    + unfold set_once. rewrite E1. destruct (k_version s'); cbn; rewrite E2, E3, E4, E5; reflexivity.
    + unfold set_once. rewrite E2. destruct (k_format s'); cbn; rewrite E1, E3, E4, E5; reflexivity.
    + unfold set_once. rewrite E3. destruct (k_sysid s'); cbn; rewrite E1, E2, E4, E5; reflexivity.
    + unfold set_once. rewrite E4. destruct (k_run_trigger s'); cbn; rewrite E1, E2, E3, E5; reflexivity.
    + destruct (k_fatal s); destruct (k_fatal s'); cbn; rewrite E1, E2, E3, E4, E5; reflexivity.
    + destruct (k_fatal s); destruct (k_fatal s'); cbn; rewrite E1, E2, E3, E4, E5; reflexivity.
Qed.

Lemma rest_const a : g_rest (collect_all a) = g_rest cinit.
Proof.
  unfold collect_all. generalize cinit. induction a as [|x a IH]; intros s; cbn [fold_left]; [reflexivity|].
  rewrite IH. unfold g_rest. destruct x; cbn; try reflexivity;
    repeat match goal with |- context [set_once ?o ?v] => destruct (set_once o v) end; cbn; try reflexivity;
    destruct (k_fatal s); reflexivity.
Qed.

Lemma err_eq a1 a2 : filter is_errmsg a1 = filter is_errmsg a2 -> g_err (collect_all a1) = g_err (collect_all a2).
Proof.
  apply (comp_eq g_err is_errmsg).
  - intros s x Px; destruct x; cbn in Px |- *; try discriminate; try reflexivity.
    all: unfold g_err; cbn; try reflexivity;
      repeat match goal with |- context [set_once ?o ?v] => destruct (set_once o v) end; reflexivity.
  - intros s s' x E. unfold g_err in *. injection E as E1 E2 E3 E4.
    destruct x; cbn; try (rewrite E1, E2, E3, E4; reflexivity);
      repeat match goal with |- context [set_once ?o ?v] => destruct (set_once o v) end; cbn; try (rewrite E1, E2, E3, E4; reflexivity).
    + destruct (k_fatal s) eqn:Ef; destruct (k_fatal s') eqn:Ef'; try congruence; cbn; rewrite ?Ef, ?Ef', ?E1, ?E3, ?E4; congruence.
    + destruct (k_fatal s) eqn:Ef; destruct (k_fatal s') eqn:Ef'; try congruence; cbn; rewrite ?Ef, ?Ef', ?E1, ?E3, ?E4; congruence.
Qed.

(* ---- additive counters: invariant under any permutation of the arrival order ---- *)
Lemma vadd_comm : forall a b, vadd a b = vadd b a.
Proof. induction a as [|x a IH]; intros [|y b]; cbn; try reflexivity. rewrite IH, N.add_comm. reflexivity. Qed.
Lemma vadd_assoc : forall a b c, vadd (vadd a b) c = vadd a (vadd b c).
Proof. induction a as [|x a IH]; intros [|y b] [|z c]; cbn; try reflexivity. rewrite IH, N.add_assoc. reflexivity. Qed.
Lemma vadd_swap c x y : vadd (vadd c x) y = vadd (vadd c y) x.
Proof. rewrite !vadd_assoc, (vadd_comm x y). reflexivity. Qed.

Lemma fold_vadd_perm l l' : Permutation l l' -> forall c, fold_left vadd l c = fold_left vadd l' c.
Proof.
  induction 1 as [|x l l' _ IH|x y l|l l' l'' _ IH1 _ IH2]; intros c; cbn [fold_left].
  - reflexivity.
  - apply IH.
  - rewrite vadd_swap. reflexivity.
  - rewrite IH1. apply IH2.
Qed.

Lemma filter_perm {A} (P : A -> bool) l l' : Permutation l l' -> Permutation (filter P l) (filter P l').
Proof.
  induction 1 as [|x l l' _ IH|x y l|l l' l'' _ IH1 _ IH2]; cbn [filter].
  - constructor.
  - destruct (P x); [constructor|]; exact IH.
  - destruct (P x); destruct (P y); try reflexivity. apply perm_swap.
  - eapply Permutation_trans; eassumption.
Qed.

Lemma counters_fold : forall l s, forallb is_counter l = true ->
  k_counters (fold_left update l s) = fold_left vadd (map delta l) (k_counters s).
Proof.
  induction l as [|x l IH]; intros s H; cbn [fold_left map]; [reflexivity|].
  cbn [forallb] in H. apply andb_prop in H. destruct H as [Hx Hl]. rewrite (IH _ Hl).
  destruct x; cbn in Hx; try discriminate; reflexivity.
Qed.

Lemma forallb_filter {A} (P : A -> bool) l : forallb P (filter P l) = true.
Proof. induction l as [|x l IH]; [reflexivity|]. cbn. destruct (P x) eqn:E; cbn; [rewrite E|]; exact IH. Qed.

Lemma counters_eq a1 a2 : Permutation a1 a2 -> k_counters (collect_all a1) = k_counters (collect_all a2).
Proof.
  intros Hp. unfold collect_all.
  assert (C : forall a, k_counters (fold_left update a cinit) = k_counters (fold_left update (filter is_counter a) cinit)).
  { intros a. apply (comp_fold k_counters is_counter); [skip_tac| |reflexivity].
    intros s s' x E. destruct x; cbn; try exact E; try (rewrite E; reflexivity);
      repeat match goal with |- context [set_once ?o ?v] => destruct (set_once o v) end; cbn; try exact E;
      destruct (k_fatal s); destruct (k_fatal s'); cbn; exact E. }
  rewrite (C a1), (C a2), !counters_fold by apply forallb_filter.
  apply fold_vadd_perm, Permutation_map, filter_perm, Hp.
Qed.

(* ---- the error list: arrival order of the error messages, as long as no fatal error is sent ---- *)
Definition msg_of (x : cstat) : list emsg := match x with CS_error m => [m] | _ => [] end.
Definition no_fatal (a : list cstat) : Prop := forall m, ~ In (CS_fatal m) a.

Lemma errors_fold : forall l s, k_fatal s = None -> (forall m, ~ In (CS_fatal m) l) ->
  k_errors (fold_left update l s) = k_errors s ++ flat_map msg_of l /\ k_fatal (fold_left update l s) = None.
Proof.
  induction l as [|x l IH]; intros s Hf Hn; cbn [fold_left flat_map]; [rewrite app_nil_r; split; [reflexivity|exact Hf]|].
  assert (Hn' : forall m, ~ In (CS_fatal m) l) by (intros m Hm; apply (Hn m); right; exact Hm).
  destruct x; cbn [update msg_of app];
    try (match goal with |- context [fold_left update l ?s1] =>
           destruct (IH s1) as [E1 E2];
           [cbn; repeat match goal with |- context [set_once ?o ?v] => destruct (set_once o v) end; exact Hf
           |exact Hn'
           |rewrite E1, E2; split; [cbn; repeat match goal with |- context [set_once ?o ?v] => destruct (set_once o v) end; reflexivity|reflexivity]] end).
  - rewrite Hf. destruct (IH (upd_errs s (k_errors s ++ [m]) None (k_custom s) (k_total s + 1)) eq_refl Hn') as [E1 E2].
    rewrite E1, E2. cbn. rewrite <- app_assoc. split; reflexivity.
  - exfalso. apply (Hn m). left. reflexivity.
Qed.

Lemma total_custom_fold : forall l s, k_fatal s = None -> (forall m, ~ In (CS_fatal m) l) ->
  k_total (fold_left update l s) = k_total s + N.of_nat (length (flat_map msg_of l)) /\
  k_custom (fold_left update l s) = k_custom s.
Proof.
  induction l as [|x l IH]; intros s Hf Hn; cbn [fold_left flat_map]; [cbn; split; [lia|reflexivity]|].
  assert (Hn' : forall m, ~ In (CS_fatal m) l) by (intros m Hm; apply (Hn m); right; exact Hm).
  destruct x; cbn [update msg_of app];
    try (match goal with |- context [fold_left update l ?s1] =>
           destruct (IH s1) as [E1 E2];
           [cbn; repeat match goal with |- context [set_once ?o ?v] => destruct (set_once o v) end; exact Hf
           |exact Hn'
           |rewrite E1, E2; split; [cbn; repeat match goal with |- context [set_once ?o ?v] => destruct (set_once o v) end; reflexivity
                                   |cbn; repeat match goal with |- context [set_once ?o ?v] => destruct (set_once o v) end; reflexivity]] end).
  - rewrite Hf. destruct (IH (upd_errs s (k_errors s ++ [m]) None (k_custom s) (k_total s + 1)) eq_refl Hn') as [E1 E2].
    rewrite E1, E2. cbn [k_total k_custom upd_errs length]. split; [lia|reflexivity].
  - exfalso. apply (Hn m). left. reflexivity.
Qed.

Definition err_at (k : N) (x : cstat) : bool := match x with CS_error m => m_off m =? k | _ => false end.

Lemma selk_msgs k : forall a, selk k (flat_map msg_of a) = flat_map msg_of (filter (err_at k) a).
Proof.
  induction a as [|x a IH]; [reflexivity|]. cbn [flat_map filter].
  unfold selk in *. rewrite filter_app, IH. destruct x; cbn; try reflexivity.
  destruct (m_off m =? k); reflexivity.
Qed.

(* what the streams must satisfy: each ordered statistic is produced by one sender, and two
   error messages with the same leading offset come from the same sender *)
Record streams_ok (ss : list (list cstat)) : Prop := {
  so_links : exists i, only_in is_link ss i;
  so_fees : exists i, only_in is_fee ss i;
  so_ls : exists i, only_in is_ls ss i;
  so_once : exists i, only_in is_once ss i;
  so_keys : forall k, exists i, only_in (err_at k) ss i;
  so_nofatal : forall s, In s ss -> forall m, ~ In (CS_fatal m) s }.

Lemma interleave_nofatal ss a : Interleave ss a -> (forall s, In s ss -> forall m, ~ In (CS_fatal m) s) -> forall m, ~ In (CS_fatal m) a.
Proof.
  intros Hi Hn m Hm.
  assert (Hin : In (CS_fatal m) (concat ss)) by (eapply Permutation_in; [apply interleave_perm; exact Hi|exact Hm]).
  apply in_concat in Hin. destruct Hin as (s & Hs & Hy). exact (Hn s Hs m Hy).
Qed.

(* the theorem, for a collector that always sorts the error list stably *)
Lemma c05_collector_when (sort_muted : bool) : sort_muted = true ->
  forall ss a1 a2 mute, streams_ok ss -> Interleave ss a1 -> Interleave ss a2 ->
  finalize sort_muted mute (collect_all a1) = finalize sort_muted mute (collect_all a2).
Proof.
  intros -> ss a1 a2 mute [Hl Hf Hs Ho Hk Hn] I1 I2.
  pose proof (links_eq a1 a2 (interleave_filter_eq is_link ss a1 a2 I1 I2 Hl)) as E1.
  pose proof (fees_eq a1 a2 (interleave_filter_eq is_fee ss a1 a2 I1 I2 Hf)) as E2.
  pose proof (ls_eq a1 a2 (interleave_filter_eq is_ls ss a1 a2 I1 I2 Hs)) as E3.
  pose proof (once_eq a1 a2 (interleave_filter_eq is_once ss a1 a2 I1 I2 Ho)) as E4.
  assert (Hp : Permutation a1 a2).
  { eapply Permutation_trans; [apply interleave_perm; exact I1|apply Permutation_sym, interleave_perm; exact I2]. }
  pose proof (counters_eq a1 a2 Hp) as E5.
  pose proof (rest_const a1) as R1. pose proof (rest_const a2) as R2.
  pose proof (interleave_nofatal ss a1 I1 Hn) as N1. pose proof (interleave_nofatal ss a2 I2 Hn) as N2.
  destruct (errors_fold a1 cinit eq_refl N1) as [X1 F1]. destruct (errors_fold a2 cinit eq_refl N2) as [X2 F2].
  destruct (total_custom_fold a1 cinit eq_refl N1) as [T1 C1]. destruct (total_custom_fold a2 cinit eq_refl N2) as [T2 C2].
  fold (collect_all a1) in X1, F1, T1, C1. fold (collect_all a2) in X2, F2, T2, C2. cbn [k_errors k_total k_custom cinit app] in *.
  assert (ES : sort_msgs (k_errors (collect_all a1)) = sort_msgs (k_errors (collect_all a2))).
  { rewrite X1, X2. apply stable_sort_det. intros k. rewrite !selk_msgs.
    rewrite (interleave_filter_eq (err_at k) ss a1 a2 I1 I2 (Hk k)). reflexivity. }
  assert (ET : k_total (collect_all a1) = k_total (collect_all a2)).
  { rewrite T1, T2. f_equal. f_equal. rewrite <- X1, <- X2.
    (* same length: both are permutations of the same messages *)
    rewrite X1, X2. apply Permutation_length.
    clear - Hp. induction Hp as [|x l l' _ IH|x y l|l l' l'' _ IH1 _ IH2]; cbn [flat_map].
    - constructor.
    - apply Permutation_app_head, IH.
    - rewrite !app_assoc. apply Permutation_app_tail, Permutation_app_comm.
    - eapply Permutation_trans; eassumption. }
  unfold g_once in E4. injection E4 as V1 V2 V3 V4 V5.
  unfold g_rest in R1, R2. injection R1 as U1 U2 U3. injection R2 as W1 W2 W3. cbn in U1, U2, U3, W1, W2, W3.
  unfold finalize. rewrite U3, W3.
  replace (negb mute || true) with true by (destruct mute; reflexivity).
  rewrite E1, E2, E3, E5, V1, V2, V3, V4, V5, ES, F1, F2, C1, C2, ET. reflexivity.
Qed.

(* a collector that leaves the list in arrival order when errors are muted is schedule dependent *)
Definition c05_m (off body : N) : emsg := {| m_off := off; m_codes := [10]; m_body := body; m_fee := None |}.
Lemma c05_refuted_unsorted_when_muted :
  let ss := [[CS_error (c05_m 64 1)]; [CS_error (c05_m 0 2)]] in
  streams_ok ss /\ Interleave ss [CS_error (c05_m 64 1); CS_error (c05_m 0 2)] /\ Interleave ss [CS_error (c05_m 0 2); CS_error (c05_m 64 1)] /\
  finalize false true (collect_all [CS_error (c05_m 64 1); CS_error (c05_m 0 2)]) <>
  finalize false true (collect_all [CS_error (c05_m 0 2); CS_error (c05_m 64 1)]).
Proof.
  cbn zeta. split; [|split; [|split]].
  - assert (NW : forall (P : cstat -> bool) ss i, (forall s, In s ss -> forall y, In y s -> P y = false) -> only_in P ss i).
    { intros P ss i H j s Hj _ y Hy. exact (H s (nth_error_In _ _ Hj) y Hy). }
    constructor.
    + exists 0%nat. apply NW. intros s [<-|[<-|[]]] y [<-|[]]; reflexivity.
    + exists 0%nat. apply NW. intros s [<-|[<-|[]]] y [<-|[]]; reflexivity.
    + exists 0%nat. apply NW. intros s [<-|[<-|[]]] y [<-|[]]; reflexivity.
    + exists 0%nat. apply NW. intros s [<-|[<-|[]]] y [<-|[]]; reflexivity.
    + intros k. destruct (N.eqb_spec k 64) as [->|Hk].
      * exists 0%nat. intros j s Hj Hne y Hy. destruct j as [|[|[|j]]]; cbn in Hj; try discriminate; [congruence|]. injection Hj as <-. destruct Hy as [<-|[]]. reflexivity.
      * exists 1%nat. intros j s Hj Hne y Hy. destruct j as [|[|[|j]]]; cbn in Hj; try discriminate; [|congruence]. injection Hj as <-. destruct Hy as [<-|[]]. unfold err_at, c05_m. cbn [m_off]. apply N.eqb_neq. congruence.
    + intros s Hs m Hm. destruct Hs as [<-|[<-|[]]]; destruct Hm as [Hm|[]]; discriminate.
  - apply (IL_cons _ 0%nat _ []); [reflexivity|]. apply (IL_cons _ 1%nat _ []); [reflexivity|]. apply IL_nil. repeat constructor.
  - apply (IL_cons _ 1%nat _ []); [reflexivity|]. apply (IL_cons _ 0%nat _ []); [reflexivity|]. apply IL_nil. repeat constructor.
  - vm_compute. discriminate.
Qed.
