(* Soundness of the membership test of Spec/GrammarItsCdwCheck.v: what it accepts is a link of the CDW-extended grammar. *)
From Coq Require Import List NArith Bool Arith Lia.
Import ListNotations.
From FP Require Import Model.Base Model.Rdh Model.Payload Spec.WordLayout Spec.Grammar Spec.GrammarIts Spec.GrammarItsCdw
  Spec.GrammarItsCheck Spec.GrammarItsCdwCheck Proofs.Bits Proofs.C01_check.
From FP Require Gen.Facts.
Open Scope N_scope.

Lemma b_cdw_ok w : b_cdw w = true -> W_cdw w.
Proof. unfold b_cdw. intros H. bsplit H. eqs. split; [apply word_okb_ok; assumption|assumption]. Qed.
Lemma cdw_followsb_ok pc c : cdw_followsb pc c = true -> cdw_follows pc c.
Proof.
  unfold cdw_followsb, cdw_follows. intros H p ->. apply orb_true_iff in H. destruct H as [H|H]; apply N.eqb_eq in H; auto.
Qed.

Lemma cpage_witness_ok fmt h first opened pc pg cp out : cpage_witness fmt h first opened pc pg = Some (cp, out) ->
  W_ihw (ip_ihw (cp_page cp)) /\ ip_items (cp_page cp) <> [] /\ (ip_pad (cp_page cp) <= 15)%nat /\
  items_ok h (ihw_f_lanes (ip_ihw (cp_page cp))) first None opened (ip_items (cp_page cp)) out /\
  (forall c, cp_cdw cp = Some c -> W_cdw c /\ cdw_follows pc c /\ existsb item_has_data (ip_items (cp_page cp)) = true) /\
  pg_payload pg = layout fmt (cpage_words cp) (ip_pad (cp_page cp)).
Proof.
  unfold cpage_witness. intros H.
  destruct (words_of (pg_payload pg)) as [[|i ws]|]; try discriminate.
  destruct (split_cdw ws) as [c ws'].
  destruct (parse_items (length ws') ws') as [items|] eqn:Ep; [|discriminate].
  match type of H with (if ?c then _ else _) = _ => destruct c eqn:C; [|discriminate] end.
  destruct (items_okb h (ihw_f_lanes i) first None opened items) as [o|] eqn:Eo; [|discriminate].
  injection H as <- <-. cbn [cp_page cp_cdw ip_ihw ip_items ip_pad].
  apply andb_true_iff in C. destruct C as [C Cc]. bsplit C.
  split; [apply b_ihw_ok; assumption|]. split.
  { intros E. subst items. discriminate. }
  split; [apply Nat.leb_le; assumption|]. split; [apply items_okb_ok; exact Eo|]. split.
  - intros w Hw. subst c. bsplit Cc. split; [apply b_cdw_ok; assumption|]. split; [apply cdw_followsb_ok; assumption|assumption].
  - symmetry. apply list_eqb_eq. assumption.
Qed.

Lemma cpages_witness_ok fmt h : forall pages first opened pc cps pc', cpages_witness fmt h first opened pc pages = Some (cps, pc') ->
  cpages_ok h first opened pc cps pc' /\ map pg_payload pages = map (fun p => layout fmt (cpage_words p) (ip_pad (cp_page p))) cps.
Proof.
  induction pages as [|pg pages IH]; intros first opened pc cps pc' H; cbn in H.
  - destruct opened; [discriminate|]. injection H as <- <-. split; [constructor|reflexivity].
  - destruct (cpage_witness fmt h first opened pc pg) as [[cp out]|] eqn:Ep; [|discriminate].
    destruct (cpages_witness fmt h false out (cdw_after pc cp) pages) as [[cps' pc'']|] eqn:Er; [|discriminate]. injection H as <- <-.
    destruct (cpage_witness_ok _ _ _ _ _ _ _ _ Ep) as (A & B & C & D & E & F). destruct (IH _ _ _ _ _ Er) as [G K].
    split; [eapply CPO_page; eauto|]. cbn [map]. rewrite F, K. reflexivity.
Qed.

Lemma chbf_witness_ok fmt pc h ch pc' : chbf_witness fmt pc h = Some (ch, pc') -> chbf_ok fmt h pc ch pc'.
Proof.
  unfold chbf_witness. intros H.
  destruct (cpages_witness fmt h true None pc (h_pages h)) as [[cps pc'']|] eqn:Ep; [|discriminate].
  destruct (words_of (pg_payload (h_stop h))) as [[|w [|? ?]]|]; try discriminate.
  match type of H with (if ?c then _ else _) = _ => destruct c eqn:C; [|discriminate] end.
  injection H as <- <-. bsplit C. destruct (cpages_witness_ok _ _ _ _ _ _ _ _ Ep) as [A B].
  unfold chbf_ok. cbn [ch_pages ch_ddw0 ch_stop_pad].
  split; [exact A|]. split; [apply b_ddw0_ok; assumption|]. split; [apply Nat.leb_le; assumption|]. split; [exact B|].
  symmetry. apply list_eqb_eq. assumption.
Qed.

Lemma chbfs_witness_ok fmt : forall hs pc chs, chbfs_witness fmt pc hs = Some chs -> chbfs_ok fmt pc hs chs.
Proof.
  induction hs as [|h hs IH]; intros pc chs H; cbn in H.
  - injection H as <-. constructor.
  - destruct (chbf_witness fmt pc h) as [[ch pc']|] eqn:E; [|discriminate].
    destruct (chbfs_witness fmt pc' hs) as [chs'|] eqn:E2; [|discriminate]. injection H as <-.
    econstructor; [apply chbf_witness_ok; exact E|apply IH; exact E2].
Qed.

Theorem link_witness_cdw_sound ld chs : link_witness_cdw ld = Some chs -> wf_link_its_cdw ld chs.
Proof.
  unfold link_witness_cdw. intros H.
  match type of H with (if ?c then _ else _) = _ => destruct c eqn:C; [|discriminate] end.
  bsplit C. unfold wf_link_its_cdw. split; [assumption|]. split; [apply N.eqb_eq; assumption|]. split.
  - match goal with X : (_ || _) = true |- _ => apply orb_true_iff in X; destruct X as [X|X]; apply N.eqb_eq in X; [left|right]; exact X end.
  - apply chbfs_witness_ok. exact H.
Qed.

(* ---- non-vacuity: a calibration link -- CDWs on every data page (same user fields with a growing index, then other user fields
   with index 0), a packet continued over three pages, no-data triggers, two heartbeat frames -- is accepted by the membership test,
   hence a member of the grammar ---- *)
From FP Require Import Proofs.C01_its.
Module ExampleC.
  Import Proofs.C01_its.Example.
  Definition cdw (user idx : N) : list N := [user; 0; 0; 0; 0; 1; idx; 0; 0; 248].
  Definition cp (p : its_page) (c : option (list N)) : cpage := {| cp_page := p; cp_cdw := c |}.
  Definition chb (o : N) (c0 c1 c2 : option (list N)) : chbf :=
    {| ch_pages := [cp (page0 o) c0; cp (page1 o) c1; cp (page2 o) c2]; ch_ddw0 := ddw0; ch_stop_pad := 6 |}.
  Definition pgc (p : cpage) : page_desc := {| pg_counter := 0; pg_par := 0; pg_payload := layout 2 (cpage_words p) (ip_pad (cp_page p)) |}.
  Definition hbc (o : N) (ch : chbf) : hbf_desc :=
    {| h_orbit := o; h_bc := 5; h_trigger := 27139; h_detfield := 0; h_pages := map pgc (ch_pages ch);
       h_stop := {| pg_counter := 0; pg_par := 0; pg_payload := layout 2 [ddw0] 6 |} |}.
  Definition ch10 := chb 10 (Some (cdw 7 5)) (Some (cdw 7 6)) (Some (cdw 9 0)).
  Definition ch11 := chb 11 (Some (cdw 9 1)) None (Some (cdw 9 2)).
  Definition ldc : link_desc :=
    {| l_link := 3; l_fee := 20522; l_version := 7; l_system := 32; l_format := 2; l_cru := 24; l_dw := 0; l_hbfs := [hbc 10 ch10; hbc 11 ch11] |}.

  Lemma accepted : link_witness_cdw ldc = Some [ch10; ch11].
  Proof. vm_compute. reflexivity. Qed.
  Lemma example_wf : wf_link_its_cdw ldc [ch10; ch11] /\ length (render_link ldc) = 8%nat.
  Proof. split; [apply link_witness_cdw_sound; exact accepted|reflexivity]. Qed.
  (* and the rule bites: the same link with the index of the last CDW of the first frame not 0 is rejected *)
  Lemma rejected :
    link_witness_cdw {| l_link := 3; l_fee := 20522; l_version := 7; l_system := 32; l_format := 2; l_cru := 24; l_dw := 0;
                        l_hbfs := [hbc 10 (chb 10 (Some (cdw 7 5)) (Some (cdw 7 6)) (Some (cdw 9 3)))] |} = None.
  Proof. vm_compute. reflexivity. Qed.
End ExampleC.
