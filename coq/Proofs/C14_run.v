(* C14 for one whole `check` run: the statistics the run ENDS with (report, statistics file) -- after the validators' messages, the
   custom checks and the finalisation -- equal the ground truth computed from the packets alone. *)
From Coq Require Import List NArith ZArith Bool Lia ZifyBool ZifyN ZifyNat Arith Permutation.
From FP Require Import Model.Base Model.Rdh Model.RdhChecks Model.Payload Model.Alpide Model.Scanner Model.CdpRunning Model.Link
  Model.Collector Model.System Spec.RdhRules Spec.Framing Spec.GroundTruth
  Proofs.Interleave Proofs.C03_proofs Proofs.C05_proofs Proofs.C06_proofs Proofs.C14_proofs Proofs.C04_system Proofs.C05_run.
From FP Require Gen.Facts.
Import ListNotations.
Open Scope N_scope.

(* messages of validators touch none of the reader's / analysis thread's statistics *)
Lemma vkind_dnth i x : (i < 24)%nat -> validator_kind x = true -> dnth i x = 0.
Proof.
  intros Hi Hv. destruct x; try discriminate; unfold dnth; cbn [delta];
    first [apply nth_zeros | do 24 (destruct i as [|i]; [reflexivity|]); lia].
Qed.

Lemma vkind_filter (P : cstat -> bool) v : (forall x, validator_kind x = true -> P x = false) ->
  (forall x, In x v -> validator_kind x = true) -> forall a, filter P (a ++ v) = filter P a.
Proof.
  intros HP Hv a. rewrite filter_app, (Interleave.filter_none P v), app_nil_r; [reflexivity|]. intros y Hy. apply HP, Hv, Hy.
Qed.

Lemma first_byte_is_version p : wf_pkt p -> nth 0 (p_hdr p ++ p_payload p) 0 = r_header_id (hdr p).
Proof.
  intros ((Hl & _) & _). unfold hdr, decode_rdh. cbn [r_header_id]. destruct (p_hdr p) as [|b0 r]; [discriminate|]. reflexivity.
Qed.

Section Whole.
Context (c : run_cfg) (pkts : list packet).
Context (Hoff : Gen.Facts.cdp_offset_sampled_after = true).
Context (Hwf : Forall wf_pkt pkts).
Context (Hn : N.of_nat (length pkts) < U32_MAX).
Context (Hpay : pay_all pkts < U32_MAX).

Let input := serialize pkts.
Let sc := rc_scan c.

Theorem c14_whole_run ff s shown e : run_check ff c input = R_done s shown e ->
  let t := truth (match sc_filter sc with Some _ => true | None => false end) (pmatch sc) pkts in
  counter s IDX_SEEN = gt_rdhs_seen t /\ counter s IDX_FILTERED = gt_rdhs_filtered t /\ counter s IDX_PAYLOAD = gt_payload t /\
  k_links s = sort_N_list (gt_links t) /\ k_fees s = gt_fees t /\
  counter s IDX_HBFS = gt_hbfs (sel_pkts sc pkts) /\
  (forall j, (j < 20)%nat -> counter s (4 + j) = gt_trigger_bit (nth j trigger_bits 0) (sel_pkts sc pkts)) /\
  (forall p r, pkts = p :: r -> known_sysid (r_system_id (hdr p)) = true ->
     k_version s = Some (r_header_id (hdr p)) /\ k_run_trigger s = Some (r_trigger_type (hdr p)) /\
     k_format s = Some (rdh_data_format (hdr p)) /\ k_sysid s = Some (r_system_id (hdr p)) /\ k_set_twice s = false) /\
  k_unique s = unique_error_codes (k_errors s) (k_custom s) /\ k_finalized s = true.
Proof.
  intros H. unfold run_check in H. destruct (Nat.ltb (length input) 8) eqn:El; [discriminate|]. destruct (negb _); [discriminate|]. cbv zeta in H.
  fold (gather (run_dispatch (rc_check c) (concat (so_batches (scan_impl (rc_scan c) input))))) in H.
  destruct (gather _) as [v|q] eqn:Eg; [|discriminate]. injection H as <- _ _.
  assert (Hv : forall x, In x v -> validator_kind x = true).
  { rewrite (gather_ok _ _ Eg). intros x Hx. apply in_concat in Hx. destruct Hx as (st & Hst & Hx).
    apply in_map_iff in Hst. destruct Hst as (idr & <- & _). exact (vstream_kind _ _ Hx). }
  (* the first byte of the input is the RDH version of the first packet *)
  assert (Ever : nth 0 input 0 = version_of pkts).
  { unfold input, serialize. destruct pkts as [|p r]; [cbn in El; discriminate|]. cbn [map concat version_of].
    inversion Hwf as [|? ? Hp _]; subst. unfold p_bytes. rewrite <- (first_byte_is_version p Hp).
    destruct (p_hdr p ++ p_payload p) as [|b0 l] eqn:E; [destruct Hp as ((Hl & _) & _); destruct (p_hdr p); discriminate|reflexivity]. }
  rewrite Ever. unfold scan_impl. set (out := scan _ _ (rc_scan c) input). set (x := stats_arrival (version_of pkts) out true).
  change (CS_version (version_of pkts) :: (map forward (so_stats out) ++ analysis_stream (so_batches out)) ++ v) with (x ++ v).
  pose proof (c14_truth_when _ Gen.Facts.batch_kept_on_invalid_input Hoff (rc_scan c) pkts true Hwf Hn Hpay) as T. cbv zeta in T.
  fold input in T. fold out in T. fold x in T. fold sc in T.
  destruct T as (T1 & T2 & T3 & T4 & T5 & T6 & T7). specialize (T7 eq_refl). destruct T7 as [T7 T8].
  set (s0 := collect_all (x ++ v)).
  assert (Cn : forall i, (i < 24)%nat -> counter s0 i = counter (collect_all x) i).
  { intros i Hi. unfold s0. rewrite !counter_sum, map_app, sumN_app, (sumN_zero (dnth i) v); [lia|]. intros y Hy. apply vkind_dnth; [exact Hi|apply Hv, Hy]. }
  assert (L : k_links s0 = k_links (collect_all x)).
  { apply links_eq. apply vkind_filter; [intros y Hy; destruct y; try discriminate; reflexivity|exact Hv]. }
  assert (F : k_fees s0 = k_fees (collect_all x)).
  { apply fees_eq. apply vkind_filter; [intros y Hy; destruct y; try discriminate; reflexivity|exact Hv]. }
  assert (O : g_once s0 = g_once (collect_all x)).
  { apply once_eq. apply vkind_filter; [intros y Hy; destruct y; try discriminate; reflexivity|exact Hv]. }
  pose proof (rest_const (x ++ v)) as R. fold s0 in R. unfold g_rest in R. injection R as _ _ R. cbn [k_finalized cinit] in R.
  set (s1 := add_custom s0 (custom_errors (rc_counts c) s0)).
  assert (R1 : k_finalized s1 = false) by exact R.
  unfold finalize. rewrite R1. unfold counter in *. cbn [k_counters k_links k_fees k_version k_run_trigger k_format k_sysid k_set_twice k_unique k_errors k_custom k_finalized].
  unfold s1, add_custom. cbn [upd_errs k_counters k_links k_fees k_version k_run_trigger k_format k_sysid k_set_twice k_custom].
  unfold IDX_SEEN, IDX_FILTERED, IDX_PAYLOAD, IDX_HBFS in *.
  split; [rewrite (Cn 0%nat) by lia; exact T1|]. split; [rewrite (Cn 1%nat) by lia; exact T2|]. split; [rewrite (Cn 2%nat) by lia; exact T3|].
  split; [rewrite L, T4; reflexivity|]. split; [rewrite F; exact T5|]. split; [rewrite (Cn 3%nat) by lia; exact T7|].
  split; [intros j Hj; rewrite (Cn (4 + j)%nat) by lia; exact (T8 j Hj)|].
  split; [|split; reflexivity].
  intros p r Ep Hk. destruct (T6 p r Ep Hk) as (V1 & V2 & V3 & V4 & V5). unfold g_once in O. injection O as O1 O2 O3 O4 O5.
  rewrite O1, O2, O3, O4, O5. repeat split; assumption.
Qed.
End Whole.
