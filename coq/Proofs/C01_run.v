(* C01 for one whole `check` run: when every dispatch unit of a well-framed, recognised input is a conforming link (its validator's pass
   emits no error -- the tier theorems C01_rdh_tier / C01_its_tier / C01_stave_tier and their calibration variants), the run ends with
   zero errors, nothing displayed, and exit status 0 whatever any-errors exit code is configured. *)
From Coq Require Import List NArith ZArith Bool Lia ZifyBool ZifyN ZifyNat Arith Permutation.
From FP Require Import Model.Base Model.Rdh Model.RdhChecks Model.Payload Model.Alpide Model.Scanner Model.CdpRunning Model.Link
  Model.Collector Model.System Spec.RdhRules Spec.Framing Spec.GroundTruth Spec.Grammar
  Proofs.Interleave Proofs.C03_proofs Proofs.C05_proofs Proofs.C06_proofs Proofs.C14_proofs Proofs.C04_system Proofs.C05_run
  Proofs.C01_rdh Proofs.C01_its Proofs.C01_stave.
From FP Require Gen.Facts.
Import ListNotations.
Open Scope N_scope.

(* a validator's pass that ends without an error message (ALPIDE statistics records are no messages) *)
Definition silent_pass (r : result (list vmsg)) : Prop := exists m, r = Ok m /\ quiet m.

Lemma silent_vstream r : silent_pass r -> forall x, In x (vstream_of r) -> exists f, x = CS_alpide f.
Proof.
  intros (m & -> & Hq) x Hx. cbn in Hx. apply in_map_iff in Hx. destruct Hx as (v & <- & Hv).
  unfold quiet in Hq. rewrite Forall_forall in Hq. specialize (Hq v Hv). destruct v as [e|f]; [destruct Hq|]. exists f. reflexivity.
Qed.

Section Whole.
Context (c : run_cfg) (pkts : list packet).
Context (Hoff : Gen.Facts.cdp_offset_sampled_after = true).
Context (Hwf : Forall wf_pkt pkts).
Context (Hn : N.of_nat (length pkts) < U32_MAX).
Context (Hpay : pay_all pkts < U32_MAX).
Context (Hknown : forall p r, pkts = p :: r -> known_sysid (r_system_id (hdr p)) = true).
Context (Hne : pkts <> []).
Context (Hrec : recognised (serialize pkts) = true).
Context (Hcustom : rc_counts c = {| cc_cdps := None; cc_pht := None |}).

Let input := serialize pkts.
Let cdps := map (mk_cdp (rc_scan c)) (selected (rc_scan c) 0 pkts).

Context (Hsilent : forall id, sel (rc_check c) id cdps <> [] -> silent_pass (run_validator (rc_check c) (sel (rc_check c) id cdps))).

Lemma input_long : Nat.ltb (length input) 8 = false.
Proof.
  apply Nat.ltb_ge. destruct pkts as [|p r]; [congruence|]. inversion Hwf as [|? ? Hp _]; subst.
  destruct Hp as ((Hl & _) & _). unfold input, serialize, p_bytes. cbn [map concat]. rewrite !app_length, Hl. lia.
Qed.

Theorem c01_whole_run ff : exists s,
  run_check ff c input = R_done s [] 0 /\ k_total s = 0 /\ k_errors s = [] /\ k_fatal s = None /\ k_custom s = [].
Proof.
  rewrite run_check_is_sched. unfold run_check_sched. rewrite input_long. fold input in Hrec. rewrite Hrec. cbn [negb].
  destruct (whole_streams c pkts Hoff Hwf Hn Hpay Hknown) as (o & tl & E & Hpl & Hk & Htl & Ec). fold input in E, Ec. fold cdps in E, Ec.
  rewrite Ec.
  destruct (gather (run_dispatch (rc_check c) cdps)) as [v|q] eqn:Eg.
  2:{ exfalso. destruct (gather_panic _ _ Eg) as [id Hin]. apply c06_result_unique in Hin. destruct Hin as [Hr Hs].
      destruct (Hsilent id Hs) as (m & Em & _). rewrite Em in Hr. discriminate. }
  set (a := concat (sender_streams c input)).
  (* nothing on the channel is an error or a fatal message *)
  assert (Hclean : forall x, In x a -> match x with CS_error _ | CS_fatal _ => False | _ => True end).
  { intros x Hx. unfold a in Hx. apply in_concat in Hx. destruct Hx as (st & Hst & Hx). rewrite E in Hst.
    destruct (c06_isolated (rc_check c) cdps) as (procs & _ & Hprocs & Ed). rewrite Ed, map_map in Hst. cbn [snd] in Hst.
    destruct Hst as [<-|[<-|Hst]].
    - pose proof (main_stream_kind _ o tl Hpl Hk Htl _ Hx) as K. destruct x; try discriminate; exact I.
    - pose proof (analysis_stream_kind _ _ Hx) as K. destruct x; try discriminate; exact I.
    - apply in_map_iff in Hst. destruct Hst as (id & <- & Hid).
      assert (Hs : sel (rc_check c) id cdps <> []).
      { apply Hprocs in Hid. destruct Hid as (p & Hp & Dp). intros Z.
        assert (Hin : In p (sel (rc_check c) id cdps)) by (unfold sel; apply filter_In; split; [exact Hp|apply N.eqb_eq, Dp]).
        rewrite Z in Hin. destruct Hin. }
      destruct (silent_vstream _ (Hsilent id Hs) x Hx) as (f & ->). exact I. }
  assert (Nf : forall m, ~ In (CS_fatal m) a) by (intros m Hm; exact (Hclean _ Hm)).
  assert (Ne : flat_map msg_of a = []).
  { clear -Hclean. induction a as [|x l IH]; [reflexivity|]. cbn [flat_map].
    rewrite IH by (intros y Hy; apply Hclean; right; exact Hy). pose proof (Hclean x (or_introl eq_refl)) as Hx.
    destruct x; try reflexivity. destruct Hx. }
  destruct (errors_fold a cinit eq_refl Nf) as [X F]. destruct (total_custom_fold a cinit eq_refl Nf) as [T C].
  fold (collect_all a) in X, F, T, C. rewrite Ne in X, T. cbn [k_errors k_total k_custom cinit app length] in X, T, C.
  pose proof (rest_const a) as R. unfold g_rest in R. injection R as _ _ R. cbn [k_finalized cinit] in R.
  unfold finish. cbv zeta. rewrite Hcustom. unfold custom_errors. cbn [cc_cdps cc_pht app].
  set (s0 := collect_all a) in *.
  assert (Et : k_total (add_custom s0 []) = 0) by (unfold add_custom; cbn [upd_errs k_total length]; rewrite T; reflexivity).
  set (s2 := finalize Gen.Facts.error_sort_when_muted (rc_mute c) (add_custom s0 [])).
  assert (P : k_total s2 = 0 /\ k_errors s2 = [] /\ k_fatal s2 = None /\ k_custom s2 = []).
  { unfold s2, finalize, add_custom. cbn [k_finalized upd_errs]. rewrite R.
    cbn [k_total k_errors k_fatal k_custom upd_errs]. rewrite T, X, F, C.
    destruct (negb (rc_mute c) || Gen.Facts.error_sort_when_muted); repeat split; reflexivity. }
  destruct P as (P1 & P2 & P3 & P4). exists s2.
  assert (D : displayed {| d_mute := rc_mute c; d_cap := rc_cap c; d_filter := rc_filter c |} s2 = []).
  { unfold displayed. rewrite P1. cbn [N.eqb]. rewrite orb_true_r. reflexivity. }
  rewrite D, P1, P3. cbn [N.ltb N.compare]. rewrite andb_false_r. cbn [orb].
  assert (Ex : exit_code (rc_exit c) Init_ok false = 0) by (unfold exit_code; destruct (rc_exit c); reflexivity).
  rewrite Ex. repeat split; assumption.
Qed.
End Whole.
