(* C19: the "lane faults" column of an RDH row in the frame views decodes the documented status bits of the detector field:
   bit 3 fatal, bit 2 error, bit 1 warning, bit 0 lane missing data; the most severe one set is shown. *)
From Coq Require Import List NArith Bool Lia.
Import ListNotations.
From FP Require Import Model.Base Model.Views.
From FP Require Gen.Facts.
Open Scope N_scope.

Lemma land_pow2_testbit d k : negb (N.land d (2 ^ k) =? 0) = N.testbit d k.
Proof.
  destruct (N.testbit d k) eqn:T.
  - apply negb_true_iff, N.eqb_neq. intros E.
    assert (X : N.testbit (N.land d (2 ^ k)) k = true) by (rewrite N.land_spec, T, N.pow2_bits_true; reflexivity).
    rewrite E, N.bits_0 in X. discriminate.
  - apply negb_false_iff, N.eqb_eq. apply N.bits_inj. intros i. rewrite N.land_spec, N.bits_0.
    destruct (N.eq_dec i k) as [->|Hne]; [rewrite T; reflexivity|]. rewrite (N.pow2_bits_false k i) by congruence. apply andb_false_r.
Qed.

Theorem det_lane_status_spec d :
  det_lane_status d = if N.testbit d 3 then 3 else if N.testbit d 2 then 2 else if N.testbit d 1 then 1 else if N.testbit d 0 then 4 else 0.
Proof.
  unfold det_lane_status. change (nth 0 Gen.Facts.view_det_field_masks 0) with (2 ^ 3). change (nth 1 Gen.Facts.view_det_field_masks 0) with (2 ^ 2).
  change (nth 2 Gen.Facts.view_det_field_masks 0) with (2 ^ 1). change (nth 3 Gen.Facts.view_det_field_masks 0) with (2 ^ 0).
  rewrite !land_pow2_testbit. reflexivity.
Qed.
