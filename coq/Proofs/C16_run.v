(* C16 for one whole `check` run, for EVERY input (well-framed or not): exit status, displayed messages and the error total follow the
   collector's final state exactly as the contract says. *)
From Coq Require Import List NArith Bool Lia.
Import ListNotations.
From FP Require Import Model.Base Model.Rdh Model.Alpide Model.Scanner Model.CdpRunning Model.Link Model.Collector Model.System
  Proofs.C04_system Proofs.C16_proofs Proofs.C16_reportless.
From FP Require Gen.Facts.
Open Scope N_scope.

Lemma check_done_shape ff c input s sh e : run_check ff c input = R_done s sh e ->
  e = exit_code (rc_exit c) Init_ok ((0 <? k_total s) || (ff && match k_fatal s with Some _ => true | None => false end)) /\
  sh = displayed {| d_mute := rc_mute c; d_cap := rc_cap c; d_filter := rc_filter c |} s /\
  k_total s = N.of_nat (length (k_errors s) + length (k_custom s)) /\ total_inv s.
Proof.
  unfold run_check. destruct (Nat.ltb _ _); [discriminate|]. destruct (negb _); [discriminate|]. cbv zeta.
  fold (gather (run_dispatch (rc_check c) (concat (so_batches (scan_impl (rc_scan c) input))))).
  destruct (gather _) as [v|q]; [|discriminate]. intros H. injection H as <- <- <-.
  split; [reflexivity|]. split; [reflexivity|].
  match goal with |- context [finalize ?sm ?mute (add_custom (collect_all ?a) ?ce)] =>
    pose proof (total_inv_finalize sm mute _ (total_inv_custom _ ce (total_inv_collect a))) as T end.
  split; exact T.
Qed.

Theorem check_exit_iff ff c input s sh e n : run_check ff c input = R_done s sh e -> rc_exit c = Some n -> n <> 0 ->
  (e = n <-> collected_trouble ff s) /\ (e = 0 <-> ~ collected_trouble ff s).
Proof.
  intros H Hn Hn0. destruct (check_done_shape _ _ _ _ _ _ H) as (-> & _). rewrite Hn. unfold exit_code, collected_trouble.
  destruct (N.ltb_spec 0 (k_total s)) as [L|G]; cbn [orb].
  - split; split; intros X; try reflexivity; [left; exact L|congruence|exfalso; apply X; left; exact L].
  - destruct ff; cbn [andb]; [destruct (k_fatal s) as [f|]|].
    + split; split; intros X; try reflexivity; [right; split; [reflexivity|discriminate]|congruence|exfalso; apply X; right; split; [reflexivity|discriminate]].
    + split; split; intros X; try reflexivity; [congruence|destruct X as [X|[_ X]]; [lia|congruence]|intros [Y|[_ Y]]; [lia|congruence]].
    + split; split; intros X; try reflexivity; [congruence|destruct X as [X|[Y _]]; [lia|discriminate]|intros [Y|[Y _]]; [lia|discriminate]].
Qed.

Theorem check_exit_without_option ff c input s sh e : run_check ff c input = R_done s sh e -> rc_exit c = None -> e = 0.
Proof. intros H Hn. destruct (check_done_shape _ _ _ _ _ _ H) as (-> & _). rewrite Hn. reflexivity. Qed.

(* the exit status of a whole `check` run, the abort at the layer-7 site (finding F6) aside; an input shorter than one RDH0 and an
   unrecognised first RDH end the process with status 1 (fastpasta/src/lib.rs init_processing) *)
Definition run_exit (r : run_result) : option N :=
  match r with R_too_short | R_unrecognised => Some 1 | R_done _ _ e => Some e | R_panic _ => None end.

Theorem unreadable_is_nonzero ff c input : Nat.ltb (length input) 8 = true \/ recognised input = false ->
  run_exit (run_check ff c input) = Some 1.
Proof.
  intros [H|H]; unfold run_check; [rewrite H; reflexivity|]. destruct (Nat.ltb _ _); [reflexivity|]. rewrite H. reflexivity.
Qed.

Theorem exit_zero_means_processed ff c input : run_exit (run_check ff c input) = Some 0 ->
  Nat.ltb (length input) 8 = false /\ recognised input = true /\ exists s sh, run_check ff c input = R_done s sh 0.
Proof.
  destruct (run_check ff c input) as [| |p|s sh e] eqn:E; cbn [run_exit]; try discriminate. intros H. injection H as ->.
  assert (G : Nat.ltb (length input) 8 = false /\ recognised input = true).
  { unfold run_check in E. destruct (Nat.ltb _ _); [discriminate|]. destruct (recognised input); [split; reflexivity|discriminate]. }
  destruct G as [G1 G2]. split; [exact G1|]. split; [exact G2|]. exists s, sh. reflexivity.
Qed.
