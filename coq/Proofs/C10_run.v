(* C10 over a validator's whole pass (`check sanity`, no target): for ANY sequence of packets of a link, taken from their 64 header bytes,
   the pass reports exactly the RDHs that violate a documented sanity condition relative to the header id of the link's FIRST RDH (or
   the configured version), each with one [E10] at the packet's own offset, in packet order -- and nothing else. *)
From Coq Require Import List NArith Bool Lia.
Import ListNotations.
From FP Require Import Model.Base Model.Rdh Model.RdhChecks Model.CdpRunning Model.Scanner Model.Link Spec.RdhRules
  Proofs.RdhFacts Proofs.C10_proofs.
Open Scope N_scope.

Definition sanity_cfg (custom : option N) : vcfg :=
  {| v_running := false; v_target := T_none; v_period := None; v_custom_version := custom; v_chip_count := None; v_chip_orders := None |}.

(* a packet as the scanner hands it on: the header decoded from its 64 bytes *)
Record hpkt := { hp_bytes : list N; hp_payload : list N; hp_off : N }.
Definition to_cdp (h : hpkt) : cdp := {| c_rdh := decode_rdh (hp_bytes h); c_payload := hp_payload h; c_off := hp_off h |}.

(* what the documentation prescribes for the pass: one [E10] per violating RDH, at its offset, in order *)
Definition violates (first : N) (h : hpkt) : bool := negb (rdh_sane first false (hp_bytes h)).

Lemma sanity_step custom s h : link_step (sanity_cfg custom) s (to_cdp h) =
  Ok ({| lk_sanity := fst (rdh_sanity (lk_sanity s) (decode_rdh (hp_bytes h))); lk_running := lk_running s; lk_cdp := lk_cdp s |},
      match snd (rdh_sanity (lk_sanity s) (decode_rdh (hp_bytes h))) with [] => [] | t => [rdh_err (hp_off h) 10 t] end).
Proof.
  unfold link_step, sanity_cfg, to_cdp. cbn [v_running v_target c_rdh c_off].
  destruct (rdh_sanity (lk_sanity s) (decode_rdh (hp_bytes h))) as [ss t10]. cbn [fst snd]. rewrite app_nil_r. destruct t10; reflexivity.
Qed.

Definition is_e10_at (off : N) (m : vmsg) : Prop := exists tags, m = rdh_err off 10 tags.

(* the messages of the packets after the first: the state is latched *)
Lemma latched_run custom first : forall hs s acc, lk_sanity s = st_of first false -> Forall (fun h => rdh_bytes_ok (hp_bytes h)) hs ->
  exists s' out, link_run (sanity_cfg custom) s (map to_cdp hs) acc = Ok (s', acc ++ out) /\ lk_sanity s' = st_of first false /\
    Forall2 (fun h ms => (violates first h = false /\ ms = []) \/ (violates first h = true /\ exists m, ms = [m] /\ is_e10_at (hp_off h) m))
            hs (map (fun h => match snd (rdh_sanity (st_of first false) (decode_rdh (hp_bytes h))) with [] => [] | t => [rdh_err (hp_off h) 10 t] end) hs) /\
    out = flat_map (fun h => match snd (rdh_sanity (st_of first false) (decode_rdh (hp_bytes h))) with [] => [] | t => [rdh_err (hp_off h) 10 t] end) hs.
Proof.
  induction hs as [|h hs IH]; intros s acc Hs Hok.
  - exists s, []. cbn. rewrite app_nil_r. repeat split; auto.
  - inversion Hok as [|? ? Hh Hr]; subst. cbn [map link_run]. rewrite sanity_step, Hs.
    set (s1 := {| lk_sanity := _; lk_running := _; lk_cdp := _ |}).
    assert (Hs1 : lk_sanity s1 = st_of first false) by reflexivity.
    destruct (IH s1 (acc ++ match snd (rdh_sanity (st_of first false) (decode_rdh (hp_bytes h))) with [] => [] | t => [rdh_err (hp_off h) 10 t] end) Hs1 Hr)
      as (s' & out & E & Hs' & F & Eo).
    exists s', (match snd (rdh_sanity (st_of first false) (decode_rdh (hp_bytes h))) with [] => [] | t => [rdh_err (hp_off h) 10 t] end ++ out).
    split; [rewrite E, <- app_assoc; reflexivity|]. split; [exact Hs'|]. split.
    + cbn [map]. constructor; [|exact F]. unfold violates.
      pose proof (c10_sanity_latched (hp_bytes h) first false Hh) as L.
      destruct (snd (rdh_sanity (st_of first false) (decode_rdh (hp_bytes h)))) as [|t ts] eqn:Et.
      * left. rewrite (proj1 L eq_refl). split; reflexivity.
      * right. destruct (rdh_sane first false (hp_bytes h)) eqn:Es; [discriminate (proj2 L eq_refl)|]. split; [reflexivity|].
        eexists. split; [reflexivity|]. exists (t :: ts). reflexivity.
    + cbn [flat_map]. rewrite Eo. reflexivity.
Qed.

(* the whole pass *)
Theorem c10_pass custom h0 hs : Forall (fun h => rdh_bytes_ok (hp_bytes h)) (h0 :: hs) ->
  let first := match custom with Some v => v | None => h_header_id (hp_bytes h0) end in
  exists per, run_validator (sanity_cfg custom) (map to_cdp (h0 :: hs)) = Ok (concat per) /\
    Forall2 (fun h ms => (violates first h = false /\ ms = []) \/ (violates first h = true /\ exists m, ms = [m] /\ is_e10_at (hp_off h) m)) (h0 :: hs) per.
Proof.
  intros Hok first. inversion Hok as [|? ? H0 Hr]; subst.
  unfold run_validator. cbn [map link_run]. rewrite sanity_step.
  change (lk_sanity (link_init (sanity_cfg custom))) with (sanity_init custom false).
  destruct (c10_sanity_first (hp_bytes h0) custom false H0) as [F1 F2]. fold first in F1, F2.
  set (s1 := {| lk_sanity := _; lk_running := _; lk_cdp := _ |}).
  assert (Hs1 : lk_sanity s1 = st_of first false) by exact F1.
  set (m0 := match snd (rdh_sanity (sanity_init custom false) (decode_rdh (hp_bytes h0))) with [] => [] | t => [rdh_err (hp_off h0) 10 t] end).
  destruct (latched_run custom first hs s1 ([] ++ m0) Hs1 Hr) as (s' & out & E & _ & F & Eo).
  rewrite E. cbn [app].
  exists (m0 :: map (fun h => match snd (rdh_sanity (st_of first false) (decode_rdh (hp_bytes h))) with [] => [] | t => [rdh_err (hp_off h) 10 t] end) hs).
  split.
  - cbn [concat]. rewrite Eo. f_equal. f_equal. clear. induction hs as [|h hs IH]; [reflexivity|]. cbn [flat_map map concat]. rewrite IH. reflexivity.
  - constructor; [|exact F]. unfold violates, m0.
    destruct (snd (rdh_sanity (sanity_init custom false) (decode_rdh (hp_bytes h0)))) as [|t ts] eqn:Et.
    + left. rewrite (proj1 F2 eq_refl). split; reflexivity.
    + right. destruct (rdh_sane first false (hp_bytes h0)) eqn:Es; [discriminate (proj2 F2 eq_refl)|]. split; [reflexivity|].
      eexists. split; [reflexivity|]. exists (t :: ts). reflexivity.
Qed.
