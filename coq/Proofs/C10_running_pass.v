(* C10 over a validator's whole pass in `check all` (no target): for ANY sequence of packets of a link the pass reports, packet by packet
   and in packet order, one [E10] exactly for the RDHs that violate a documented sanity condition (relative to the header id of the link's
   first RDH or the configured version) and one [E11] exactly for the RDHs that break the documented running rule GIVEN ALL THE RDHs BEFORE
   IT -- the reference of every comparison is the immediate predecessor, whether or not that one was itself reported. *)
From Coq Require Import List NArith Bool Lia Arith.
Import ListNotations.
From FP Require Import Model.Base Model.Rdh Model.RdhChecks Model.CdpRunning Model.Scanner Model.Link Spec.RdhRules
  Proofs.RdhFacts Proofs.C10_proofs Proofs.C10_run.
Open Scope N_scope.

Definition all_cfg (custom : option N) : vcfg :=
  {| v_running := true; v_target := T_none; v_period := None; v_custom_version := custom; v_chip_count := None; v_chip_orders := None |}.

Definition is_e11_at (off : N) (m : vmsg) : Prop := exists tags, m = rdh_err off 11 tags.

Definition e10_of (st : sanity_state) (h : hpkt) : list vmsg :=
  match snd (rdh_sanity st (decode_rdh (hp_bytes h))) with [] => [] | t => [rdh_err (hp_off h) 10 t] end.
Definition e11_of (rs : running_state) (h : hpkt) : list vmsg :=
  match snd (running_check rs (decode_rdh (hp_bytes h))) with [] => [] | t => [rdh_err (hp_off h) 11 t] end.

Lemma all_step custom s h : link_step (all_cfg custom) s (to_cdp h) =
  Ok ({| lk_sanity := fst (rdh_sanity (lk_sanity s) (decode_rdh (hp_bytes h)));
         lk_running := fst (running_check (lk_running s) (decode_rdh (hp_bytes h))); lk_cdp := lk_cdp s |},
      e10_of (lk_sanity s) h ++ e11_of (lk_running s) h).
Proof.
  unfold link_step, all_cfg, to_cdp, e10_of, e11_of. cbn [v_running v_target c_rdh c_off].
  destruct (rdh_sanity (lk_sanity s) (decode_rdh (hp_bytes h))) as [ss t10].
  destruct (running_check (lk_running s) (decode_rdh (hp_bytes h))) as [rs t11]. cbn [fst snd].
  destruct t10; destruct t11; reflexivity.
Qed.

(* the messages of the pass from a latched sanity state and the running state after the packets `pre` *)
Fixpoint pass_from (first : N) (pre : list hpkt) (hs : list hpkt) : list (list vmsg) :=
  match hs with
  | [] => []
  | h :: r => (e10_of (st_of first false) h ++ e11_of (run_fold running_init (map hp_bytes pre)) h) :: pass_from first (pre ++ [h]) r
  end.

Lemma run_fold_snoc pre h : run_fold running_init (map hp_bytes (pre ++ [h])) =
  fst (running_check (run_fold running_init (map hp_bytes pre)) (decode_rdh (hp_bytes h))).
Proof. unfold run_fold. rewrite map_app, fold_left_app. reflexivity. Qed.

Lemma all_run custom first : forall hs pre s acc, lk_sanity s = st_of first false ->
  lk_running s = run_fold running_init (map hp_bytes pre) ->
  exists s', link_run (all_cfg custom) s (map to_cdp hs) acc = Ok (s', acc ++ concat (pass_from first pre hs)).
Proof.
  induction hs as [|h hs IH]; intros pre s acc Hs Hr.
  - exists s. cbn. rewrite app_nil_r. reflexivity.
  - cbn [map link_run]. rewrite all_step, Hs, Hr.
    set (s1 := {| lk_sanity := _; lk_running := _; lk_cdp := _ |}).
    assert (H1 : lk_sanity s1 = st_of first false) by reflexivity.
    assert (H2 : lk_running s1 = run_fold running_init (map hp_bytes (pre ++ [h]))) by (rewrite run_fold_snoc; reflexivity).
    destruct (IH (pre ++ [h]) s1 (acc ++ e10_of (st_of first false) h ++ e11_of (run_fold running_init (map hp_bytes pre)) h) H1 H2) as (s' & E).
    exists s'. rewrite E. cbn [pass_from concat]. rewrite <- !app_assoc. reflexivity.
Qed.

Lemma pass_from_nth first : forall hs pre k h, nth_error hs k = Some h ->
  nth_error (pass_from first pre hs) k =
  Some (e10_of (st_of first false) h ++ e11_of (run_fold running_init (map hp_bytes (pre ++ firstn k hs))) h).
Proof.
  induction hs as [|x hs IH]; intros pre [|k] h Hn; cbn in Hn; try discriminate.
  - injection Hn as ->. cbn [pass_from nth_error firstn]. rewrite app_nil_r. reflexivity.
  - cbn [pass_from nth_error firstn]. rewrite (IH (pre ++ [x]) k h Hn), <- app_assoc. reflexivity.
Qed.

(* the whole pass *)
Theorem c10_running_pass custom h0 hs : Forall (fun h => rdh_bytes_ok (hp_bytes h)) (h0 :: hs) ->
  let first := match custom with Some v => v | None => h_header_id (hp_bytes h0) end in
  let all := h0 :: hs in
  exists per, run_validator (all_cfg custom) (map to_cdp all) = Ok (concat per) /\ length per = length all /\
    forall k h, nth_error all k = Some h ->
      exists m10 m11, nth_error per k = Some (m10 ++ m11) /\
        ((violates first h = false /\ m10 = []) \/ (violates first h = true /\ exists m, m10 = [m] /\ is_e10_at (hp_off h) m)) /\
        (m11 = [] \/ exists m, m11 = [m] /\ is_e11_at (hp_off h) m) /\
        (starts_at_hbf (map hp_bytes (firstn (S k) all)) -> no_wrap (map hp_bytes (firstn (S k) all)) 0 ->
         (m11 <> [] <-> running_violation (map hp_bytes (firstn k all)) (hp_bytes h) = true)).
Proof.
  intros Hok first all. inversion Hok as [|? ? H0 Hr]; subst.
  unfold run_validator, all. cbn [map link_run]. rewrite all_step.
  change (lk_sanity (link_init (all_cfg custom))) with (sanity_init custom false).
  change (lk_running (link_init (all_cfg custom))) with running_init.
  destruct (c10_sanity_first (hp_bytes h0) custom false H0) as [F1 F2]. fold first in F1, F2.
  set (s1 := {| lk_sanity := _; lk_running := _; lk_cdp := _ |}).
  assert (Hs1 : lk_sanity s1 = st_of first false) by exact F1.
  assert (Hr1 : lk_running s1 = run_fold running_init (map hp_bytes ([] ++ [h0]))) by (rewrite run_fold_snoc; reflexivity).
  set (m0 := e10_of (sanity_init custom false) h0 ++ e11_of running_init h0).
  destruct (all_run custom first hs [h0] s1 ([] ++ m0) Hs1 Hr1) as (s' & E). rewrite E. cbn [app].
  exists (m0 :: pass_from first [h0] hs). split; [reflexivity|]. split.
  { cbn [length]. f_equal. clear. generalize [h0]. induction hs as [|x l IH]; intros pre; [reflexivity|]. cbn [pass_from length]. rewrite IH. reflexivity. }
  assert (Hall : forall h, In h (h0 :: hs) -> rdh_bytes_ok (hp_bytes h)) by (apply Forall_forall; exact Hok).
  intros k h Hn.
  assert (Hh : rdh_bytes_ok (hp_bytes h)) by (apply Hall; exact (nth_error_In _ _ Hn)).
  assert (E11 : forall rs, e11_of rs h = [] \/ exists m, e11_of rs h = [m] /\ is_e11_at (hp_off h) m).
  { intros rs. unfold e11_of. destruct (snd (running_check rs (decode_rdh (hp_bytes h)))) as [|t ts]; [left; reflexivity|].
    right. eexists. split; [reflexivity|]. exists (t :: ts). reflexivity. }
  assert (Run : forall pre, Forall rdh_bytes_ok (map hp_bytes pre ++ [hp_bytes h]) ->
            starts_at_hbf (map hp_bytes pre ++ [hp_bytes h]) -> no_wrap (map hp_bytes pre ++ [hp_bytes h]) 0 ->
            (e11_of (run_fold running_init (map hp_bytes pre)) h <> [] <-> running_violation (map hp_bytes pre) (hp_bytes h) = true)).
  { intros pre Hb Hst Hnw. rewrite <- (c10_running_iff (map hp_bytes pre) (hp_bytes h) Hb Hst Hnw). unfold e11_of.
    destruct (snd (running_check (run_fold running_init (map hp_bytes pre)) (decode_rdh (hp_bytes h)))); split; intros X; congruence. }
  assert (Pre : forall j, Forall rdh_bytes_ok (map hp_bytes (firstn j (h0 :: hs)))).
  { intros j. apply Forall_forall. intros b Hb. apply in_map_iff in Hb. destruct Hb as (x & <- & Hx). apply Hall.
    revert Hx. generalize (h0 :: hs). clear. intros l. revert j. induction l as [|y l IH]; intros [|j] Hx; cbn in Hx; try contradiction.
    destruct Hx as [->|Hx]; [left; reflexivity|right; exact (IH j Hx)]. }
  assert (Snoc : firstn (S k) (h0 :: hs) = firstn k (h0 :: hs) ++ [h]).
  { revert Hn. generalize (h0 :: hs). clear. intros l. revert k. induction l as [|y l IH]; intros [|k] Hn; cbn in Hn; try discriminate.
    - injection Hn as ->. reflexivity.
    - change (y :: firstn (S k) l = (y :: firstn k l) ++ [h]). cbn [app]. f_equal. exact (IH k Hn). }
  destruct k as [|k].
  - cbn in Hn. injection Hn as <-. exists (e10_of (sanity_init custom false) h0), (e11_of running_init h0).
    split; [reflexivity|]. split; [|split; [apply E11|]].
    + unfold violates, e10_of. destruct (snd (rdh_sanity (sanity_init custom false) (decode_rdh (hp_bytes h0)))) as [|t ts] eqn:Et.
      * left. rewrite (proj1 F2 eq_refl). split; reflexivity.
      * right. destruct (rdh_sane first false (hp_bytes h0)) eqn:Es; [discriminate (proj2 F2 eq_refl)|]. split; [reflexivity|].
        eexists. split; [reflexivity|]. exists (t :: ts). reflexivity.
    + intros Hst Hnw. cbn [firstn map] in *. apply (Run []); cbn [map app]; try assumption. constructor; [exact H0|constructor].
  - cbn [nth_error] in Hn. exists (e10_of (st_of first false) h), (e11_of (run_fold running_init (map hp_bytes ([h0] ++ firstn k hs))) h).
    split; [cbn [nth_error]; exact (pass_from_nth first hs [h0] k h Hn)|]. split; [|split; [apply E11|]].
    + unfold violates, e10_of. pose proof (c10_sanity_latched (hp_bytes h) first false Hh) as L.
      destruct (snd (rdh_sanity (st_of first false) (decode_rdh (hp_bytes h)))) as [|t ts] eqn:Et.
      * left. rewrite (proj1 L eq_refl). split; reflexivity.
      * right. destruct (rdh_sane first false (hp_bytes h)) eqn:Es; [discriminate (proj2 L eq_refl)|]. split; [reflexivity|].
        eexists. split; [reflexivity|]. exists (t :: ts). reflexivity.
    + intros Hst Hnw. rewrite Snoc, map_app in Hst, Hnw. cbn [map] in Hst, Hnw.
      change ([h0] ++ firstn k hs) with (firstn (S k) (h0 :: hs)).
      apply Run; try assumption. apply Forall_app. split; [apply Pre|constructor; [exact Hh|constructor]].
Qed.

(* a boolean test of the header well-formedness, for examples *)
Definition rdh_bytes_okb (b : list N) : bool := Nat.eqb (length b) 64 && forallb (fun x => x <? 256) b.
Lemma rdh_bytes_okb_sound b : rdh_bytes_okb b = true -> rdh_bytes_ok b.
Proof.
  unfold rdh_bytes_okb, rdh_bytes_ok. intros H. apply andb_true_iff in H. destruct H as [H1 H2]. split; [apply Nat.eqb_eq; exact H1|].
  apply Forall_forall. intros x Hx. rewrite forallb_forall in H2. specialize (H2 x Hx). unfold byte_ok. apply N.ltb_lt. exact H2.
Qed.
