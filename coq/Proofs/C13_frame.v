(* C13, part 2: lane data assembly, lane checks, frame checks -- the documented rules as iff-theorems about the model. *)
From Coq Require Import List NArith Bool Lia Arith.
Import ListNotations.
Require Import FP.Model.Base FP.Model.ItsWords FP.Model.Alpide FP.Model.CdpRunning.
From FP Require Gen.Facts.
Open Scope N_scope.

(* ---------------------------------------------------------------- A. lane data assembly (store_lane_data) *)
Definition store_all (ws : list (N * list N)) (acc : list (N * list N)) : list (N * list N) :=
  fold_left (fun l w => store_lane l (fst w) (snd w)) ws acc.
Definition lane_bytes (ws : list (N * list N)) (id : N) : list N := concat (map snd (filter (fun w => fst w =? id) ws)).
Definition lookup (l : list (N * list N)) (id : N) : list N :=
  match find (fun p => fst p =? id) l with Some p => snd p | None => [] end.

Lemma store_lane_lookup l i0 d j0 :
  lookup (store_lane l i0 d) j0 = if j0 =? i0 then lookup l j0 ++ d else lookup l j0.
Proof.
  unfold lookup. induction l as [|[i x] l IH]; cbn [store_lane find fst snd].
  - rewrite (N.eqb_sym j0 i0). destruct (i0 =? j0); reflexivity.
  - destruct (i =? i0) eqn:E1; cbn [find fst snd].
    + apply N.eqb_eq in E1. subst i. rewrite (N.eqb_sym j0 i0). destruct (i0 =? j0); reflexivity.
    + destruct (i =? j0) eqn:E2.
      * apply N.eqb_eq in E2. subst i. rewrite E1. reflexivity.
      * exact IH.
Qed.

(* the bytes of a lane are the concatenation of the data of its words, in order -- however the words of different lanes are
   interleaved and wherever packet boundaries fall (the frame state is carried from packet to packet) *)
Lemma store_all_lookup ws : forall acc id, lookup (store_all ws acc) id = lookup acc id ++ lane_bytes ws id.
Proof.
  induction ws as [|[i d] ws IH]; intros acc id; cbn [store_all fold_left].
  - unfold lane_bytes. cbn. rewrite app_nil_r. reflexivity.
  - fold (store_all ws (store_lane acc i d)). rewrite IH, store_lane_lookup. unfold lane_bytes. cbn [filter fst snd].
    rewrite (N.eqb_sym i id). destruct (id =? i); cbn [map concat]; rewrite <- ?app_assoc; reflexivity.
Qed.

Lemma store_lane_ids l id d :
  map fst (store_lane l id d) = if existsb (N.eqb id) (map fst l) then map fst l else map fst l ++ [id].
Proof.
  induction l as [|[i x] l IH]; cbn [store_lane map fst existsb]; [reflexivity|].
  rewrite (N.eqb_sym id i). destruct (i =? id); cbn [map fst orb]; [reflexivity|]. rewrite IH.
  destruct (existsb (N.eqb id) (map fst l)); reflexivity.
Qed.

(* ---------------------------------------------------------------- B. unique values, lane checks *)
Lemma existsb_eqb_In x l : existsb (N.eqb x) l = true <-> In x l.
Proof.
  rewrite existsb_exists. split.
  - intros [y [Hy He]]. apply N.eqb_eq in He. subst. exact Hy.
  - intros H. exists x. split; [exact H|apply N.eqb_refl].
Qed.

Lemma uniq_N_in l : forall seen x, In x (uniq_N seen l) <-> In x l /\ ~ In x seen.
Proof.
  induction l as [|y l IH]; intros seen x; cbn [uniq_N]; [cbn; tauto|].
  destruct (existsb (N.eqb y) seen) eqn:E.
  - apply existsb_eqb_In in E. rewrite IH. cbn [In]. split; [intros [H1 H2]; auto|].
    intros [[->|H1] H2]; [contradiction|auto].
  - assert (Hn : ~ In y seen) by (intros H; apply existsb_eqb_In in H; congruence).
    cbn [In]. rewrite IH. cbn [In]. split.
    + intros [->|[H1 H2]]; [auto|]. split; [auto|]. intros H; apply H2; auto.
    + intros [[->|H1] H2]; [auto|]. destruct (N.eq_dec y x) as [->|Hne]; [auto|]. right. split; [exact H1|]. intros [H|H]; [congruence|contradiction].
Qed.

Lemma uniq_N_all_seen l : forall seen, (forall x, In x l -> In x seen) -> uniq_N seen l = [].
Proof.
  induction l as [|y l IH]; intros seen H; cbn [uniq_N]; [reflexivity|].
  assert (E : existsb (N.eqb y) seen = true) by (apply existsb_eqb_In, H; left; reflexivity).
  rewrite E. apply IH. intros x Hx. apply H. right. exact Hx.
Qed.

Lemma uniq_len_le1 l : (length (uniq_N [] l) <= 1)%nat <-> (forall x y, In x l -> In y l -> x = y).
Proof.
  split.
  - intros Hlen x y Hx Hy.
    assert (Ux : In x (uniq_N [] l)) by (apply uniq_N_in; split; [exact Hx|intros []]).
    assert (Uy : In y (uniq_N [] l)) by (apply uniq_N_in; split; [exact Hy|intros []]).
    destruct (uniq_N [] l) as [|a [|b r]]; cbn in *; try lia; try tauto.
    all: try (destruct Ux as [<-|[]]; destruct Uy as [<-|[]]; reflexivity).
  - intros H. destruct l as [|x r]; [cbn; lia|]. cbn [uniq_N existsb].
    rewrite (uniq_N_all_seen r [x]); [cbn; lia|].
    intros y Hy. left. apply H; [left; reflexivity|right; exact Hy].
Qed.

Lemma uniq_hd l x : (forall y, In y l -> y = x) -> l <> [] -> uniq_N [] l = [x].
Proof.
  intros H Hne. destruct l as [|a r]; [contradiction|]. cbn [uniq_N existsb].
  assert (a = x) by (apply H; left; reflexivity). subst a.
  rewrite (uniq_N_all_seen r [x]); [reflexivity|]. intros y Hy. left. symmetry. apply H. right. exact Hy.
Qed.

Lemma list_N_eqb_eq a c : list_N_eqb a c = true <-> a = c.
Proof.
  unfold list_N_eqb. revert c. induction a as [|x a IH]; intros [|y c]; cbn; try (split; [discriminate|congruence]); [split; reflexivity|].
  specialize (IH c). rewrite andb_true_iff in *. rewrite Nat.eqb_eq in *. cbn [fst snd].
  split.
  - intros [Hl Hf]. apply andb_true_iff in Hf. destruct Hf as [Hxy Hf]. apply N.eqb_eq in Hxy. subst y.
    f_equal. apply IH. split; [lia|exact Hf].
  - intros H. injection H as -> ->. split; [reflexivity|]. rewrite N.eqb_refl. cbn. apply IH. reflexivity.
Qed.

(* the documented lane rules, declaratively *)
Definition chips_disagree (chips : list (N * N)) : Prop := exists c1 c2, In c1 chips /\ In c2 chips /\ snd c1 <> snd c2.
Definition bad_count (ly : layer) (cc : option N) (ids : list N) : Prop :=
  match ly with
  | L_Inner => length ids <> 1%nat
  | _ => exists c, cc = Some c /\ N.of_nat (length ids) <> c
  end.
Definition bad_order (ly : layer) (ln : N) (co : option (list (list N))) (ids : list N) : Prop :=
  match ly with
  | L_Inner => nth 0 ids 0 <> ln
  | _ => exists os, co = Some os /\ ~ In ids os
  end.
Definition lane_bad (ly : layer) (ln : N) (cc : option N) (co : option (list (list N))) (s : lane_st) : Prop :=
  chips_disagree (ls_chips s) \/ bad_count ly cc (map fst (ls_chips s)) \/ bad_order ly ln co (map fst (ls_chips s)) \/ ls_bc_already_set s = true.

Lemma uniq_N_NoDup l : forall seen, NoDup (uniq_N seen l).
Proof.
  induction l as [|y l IH]; intros seen; cbn [uniq_N]; [constructor|].
  destruct (existsb (N.eqb y) seen); [apply IH|]. constructor; [|apply IH].
  intros H. apply uniq_N_in in H. destruct H as [_ H]. apply H. left. reflexivity.
Qed.

Lemma e9003_iff chips : Nat.ltb 1 (length (uniq_N [] (map snd chips))) = true <-> chips_disagree chips.
Proof.
  rewrite Nat.ltb_lt. split.
  - intros H. pose proof (uniq_N_NoDup (map snd chips) []) as ND.
    pose proof (uniq_N_in (map snd chips) []) as IN.
    destruct (uniq_N [] (map snd chips)) as [|a [|b r]]; cbn in H; try lia.
    assert (Ha : In a (map snd chips)) by (apply IN; left; reflexivity).
    assert (Hb : In b (map snd chips)) by (apply IN; right; left; reflexivity).
    apply in_map_iff in Ha, Hb. destruct Ha as [c1 [E1 H1]], Hb as [c2 [E2 H2]].
    exists c1, c2. split; [exact H1|]. split; [exact H2|]. rewrite E1, E2. intros E.
    inversion ND as [|? ? Hn _]. apply Hn. left. symmetry. exact E.
  - intros [c1 [c2 [H1 [H2 Hne]]]].
    destruct (le_lt_dec (length (uniq_N [] (map snd chips))) 1) as [L|L]; [|exact L]. exfalso. apply Hne.
    apply (proj1 (uniq_len_le1 _) L); apply in_map; assumption.
Qed.

Lemma existsb_list_In ids os : existsb (list_N_eqb ids) os = true <-> In ids os.
Proof.
  rewrite existsb_exists. split.
  - intros [o [Ho He]]. apply list_N_eqb_eq in He. subst. exact Ho.
  - intros H. exists ids. split; [exact H|apply list_N_eqb_eq; reflexivity].
Qed.

Definition e9004_of (ly : layer) (cc : option N) (ids : list N) : bool :=
  match ly with
  | L_Inner => negb (Nat.eqb (length ids) 1)
  | _ => match cc with Some c => negb (N.of_nat (length ids) =? c) | None => false end
  end.
Definition order_bad_of (ly : layer) (ln : N) (co : option (list (list N))) (ids : list N) : bool :=
  match ly with
  | L_Inner => negb (nth 0 ids 0 =? ln)
  | _ => match co with Some os => negb (existsb (list_N_eqb ids) os) | None => false end
  end.

Lemma e9004_iff ly cc ids : e9004_of ly cc ids = true <-> bad_count ly cc ids.
Proof.
  unfold e9004_of, bad_count. destruct ly.
  - rewrite negb_true_iff, Nat.eqb_neq. tauto.
  - destruct cc as [c|].
    + rewrite negb_true_iff, N.eqb_neq. split; [intros H; exists c; auto|]. intros [c' [E H]]. injection E as <-. exact H.
    + split; [discriminate|]. intros [c [E _]]. discriminate.
  - destruct cc as [c|].
    + rewrite negb_true_iff, N.eqb_neq. split; [intros H; exists c; auto|]. intros [c' [E H]]. injection E as <-. exact H.
    + split; [discriminate|]. intros [c [E _]]. discriminate.
Qed.

Lemma order_bad_iff ly ln co ids : order_bad_of ly ln co ids = true <-> bad_order ly ln co ids.
Proof.
  unfold order_bad_of, bad_order. destruct ly.
  - rewrite negb_true_iff, N.eqb_neq. tauto.
  - destruct co as [os|].
    + rewrite negb_true_iff. split.
      * intros H. exists os. split; [reflexivity|]. intros Hin. apply existsb_list_In in Hin. congruence.
      * intros [os' [E H]]. injection E as <-. destruct (existsb (list_N_eqb ids) os) eqn:X; [|reflexivity]. apply existsb_list_In in X. contradiction.
    + split; [discriminate|]. intros [os [E _]]. discriminate.
  - destruct co as [os|].
    + rewrite negb_true_iff. split.
      * intros H. exists os. split; [reflexivity|]. intros Hin. apply existsb_list_In in Hin. congruence.
      * intros [os' [E H]]. injection E as <-. destruct (existsb (list_N_eqb ids) os) eqn:X; [|reflexivity]. apply existsb_list_In in X. contradiction.
    + split; [discriminate|]. intros [os [E _]]. discriminate.
Qed.

(* lane_checks, restated through the three booleans *)
Lemma lane_checks_unfold ly ln cc co s : ls_fatal s = false -> ls_chips s <> [] ->
  let chips := ls_chips s in
  let ids := map fst chips in
  let e3 := Nat.ltb 1 (length (uniq_N [] (map snd chips))) in
  let e4 := e9004_of ly cc ids in
  let e5 := if e4 then false else order_bad_of ly ln co ids in
  lane_checks ly ln cc co s =
    Ok (if e3 || e4 || e5 || ls_bc_already_set s then LO_errors e3 e4 e5 (ls_bc_already_set s)
        else LO_ok (snd (hd (0, 0) chips))) /\
  (e3 = false -> forall c, In c chips -> snd c = snd (hd (0, 0) chips)).
Proof.
  intros Hf Hne chips ids e3 e4 e5. unfold lane_checks. rewrite Hf.
  assert (Hnil : (match ls_chips s with [] => true | _ => false end) = false) by (destruct (ls_chips s); [contradiction|reflexivity]).
  rewrite Hnil, andb_false_r.
  assert (Hhd : In (hd (0, 0) chips) chips) by (unfold chips; destruct (ls_chips s); [contradiction|left; reflexivity]).
  assert (Hall : e3 = false -> forall c, In c chips -> snd c = snd (hd (0, 0) chips)).
  { intros E c Hc. destruct (N.eq_dec (snd c) (snd (hd (0, 0) chips))) as [Q|Q]; [exact Q|exfalso].
    assert (D : chips_disagree chips) by (exists c, (hd (0, 0) chips); auto).
    apply e9003_iff in D. unfold e3 in E. congruence. }
  split; [|exact Hall].
  fold chips. fold ids. fold e3.
  replace (match ly with L_Inner => negb (Nat.eqb (length ids) 1) | _ => match cc with Some c => negb (N.of_nat (length ids) =? c) | None => false end end)
    with e4 by (unfold e4, e9004_of; destruct ly; reflexivity).
  replace (if e4 then false else match ly with L_Inner => negb (nth 0 ids 0 =? ln) | _ => match co with Some os => negb (existsb (list_N_eqb ids) os) | None => false end end)
    with e5 by (unfold e5, order_bad_of; destruct e4; [reflexivity|destruct ly; reflexivity]).
  destruct (e3 || e4 || e5 || ls_bc_already_set s) eqn:Ev; [reflexivity|].
  f_equal. f_equal.
  apply orb_false_iff in Ev. destruct Ev as [Ev _]. apply orb_false_iff in Ev. destruct Ev as [Ev _]. apply orb_false_iff in Ev. destruct Ev as [E3 _].
  rewrite (uniq_hd (map snd chips) (snd (hd (0, 0) chips))); [reflexivity| |].
  - intros y Hy. apply in_map_iff in Hy. destruct Hy as [c [<- Hc]]. apply Hall; assumption.
  - intros Hm. apply map_eq_nil in Hm. apply Hne. exact Hm.
Qed.

(* a lane passes exactly when no documented lane rule is broken; then all its chips carry the bunch counter it is validated with *)
Theorem lane_ok_iff ly ln cc co s : ls_fatal s = false -> ls_chips s <> [] ->
  ((exists bc, lane_checks ly ln cc co s = Ok (LO_ok bc)) <-> ~ lane_bad ly ln cc co s) /\
  (forall bc, lane_checks ly ln cc co s = Ok (LO_ok bc) -> forall c, In c (ls_chips s) -> snd c = bc).
Proof.
  intros Hf Hne. destruct (lane_checks_unfold ly ln cc co s Hf Hne) as [Heq Hall]. cbn zeta in Heq, Hall.
  set (e3 := Nat.ltb 1 (length (uniq_N [] (map snd (ls_chips s))))) in *.
  set (e4 := e9004_of ly cc (map fst (ls_chips s))) in *.
  set (ob := order_bad_of ly ln co (map fst (ls_chips s))) in *.
  assert (I3 : e3 = true <-> chips_disagree (ls_chips s)) by apply e9003_iff.
  assert (I4 : e4 = true <-> bad_count ly cc (map fst (ls_chips s))) by apply e9004_iff.
  assert (I5 : ob = true <-> bad_order ly ln co (map fst (ls_chips s))) by apply order_bad_iff.
  split.
  - rewrite Heq. unfold lane_bad. split.
    + intros [bc E]. destruct (e3 || e4 || (if e4 then false else ob) || ls_bc_already_set s) eqn:Ev; [discriminate|].
      apply orb_false_iff in Ev. destruct Ev as [Ev Ed]. apply orb_false_iff in Ev. destruct Ev as [Ev E5]. apply orb_false_iff in Ev. destruct Ev as [E3 E4].
      rewrite E4 in E5. intros [H|[H|[H|H]]].
      * apply I3 in H. congruence.
      * apply I4 in H. congruence.
      * apply I5 in H. congruence.
      * congruence.
    + intros Hn. destruct (e3 || e4 || (if e4 then false else ob) || ls_bc_already_set s) eqn:Ev; [|eauto]. exfalso. apply Hn.
      apply orb_true_iff in Ev. destruct Ev as [Ev|Ev]; [|auto].
      apply orb_true_iff in Ev. destruct Ev as [Ev|Ev].
      * apply orb_true_iff in Ev. destruct Ev as [Ev|Ev]; [left; apply I3; exact Ev|right; left; apply I4; exact Ev].
      * destruct e4; [discriminate|]. right. right. left. apply I5. exact Ev.
  - intros bc E c Hc. rewrite Heq in E.
    destruct (e3 || e4 || (if e4 then false else ob) || ls_bc_already_set s) eqn:Ev; [discriminate|]. injection E as <-.
    apply Hall; [|exact Hc].
    apply orb_false_iff in Ev. destruct Ev as [Ev _]. apply orb_false_iff in Ev. destruct Ev as [Ev _]. apply orb_false_iff in Ev. tauto.
Qed.

(* which sub-checks an [E74]/[E75] lane entry names *)
Theorem lane_errors_iff ly ln cc co s a b c d : ls_fatal s = false -> ls_chips s <> [] ->
  lane_checks ly ln cc co s = Ok (LO_errors a b c d) ->
  (a = true <-> chips_disagree (ls_chips s)) /\ (b = true <-> bad_count ly cc (map fst (ls_chips s))) /\
  (c = true <-> (~ bad_count ly cc (map fst (ls_chips s)) /\ bad_order ly ln co (map fst (ls_chips s)))) /\ d = ls_bc_already_set s.
Proof.
  intros Hf Hne E. destruct (lane_checks_unfold ly ln cc co s Hf Hne) as [Heq _]. cbn zeta in Heq. rewrite Heq in E.
  set (e4 := e9004_of ly cc (map fst (ls_chips s))) in *.
  destruct (_ || _ || _ || _) in E; [|discriminate]. injection E as <- <- <- <-.
  split; [apply e9003_iff|]. split; [apply e9004_iff|]. split; [|reflexivity].
  pose proof (e9004_iff ly cc (map fst (ls_chips s))) as I4. fold e4 in I4.
  pose proof (order_bad_iff ly ln co (map fst (ls_chips s))) as I5.
  destruct e4.
  - split; [discriminate|]. intros [Hn _]. exfalso. apply Hn. apply I4. reflexivity.
  - rewrite I5. split; [intros H; split; [|exact H]; intros Hb; apply I4 in Hb; discriminate|tauto].
Qed.

(* ---------------------------------------------------------------- C. all lanes of a frame *)
Definition lane_outcome (ly : layer) (cc : option N) (co : option (list (list N))) (l : N * list N) : result lane_out :=
  lane_checks ly (lane_number_of ly (fst l)) cc co (lane_run (snd l)).
(* a lane whose analysis neither panics nor hits the "unreachable" site (true of every encoded lane with a chip or a fatal word) *)
Definition lane_total (ly : layer) (cc : option N) (co : option (list (list N))) (l : N * list N) : Prop :=
  ls_unreachable (lane_run (snd l)) = false /\ exists o, lane_outcome ly cc co l = Ok o.

Definition errs_of ly cc co (lanes : list (N * list N)) : list (N * lane_out) :=
  flat_map (fun l => match lane_outcome ly cc co l with
                     | Ok (LO_errors a b c d) => [(lane_number_of ly (fst l), LO_errors a b c d)] | _ => [] end) lanes.
Definition valid_of ly cc co (lanes : list (N * list N)) : list (N * N) :=
  flat_map (fun l => match lane_outcome ly cc co l with Ok (LO_ok bc) => [(lane_number_of ly (fst l), bc)] | _ => [] end) lanes.
Definition fatal_of ly cc co (lanes : list (N * list N)) : list N :=
  flat_map (fun l => match lane_outcome ly cc co l with Ok LO_fatal => [lane_number_of ly (fst l)] | _ => [] end) lanes.
Definition flags_of (lanes : list (N * list N)) (fl : rflags) : rflags :=
  fold_left (fun acc l => rflags_sum acc (ls_flags (lane_run (snd l)))) lanes fl.

Lemma frame_lanes_spec ly cc co lanes : Forall (lane_total ly cc co) lanes -> forall errs valid fatal fl,
  frame_lanes ly cc co lanes errs valid fatal fl =
  Ok (errs ++ errs_of ly cc co lanes, valid ++ valid_of ly cc co lanes, fatal ++ fatal_of ly cc co lanes, flags_of lanes fl).
Proof.
  induction 1 as [|[id data] lanes [Hu [o Ho]] _ IH]; intros errs valid fatal fl.
  - cbn. rewrite !app_nil_r. reflexivity.
  - cbn [frame_lanes]. cbn [snd] in Hu. rewrite Hu.
    unfold lane_outcome in Ho. cbn [fst snd] in Ho. rewrite Ho.
    unfold errs_of, valid_of, fatal_of, flags_of. cbn [flat_map fold_left]. unfold lane_outcome. cbn [fst snd]. rewrite Ho.
    destruct o as [a b c d| |bc]; rewrite IH; unfold errs_of, valid_of, fatal_of, flags_of, lane_outcome; cbn [app];
      rewrite <- ?app_assoc, ?app_nil_r; reflexivity.
Qed.

Lemma check_frame_spec ly cc co fr : Forall (lane_total ly cc co) (fr_lanes fr) ->
  exists res, check_frame ly cc co fr = Ok res /\
    fres_lane_errs res = errs_of ly cc co (fr_lanes fr) /\
    fres_bc_mismatch res = Nat.ltb 1 (length (uniq_N [] (map snd (valid_of ly cc co (fr_lanes fr))))) /\
    fres_new_fatal res = fatal_of ly cc co (fr_lanes fr) /\
    fres_flags res = flags_of (fr_lanes fr) rflags_zero.
Proof.
  intros H. unfold check_frame. rewrite (frame_lanes_spec ly cc co _ H). cbn [app].
  eexists. split; [reflexivity|]. cbn. repeat split.
Qed.

(* the [E74]/[E75] verdict, declaratively *)
Definition frame_lane_error ly cc co (lanes : list (N * list N)) : Prop :=
  (exists l a b c d, In l lanes /\ lane_outcome ly cc co l = Ok (LO_errors a b c d)) \/
  (exists l1 l2 b1 b2, In l1 lanes /\ In l2 lanes /\ lane_outcome ly cc co l1 = Ok (LO_ok b1) /\ lane_outcome ly cc co l2 = Ok (LO_ok b2) /\ b1 <> b2).

Lemma errs_of_nil ly cc co lanes : errs_of ly cc co lanes = [] <-> ~ exists l a b c d, In l lanes /\ lane_outcome ly cc co l = Ok (LO_errors a b c d).
Proof.
  unfold errs_of. split.
  - intros H [l [a [b [c [d [Hin Ho]]]]]]. induction lanes as [|x lanes IH]; [exact Hin|]. cbn [flat_map] in H.
    apply app_eq_nil in H. destruct H as [H1 H2]. destruct Hin as [->|Hin]; [rewrite Ho in H1; discriminate|auto].
  - intros H. induction lanes as [|x lanes IH]; [reflexivity|]. cbn [flat_map].
    destruct (lane_outcome ly cc co x) as [[a b c d| |bc]|p] eqn:E.
    + exfalso. apply H. exists x, a, b, c, d. split; [left; reflexivity|exact E].
    + cbn. apply IH. intros [l [a [b [c [d [Hin Ho]]]]]]. apply H. exists l, a, b, c, d. split; [right; exact Hin|exact Ho].
    + cbn. apply IH. intros [l [a [b [c [d [Hin Ho]]]]]]. apply H. exists l, a, b, c, d. split; [right; exact Hin|exact Ho].
    + cbn. apply IH. intros [l [a [b [c [d [Hin Ho]]]]]]. apply H. exists l, a, b, c, d. split; [right; exact Hin|exact Ho].
Qed.

Lemma valid_of_in ly cc co lanes bc : In bc (map snd (valid_of ly cc co lanes)) <-> exists l, In l lanes /\ lane_outcome ly cc co l = Ok (LO_ok bc).
Proof.
  unfold valid_of. induction lanes as [|x lanes IH]; cbn [flat_map map].
  - split; [intros []|intros [l [[] _]]].
  - rewrite map_app, in_app_iff, IH. split.
    + intros [H|[l [Hin Ho]]].
      * destruct (lane_outcome ly cc co x) as [[a b c d| |b0]|p] eqn:E; cbn in H; try contradiction.
        destruct H as [<-|[]]. exists x. split; [left; reflexivity|exact E].
      * exists l. split; [right; exact Hin|exact Ho].
    + intros [l [[->|Hin] Ho]].
      * left. rewrite Ho. cbn. left. reflexivity.
      * right. exists l. auto.
Qed.

Theorem frame_lane_error_iff ly cc co lanes :
  (errs_of ly cc co lanes <> [] \/ Nat.ltb 1 (length (uniq_N [] (map snd (valid_of ly cc co lanes)))) = true) <-> frame_lane_error ly cc co lanes.
Proof.
  unfold frame_lane_error. split.
  - intros [H|H].
    + left. destruct (errs_of ly cc co lanes) as [|e r] eqn:E; [contradiction|].
      (* some lane contributed an entry *)
      clear H. unfold errs_of in E. induction lanes as [|x lanes IH]; [discriminate|]. cbn [flat_map] in E.
      destruct (lane_outcome ly cc co x) as [[a b c d| |b0]|p] eqn:Ex.
      * exists x, a, b, c, d. split; [left; reflexivity|exact Ex].
      * cbn in E. destruct (IH E) as [l [a [b [c [d [Hin Ho]]]]]]. exists l, a, b, c, d. split; [right; exact Hin|exact Ho].
      * cbn in E. destruct (IH E) as [l [a [b [c [d [Hin Ho]]]]]]. exists l, a, b, c, d. split; [right; exact Hin|exact Ho].
      * cbn in E. destruct (IH E) as [l [a [b [c [d [Hin Ho]]]]]]. exists l, a, b, c, d. split; [right; exact Hin|exact Ho].
    + right. apply Nat.ltb_lt in H.
      destruct (le_lt_dec (length (uniq_N [] (map snd (valid_of ly cc co lanes)))) 1) as [L|_]; [lia|].
      pose proof (uniq_N_NoDup (map snd (valid_of ly cc co lanes)) []) as ND.
      pose proof (uniq_N_in (map snd (valid_of ly cc co lanes)) []) as IN.
      destruct (uniq_N [] (map snd (valid_of ly cc co lanes))) as [|b1 [|b2 r]]; cbn in H; try lia.
      assert (H1 : In b1 (map snd (valid_of ly cc co lanes))) by (apply IN; left; reflexivity).
      assert (H2 : In b2 (map snd (valid_of ly cc co lanes))) by (apply IN; right; left; reflexivity).
      apply valid_of_in in H1, H2. destruct H1 as [l1 [I1 O1]], H2 as [l2 [I2 O2]].
      exists l1, l2, b1, b2. repeat split; try assumption.
      intros E. inversion ND as [|? ? Hn _]. apply Hn. left. symmetry. exact E.
  - intros [[l [a [b [c [d [Hin Ho]]]]]]|[l1 [l2 [b1 [b2 [I1 [I2 [O1 [O2 Hne]]]]]]]]].
    + left. intros E. apply errs_of_nil in E. apply E. exists l, a, b, c, d. auto.
    + right. apply Nat.ltb_lt.
      destruct (le_lt_dec (length (uniq_N [] (map snd (valid_of ly cc co lanes)))) 1) as [L|L]; [|exact L]. exfalso. apply Hne.
      apply (proj1 (uniq_len_le1 _) L); apply valid_of_in; eauto.
Qed.

(* readout-flag counters: the sum over the lanes of what their trailers logged *)
Lemma flags_of_app l1 l2 fl : flags_of (l1 ++ l2) fl = flags_of l2 (flags_of l1 fl).
Proof. unfold flags_of. apply fold_left_app. Qed.

(* ---------------------------------------------------------------- D. the lane-count / grouping rule *)
Definition IB_GROUPS : list (list N) := [[0; 1; 2]; [3; 4; 5]; [6; 7; 8]].
Definition minus (g f : list N) : list N := filter (fun x => negb (existsb (N.eqb x) f)) g.
(* documented: the barrel's lane count, lowered by the lanes known to be fatal; for the inner barrel the lanes are one of the fixed
   groups without its fatal lanes *)
Definition lanes_rule (ly : layer) (lane_ids : list N) (fatal : list N) : Prop :=
  N.of_nat (length lane_ids) + N.of_nat (length fatal) = expect_lanes ly /\
  (ly = L_Inner -> exists g, In g IB_GROUPS /\ sort_N (map ib_id_to_lane lane_ids) = minus g fatal).

(* [Hf8]: either no fatal lane number is above 8, or such a number is ignored by the grouping code (regenerated fact) *)
Lemma frame_lanes_valid_iff_gen ly fr fatal :
  let f := match fatal with Some f => f | None => [] end in
  N.of_nat (length (fr_lanes fr)) + N.of_nat (length f) < 18446744073709551616 ->
  (ly = L_Inner -> existsb (fun x => 8 <? x) f && negb Gen.Facts.fatal_lane_beyond_barrel_is_ignored = false) ->
  exists r, frame_lanes_valid ly fr fatal = Ok r /\ (r = None <-> lanes_rule ly (map fst (fr_lanes fr)) f).
Proof.
  intros f Hsz Hf8. unfold frame_lanes_valid, lanes_rule. rewrite map_length.
  set (n := N.of_nat (length (fr_lanes fr))) in *.
  set (exp := match fatal with Some f0 => (expect_lanes ly + 18446744073709551616 - N.of_nat (length f0)) mod 18446744073709551616 | None => expect_lanes ly end).
  assert (Hexp : (n =? exp) = true <-> n + N.of_nat (length f) = expect_lanes ly).
  { unfold exp, f in *. destruct fatal as [f0|]; cbn [length] in *.
    - rewrite N.eqb_eq. assert (E : expect_lanes ly <= 14) by (destruct ly; cbn; lia).
      destruct (N.le_gt_cases (N.of_nat (length f0)) (expect_lanes ly)) as [L|G].
      + replace (expect_lanes ly + 18446744073709551616 - N.of_nat (length f0)) with ((expect_lanes ly - N.of_nat (length f0)) + 1 * 18446744073709551616) by lia.
        rewrite N.mod_add by lia. rewrite N.mod_small by lia. lia.
      + rewrite N.mod_small by lia. lia.
    - rewrite N.eqb_eq. lia. }
  destruct (n =? exp) eqn:E; cbn [negb].
  - assert (Hn : n + N.of_nat (length f) = expect_lanes ly) by (apply Hexp; reflexivity).
    destruct ly.
    + unfold inner_groupings, inner_groupings_gen. fold f.
      rewrite (Hf8 eq_refl). rewrite map_map. cbn [fst].
      set (s := sort_N (map (fun l => ib_id_to_lane (fst l)) (fr_lanes fr))).
      fold (minus [0; 1; 2] f). fold (minus [3; 4; 5] f). fold (minus [6; 7; 8] f).
      destruct (list_N_eqb s (minus [0; 1; 2] f) || list_N_eqb s (minus [3; 4; 5] f) || list_N_eqb s (minus [6; 7; 8] f)) eqn:G.
      * eexists. split; [reflexivity|]. split; [intros _|reflexivity]. split; [exact Hn|]. intros _.
        apply orb_true_iff in G. destruct G as [G|G]; [apply orb_true_iff in G; destruct G as [G|G]|]; apply list_N_eqb_eq in G.
        -- exists [0; 1; 2]. split; [cbn; auto|]. exact G.
        -- exists [3; 4; 5]. split; [cbn; auto|]. exact G.
        -- exists [6; 7; 8]. split; [cbn; auto|]. exact G.
      * eexists. split; [reflexivity|]. split; [discriminate|]. intros [_ Hg]. destruct (Hg eq_refl) as [g [Hin Hs]].
        apply orb_false_iff in G. destruct G as [G G3]. apply orb_false_iff in G. destruct G as [G1 G2].
        cbn in Hin. destruct Hin as [<-|[<-|[<-|[]]]]; apply list_N_eqb_eq in Hs; congruence.
    + eexists. split; [reflexivity|]. split; [intros _; split; [exact Hn|discriminate]|reflexivity].
    + eexists. split; [reflexivity|]. split; [intros _; split; [exact Hn|discriminate]|reflexivity].
  - eexists. split; [reflexivity|]. split; [discriminate|]. intros [Hn _]. apply Hexp in Hn. congruence.
Qed.

Lemma frame_lanes_valid_iff ly fr fatal :
  let f := match fatal with Some f => f | None => [] end in
  N.of_nat (length (fr_lanes fr)) + N.of_nat (length f) < 18446744073709551616 ->
  (ly = L_Inner -> forall x, In x f -> x <= 8) ->
  exists r, frame_lanes_valid ly fr fatal = Ok r /\ (r = None <-> lanes_rule ly (map fst (fr_lanes fr)) f).
Proof.
  intros f Hsz Hf8. apply frame_lanes_valid_iff_gen; [exact Hsz|]. intros Hly.
  assert (Hno : existsb (fun x => 8 <? x) f = false).
  { destruct (existsb (fun x => 8 <? x) f) eqn:X; [|reflexivity]. apply existsb_exists in X. destruct X as [x [Hx Hl]].
    apply N.ltb_lt in Hl. specialize (Hf8 Hly x Hx). lia. }
  unfold f in Hno. rewrite Hno. reflexivity.
Qed.
(* with the repaired grouping code: for EVERY list of fatal lane numbers *)
Lemma frame_lanes_valid_iff_when (ign : bool) : ign = true -> ign = Gen.Facts.fatal_lane_beyond_barrel_is_ignored ->
  forall ly fr fatal, let f := match fatal with Some f => f | None => [] end in
  N.of_nat (length (fr_lanes fr)) + N.of_nat (length f) < 18446744073709551616 ->
  exists r, frame_lanes_valid ly fr fatal = Ok r /\ (r = None <-> lanes_rule ly (map fst (fr_lanes fr)) f).
Proof.
  intros Hi Hg ly fr fatal f Hsz. apply frame_lanes_valid_iff_gen; [exact Hsz|]. intros _. rewrite <- Hg, Hi. apply andb_false_r.
Qed.
(* the pinned commit (finding F17): lane number 9 known as fatal, a frame with the matching count *)
Lemma c13_refuted_fatal_lane_beyond_barrel :
  inner_groupings_gen false [0; 1] [9] = Panic SITE_fatal_lane_number /\ inner_groupings_gen true [0; 1] [9] = Ok (Some 2) /\
  inner_groupings_gen true [0; 2] [9; 1] = Ok None.
Proof. repeat split; reflexivity. Qed.

(* ---------------------------------------------------------------- E. the verdict of a closed frame *)
Definition known_of (o : option (list N)) : list N := match o with Some f => f | None => [] end.
Definition frame_code (ly : layer) (lane_level : bool) : N :=
  match ly, lane_level with
  | L_Inner, false => 72 | _, false => 73
  | L_Inner, true => 74 | _, true => 75
  end.

Lemma c13_process_frame_when (after dedup ign : bool) :
  after = true -> after = Gen.Facts.fatal_lanes_added_after_lane_check -> dedup = Gen.Facts.fatal_lanes_deduplicated ->
  ign = true -> ign = Gen.Facts.fatal_lane_beyond_barrel_is_ignored ->
  forall c s rf fr ly, rf_frame rf = Some fr -> fr_lanes fr <> [] -> rf_layer rf = Some ly ->
  Forall (lane_total ly (v_chip_count c) (v_chip_orders c)) (fr_lanes fr) ->
  N.of_nat (length (fr_lanes fr)) + N.of_nat (length (known_of (rf_fatal_lanes rf))) < 18446744073709551616 ->
  exists s' m1 m3,
    process_readout_frame c s rf = Ok (s', m1 ++ [VStats (flags_of (fr_lanes fr) rflags_zero)] ++ m3) /\
    (* lane count / grouping: judged against the lanes that announced FATAL in EARLIER frames *)
    (m1 = [] <-> lanes_rule ly (map fst (fr_lanes fr)) (known_of (rf_fatal_lanes rf))) /\
    (forall m, In m m1 -> exists k, m = VErr (mk_err_t (fr_start fr) (frame_code ly false) [k])) /\
    (* lane-level rules *)
    (m3 = [] <-> ~ frame_lane_error ly (v_chip_count c) (v_chip_orders c) (fr_lanes fr)) /\
    (forall m, In m m3 -> exists t, m = VErr (mk_err_t (fr_start fr) (frame_code ly true) t)) /\
    (* the lanes announced in this frame are known from the next frame on, each once *)
    (exists rf', cs_rfv s' = Some rf' /\ rf_frame rf' = None /\ rf_in_frame rf' = false /\
                 rf_fatal_lanes rf' = add_fatal_lanes dedup (rf_fatal_lanes rf) (fatal_of ly (v_chip_count c) (v_chip_orders c) (fr_lanes fr))).
Proof.
  intros Ha Hfa Hfd Hi Hgi c s rf fr ly Hfr Hne Hly Htot Hsz.
  unfold process_readout_frame. rewrite Hfr, Hly.
  destruct (fr_lanes fr) as [|l0 ls] eqn:Hl; [contradiction|]. rewrite <- Hl in *.
  destruct (check_frame_spec ly (v_chip_count c) (v_chip_orders c) fr Htot) as [res [Hc [He [Hm [Hf Hfl]]]]].
  rewrite Hc. rewrite <- Hfa, Ha.
  destruct (frame_lanes_valid_iff_when ign Hi Hgi ly fr (rf_fatal_lanes rf)) as [lv [Hv Hiff]]; [exact Hsz|].
  fold (known_of (rf_fatal_lanes rf)) in Hiff. rewrite Hv.
  eexists. eexists. eexists. split; [rewrite Hfl; reflexivity|].
  split; [|split; [|split; [|split]]].
  - rewrite <- Hiff. destruct lv; split; congruence.
  - intros m Hin. destruct lv as [k|]; [|contradiction]. destruct Hin as [<-|[]]. exists k. destruct ly; reflexivity.
  - rewrite <- frame_lane_error_iff, <- He, <- Hm.
    destruct (fres_lane_errs res) as [|e r]; destruct (fres_bc_mismatch res); cbn [app]; (split; intros H0);
      try reflexivity; try discriminate H0;
      try (intros [H1|H1]; [apply H1; reflexivity|discriminate H1]);
      try (exfalso; apply H0; ((right; reflexivity) || (left; discriminate))).
  - intros m Hin. destruct (fres_lane_errs res) as [|e r]; destruct (fres_bc_mismatch res); cbn in Hin; try contradiction;
      destruct Hin as [<-|[]]; eexists; destruct ly; reflexivity.
  - eexists. split; [reflexivity|]. cbn. rewrite Hf, <- Hfd. auto.
Qed.

(* the defect of the pinned commit (F10): with the list extended BEFORE the check, a frame with all lanes present in which one lane
   announces FATAL fails its own lane count *)
Lemma c13_refuted_announcing_frame :
  let fr := {| fr_start := 100; fr_lanes := [(32, [160; 5; 176]); (33, [244]); (34, [162; 5; 176])] |} in
  lanes_rule L_Inner (map fst (fr_lanes fr)) [] /\
  frame_lanes_valid L_Inner fr (add_fatal_lanes false None [1]) = Ok (Some 1).
Proof. cbn zeta. split; [split; [reflexivity|]; intros _; exists [0; 1; 2]; split; [left; reflexivity|reflexivity]|reflexivity]. Qed.

(* a lane announcing twice (F9): without de-duplication a legal later frame fails *)
Lemma c13_refuted_double_announcement :
  let fr := {| fr_start := 100; fr_lanes := [(32, [160; 5; 176]); (34, [162; 5; 176])] |} in
  lanes_rule L_Inner (map fst (fr_lanes fr)) [1] /\
  frame_lanes_valid L_Inner fr (add_fatal_lanes false (Some [1]) [1]) = Ok (Some 1) /\
  frame_lanes_valid L_Inner fr (add_fatal_lanes true (Some [1]) [1]) = Ok None.
Proof. cbn zeta. split; [split; [reflexivity|]; intros _; exists [0; 1; 2]; split; [left; reflexivity|reflexivity]|split; reflexivity]. Qed.

(* ---------------------------------------------------------------- F. frames built by the independent encoder *)
Require Import FP.Spec.AlpideEnc FP.Proofs.C13_lane.

Definition enc_lanes (ls : list (N * list item)) : list (N * list N) := map (fun l => (fst l, encode_lane (snd l))) ls.
Definition same_skeletons (l1 l2 : N * list item) : Prop :=
  fst l1 = fst l2 /\ forallb item_wf (snd l1) = true /\ forallb item_wf (snd l2) = true /\ skeleton (snd l1) = skeleton (snd l2).

Lemma frame_lanes_hits_irrelevant ly cc co L1 L2 : Forall2 same_skeletons L1 L2 -> forall errs valid fatal fl,
  frame_lanes ly cc co (enc_lanes L1) errs valid fatal fl = frame_lanes ly cc co (enc_lanes L2) errs valid fatal fl.
Proof.
  induction 1 as [|[i1 x1] [i2 x2] L1 L2 [Hid [W1 [W2 Hs]]] _ IH]; intros errs valid fatal fl; [reflexivity|].
  cbn [fst snd] in *. subst i2. cbn [enc_lanes map frame_lanes fst snd].
  destruct (lane_hits_irrelevant x1 x2 W1 W2 Hs) as [Ha [U1 U2]]. rewrite U1, U2.
  rewrite (lane_checks_abs ly (lane_number_of ly i1) cc co _ _ Ha).
  assert (Hfl : ls_flags (lane_run (encode_lane x1)) = ls_flags (lane_run (encode_lane x2))).
  { unfold abs_of in Ha. injection Ha as _ _ _ Hfl. exact Hfl. }
  rewrite Hfl. fold (enc_lanes L1). fold (enc_lanes L2).
  destruct (lane_checks ly (lane_number_of ly i1) cc co (lane_run (encode_lane x2))) as [[a b c d| |bc]|p]; try reflexivity; apply IH.
Qed.

(* verdict and readout-flag counters of a frame do not depend on the hit content of its lanes *)
Theorem frame_hits_irrelevant ly cc co st L1 L2 fatal : Forall2 same_skeletons L1 L2 ->
  check_frame ly cc co {| fr_start := st; fr_lanes := enc_lanes L1 |} = check_frame ly cc co {| fr_start := st; fr_lanes := enc_lanes L2 |} /\
  frame_lanes_valid ly {| fr_start := st; fr_lanes := enc_lanes L1 |} fatal = frame_lanes_valid ly {| fr_start := st; fr_lanes := enc_lanes L2 |} fatal.
Proof.
  intros H. split.
  - unfold check_frame. cbn [fr_lanes]. rewrite (frame_lanes_hits_irrelevant ly cc co L1 L2 H). reflexivity.
  - unfold frame_lanes_valid. cbn [fr_lanes].
    assert (Hids : map fst (enc_lanes L1) = map fst (enc_lanes L2)).
    { unfold enc_lanes. rewrite !map_map. cbn [fst]. induction H as [|a b l1 l2 [E _] _ IH]; [reflexivity|]. cbn [map]. rewrite E, IH. reflexivity. }
    assert (Hlen : length (enc_lanes L1) = length (enc_lanes L2)) by (rewrite <- (map_length fst), Hids, map_length; reflexivity).
    rewrite Hlen. destruct (negb _); [reflexivity|]. destruct ly; try reflexivity.
    rewrite <- !(map_map fst ib_id_to_lane), Hids. reflexivity.
Qed.

(* every encoded lane with at least one chip, or a fatal word, is analysed without a crash *)
Lemma encoded_lane_total ly cc co id items : forallb item_wf items = true ->
  (la_fatal (lane_summary items) = true \/ la_chips (lane_summary items) <> []) ->
  lane_total ly cc co (id, encode_lane items).
Proof.
  intros W H. destruct (lane_decode_encode items W) as [[_ [_ [_ U]]] A]. split; [exact U|].
  unfold lane_outcome. cbn [fst snd]. set (s := lane_run (encode_lane items)) in *.
  assert (Hf : ls_fatal s = la_fatal (lane_summary items)) by (rewrite <- A; reflexivity).
  assert (Hc : ls_chips s = la_chips (lane_summary items)) by (rewrite <- A; reflexivity).
  destruct (ls_fatal s) eqn:F.
  - unfold lane_checks. rewrite F. eauto.
  - destruct H as [H|H]; [congruence|]. rewrite <- Hc in H.
    destruct (lane_checks_unfold ly (lane_number_of ly id) cc co s F H) as [E _]. rewrite E. eauto.
Qed.

(* the readout-flag counters of an encoded lane are the counts over its chip trailers *)
Definition trailers_of (items : list item) : list N :=
  flat_map (fun x => match x with I_chip _ _ _ tr => [176 + tr] | _ => [] end) items.
Lemma skel_fold_flags sk : forall a, la_flags (fold_left skel_step sk a) =
  fold_left rflags_log (flat_map (fun k => match k with S_chip _ _ _ tr => [176 + tr] | _ => [] end) sk) (la_flags a).
Proof.
  induction sk as [|k sk IH]; intros a; [reflexivity|]. cbn [fold_left flat_map]. rewrite IH.
  destruct k as [|id bc|id bc f tr|]; cbn [skel_step app fold_left]; try reflexivity.
  - unfold add_chip. destruct (has_chip id (la_chips a)); reflexivity.
  - unfold add_chip. destruct (has_chip id (la_chips a)); reflexivity.
Qed.
Theorem lane_flags_are_trailer_counts items : forallb item_wf items = true ->
  ls_flags (lane_run (encode_lane items)) = fold_left rflags_log (trailers_of items) rflags_zero.
Proof.
  intros W. destruct (lane_decode_encode items W) as [_ A].
  change (ls_flags (lane_run (encode_lane items))) with (la_flags (abs_of (lane_run (encode_lane items)))). rewrite A.
  unfold lane_summary. rewrite skel_fold_flags. cbn [abs_init la_flags]. f_equal.
  unfold skeleton, trailers_of. clear W A. induction items as [|x items IH]; [reflexivity|].
  destruct x; cbn [skel_of filter map flat_map app]; rewrite IH; reflexivity.
Qed.
