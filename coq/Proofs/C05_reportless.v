(* C05 for the runs that print no report (`view rdh`, the readout-frame views, filtered writing): the collector receives the main thread's and
   (views) the analysis thread's statistics in some interleaving; the statistics file, the exit status and hence everything observable
   besides the view rows / written bytes (which are produced by one thread in input order: C19, C08) do not depend on it. *)
From Coq Require Import List NArith ZArith Bool Lia Permutation.
From FP Require Import Model.Base Model.Rdh Model.Alpide Model.Scanner Model.CdpRunning Model.Link Model.Collector Model.Views Model.System Model.SystemView
  Spec.RdhRules Spec.Framing Spec.GroundTruth
  Proofs.Interleave Proofs.C03_proofs Proofs.C05_proofs Proofs.C14_proofs Proofs.C05_run.
From FP Require Gen.Facts.
Import ListNotations.
Open Scope N_scope.

Definition analysed_mode (m : rl_mode) : bool := match m with RL_write => false | _ => true end.

Definition rl_streams (c : run_cfg) (m : rl_mode) (input : list N) : list (list cstat) :=
  let out := scan_impl (rc_scan c) input in
  [main_stream (nth 0 input 0) (so_stats out); if analysed_mode m then analysis_stream (so_batches out) else []].

Definition finish_rl (ff : bool) (c : run_cfg) (a : list cstat) : run_result :=
  let s0 := collect_all a in
  let s1 := add_custom s0 (custom_errors (rc_counts c) s0) in
  let s2 := finalize Gen.Facts.error_sort_when_muted (rc_mute c) s1 in
  let flag := (0 <? k_total s2) || (ff && match k_fatal s2 with Some _ => true | None => false end) in
  R_done s2 [] (exit_code (rc_exit c) Init_ok flag).

(* the views end normally (every batch can be shown): the run with the statistics delivered in the order `a` *)
Definition views_done (m : rl_mode) (input : list N) (c : run_cfg) : Prop :=
  match m with RL_view_frames dv => first_end dv (so_batches (scan_impl (rc_scan c) input)) = VE_done | _ => True end.

Lemma run_reportless_is_finish ff c m input : Nat.ltb (length input) 8 = false -> recognised input = true -> views_done m input c ->
  run_reportless ff c m input = finish_rl ff c (concat (rl_streams c m input)).
Proof.
  intros Hl Hr Hv. unfold run_reportless. rewrite Hl, Hr. cbn [negb]. cbv zeta.
  assert (Eve : match m with RL_view_frames dv => first_end dv (so_batches (scan_impl (rc_scan c) input)) | _ => VE_done end = VE_done)
    by (destruct m; try reflexivity; exact Hv).
  rewrite Eve. unfold finish_rl, rl_streams, stats_arrival, analysed_mode. cbv zeta. cbn [concat]. rewrite !app_nil_r.
  destruct m; reflexivity.
Qed.

Section Whole.
Context (c : run_cfg) (m : rl_mode) (pkts : list packet).
Context (Hoff : Gen.Facts.cdp_offset_sampled_after = true).
Context (Hsort : Gen.Facts.error_sort_when_muted = true).
Context (Hwf : Forall wf_pkt pkts).
Context (Hn : N.of_nat (length pkts) < U32_MAX).
Context (Hpay : pay_all pkts < U32_MAX).
Context (Hknown : forall p r, pkts = p :: r -> known_sysid (r_system_id (hdr p)) = true).

Let input := serialize pkts.

Lemma rl_streams_ok : streams_ok (rl_streams c m input).
Proof.
  destruct (whole_streams c pkts Hoff Hwf Hn Hpay Hknown) as (o & tl & E & Hpl & Hk & Htl & _).
  assert (Em : main_stream (nth 0 input 0) (so_stats (scan_impl (rc_scan c) input)) = main_stream (nth 0 input 0) (o ++ tl)).
  { apply (f_equal (fun l => hd [] l)) in E. exact E. }
  unfold rl_streams. cbv zeta. rewrite Em.
  set (an := if analysed_mode m then analysis_stream (so_batches (scan_impl (rc_scan c) input)) else []).
  assert (Han : forall x, In x an -> analysis_kind x = true).
  { intros x Hx. unfold an in Hx. destruct (analysed_mode m); [exact (analysis_stream_kind _ _ Hx)|destruct Hx]. }
  assert (Hmn : forall x, In x (main_stream (nth 0 input 0) (o ++ tl)) -> main_kind x = true) by (apply main_stream_kind; assumption).
  assert (only0 : forall P : cstat -> bool, (forall x, analysis_kind x = true -> P x = false) -> only_in P [main_stream (nth 0 input 0) (o ++ tl); an] 0).
  { intros P HP j s Hj Hne y Hy. destruct j as [|[|j]]; [congruence| |destruct j; discriminate].
    cbn in Hj. injection Hj as <-. apply HP, Han, Hy. }
  assert (only1 : forall P : cstat -> bool, (forall x, main_kind x = true -> P x = false) -> only_in P [main_stream (nth 0 input 0) (o ++ tl); an] 1).
  { intros P HP j s Hj Hne y Hy. destruct j as [|[|j]]; [|congruence|destruct j; discriminate].
    cbn in Hj. injection Hj as <-. apply HP, Hmn, Hy. }
  constructor.
  - exists 0%nat. apply only0. intros x Hx; destruct x; try discriminate; reflexivity.
  - exists 0%nat. apply only0. intros x Hx; destruct x; try discriminate; reflexivity.
  - exists 1%nat. apply only1. intros x Hx; destruct x; try discriminate; reflexivity.
  - exists 0%nat. apply only0. intros x Hx; destruct x; try discriminate; reflexivity.
  - intros k. exists 0%nat. apply only0. intros x Hx; destruct x; try discriminate; reflexivity.
  - intros s Hs mm Hm. destruct Hs as [<-|[<-|[]]].
    + pose proof (Hmn _ Hm) as X. discriminate.
    + pose proof (Han _ Hm) as X. discriminate.
Qed.

Theorem c05_reportless_run ff a : Nat.ltb (length input) 8 = false -> recognised input = true -> views_done m input c ->
  Interleave (rl_streams c m input) a -> finish_rl ff c a = run_reportless ff c m input.
Proof.
  intros Hl Hr Hv Ha. rewrite (run_reportless_is_finish ff c m input Hl Hr Hv).
  pose proof rl_streams_ok as Hok. pose proof (interleave_concat (rl_streams c m input)) as Ic.
  destruct (c05_states _ a _ Hok Ha Ic) as (E1 & E2 & E3 & E4 & E5 & E6 & F1 & F2 & E7 & E8 & E9).
  unfold finish_rl. cbv zeta.
  set (s1 := collect_all a) in *. set (s2 := collect_all (concat (rl_streams c m input))) in *.
  assert (EC : custom_errors (rc_counts c) s1 = custom_errors (rc_counts c) s2) by (unfold custom_errors, counter; rewrite E1; reflexivity).
  assert (EF : finalize Gen.Facts.error_sort_when_muted (rc_mute c) (add_custom s1 (custom_errors (rc_counts c) s1)) =
               finalize Gen.Facts.error_sort_when_muted (rc_mute c) (add_custom s2 (custom_errors (rc_counts c) s2))).
  { rewrite Hsort, EC. unfold g_once in E5. injection E5 as V1 V2 V3 V4 V5. unfold g_rest in E9. injection E9 as U1 U2 U3.
    pose proof (rest_const a) as R1. fold s1 in R1. unfold g_rest in R1. injection R1 as _ _ R1. cbn [k_finalized cinit] in R1.
    unfold finalize, add_custom. cbn [k_finalized upd_errs k_counters k_links k_fees k_layer_staves k_version k_format k_sysid k_run_trigger
      k_set_twice k_errors k_fatal k_custom k_total].
    rewrite <- U3, R1. replace (negb (rc_mute c) || true) with true by (destruct (rc_mute c); reflexivity).
    rewrite E1, E2, E3, E4, V1, V2, V3, V4, V5, E6, F1, F2, E7, E8. reflexivity. }
  rewrite EF. reflexivity.
Qed.
End Whole.
