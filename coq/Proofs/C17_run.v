From Coq Require Import List Arith Bool Lia.
From FP Require Import Model.Protocol Proofs.C17_inv Proofs.C17_proofs Proofs.C17_live.
Import ListNotations.

(* ---- executions ---------------------------------------------------------------------------- *)
Lemma run_app f l1 : forall l2 s, run f (l1 ++ l2) s =
  match run f l1 s with Some s1 => run f l2 s1 | None => None end.
Proof. induction l1 as [|l l1 IH]; intros l2 s; cbn; [reflexivity|]. destruct (step f l s); auto. Qed.

(* every execution is finite: its length is bounded by the variant of its first state *)
Theorem run_length f ls : forall s s', run f ls s = Some s' -> length ls + mu f s' <= mu f s.
Proof.
  induction ls as [|l ls IH]; intros s s' H; cbn in H.
  - inversion H; subst. cbn. lia.
  - destruct (step f l s) as [s1|] eqn:E; [|discriminate].
    apply IH in H. apply mu_decreases in E. cbn. lia.
Qed.

(* once the stop flag is up (and the reader polls it) the variant -- hence the number of steps any
   execution can still take -- does not depend on the input that has not been read: only on the
   batch the reader is filling right now, the queued batches, CDPs and messages, the validators *)
Theorem stop_bound_input_independent f s rest' :
  pf_reader_polls f = true -> s_stop s = true ->
  mu f s = mu f (set_input (match s_input s with [] => [] | b :: _ => b :: rest' end) s).
Proof.
  intros P St. unfold mu, w_input. cbn. rewrite P, St. cbn.
  destruct (s_r s); destruct (s_input s); reflexivity.
Qed.

Corollary stopped_run_bounded f ls s s' rest' :
  pf_reader_polls f = true -> s_stop s = true -> run f ls s = Some s' ->
  length ls <= mu f (set_input (match s_input s with [] => [] | b :: _ => b :: rest' end) s).
Proof.
  intros P St H. rewrite <- stop_bound_input_independent by assumption.
  apply run_length in H. lia.
Qed.

Lemma stop_inv_run f ls : forall s s', run f ls s = Some s' -> stop_inv s -> stop_inv s'.
Proof.
  induction ls as [|l ls IH]; intros s s' H I; cbn in H; [inversion H; subst; assumption|].
  destruct (step f l s) as [s1|] eqn:E; [|discriminate]. eapply IH; eauto. eapply stop_inv_step; eauto.
Qed.
Lemma fatal_pending_run f ls : forall s s', run f ls s = Some s' -> stop_inv s -> fatal_pending s -> fatal_pending s'.
Proof.
  induction ls as [|l ls IH]; intros s s' H I P; cbn in H; [inversion H; subst; assumption|].
  destruct (step f l s) as [s1|] eqn:E; [|discriminate].
  eapply IH; eauto. eapply stop_inv_step; eauto. eapply fatal_pending_step; eauto.
Qed.
Lemma cap_pending_run f ls : forall s s', run f ls s = Some s' -> stop_inv s -> cap_pending s -> cap_pending s'.
Proof.
  induction ls as [|l ls IH]; intros s s' H I P; cbn in H; [inversion H; subst; assumption|].
  destruct (step f l s) as [s1|] eqn:E; [|discriminate].
  eapply IH; eauto. eapply stop_inv_step; eauto. eapply cap_pending_step; eauto.
Qed.

(* a fatal message in flight / enough errors in flight: whatever the interleaving, the stop flag is up
   as soon as the controller has taken them, at the latest when its queue is empty *)
Theorem fatal_raises_stop f ls s s' : goodf f -> Inv s -> stop_inv s -> fatal_pending s ->
  run f ls s = Some s' -> s_sq s' = [] -> s_iq s' = [] -> s_stop s' = true.
Proof.
  intros G I SI P H Hsq Hiq. pose proof (fatal_pending_run _ _ _ _ H SI P) as [St|[F|F]]; auto.
  - rewrite Hsq in F. contradiction.
  - rewrite Hiq in F. contradiction.
Qed.
Theorem cap_raises_stop f ls s s' : stop_inv s -> cap_pending s ->
  run f ls s = Some s' -> s_sq s' = [] -> s_stop s' = true.
Proof.
  intros SI P H Hsq. pose proof (cap_pending_run _ _ _ _ H SI P) as [St|(A & B & C)]; auto.
  rewrite Hsq in C. cbn in C. lia.
Qed.

(* reachable states *)
Definition reachable (f : pfacts) (c : cfg) (input : list batch) (s : state) : Prop :=
  exists ls, run f ls (init c input) = Some s.
Lemma reachable_inv f c input s : goodf f -> reachable f c input s -> Inv s.
Proof. intros G [ls H]. eapply inv_run; eauto. apply inv_init. Qed.
Lemma reachable_stop_inv f c input s : reachable f c input s -> stop_inv s.
Proof. intros [ls H]. eapply stop_inv_run; eauto. unfold stop_inv, init; cbn. discriminate. Qed.
Lemma no_panic_run f ls : forall s s', handled f -> s_panic s = false -> run f ls s = Some s' -> s_panic s' = false.
Proof.
  induction ls as [|l ls IH]; intros s s' Hd Hp H; cbn in H; [inversion H; subst; assumption|].
  destruct (step f l s) as [s1|] eqn:E; [|discriminate]. apply (IH s1 s' Hd); [eapply no_panic_step; eauto|assumption].
Qed.

Lemma no_hard_exit_run f ls : forall s s', pf_handler_own_counter f = true -> s_hardexit s = false ->
  run f ls s = Some s' -> s_hardexit s' = false.
Proof.
  induction ls as [|l ls IH]; intros s s' Hc Hh H; cbn in H; [inversion H; subst; assumption|].
  destruct (step f l s) as [s1|] eqn:E; [|discriminate].
  apply (IH s1 s' Hc); [eapply no_hard_exit_step; eauto|assumption].
Qed.

(* ---- the written file consists of whole packets -------------------------------------------- *)
From FP Require Import Model.Base Model.Rdh Model.Scanner Model.Writer Proofs.C08_proofs.

Lemma firstn_length_app {A} (x y : list A) : firstn (length x) (x ++ y) = x.
Proof. rewrite firstn_app, Nat.sub_diag, firstn_all. cbn. apply app_nil_r. Qed.

Lemma concat_firstn_prefix {A} (bs : list (list A)) k :
  concat (firstn k bs) = firstn (length (concat (firstn k bs))) (concat bs).
Proof.
  assert (concat bs = concat (firstn k bs) ++ concat (skipn k bs)) as E
    by (rewrite <- concat_app, firstn_skipn; reflexivity).
  rewrite E. symmetry. apply firstn_length_app.
Qed.

(* the writer thread pushes the batches it received before it was told to stop (or before the reader went
   away), then is dropped: whatever that number k and whatever the flush threshold, the output is the
   serialisation of a prefix of the packet sequence -- whole packets only *)
Theorem whole_packets_at_exit max (batches : list (list cdp)) k :
  exists j, write_all max (firstn k batches) = concat (map cdp_bytes (firstn j (concat batches))).
Proof.
  exists (length (concat (firstn k batches))). rewrite write_all_spec, <- concat_firstn_prefix. reflexivity.
Qed.

(* also between flushes: what has been handed to the destination so far is a whole-packet prefix *)
Definition ser (l : list cdp) : list N := concat (map cdp_bytes l).

Lemma w_push_split max w batch pre : w_out w = ser pre ->
  exists pre', w_out (w_push max w batch) = ser pre' /\
               pre' ++ w_buf (w_push max w batch) = (pre ++ w_buf w) ++ batch.
Proof.
  intros H. unfold w_push. destruct (max <=? _); cbn [w_flush w_buf w_out].
  - exists (pre ++ w_buf w). split; [|rewrite app_nil_l; reflexivity].
    unfold ser in *. rewrite map_app, concat_app, H. reflexivity.
  - exists pre. split; [assumption|rewrite app_assoc; reflexivity].
Qed.

Lemma w_fold_split max batches : forall w pre, w_out w = ser pre ->
  exists pre', w_out (fold_left (w_push max) batches w) = ser pre' /\
               pre' ++ w_buf (fold_left (w_push max) batches w) = (pre ++ w_buf w) ++ concat batches.
Proof.
  induction batches as [|b bs IH]; intros w pre H; cbn [fold_left concat].
  - exists pre. rewrite app_nil_r. auto.
  - destruct (w_push_split max w b pre H) as (p1 & H1 & E1).
    destruct (IH _ _ H1) as (p2 & H2 & E2). exists p2. split; [assumption|].
    rewrite E2, E1, app_assoc. reflexivity.
Qed.

Theorem whole_packets_always max (batches : list (list cdp)) k :
  exists j, w_out (fold_left (w_push max) (firstn k batches) w_init)
            = concat (map cdp_bytes (firstn j (concat batches))).
Proof.
  destruct (w_fold_split max (firstn k batches) w_init [] eq_refl) as (pre & H & E).
  cbn in E. exists (length pre). rewrite H. unfold ser. f_equal. f_equal.
  assert (concat batches = pre ++ (w_buf (fold_left (w_push max) (firstn k batches) w_init) ++ concat (skipn k batches))) as E2.
  { rewrite app_assoc, E, <- concat_app, firstn_skipn. reflexivity. }
  rewrite E2. symmetry. apply firstn_length_app.
Qed.
