(* The CDW-extended grammar contains the plain word-level grammar: a link without any CDW is a calibration link with no CDW on
   any page.  (So C01_its_tier is also a corollary of C01_its_tier_calibration.) *)
From Coq Require Import List NArith Bool.
Import ListNotations.
From FP Require Import Model.Base Model.Rdh Spec.WordLayout Spec.Grammar Spec.GrammarIts Spec.GrammarItsCdw.
Open Scope N_scope.

Definition lift_page (p : its_page) : cpage := {| cp_page := p; cp_cdw := None |}.
Definition lift_hbf (ih : its_hbf) : chbf := {| ch_pages := map lift_page (ih_pages ih); ch_ddw0 := ih_ddw0 ih; ch_stop_pad := ih_stop_pad ih |}.

Lemma lift_pages_ok h pc : forall first opened ips, pages_ok h first opened ips -> cpages_ok h first opened pc (map lift_page ips) pc.
Proof.
  induction 1 as [first|first opened p r out Hi Hne Hpad Hit Hr IH]; cbn [map].
  - constructor.
  - apply (CPO_page h first opened pc (lift_page p) (map lift_page r) out pc); cbn [lift_page cp_page cp_cdw]; auto.
    intros c X; discriminate.
Qed.

Lemma lift_hbf_ok fmt h ih pc : its_hbf_ok fmt h ih -> chbf_ok fmt h pc (lift_hbf ih) pc.
Proof.
  intros (A & B & C & D & E). unfold chbf_ok, lift_hbf. cbn [ch_pages ch_ddw0 ch_stop_pad].
  split; [apply lift_pages_ok; exact A|]. split; [exact B|]. split; [exact C|]. split; [|exact E].
  rewrite D, map_map. reflexivity.
Qed.

Theorem plain_link_is_calibration_link ld ihs : wf_link_its ld ihs -> wf_link_its_cdw ld (map lift_hbf ihs).
Proof.
  intros (A & B & C & D). split; [exact A|]. split; [exact B|]. split; [exact C|].
  induction D as [|h ih hs ihs' Hok _ IH]; cbn [map]; [constructor|]. econstructor; [apply lift_hbf_ok; exact Hok|exact IH].
Qed.
