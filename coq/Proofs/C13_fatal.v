(* C13: the running list of lanes in FATAL state is a SET, whatever the order and the number of announcements: no lane twice,
   and exactly the lanes that announced so far -- so a legal later frame is short by exactly the number of DISTINCT lanes. *)
From Coq Require Import List NArith Bool Lia.
Import ListNotations.
From FP Require Import Model.Base Model.Alpide Model.CdpRunning Proofs.C13_frame.
Open Scope N_scope.

Definition add1 (acc : list N) (x : N) : list N := if existsb (N.eqb x) acc then acc else acc ++ [x].

Lemma existsb_eqb_in x l : existsb (N.eqb x) l = true <-> In x l.
Proof.
  rewrite existsb_exists. split; [intros [y [Hy E]]; apply N.eqb_eq in E; subst; exact Hy|intros H; exists x; split; [exact H|apply N.eqb_refl]].
Qed.

Lemma nodup_snoc (l : list N) x : NoDup l -> ~ In x l -> NoDup (l ++ [x]).
Proof.
  induction l as [|a l IH]; intros ND Hn; cbn; [constructor; [intros []|constructor]|].
  inversion ND as [|? ? Ha ND']; subst. constructor.
  - rewrite in_app_iff. cbn. intros [H|[H|[]]]; [exact (Ha H)|subst; apply Hn; left; reflexivity].
  - apply IH; [exact ND'|intros H; apply Hn; right; exact H].
Qed.

Lemma add1_spec acc x : NoDup acc -> NoDup (add1 acc x) /\ forall y, In y (add1 acc x) <-> In y acc \/ y = x.
Proof.
  intros ND. unfold add1. destruct (existsb (N.eqb x) acc) eqn:E.
  - apply existsb_eqb_in in E. split; [exact ND|]. intros y. split; [auto|intros [H| ->]; assumption].
  - assert (Hn : ~ In x acc) by (intros H; apply existsb_eqb_in in H; congruence).
    split.
    + apply nodup_snoc; assumption.
    + intros y. rewrite in_app_iff. cbn. split; [intros [H|[H|[]]]; auto|intros [H|H]; auto].
Qed.

Lemma fold_add1_spec new : forall acc, NoDup acc ->
  NoDup (fold_left add1 new acc) /\ forall y, In y (fold_left add1 new acc) <-> In y acc \/ In y new.
Proof.
  induction new as [|x new IH]; intros acc ND; cbn [fold_left].
  - split; [exact ND|]. intros y. cbn. tauto.
  - destruct (add1_spec acc x ND) as [ND1 M1]. destruct (IH (add1 acc x) ND1) as [ND2 M2]. split; [exact ND2|].
    intros y. rewrite M2, M1. cbn. split; [intros [[H|H]|H]; auto|intros [H|[H|H]]; auto].
Qed.

Theorem add_fatal_lanes_set known new : NoDup (known_of known) ->
  NoDup (known_of (add_fatal_lanes true known new)) /\
  forall y, In y (known_of (add_fatal_lanes true known new)) <-> In y (known_of known) \/ In y new.
Proof.
  intros ND. unfold add_fatal_lanes. destruct new as [|x new].
  - split; [exact ND|]. intros y. cbn. tauto.
  - cbn [known_of]. fold (known_of known). exact (fold_add1_spec (x :: new) (known_of known) ND).
Qed.

(* any sequence of frames' announcements, starting from no fatal lane *)
Theorem fatal_lanes_after_frames (news : list (list N)) :
  let final := fold_left (add_fatal_lanes true) news None in
  NoDup (known_of final) /\ forall y, In y (known_of final) <-> exists n, In n news /\ In y n.
Proof.
  cbv zeta.
  assert (G : forall news acc, NoDup (known_of acc) ->
            NoDup (known_of (fold_left (add_fatal_lanes true) news acc)) /\
            forall y, In y (known_of (fold_left (add_fatal_lanes true) news acc)) <-> In y (known_of acc) \/ exists n, In n news /\ In y n).
  { induction news0 as [|n ns IH]; intros acc ND; cbn [fold_left].
    - split; [exact ND|]. intros y. split; [auto|intros [H|[n [[] _]]]; exact H].
    - destruct (add_fatal_lanes_set acc n ND) as [ND1 M1]. destruct (IH _ ND1) as [ND2 M2]. split; [exact ND2|].
      intros y. rewrite M2, M1. split.
      + intros [[H|H]|[m [Hm Hy]]]; [auto|right; exists n; split; [left; reflexivity|exact H]|right; exists m; split; [right; exact Hm|exact Hy]].
      + intros [H|[m [[<-|Hm] Hy]]]; [auto|auto|right; exists m; auto]. }
  destruct (G news None ltac:(constructor)) as [ND M]. split; [exact ND|]. intros y. rewrite M. cbn. split; [intros [[]|H]; exact H|auto].
Qed.

(* the behaviour of a list that only drops CONSECUTIVE repeats (extend + Vec::dedup): lane 3, lane 4, lane 3 again leaves three
   entries, one frame later the expected lane count is one too low *)
Fixpoint dedup_consecutive (l : list N) : list N :=
  match l with
  | x :: ((y :: _) as r) => if x =? y then dedup_consecutive r else x :: dedup_consecutive r
  | _ => l
  end.
Lemma refuted_consecutive_dedup :
  dedup_consecutive (dedup_consecutive (dedup_consecutive [3] ++ [4]) ++ [3]) = [3; 4; 3] /\
  known_of (fold_left (add_fatal_lanes true) [[3]; [4]; [3]] None) = [3; 4].
Proof. split; reflexivity. Qed.

(* for the validator as it is: instantiated with the regenerated fact *)
Lemma fatal_lanes_after_frames_when (b : bool) : b = true -> b = Gen.Facts.fatal_lanes_deduplicated ->
  forall news : list (list N),
  let final := fold_left (add_fatal_lanes Gen.Facts.fatal_lanes_deduplicated) news None in
  NoDup (known_of final) /\ forall y, In y (known_of final) <-> exists n, In n news /\ In y n.
Proof. intros Hb Hg. rewrite <- Hg, Hb. exact fatal_lanes_after_frames. Qed.
