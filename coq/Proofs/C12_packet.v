(* C12, packet level: what do_payload_checks (its/lib.rs) does with the result of
   preprocess_payload.  Proved over Model/CdpRunning.v. *)
From Coq Require Import List NArith Arith Lia.
From FP Require Import Model.Base Model.ItsFsm Model.Rdh Model.Payload Model.CdpRunning Proofs.C12_proofs.
Import ListNotations.
Open Scope N_scope.

(* more than 15 bytes of 0xFF: exactly one message, at the RDH's offset, un-coded; no word is
   handed to the checker; the FSM is back in its initial state for the next packet *)
Lemma c12_packet_too_much c s r payload pos s1 :
  set_current_rdh s r pos = Ok s1 -> (15 < ff_run payload)%nat ->
  do_payload_checks c s r payload pos = Ok (set_fsm s1 S_InitialIHW, [VErr (mk_err pos CODE_PAYLOAD None)]) /\
  cs_fsm (set_fsm s1 S_InitialIHW) = S_InitialIHW.
Proof.
  intros Hs Hff. unfold do_payload_checks. rewrite Hs.
  destruct (c12_too_much payload Hff) as [_ Hp]. rewrite Hp. split; reflexivity.
Qed.

(* otherwise the checker is handed exactly the words of the payload, once each, in order *)
Lemma c12_packet_words c s r payload pos s1 ws :
  set_current_rdh s r pos = Ok s1 -> words_of payload = Some ws ->
  do_payload_checks c s r payload pos = cdp_words c s1 ws [].
Proof.
  intros Hs Hw. unfold do_payload_checks. rewrite Hs. unfold words_of in Hw.
  destruct (preprocess payload) as [ff|slot cs]; [discriminate|].
  injection Hw as <-. reflexivity.
Qed.

(* the words are consumed strictly left to right: the run over ws1 ++ ws2 is the run over ws1
   followed by the run over ws2 from the state reached *)
Lemma cdp_words_app c ws1 : forall s ws2 acc,
  cdp_words c s (ws1 ++ ws2) acc =
  match cdp_words c s ws1 acc with
  | Ok (s1, acc1) => cdp_words c s1 ws2 acc1
  | Panic p => Panic p
  end.
Proof.
  induction ws1 as [|w ws1 IH]; intros s ws2 acc; cbn [app cdp_words]; [reflexivity|].
  destruct (cdp_check c s w) as [[s1 m]|p]; [apply IH|reflexivity].
Qed.
