(* C01, the stave tier for calibration runs: a link of the CDW-extended grammar whose trigger packets are stave-conforming draws
   nothing but ALPIDE statistics messages from `check all its-stave`.  Same construction as Proofs/C01_its_cdw.v, on top of the
   stave-tier lemmas of Proofs/C01_stave.v: a CDW is not lane data, so the open readout frame does not see it. *)
From Coq Require Import List NArith ZArith Bool Lia ZifyBool ZifyN Arith.
From FP Require Import Model.Base Model.ItsWords Model.ItsFsm Model.Rdh Model.RdhChecks Model.Payload Model.Alpide
  Model.CdpRunning Model.Scanner Model.Link Spec.WordLayout Spec.Grammar Spec.GrammarIts Spec.GrammarItsCdw Spec.GrammarStave
  Proofs.Bits Proofs.WordFacts Proofs.C11_proofs Proofs.C12_proofs Proofs.C12_packet Proofs.C01_rdh Proofs.C01_its Proofs.C02_cdw
  Proofs.C01_its_cdw Proofs.C13_lane Proofs.C13_frame Proofs.C01_stave.
From FP Require Gen.Facts.
Import ListNotations.
Open Scope N_scope.

(* ---- the CDW step in stave mode: frame untouched ---- *)
Lemma sstep_cdw s f r ihw tdh ly fr w pc : StS s f r ihw tdh ly fr -> is_data_state f = true -> W_cdw w ->
  cs_start_of_data s = true -> sw_cdw (cs_words s) = pc -> prev_cdw_ok pc -> cdw_follows pc w ->
  exists s', cdp_check stave_cfg s w = Ok (s', []) /\ StS s' (after_data f) r ihw tdh ly fr /\
             cs_start_of_data s' = false /\ sw_cdw (cs_words s') = Some w.
Proof.
  intros (Hf & Hr & Hv & Hi & Ht) Hst [Hw Hid] Hsod Hpc Hpok Hrule.
  assert (Hid9 : nb 9 w = 248) by (rewrite (nb9_id w Hw); exact Hid).
  destruct cdw_not_data_pat as (Q1 & Q2 & Q3 & Q4).
  unfold cdp_check. cbn [cs_fsm set_counter]. rewrite Hf.
  assert (Hadv : advance f w = (after_data f, F_ok P_CDW)).
  { unfold advance, advance_k, data_arm. rewrite Hid9. destruct f; try discriminate; cbn [after_data]; rewrite ?Q1, ?Q2, ?Q3, ?Q4; reflexivity. }
  rewrite Hadv. unfold preprocess_data_word. cbn [cs_start_of_data set_fsm set_counter cs_words]. rewrite Hsod, Hid9.
  change (248 =? Gen.Facts.cdw_id) with true. cbn [andb v_running stave_cfg negb]. rewrite Hpc.
  assert (Hm : match pc with
               | Some p => if negb (cdw_user_fields p =? cdw_user_fields w) && negb (cdw_index w =? 0)
                           then [werr (set_fsm (set_counter s (wrap16 (cs_counter s + 1))) (after_data f)) 81 w] else []
               | None => []
               end = []).
  { destruct pc as [p|]; [|reflexivity]. destruct (Hpok p eq_refl) as [Hpw _].
    rewrite (cdw_user_fields_spec p Hpw), (cdw_user_fields_spec w Hw), (cdw_index_spec w Hw).
    destruct (Hrule p eq_refl) as [E|E]; unfold cdw_f_user, cdw_f_index in E; rewrite E; [rewrite N.eqb_refl|]; cbn [negb andb];
      [reflexivity|rewrite andb_false_r; reflexivity]. }
  rewrite Hm. eexists. split; [reflexivity|]. split; [sts|]. split; reflexivity.
Qed.

Section ItemsSC.
  Context (h : hbf_desc) (r : rdh) (ihw : list N) (ly : layer).
  Context (Hihw : W_ihw ihw) (Horb : r_orbit r = h_orbit h) (Hbc : rdh_bc r = h_bc h) (Htrig : r_trigger_type r = h_trigger h).

  Lemma data_tdt_nc d e : Forall (W_data (ihw_f_lanes ihw)) d -> W_tdt e -> Forall nc (d ++ [e]).
  Proof.
    intros Hd He. apply Forall_app. split.
    - eapply Forall_impl; [|exact Hd]. intros a Ha. eapply nc_data. exact Ha.
    - constructor; [apply nc_tdt; exact He|constructor].
  Qed.

  (* complete-run forms *)
  Lemma spiece_open_full s f tdh x d e : StS s f r (Some ihw) tdh ly (Some x) -> is_data_state f = true ->
    Forall (W_data (ihw_f_lanes ihw)) d -> tdt_ok_done 0 e ->
    forall acc, exists s', cdp_words stave_cfg s (d ++ [e]) acc = Ok (s', acc) /\
      StS s' S_cIHW r (Some ihw) tdh ly (Some {| fr_start := fr_start x; fr_lanes := store_all (lane_words d) (fr_lanes x) |}) /\
      sw_cdw (cs_words s') = sw_cdw (cs_words s).
  Proof.
    intros Hs Hf Hd He acc. destruct (spiece_open r ihw ly Hihw s f tdh x d e Hs Hf Hd He acc []) as (s' & E & S').
    rewrite app_nil_r in E. cbn [cdp_words] in E. exists s'. split; [exact E|]. split; [exact S'|].
    apply (frame_cdw_words stave_cfg (d ++ [e]) s acc s' acc E). apply data_tdt_nc; [exact Hd|apply He].
  Qed.
  Lemma spiece_close_full s f tdh x d e all : StS s f r (Some ihw) tdh ly (Some x) -> is_data_state f = true ->
    Forall (W_data (ihw_f_lanes ihw)) d -> tdt_ok_done 1 e ->
    store_all (lane_words d) (fr_lanes x) = store_all (lane_words all) [] -> packet_stave_ok ly all ->
    forall acc, exists s' m, cdp_words stave_cfg s (d ++ [e]) acc = Ok (s', acc ++ m) /\ quiet m /\
      StS s' S_Choice_ByTdtDone r (Some ihw) tdh ly None /\ sw_cdw (cs_words s') = sw_cdw (cs_words s).
  Proof.
    intros Hs Hf Hd He Hall Hpk acc. destruct (spiece_close r ihw ly Hihw s f tdh x d e all Hs Hf Hd He Hall Hpk acc []) as (s' & m & E & Q & S').
    rewrite app_nil_r in E. cbn [cdp_words] in E. exists s', m. split; [exact E|]. split; [exact Q|]. split; [exact S'|].
    apply (frame_cdw_words stave_cfg (d ++ [e]) s acc s' (acc ++ m) E). apply data_tdt_nc; [exact Hd|apply He].
  Qed.
  Lemma srun_items_full first prev opened items out : items_ok h (ihw_f_lanes ihw) first prev opened items out ->
    forall acc acc' s fr macc, stave_items ly acc items acc' ->
      (prev = None -> opened = None -> r_pages_counter r = 0 -> first = true) ->
      entryS r ihw ly prev opened s fr -> frame_in opened acc fr -> items <> [] ->
      exists s' fr' m, cdp_words stave_cfg s (flat_map item_words items) macc = Ok (s', macc ++ m) /\
                       quiet m /\ leaveS r ihw ly out s' fr' /\ frame_in out acc' fr' /\ sw_cdw (cs_words s') = sw_cdw (cs_words s).
  Proof.
    intros Hit acc acc' s fr macc Hst Hf He Hfr Hne.
    destruct (srun_items h r ihw ly Hihw Horb Hbc Htrig first prev opened items out Hit acc acc' s fr macc [] Hst Hf He Hfr Hne)
      as (s' & fr' & m & E & Q & L & F).
    rewrite app_nil_r in E. cbn [cdp_words] in E. exists s', fr', m. split; [exact E|]. split; [exact Q|]. split; [exact L|]. split; [exact F|].
    apply (frame_cdw_words stave_cfg _ s macc s' (macc ++ m) E). eapply items_nc. exact Hit.
  Qed.

  Lemma entryS_not_data prev opened s fr : entryS r ihw ly prev opened s fr -> is_data_state (cs_fsm s) = false.
  Proof.
    unfold entryS. destruct opened as [o|]; [intros [(Hf & _) _]; rewrite Hf; reflexivity|].
    destruct prev as [p|]; [intros (f & Hc & (Hf & _) & _); rewrite Hf; destruct f; try discriminate Hc; reflexivity|].
    intros (t & (Hf & _)). rewrite Hf. reflexivity.
  Qed.
End ItemsSC.

Section ItemsSC2.
  Context (h : hbf_desc) (r : rdh) (ihw : list N) (ly : layer).
  Context (Hihw : W_ihw ihw) (Horb : r_orbit r = h_orbit h) (Hbc : rdh_bc r = h_bc h) (Htrig : r_trigger_type r = h_trigger h).
  Notation entryS' := (entryS r ihw ly).
  Notation leaveS' := (leaveS r ihw ly).

  Lemma srun_items_c : forall first prev opened items out,
    items_ok h (ihw_f_lanes ihw) first prev opened items out ->
    forall c pc acc acc' s fr macc, stave_items ly acc items acc' ->
      (prev = None -> opened = None -> r_pages_counter r = 0 -> first = true) ->
      entryS' prev opened s fr -> frame_in opened acc fr ->
      existsb item_has_data items = true -> W_cdw c -> prev_cdw_ok pc -> cdw_follows pc c ->
      cs_start_of_data s = true -> Ccd true pc s ->
      exists s' fr' m, cdp_words stave_cfg s (items_words_cdw c items) macc = Ok (s', macc ++ m) /\
                       quiet m /\ leaveS' out s' fr' /\ frame_in out acc' fr' /\ sw_cdw (cs_words s') = Some c.
  Proof.
    intros first prev opened items out H.
    induction H as [first prev
                   |first prev t rr out Ht Hle Hr IH
                   |first prev t d e rr out Ht Hle Hd He Hr IH
                   |first prev t d e Ht Hle Hd He
                   |o t d e Ht Hd He
                   |o t d e rr out Ht Hd He Hr IH]; intros c pc acc acc' s fr macc Hst Hfirst Hen Hfr Hex Hc Hpok Hrule Hsod Hpc.
    - discriminate Hex.
    - (* no-data TDH: the CDW comes later *)
      pose proof (entryS_not_data r ihw ly _ _ _ _ Hen) as Hnd.
      destruct Hfr as [Hfo ->]. inversion Hst as [| ? ? ? Hst' | | | |]; subst.
      destruct (sstart_tdh h r ihw ly Horb Hbc Htrig first prev 1 t s fr (or_intror eq_refl) Ht Hle (fun P => Hfirst P eq_refl) Hen Hfo) as (s1 & x & E1 & S1 & X1).
      destruct (frame_status stave_cfg s t s1 [] Hnd E1) as [F1 F2].
      cbn [items_words_cdw item_has_data item_words app]. rewrite cdp_words_cons, E1, app_nil_r.
      assert (En : entryS' (Some t) None s1 (Some x)) by (cbn [entryS]; exists S_Choice_ByNoDataTrue; split; [reflexivity|split; [exact S1|apply Ht]]).
      cbn [existsb item_has_data orb] in Hex.
      apply (IH c pc [] acc' s1 (Some x) macc Hst'); auto; [intros X; discriminate|split; [exact X1|reflexivity]|rewrite F1; exact Hsod|intros _; rewrite F2; exact (Hpc eq_refl)].
    - (* a whole trigger packet with the CDW *)
      pose proof (entryS_not_data r ihw ly _ _ _ _ Hen) as Hnd.
      destruct Hfr as [Hfo ->]. inversion Hst as [| | ? ? ? ? ? Hpk Hst' | | |]; subst.
      destruct (sstart_tdh h r ihw ly Horb Hbc Htrig first prev 0 t s fr (or_introl eq_refl) Ht Hle (fun P => Hfirst P eq_refl) Hen Hfo) as (s1 & x & E1 & S1 & X1).
      destruct (frame_status stave_cfg s t s1 [] Hnd E1) as [F1 F2].
      destruct (sstep_cdw s1 _ r _ _ ly _ c pc S1 eq_refl Hc ltac:(rewrite F1; exact Hsod) ltac:(rewrite F2; exact (Hpc eq_refl)) Hpok Hrule) as (s2 & E2 & S2 & _ & C2).
      destruct (spiece_close_full r ihw ly Hihw s2 _ _ x d e d S2 eq_refl Hd He ltac:(rewrite X1; reflexivity) Hpk macc) as (s3 & m3 & E3 & Q3 & S3 & C3).
      cbn [items_words_cdw item_has_data item_tdh item_words tl]. rewrite <- app_comm_cons. rewrite cdp_words_cons, E1, app_nil_r.
      rewrite <- app_comm_cons. rewrite cdp_words_cons, E2, app_nil_r. rewrite cdp_words_app, E3.
      assert (En : entryS' (Some t) None s3 None) by (cbn [entryS]; exists S_Choice_ByTdtDone; split; [reflexivity|split; [exact S3|apply Ht]]).
      destruct rr as [|i rr].
      + inversion Hr; subst. apply stave_items_nil in Hst'. subst acc'. cbn [flat_map cdp_words]. exists s3, None, m3. split; [reflexivity|]. split; [exact Q3|].
        split; [cbn [leaveS]; exists S_Choice_ByTdtDone, t; split; [reflexivity|split; [exact S3|apply Ht]]|]. split; [split; [exact Logic.I|reflexivity]|].
        rewrite C3. exact C2.
      + destruct (srun_items_full h r ihw ly Hihw Horb Hbc Htrig false (Some t) None (i :: rr) out Hr [] acc' s3 None (macc ++ m3) Hst'
                    ltac:(intros X; discriminate) En ltac:(split; [exact Logic.I|reflexivity]) ltac:(discriminate)) as (s4 & fr4 & m4 & E4 & Q4 & L4 & F4 & C4).
        rewrite E4. exists s4, fr4, (m3 ++ m4). rewrite app_assoc. split; [reflexivity|]. split; [apply quiet_app; assumption|]. split; [exact L4|]. split; [exact F4|].
        rewrite C4, C3. exact C2.
    - (* a packet left open at the end of the page *)
      pose proof (entryS_not_data r ihw ly _ _ _ _ Hen) as Hnd.
      destruct Hfr as [Hfo ->]. inversion Hst as [| | | ? ? ? ? ? Hst' | |]; subst. apply stave_items_nil in Hst'. subst acc'.
      destruct (sstart_tdh h r ihw ly Horb Hbc Htrig first prev 0 t s fr (or_introl eq_refl) Ht Hle (fun P => Hfirst P eq_refl) Hen Hfo) as (s1 & x & E1 & S1 & X1).
      destruct (frame_status stave_cfg s t s1 [] Hnd E1) as [F1 F2].
      destruct (sstep_cdw s1 _ r _ _ ly _ c pc S1 eq_refl Hc ltac:(rewrite F1; exact Hsod) ltac:(rewrite F2; exact (Hpc eq_refl)) Hpok Hrule) as (s2 & E2 & S2 & _ & C2).
      destruct (spiece_open_full r ihw ly Hihw s2 _ _ x d e S2 eq_refl Hd He macc) as (s3 & E3 & S3 & C3).
      cbn [items_words_cdw item_has_data item_tdh item_words tl flat_map]. rewrite app_nil_r. rewrite cdp_words_cons, E1, app_nil_r.
      rewrite cdp_words_cons, E2, app_nil_r, E3.
      exists s3, (Some {| fr_start := fr_start x; fr_lanes := store_all (lane_words d) (fr_lanes x) |}), [].
      rewrite app_nil_r. split; [reflexivity|]. split; [apply quiet_nil|]. split; [split; [exact S3|apply Ht]|]. split; [|rewrite C3; exact C2].
      cbn [frame_in]. eexists. split; [reflexivity|]. cbn [fr_lanes]. rewrite X1. reflexivity.
    - (* a middle piece *)
      pose proof (entryS_not_data r ihw ly _ _ _ _ Hen) as Hnd.
      destruct Hen as [Hs Ho]. destruct Ht as (Hw & Hcc & Hn & Hb & Hob & Hty). destruct Hfr as (x & -> & Hx).
      inversion Hst as [| | | | ? ? ? ? ? ? Hst' |]; subst. apply stave_items_nil in Hst'. subst acc'.
      destruct (sstep_tdh_cont s r (Some ihw) o ly (Some x) t Hs Hw Ho Hcc Hb Hob Hty) as [s1 [E1 S1]].
      destruct (frame_status stave_cfg s t s1 [] Hnd E1) as [F1 F2].
      destruct (sstep_cdw s1 _ r _ _ ly _ c pc S1 eq_refl Hc ltac:(rewrite F1; exact Hsod) ltac:(rewrite F2; exact (Hpc eq_refl)) Hpok Hrule) as (s2 & E2 & S2 & _ & C2).
      destruct (spiece_open_full r ihw ly Hihw s2 _ _ x d e S2 eq_refl Hd He macc) as (s3 & E3 & S3 & C3).
      cbn [items_words_cdw item_has_data item_tdh item_words tl flat_map]. rewrite app_nil_r. rewrite cdp_words_cons, E1, app_nil_r.
      rewrite cdp_words_cons, E2, app_nil_r, E3.
      exists s3, (Some {| fr_start := fr_start x; fr_lanes := store_all (lane_words d) (fr_lanes x) |}), [].
      rewrite app_nil_r. split; [reflexivity|]. split; [apply quiet_nil|]. split; [split; [exact S3|exact Hw]|]. split; [|rewrite C3; exact C2].
      cbn [frame_in]. eexists. split; [reflexivity|]. cbn [fr_lanes]. rewrite Hx, store_all_app. reflexivity.
    - (* the last piece, possibly followed by further packets *)
      pose proof (entryS_not_data r ihw ly _ _ _ _ Hen) as Hnd.
      destruct Hen as [Hs Ho]. destruct Ht as (Hw & Hcc & Hn & Hb & Hob & Hty). destruct Hfr as (x & -> & Hx).
      inversion Hst as [| | | | | ? ? ? ? ? ? Hpk Hst']; subst.
      destruct (sstep_tdh_cont s r (Some ihw) o ly (Some x) t Hs Hw Ho Hcc Hb Hob Hty) as [s1 [E1 S1]].
      destruct (frame_status stave_cfg s t s1 [] Hnd E1) as [F1 F2].
      destruct (sstep_cdw s1 _ r _ _ ly _ c pc S1 eq_refl Hc ltac:(rewrite F1; exact Hsod) ltac:(rewrite F2; exact (Hpc eq_refl)) Hpok Hrule) as (s2 & E2 & S2 & _ & C2).
      destruct (spiece_close_full r ihw ly Hihw s2 _ _ x d e (acc ++ d) S2 eq_refl Hd He ltac:(rewrite Hx, store_all_app; reflexivity) Hpk macc) as (s3 & m3 & E3 & Q3 & S3 & C3).
      cbn [items_words_cdw item_has_data item_tdh item_words tl]. rewrite <- app_comm_cons. rewrite cdp_words_cons, E1, app_nil_r.
      rewrite <- app_comm_cons. rewrite cdp_words_cons, E2, app_nil_r. rewrite cdp_words_app, E3.
      assert (En : entryS' (Some t) None s3 None) by (cbn [entryS]; exists S_Choice_ByTdtDone; split; [reflexivity|split; [exact S3|exact Hw]]).
      destruct rr as [|i rr].
      + inversion Hr; subst. apply stave_items_nil in Hst'. subst acc'. cbn [flat_map cdp_words]. exists s3, None, m3. split; [reflexivity|]. split; [exact Q3|].
        split; [cbn [leaveS]; exists S_Choice_ByTdtDone, t; split; [reflexivity|split; [exact S3|exact Hw]]|]. split; [split; [exact Logic.I|reflexivity]|].
        rewrite C3. exact C2.
      + destruct (srun_items_full h r ihw ly Hihw Horb Hbc Htrig false (Some t) None (i :: rr) out Hr [] acc' s3 None (macc ++ m3) Hst'
                    ltac:(intros X; discriminate) En ltac:(split; [exact Logic.I|reflexivity]) ltac:(discriminate)) as (s4 & fr4 & m4 & E4 & Q4 & L4 & F4 & C4).
        rewrite E4. exists s4, fr4, (m3 ++ m4). rewrite app_assoc. split; [reflexivity|]. split; [apply quiet_app; assumption|]. split; [exact L4|]. split; [exact F4|].
        rewrite C4, C3. exact C2.
  Qed.
End ItemsSC2.

(* ---- pages ---- *)
Lemma srun_cpage ld h k pg cp ly first opened out acc acc' s pos pc :
  (l_format ld = 0 \/ l_format ld = 2) -> h_bc h < 4096 -> layer_of_feeid (l_fee ld) = Ok ly ->
  W_ihw (ip_ihw (cp_page cp)) -> ip_items (cp_page cp) <> [] -> (ip_pad (cp_page cp) <= 15)%nat ->
  items_ok h (ihw_f_lanes (ip_ihw (cp_page cp))) first None opened (ip_items (cp_page cp)) out ->
  stave_items ly acc (ip_items (cp_page cp)) acc' ->
  (forall c, cp_cdw cp = Some c -> W_cdw c /\ cdw_follows pc c /\ existsb item_has_data (ip_items (cp_page cp)) = true) ->
  prev_cdw_ok pc ->
  pg_payload pg = layout (l_format ld) (cpage_words cp) (ip_pad (cp_page cp)) ->
  (k = 0 -> first = true) -> PEntryS ly opened acc s -> Ccd true pc s ->
  exists s' m, do_payload_checks stave_cfg s (render_rdh ld h k 0 pg) (pg_payload pg) pos = Ok (s', m) /\ quiet m /\
               PExitS ly out acc' s' /\ Ccd true (cdw_after pc cp) s'.
Proof.
  intros Hfmt Hbc Hly Hihw Hne Hpad Hitems Hst Hcdw Hpok Hpl Hk (fr & lyo & Hrfv & Hlyo & Hfin & Hen) Hcd.
  set (ip := cp_page cp) in *. set (r := render_rdh ld h k 0 pg).
  destruct (set_rdh_stave s r pos fr lyo ly Hrfv Hlyo Hly) as (s1 & E1 & F1 & R1 & V1 & W1).
  pose proof (set_rdh_sod s r pos s1 E1) as Sod1.
  destruct (ip_items ip) as [|i items] eqn:Eit; [contradiction|].
  assert (Hgw0 : Forall gw (flat_map item_words (i :: items))) by (eapply items_gw; exact Hitems).
  destruct (items_head_tdh _ _ _ _ _ _ _ _ Hitems) as [Htdh [tl0 Etl0]].
  assert (Horb : r_orbit r = h_orbit h) by reflexivity.
  assert (Hb : rdh_bc r = h_bc h) by (apply rdh_bc_rendered; exact Hbc).
  assert (Htr : r_trigger_type r = h_trigger h) by reflexivity.
  assert (Hstop : r_stop_bit r = 0) by reflexivity.
  assert (Hpc : r_pages_counter r = k) by reflexivity.
  assert (Hihwstep : exists s2, cdp_check stave_cfg s1 (ip_ihw ip) = Ok (s2, []) /\
            entryS r (ip_ihw ip) ly None opened s2 fr /\ cs_start_of_data s2 = true /\ sw_cdw (cs_words s2) = sw_cdw (cs_words s)).
  { destruct opened as [o|].
    - destruct Hen as (Hf & Ht & Ho).
      assert (S1 : StS s1 S_cIHW r (sw_ihw (cs_words s1)) (Some o) ly fr) by (unfold StS; rewrite F1, W1; repeat split; auto).
      destruct (sstep_ihw_cont s1 r _ _ ly fr (ip_ihw ip) S1 Hihw) as [s2 [E2 S2]].
      destruct (frame_status stave_cfg s1 (ip_ihw ip) s2 [] ltac:(rewrite F1, Hf; reflexivity) E2) as [G1 G2].
      exists s2. split; [exact E2|]. split; [split; [exact S2|exact Ho]|]. split; [rewrite G1; exact Sod1|rewrite G2, W1; reflexivity].
    - assert (S1 : StS s1 (cs_fsm s) r (sw_ihw (cs_words s1)) (sw_tdh (cs_words s1)) ly fr) by (unfold StS; repeat split; auto).
      destruct (sstep_ihw s1 _ r _ _ ly fr (ip_ihw ip) S1 Hen Hihw Hstop) as [s2 [E2 S2]].
      destruct (frame_status stave_cfg s1 (ip_ihw ip) s2 []
                  ltac:(rewrite F1; destruct (cs_fsm s); try discriminate Hen; reflexivity) E2) as [G1 G2].
      exists s2. split; [exact E2|]. split; [eexists; exact S2|]. split; [rewrite G1; exact Sod1|rewrite G2, W1; reflexivity]. }
  destruct Hihwstep as (s2 & E2 & En2 & Sod2 & C2).
  assert (Hfirst2 : @None (list N) = None -> opened = None -> r_pages_counter r = 0 -> first = true) by (intros _ _ X; apply Hk; rewrite <- Hpc; exact X).
  unfold cdw_after, cpage_words in *. fold ip in Hpl |- *. rewrite Eit in Hpl. destruct (cp_cdw cp) as [c|] eqn:Ec.
  - destruct (Hcdw c eq_refl) as (Hc & Hrule & Hex).
    destruct (items_words_cdw_head _ _ _ _ _ i items _ c Hitems) as [tl1 Etl1].
    assert (Hgw : Forall gw (ip_ihw ip :: items_words_cdw c (i :: items))).
    { constructor; [apply gw_ihw; exact Hihw|]. apply items_words_cdw_forall; [exact Hgw0|apply gw_cdw; exact Hc]. }
    assert (Hwords : words_of (pg_payload pg) = Some (ip_ihw ip :: items_words_cdw c (i :: items))).
    { rewrite Hpl. apply (layout_words _ _ _ (item_tdh i) tl1); auto. rewrite Etl1. reflexivity. }
    rewrite (c12_packet_words _ _ _ _ _ s1 _ E1 Hwords).
    rewrite cdp_words_cons, E2. cbn [app].
    destruct (srun_items_c h r (ip_ihw ip) ly Hihw Horb Hb Htr first None opened (i :: items) out Hitems c pc acc acc' s2 fr [] Hst
                Hfirst2 En2 Hfin Hex Hc Hpok Hrule Sod2 ltac:(intros _; rewrite C2; exact (Hcd eq_refl))) as (s3 & fr3 & m3 & E3 & Q3 & L3 & F3 & C3).
    rewrite E3. cbn [app]. exists s3, m3. split; [reflexivity|]. split; [exact Q3|]. split; [|intros _; exact C3].
    unfold leaveS in L3. exists fr3. destruct out as [t|].
    + destruct L3 as [(A & B & C & D & E) Wt]. split; [exact C|]. split; [exact F3|]. split; [exact A|]. split; [exact E|exact Wt].
    + destruct L3 as (f & p & Hch & (A & B & C & D & E) & Wp). split; [exact C|]. split; [exact F3|]. rewrite A. exact Hch.
  - assert (Hgw : Forall gw (ip_ihw ip :: flat_map item_words (i :: items))) by (constructor; [apply gw_ihw; exact Hihw|exact Hgw0]).
    assert (Hwords : words_of (pg_payload pg) = Some (ip_ihw ip :: flat_map item_words (i :: items))).
    { rewrite Hpl. apply (layout_words _ _ _ (item_tdh i) (tl0 ++ flat_map item_words items)); auto.
      cbn [flat_map hd]. rewrite Etl0. reflexivity. }
    rewrite (c12_packet_words _ _ _ _ _ s1 _ E1 Hwords).
    rewrite cdp_words_cons, E2. cbn [app].
    destruct (srun_items_full h r (ip_ihw ip) ly Hihw Horb Hb Htr first None opened (i :: items) out Hitems acc acc' s2 fr [] Hst
                Hfirst2 En2 Hfin ltac:(discriminate)) as (s3 & fr3 & m3 & E3 & Q3 & L3 & F3 & C3).
    rewrite E3. cbn [app]. exists s3, m3. split; [reflexivity|]. split; [exact Q3|]. split; [|intros _; rewrite C3, C2; exact (Hcd eq_refl)].
    unfold leaveS in L3. exists fr3. destruct out as [t|].
    + destruct L3 as [(A & B & C & D & E) Wt]. split; [exact C|]. split; [exact F3|]. split; [exact A|]. split; [exact E|exact Wt].
    + destruct L3 as (f & p & Hch & (A & B & C & D & E) & Wp). split; [exact C|]. split; [exact F3|]. rewrite A. exact Hch.
Qed.

(* ---- the link ---- *)
Definition wf_link_stave_cdw (ld : link_desc) (chs : list chbf) (ly : layer) : Prop :=
  wf_link_its_cdw ld chs /\ layer_of_feeid (l_fee ld) = Ok ly /\
  Forall (fun ch => stave_pages ly [] (map cp_page (ch_pages ch))) chs.

Section CdwStaveRun.
  Context (ld : link_desc) (Hwf : wf_link_rdh ld = true) (Hsys : l_system ld = Gen.Facts.its_system_id)
          (Hfmt : l_format ld = 0 \/ l_format ld = 2) (ly : layer) (Hly : layer_of_feeid (l_fee ld) = Ok ly).
  Let layc (p : cpage) : list N := layout (l_format ld) (cpage_words p) (ip_pad (cp_page p)).

  Lemma stave_cdw_data_page h k pg cp first opened out acc acc' s off pc :
    wf_hbf h = true -> latch_ok ld (lk_sanity s) -> PEntryS ly opened acc (lk_cdp s) -> Ccd true pc (lk_cdp s) -> prev_cdw_ok pc ->
    RInv ld h k (lk_running s) -> k + 1 < 65536 ->
    W_ihw (ip_ihw (cp_page cp)) -> ip_items (cp_page cp) <> [] -> (ip_pad (cp_page cp) <= 15)%nat ->
    items_ok h (ihw_f_lanes (ip_ihw (cp_page cp))) first None opened (ip_items (cp_page cp)) out ->
    stave_items ly acc (ip_items (cp_page cp)) acc' ->
    (forall c, cp_cdw cp = Some c -> W_cdw c /\ cdw_follows pc c /\ existsb item_has_data (ip_items (cp_page cp)) = true) ->
    pg_payload pg = layc cp -> (k = 0 -> first = true) ->
    exists s' m, link_step stave_cfg s {| c_rdh := render_rdh ld h k 0 pg; c_payload := pg_payload pg; c_off := off |} = Ok (s', m) /\ quiet m /\
                 latch_ok ld (lk_sanity s') /\ PExitS ly out acc' (lk_cdp s') /\ Ccd true (cdw_after pc cp) (lk_cdp s') /\
                 RInv ld h (k + 1) (lk_running s').
  Proof.
    intros Hh Hl Hp Hcd Hpok Hr Hk Hihw Hne Hpad Hitems Hst Hcdw Hpl Hfirst.
    destruct (sane_rendered ld Hwf (lk_sanity s) h k 0 pg Hl Hh ltac:(lia)) as [S1 S2].
    destruct (rdh_sanity (lk_sanity s) (render_rdh ld h k 0 pg)) as [ss t10] eqn:E10. cbn [fst snd] in S1, S2. subst t10.
    assert (Hpne : pg_payload pg <> []).
    { rewrite Hpl. unfold layc, cpage_words. apply layout_nonempty. destruct Hihw as [[L _] _]. exact L. }
    destruct (srun_cpage ld h k pg cp ly first opened out acc acc' (lk_cdp s) off pc Hfmt (hbf_bc_small ld Hsys Hfmt h Hh) ltac:(cbn; exact Hly)
                Hihw Hne Hpad Hitems Hst Hcdw Hpok Hpl Hfirst Hp Hcd) as (cs & m & Ecs & Qm & Pcs & Ccs).
    destruct (running_data_page ld h k pg (lk_running s) Hr Hk) as [R1 R2].
    destruct (running_check (lk_running s) (render_rdh ld h k 0 pg)) as [rs t11] eqn:E11. cbn [fst snd] in R1, R2. subst t11.
    rewrite (stave_step s _ _ off ss rs E10 E11 Hpne), Ecs.
    eexists. eexists. split; [reflexivity|]. cbn. split; [exact Qm|]. split; [exact S2|]. split; [exact Pcs|]. split; [exact Ccs|exact R2].
  Qed.

  Lemma stave_cdw_stop_page h k pg w pad s off pc :
    wf_hbf h = true -> latch_ok ld (lk_sanity s) -> PExitS ly None [] (lk_cdp s) -> Ccd true pc (lk_cdp s) -> RInv ld h k (lk_running s) -> k <> 0 ->
    W_ddw0 w -> (pad <= 15)%nat -> pg_payload pg = layout (l_format ld) [w] pad ->
    exists s', link_step stave_cfg s {| c_rdh := render_rdh ld h k 1 pg; c_payload := pg_payload pg; c_off := off |} = Ok (s', []) /\
               latch_ok ld (lk_sanity s') /\ PEntryS ly None [] (lk_cdp s') /\ Ccd true pc (lk_cdp s') /\ Between ld (Some h) (lk_running s').
  Proof.
    intros Hh Hl Hp Hcd Hr Hk Hw Hpad Hpl.
    destruct (stave_stop_page ld Hwf Hsys Hfmt ly Hly h k pg w pad s off Hh Hl Hp Hr Hk Hw Hpad Hpl) as (s' & E & L & P & B).
    exists s'. split; [exact E|]. split; [exact L|]. split; [exact P|]. split; [|exact B].
    intros X. rewrite (frame_cdw_link_step _ _ _ _ _ [w] E); [apply Hcd; exact X| |].
    - cbn [c_payload]. rewrite Hpl. apply layout_stop_words; auto.
    - constructor; [|constructor]. destruct Hw as [Hww Hok]. unfold nc. rewrite (nb9_id w Hww). destruct Hok as [-> _]. discriminate.
  Qed.

  Lemma stave_cdw_run_pages h : wf_hbf h = true -> forall first opened pc cps pc', cpages_ok h first opened pc cps pc' -> cps <> [] ->
    forall acc, stave_pages ly acc (map cp_page cps) ->
    forall pages k s ps macc, map strip ps = render_pages ld h k pages -> map pg_payload pages = map layc cps ->
      latch_ok ld (lk_sanity s) -> PEntryS ly opened acc (lk_cdp s) -> Ccd true pc (lk_cdp s) -> prev_cdw_ok pc -> RInv ld h k (lk_running s) ->
      k + N.of_nat (length pages) < 65536 -> (k = 0 -> first = true) ->
      forall rest, exists s' m, link_run stave_cfg s (ps ++ rest) macc = link_run stave_cfg s' rest (macc ++ m) /\ quiet m /\
                                latch_ok ld (lk_sanity s') /\ PExitS ly None [] (lk_cdp s') /\ Ccd true pc' (lk_cdp s') /\ prev_cdw_ok pc' /\
                                RInv ld h (k + N.of_nat (length pages)) (lk_running s').
  Proof.
    intros Hh first opened pc cps pc' Hpo.
    induction Hpo as [first pc|first opened pc p r out pc' Hihw Hne Hpad Hitems Hcdw Hrest IH];
      intros Hnn acc Hsp pages k s ps macc Hm Hpl Hl Hp Hcd Hpok Hr Hk Hfirst rest.
    - contradiction.
    - cbn [map] in Hsp. inversion Hsp as [|? ? acc' ? Hsi Hsp']; subst.
      destruct pages as [|pg pages]; [discriminate Hpl|]. cbn [map] in Hpl. injection Hpl as Hpl1 Hpl2.
      destruct ps as [|q ps]; [discriminate Hm|]. cbn [map render_pages] in Hm. injection Hm as Hq1 Hq2 Hps.
      destruct q as [qr qp off]. cbn [c_rdh c_payload] in Hq1, Hq2. subst qr qp.
      destruct (stave_cdw_data_page h k pg p first opened out acc acc' s off pc Hh Hl Hp Hcd Hpok Hr ltac:(cbn [length] in Hk; lia)
                  Hihw Hne Hpad Hitems Hsi Hcdw Hpl1 Hfirst) as (s1 & m1 & E1 & Q1 & L1 & P1 & C1 & R1).
      assert (Hpok1 : prev_cdw_ok (cdw_after pc p)) by (apply cdw_after_ok; [exact Hpok|intros c Hc; apply (Hcdw c Hc)]).
      cbn [app link_run]. rewrite E1.
      destruct r as [|p2 r].
      + destruct pages; [|discriminate Hpl2]. destruct ps; [|discriminate Hps].
        inversion Hrest; subst. inversion Hsp'; subst. exists s1, m1. cbn [app length]. split; [reflexivity|]. split; [exact Q1|].
        split; [exact L1|]. split; [exact P1|]. split; [exact C1|]. split; [exact Hpok1|]. replace (k + N.of_nat 1) with (k + 1) by lia. exact R1.
      + destruct (IH ltac:(discriminate) acc' Hsp' pages (k + 1) s1 ps (macc ++ m1) Hps Hpl2 L1 (pexits_entry _ _ _ _ P1) C1 Hpok1 R1
                    ltac:(cbn [length] in Hk; lia) ltac:(intros X; lia) rest) as (s2 & m2 & E2 & Q2 & L2 & P2 & C2 & K2 & R2).
        exists s2, (m1 ++ m2). rewrite app_assoc. split; [exact E2|]. split; [apply quiet_app; assumption|]. split; [exact L2|]. split; [exact P2|].
        split; [exact C2|]. split; [exact K2|].
        replace (k + N.of_nat (length (pg :: pages))) with (k + 1 + N.of_nat (length pages)) by (cbn [length]; lia). exact R2.
  Qed.

  Lemma stave_cdw_run_hbf h ch ps s macc prev pc pc' : wf_hbf h = true -> chbf_ok (l_format ld) h pc ch pc' ->
    stave_pages ly [] (map cp_page (ch_pages ch)) ->
    map strip ps = render_hbf ld h -> latch_ok ld (lk_sanity s) -> PEntryS ly None [] (lk_cdp s) -> Ccd true pc (lk_cdp s) -> prev_cdw_ok pc ->
    Between ld prev (lk_running s) -> (forall p, prev = Some p -> h_orbit p <> h_orbit h) ->
    forall rest, exists s' m, link_run stave_cfg s (ps ++ rest) macc = link_run stave_cfg s' rest (macc ++ m) /\ quiet m /\
                              latch_ok ld (lk_sanity s') /\ PEntryS ly None [] (lk_cdp s') /\ Ccd true pc' (lk_cdp s') /\ prev_cdw_ok pc' /\
                              Between ld (Some h) (lk_running s').
  Proof.
    intros Hh (Hpo & Hd & Hspad & Hpls & Hstop) Hsp Hm Hl Hp Hcd Hpok Hb Ho rest. unfold render_hbf in Hm.
    assert (Hsplit : exists ps1 p2, ps = ps1 ++ [p2] /\ map strip ps1 = render_pages ld h 0 (h_pages h) /\
                                    strip p2 = (render_rdh ld h (N.of_nat (length (h_pages h))) 1 (h_stop h), pg_payload (h_stop h))).
    { destruct (exists_last (l := ps)) as [ps1 [p2 E]]; [intros ->; destruct (render_pages ld h 0 (h_pages h)); discriminate|].
      subst ps. rewrite map_app in Hm. apply app_inj_tail in Hm. destruct Hm as [H1 H2]. exists ps1, p2. auto. }
    destruct Hsplit as [ps1 [p2 [-> [H1 H2]]]].
    pose proof Hh as Hh'. unfold wf_hbf in Hh'. repeat (apply andb_true_iff in Hh'; destruct Hh' as [Hh' ?]).
    match goal with H : (N.of_nat (length (h_pages h)) <? 65535) = true |- _ => apply N.ltb_lt in H; rename H into Hn end.
    match goal with H : negb ?x = true |- _ => lazymatch x with context [h_pages] => rename H into Hne end end.
    assert (Hipsne : ch_pages ch <> []).
    { intros E. rewrite E in Hpls. destruct (h_pages h); [discriminate Hne|discriminate Hpls]. }
    rewrite <- app_assoc.
    destruct (stave_cdw_run_pages h Hh true None pc (ch_pages ch) pc' Hpo Hipsne [] Hsp (h_pages h) 0 s ps1 macc H1 Hpls Hl Hp Hcd Hpok
                (between_inv ld prev _ h Hb Ho) ltac:(lia) ltac:(reflexivity) ([p2] ++ rest)) as (s1 & m1 & E1 & Q1 & L1 & P1 & C1 & K1 & R1).
    rewrite E1. destruct p2 as [r pl off]. unfold strip in H2. cbn [c_rdh c_payload] in H2. injection H2 as -> ->.
    assert (Hk : 0 + N.of_nat (length (h_pages h)) <> 0) by (destruct (h_pages h); [discriminate Hne|cbn [length]; lia]).
    destruct (stave_cdw_stop_page h _ (h_stop h) (ch_ddw0 ch) (ch_stop_pad ch) s1 off pc' Hh L1 P1 C1 R1 Hk Hd Hspad Hstop) as (s2 & E2 & L2 & P2 & C2 & R2).
    cbn [app link_run]. rewrite N.add_0_l in E2. rewrite E2, app_nil_r. exists s2, m1. auto 10.
  Qed.

  Lemma stave_cdw_run_hbfs : forall pc hbfs chs, chbfs_ok (l_format ld) pc hbfs chs ->
    Forall (fun ch => stave_pages ly [] (map cp_page (ch_pages ch))) chs ->
    forall ps s macc prev, forallb wf_hbf hbfs = true ->
    orbits_differ (match prev with Some p => p :: hbfs | None => hbfs end) = true ->
    map strip ps = flat_map (render_hbf ld) hbfs -> latch_ok ld (lk_sanity s) -> PEntryS ly None [] (lk_cdp s) ->
    Ccd true pc (lk_cdp s) -> prev_cdw_ok pc -> Between ld prev (lk_running s) ->
    exists s' m, link_run stave_cfg s ps macc = Ok (s', macc ++ m) /\ quiet m.
  Proof.
    induction 1 as [pc|pc h ch pc' hbfs chs Hok Hrest IH]; intros Hsps ps s macc prev Hw Ho Hm Hl Hp Hcd Hpok Hb.
    - destruct ps; [|discriminate]. exists s, []. rewrite app_nil_r. split; [reflexivity|apply quiet_nil].
    - inversion Hsps as [|? ? Hsp Hsps']; subst.
      cbn [forallb] in Hw. apply andb_true_iff in Hw. destruct Hw as [Hh Hw]. cbn [flat_map] in Hm.
      assert (Hsplit : exists ps1 ps2, ps = ps1 ++ ps2 /\ map strip ps1 = render_hbf ld h /\ map strip ps2 = flat_map (render_hbf ld) hbfs).
      { exists (firstn (length (render_hbf ld h)) ps), (skipn (length (render_hbf ld h)) ps). split; [symmetry; apply firstn_skipn|].
        rewrite <- firstn_map, <- skipn_map, Hm. split; [apply firstn_app_exact|apply skipn_app_exact]. }
      destruct Hsplit as [ps1 [ps2 [-> [H1 H2]]]].
      assert (Hoh : forall p, prev = Some p -> h_orbit p <> h_orbit h).
      { intros p ->. cbn in Ho. apply andb_true_iff in Ho. destruct Ho as [Ho _]. apply negb_true_iff in Ho. apply N.eqb_neq. exact Ho. }
      destruct (stave_cdw_run_hbf h ch ps1 s macc prev pc pc' Hh Hok Hsp H1 Hl Hp Hcd Hpok Hb Hoh ps2) as (s1 & m1 & E1 & Q1 & L1 & P1 & C1 & K1 & B1). rewrite E1.
      destruct (IH Hsps' ps2 s1 (macc ++ m1) (Some h) Hw) as (s2 & m2 & E2 & Q2); auto.
      { destruct prev as [p|]; cbn in Ho |- *; [apply andb_true_iff in Ho; destruct Ho as [_ Ho]; exact Ho|exact Ho]. }
      exists s2, (m1 ++ m2). rewrite app_assoc. split; [exact E2|apply quiet_app; assumption].
  Qed.
End CdwStaveRun.

(* the stave tier of C01 for calibration runs *)
Theorem c01_stave_cdw_link ld chs ly ps : wf_link_stave_cdw ld chs ly -> map strip ps = render_link ld ->
  exists m, run_validator stave_cfg ps = Ok m /\ quiet m.
Proof.
  intros ((Hwf & Hsys & Hfmt & Hall) & Hly & Hsp) Hm. unfold run_validator.
  pose proof (wf_parts ld Hwf) as (_ & _ & _ & _ & _ & _ & _ & _ & Hh & Ho).
  destruct (stave_cdw_run_hbfs ld Hwf Hsys Hfmt ly Hly None (l_hbfs ld) chs Hall Hsp ps (link_init stave_cfg) [] None Hh Ho Hm) as (s' & m & E & Q).
  - unfold latch_ok, link_init, stave_cfg, sanity_init. cbn. split; [left; reflexivity|right; rewrite Hsys; reflexivity].
  - exists None, None. cbn. split; [reflexivity|]. split; [left; reflexivity|]. split; [split; [exact Logic.I|reflexivity]|reflexivity].
  - intros _. reflexivity.
  - intros p X; discriminate.
  - reflexivity.
  - rewrite E. exists m. split; [reflexivity|exact Q].
Qed.

(* ---- the membership test of the stave tier for calibration runs is sound ---- *)
From FP Require Import Spec.GrammarItsCdwCheck Spec.GrammarStaveCheck Spec.GrammarStaveCdwCheck Proofs.C01_cdw_check Proofs.C01_stave_check.
Theorem stave_witness_cdw_sound ld chs ly : stave_witness_cdw ld = Some (chs, ly) -> wf_link_stave_cdw ld chs ly.
Proof.
  unfold stave_witness_cdw. intros H.
  destruct (link_witness_cdw ld) as [chs0|] eqn:E; [|discriminate].
  destruct (layer_of_feeid (l_fee ld)) as [ly0|] eqn:L; [|discriminate].
  destruct (forallb _ chs0) eqn:F; [|discriminate]. injection H as <- <-.
  split; [apply link_witness_cdw_sound; exact E|]. split; [exact L|].
  apply Forall_forall. intros ch Hin. rewrite forallb_forall in F. apply stave_pagesb_ok. apply F. exact Hin.
Qed.

(* ---- non-vacuity: the inner-barrel example link of the stave tier with a CDW on each data page ---- *)
Module ExampleSC.
  Import Proofs.C01_its.Example Proofs.C01_stave.ExampleS Proofs.C01_cdw_check.ExampleC.
  Definition chS (o : N) : chbf :=
    {| ch_pages := [cp (pageA o) (Some (cdw 7 5)); cp (pageB o) (Some (cdw 8 0))]; ch_ddw0 := ddw0; ch_stop_pad := 6 |}.
  Definition hbSC (o : N) : hbf_desc :=
    {| h_orbit := o; h_bc := 5; h_trigger := 27139; h_detfield := 0; h_pages := map pgc (ch_pages (chS o));
       h_stop := {| pg_counter := 0; pg_par := 0; pg_payload := layout 2 [ddw0] 6 |} |}.
  Definition ldSC : link_desc :=
    {| l_link := 3; l_fee := l_fee ldS; l_version := 7; l_system := 32; l_format := 2; l_cru := 24; l_dw := 0; l_hbfs := [hbSC 10] |}.
  Lemma accepted : stave_witness_cdw ldSC = Some ([chS 10], L_Inner).
  Proof. vm_compute. reflexivity. Qed.
  Lemma example_wf : wf_link_stave_cdw ldSC [chS 10] L_Inner /\ length (render_link ldSC) = 3%nat.
  Proof. split; [apply stave_witness_cdw_sound; exact accepted|reflexivity]. Qed.
End ExampleSC.
