(* Soundness of the executable grammar membership test: what it accepts is in the word-level grammar. *)
From Coq Require Import List NArith Bool Arith Lia.
From FP Require Import Model.Base Model.Rdh Model.Payload Spec.WordLayout Spec.Grammar Spec.GrammarIts Spec.GrammarItsCheck Proofs.Bits.
From FP Require Gen.Facts.
Import ListNotations.
Open Scope N_scope.

Lemma list_eqb_eq a : forall b, list_eqb a b = true -> a = b.
Proof.
  induction a as [|x a IH]; intros [|y b] H; cbn in H; try discriminate; [reflexivity|].
  apply andb_true_iff in H. destruct H as [H1 H2]. apply N.eqb_eq in H1. subst. f_equal. apply IH. exact H2.
Qed.

Lemma word_okb_ok w : word_okb w = true -> word_ok w.
Proof.
  unfold word_okb. intros H. apply andb_true_iff in H. destruct H as [H1 H2]. split; [apply Nat.eqb_eq; exact H1|].
  apply Forall_forall. intros x Hx. pose proof (proj1 (forallb_forall _ _) H2 x Hx) as Hb. unfold byte_okb in Hb. unfold byte_ok.
  apply N.ltb_lt. exact Hb.
Qed.

Ltac bsplit H := repeat match goal with X : (_ && _) = true |- _ => apply andb_true_iff in X; destruct X end.
Ltac eqs := repeat match goal with H : (_ =? _) = true |- _ => apply N.eqb_eq in H end.

Lemma b_ihw_ok w : b_ihw w = true -> W_ihw w.
Proof.
  unfold b_ihw, ihw_okb. intros H. bsplit H. eqs. split; [apply word_okb_ok; assumption|]. split; assumption.
Qed.
Lemma b_tdh_ok w : b_tdh w = true -> W_tdh w.
Proof.
  unfold b_tdh, tdh_okb. intros H. bsplit H. split; [apply word_okb_ok; assumption|].
  match goal with X : negb _ = true |- _ => apply negb_true_iff in X; rename X into Hn end. eqs.
  split; [assumption|]. split; [repeat split; assumption|].
  intros [A B]. rewrite A, B in Hn. discriminate.
Qed.
Lemma b_tdt_ok w : b_tdt w = true -> W_tdt w.
Proof.
  unfold b_tdt, tdt_okb. intros H. bsplit H. eqs. split; [apply word_okb_ok; assumption|]. split; [assumption|repeat split; assumption].
Qed.
Lemma b_ddw0_ok w : b_ddw0 w = true -> W_ddw0 w.
Proof.
  unfold b_ddw0, ddw0_okb. intros H. bsplit H. eqs. split; [apply word_okb_ok; assumption|].
  split; [assumption|]. split; [repeat split; assumption|assumption].
Qed.
Lemma b_data_ok lanes w : b_data lanes w = true -> W_data lanes w.
Proof.
  unfold b_data. intros H. apply andb_true_iff in H. destruct H as [H1 H2]. split; [apply word_okb_ok; exact H1|].
  destruct (data_word_verdict true (id_of w) lanes); [reflexivity|discriminate].
Qed.
Lemma forallb_data lanes d : forallb (b_data lanes) d = true -> Forall (W_data lanes) d.
Proof.
  intros H. apply Forall_forall. intros x Hx. apply b_data_ok. exact (proj1 (forallb_forall _ _) H x Hx).
Qed.

Lemma start_okb_ok h first nd t : start_okb h first nd t = true -> tdh_start_ok h first nd t.
Proof.
  unfold start_okb. intros H. bsplit H. eqs. unfold tdh_start_ok.
  split; [apply b_tdh_ok; assumption|]. repeat (split; [assumption|]).
  intros Hf Hc. match goal with X : implb _ _ = true |- _ => rename X into Hi end.
  assert (Hp : first && ((tdh_f_internal t =? 1) || N.testbit (h_trigger h) 4) = true).
  { rewrite Hf. cbn. destruct Hc as [Hc|Hc]; [apply N.eqb_eq in Hc; rewrite Hc; reflexivity|rewrite Hc; apply orb_true_r]. }
  rewrite Hp in Hi. cbn in Hi. apply andb_true_iff in Hi. destruct Hi as [A B]. eqs. split; assumption.
Qed.
Lemma cont_okb_ok prev t : cont_okb prev t = true -> tdh_cont_ok prev t.
Proof.
  unfold cont_okb. intros H. bsplit H. eqs. unfold tdh_cont_ok. split; [apply b_tdh_ok; assumption|]. repeat split; assumption.
Qed.
Lemma le_prevb_ok prev t : le_prevb prev t = true -> forall p, prev = Some p -> tdh_f_bc p <= tdh_f_bc t.
Proof. intros H p ->. cbn in H. apply N.leb_le. exact H. Qed.
Lemma tdt_doneb_ok d e : tdt_doneb d e = true -> tdt_ok_done d e.
Proof. unfold tdt_doneb. intros H. bsplit H. eqs. split; [apply b_tdt_ok; assumption|assumption]. Qed.

Lemma items_okb_ok h lanes : forall items first prev opened out,
  items_okb h lanes first prev opened items = Some out -> items_ok h lanes first prev opened items out.
Proof.
  induction items as [|i items IH]; intros first prev opened out H.
  - cbn in H. destruct opened; [discriminate|]. injection H as <-. constructor.
  - destruct i as [t|t d e|t d e|t d e|t d e]; cbn [items_okb] in H.
    + destruct opened; [discriminate|].
      destruct (start_okb h first 1 t && le_prevb prev t) eqn:C; [|discriminate]. bsplit C.
      apply IO_nodata; [apply start_okb_ok; assumption|apply le_prevb_ok; assumption|apply IH; exact H].
    + destruct opened; [discriminate|].
      destruct (start_okb h first 0 t && le_prevb prev t && forallb (b_data lanes) d && tdt_doneb 1 e) eqn:C; [|discriminate]. bsplit C.
      apply IO_frame; [apply start_okb_ok; assumption|apply le_prevb_ok; assumption|apply forallb_data; assumption
                      |apply tdt_doneb_ok; assumption|apply IH; exact H].
    + destruct items; [|destruct opened; discriminate]. destruct opened; [discriminate|].
      destruct (start_okb h first 0 t && le_prevb prev t && forallb (b_data lanes) d && tdt_doneb 0 e) eqn:C; [|discriminate]. bsplit C.
      injection H as <-.
      apply IO_open; [apply start_okb_ok; assumption|apply le_prevb_ok; assumption|apply forallb_data; assumption|apply tdt_doneb_ok; assumption].
    + destruct items; [|destruct opened; discriminate]. destruct opened as [o|]; [|discriminate].
      destruct (negb first && is_none prev && cont_okb o t && forallb (b_data lanes) d && tdt_doneb 0 e) eqn:C; [|discriminate]. bsplit C.
      injection H as <-. destruct first; [discriminate|]. destruct prev; [discriminate|].
      apply IO_cont; [apply cont_okb_ok; assumption|apply forallb_data; assumption|apply tdt_doneb_ok; assumption].
    + destruct opened as [o|]; [|discriminate].
      destruct (negb first && is_none prev && cont_okb o t && forallb (b_data lanes) d && tdt_doneb 1 e) eqn:C; [|discriminate]. bsplit C.
      destruct first; [discriminate|]. destruct prev; [discriminate|].
      apply IO_close; [apply cont_okb_ok; assumption|apply forallb_data; assumption|apply tdt_doneb_ok; assumption|apply IH; exact H].
Qed.

Lemma take_data_split ws : forall d e r, take_data ws = (d, Some (e, r)) -> ws = d ++ e :: r.
Proof.
  induction ws as [|w ws IH]; intros d e r H; cbn in H; [discriminate|].
  destruct (id_of w =? TDT_ID).
  - injection H as <- <- <-. reflexivity.
  - destruct (take_data ws) as [d' x] eqn:E. injection H as Hd Hx. subst d x. cbn. f_equal. apply IH. reflexivity.
Qed.

Lemma parse_items_words fuel : forall ws items, parse_items fuel ws = Some items -> flat_map item_words items = ws.
Proof.
  induction fuel as [|f IH]; intros ws items H; destruct ws as [|t r]; cbn in H; try discriminate.
  - injection H as <-. reflexivity.
  - injection H as <-. reflexivity.
  - destruct (tdh_f_nodata t =? 1).
    + destruct (parse_items f r) as [its|] eqn:E; [|discriminate]. injection H as <-. cbn. f_equal. apply IH. exact E.
    + destruct (take_data r) as [d [[e r']|]] eqn:Et; [|discriminate].
      destruct (parse_items f r') as [its|] eqn:E; [|discriminate]. injection H as <-.
      rewrite (take_data_split r d e r' Et). cbn [flat_map]. rewrite (IH r' its E).
      destruct (tdh_f_cont t =? 1), (tdt_f_done e =? 1); cbn [item_words app]; rewrite <- ?app_assoc; reflexivity.
Qed.

Lemma page_witness_ok fmt h first opened pg ip out : page_witness fmt h first opened pg = Some (ip, out) ->
  W_ihw (ip_ihw ip) /\ ip_items ip <> [] /\ (ip_pad ip <= 15)%nat /\
  items_ok h (ihw_f_lanes (ip_ihw ip)) first None opened (ip_items ip) out /\
  pg_payload pg = layout fmt (page_words ip) (ip_pad ip).
Proof.
  unfold page_witness. intros H.
  destruct (words_of (pg_payload pg)) as [[|i ws]|]; try discriminate.
  destruct (parse_items (length ws) ws) as [items|] eqn:Ep; [|discriminate].
  match type of H with (if ?c then _ else _) = _ => destruct c eqn:C; [|discriminate] end.
  destruct (items_okb h (ihw_f_lanes i) first None opened items) as [o|] eqn:Eo; [|discriminate].
  injection H as <- <-. cbn [ip_ihw ip_items ip_pad]. bsplit C.
  split; [apply b_ihw_ok; assumption|]. split.
  { intros E. subst items. discriminate. }
  split; [apply Nat.leb_le; assumption|]. split; [apply items_okb_ok; exact Eo|].
  symmetry. apply list_eqb_eq. assumption.
Qed.

Lemma pages_witness_ok fmt h : forall pages first opened ips, pages_witness fmt h first opened pages = Some ips ->
  pages_ok h first opened ips /\ map pg_payload pages = map (fun p => layout fmt (page_words p) (ip_pad p)) ips.
Proof.
  induction pages as [|pg pages IH]; intros first opened ips H; cbn in H.
  - destruct opened; [discriminate|]. injection H as <-. split; [constructor|reflexivity].
  - destruct (page_witness fmt h first opened pg) as [[ip out]|] eqn:Ep; [|discriminate].
    destruct (pages_witness fmt h false out pages) as [ips'|] eqn:Er; [|discriminate]. injection H as <-.
    destruct (page_witness_ok _ _ _ _ _ _ _ Ep) as (A & B & C & D & E). destruct (IH _ _ _ Er) as [F G].
    split; [eapply PO_page; eauto|]. cbn [map]. rewrite E, G. reflexivity.
Qed.

Lemma hbf_witness_ok fmt h ih : hbf_witness fmt h = Some ih -> its_hbf_ok fmt h ih.
Proof.
  unfold hbf_witness. intros H.
  destruct (pages_witness fmt h true None (h_pages h)) as [ips|] eqn:Ep; [|discriminate].
  destruct (words_of (pg_payload (h_stop h))) as [[|w [|? ?]]|]; try discriminate.
  match type of H with (if ?c then _ else _) = _ => destruct c eqn:C; [|discriminate] end.
  injection H as <-. bsplit C. destruct (pages_witness_ok _ _ _ _ _ _ Ep) as [A B].
  unfold its_hbf_ok. cbn [ih_pages ih_ddw0 ih_stop_pad].
  split; [exact A|]. split; [apply b_ddw0_ok; assumption|]. split; [apply Nat.leb_le; assumption|]. split; [exact B|].
  symmetry. apply list_eqb_eq. assumption.
Qed.

Lemma all_some_forall2 {A B} (f : A -> option B) (P : A -> B -> Prop) :
  (forall a b, f a = Some b -> P a b) -> forall l r, all_some f l = Some r -> Forall2 P l r.
Proof.
  intros Hf. induction l as [|x l IH]; intros r H; cbn in H.
  - injection H as <-. constructor.
  - destruct (f x) as [y|] eqn:E; [|discriminate]. destruct (all_some f l) as [ys|] eqn:E2; [|discriminate]. injection H as <-.
    constructor; [apply Hf; exact E|apply IH; reflexivity].
Qed.

(* whatever the membership test accepts is a link of the word-level grammar *)
Theorem link_witness_sound ld ihs : link_witness ld = Some ihs -> wf_link_its ld ihs.
Proof.
  unfold link_witness. intros H.
  match type of H with (if ?c then _ else _) = _ => destruct c eqn:C; [|discriminate] end.
  bsplit C. unfold wf_link_its. split; [assumption|]. split; [apply N.eqb_eq; assumption|]. split.
  - match goal with X : (_ || _) = true |- _ => apply orb_true_iff in X; destruct X as [X|X]; apply N.eqb_eq in X; [left|right]; exact X end.
  - eapply all_some_forall2; [|exact H]. intros a b. apply hbf_witness_ok.
Qed.
