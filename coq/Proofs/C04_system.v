(* C04 for the whole `check` run (scanner + dispatcher + every validator + collector): for EVERY input and configuration the run
   ends in one of the four outcomes, and `a validator panics` only at the invalid-layer site, only when a scanned packet names
   layer 7 (recorded finding F6). *)
From Coq Require Import List NArith Bool Lia.
Import ListNotations.
From FP Require Import Model.Base Model.Rdh Model.Alpide Model.CdpRunning Model.Scanner Model.Link Model.Collector Model.System.
From FP Require Import Proofs.C06_proofs Proofs.C04_stave.
Open Scope N_scope.

Definition gather (per_id : list (N * result (list vmsg))) : result (list cstat) :=
  fold_right (fun idr acc => match acc, snd idr with
                             | Panic p, _ => Panic p
                             | Ok l, Ok ms => Ok (map vmsg_to_cstat ms ++ l)
                             | Ok _, Panic p => Panic p
                             end) (Ok []) per_id.

Lemma gather_panic per_id p : gather per_id = Panic p -> exists id, In (id, Panic p) per_id.
Proof.
  induction per_id as [|[id r] l IH]; cbn; [discriminate|]. fold (gather l).
  destruct (gather l) as [x|q] eqn:E.
  - destruct r as [ms|q]; [discriminate|]. intros X. injection X as <-. exists id. left. reflexivity.
  - intros X. injection X as <-. destruct (IH eq_refl) as [i Hi]. exists i. right. exact Hi.
Qed.

Section Handled.
Context (H : sites_handled).

Theorem c04_run_check_panic ff c input p : run_check ff c input = R_panic p ->
  p = SITE_stave_from_feeid /\
  exists q, In q (concat (so_batches (scan_impl (rc_scan c) input))) /\ 6 < layer_from_feeid (r_fee_id (c_rdh q)).
Proof.
  unfold run_check. destruct (Nat.ltb _ _); [discriminate|]. destruct (negb _); [discriminate|]. cbv zeta.
  fold (gather (run_dispatch (rc_check c) (concat (so_batches (scan_impl (rc_scan c) input))))).
  destruct (gather _) as [v|q] eqn:E; [discriminate|]. intros X. injection X as <-.
  destruct (gather_panic _ _ E) as [id Hin]. apply c06_result_unique in Hin. destruct Hin as [Hr _].
  destruct (c04_only_layer_site H (rc_check c) (sel (rc_check c) id (concat (so_batches (scan_impl (rc_scan c) input))))) as [[m Em]|[Ep [x [Hx Hl]]]].
  - rewrite Em in Hr. discriminate.
  - rewrite Ep in Hr. injection Hr as ->. split; [reflexivity|]. exists x. split; [|exact Hl].
    unfold sel in Hx. apply filter_In in Hx. apply Hx.
Qed.

(* no scanned packet names layer 7: the run is too short, unrecognised, or done with an exit status in {0, 1, configured} *)
Corollary c04_run_check_total ff c input :
  (forall q, In q (concat (so_batches (scan_impl (rc_scan c) input))) -> layer_from_feeid (r_fee_id (c_rdh q)) <= 6) ->
  run_check ff c input = R_too_short \/ run_check ff c input = R_unrecognised \/
  exists s shown e, run_check ff c input = R_done s shown e /\ (e = 0 \/ e = 1 \/ rc_exit c = Some e).
Proof.
  intros Hl. destruct (run_check ff c input) as [| |p|s shown e] eqn:E; [auto|auto| |].
  - destruct (c04_run_check_panic ff c input p E) as [_ [q [Hq G]]]. specialize (Hl q Hq). lia.
  - right. right. exists s, shown, e. split; [reflexivity|].
    unfold run_check in E. destruct (Nat.ltb _ _); [discriminate|]. destruct (negb _); [discriminate|]. cbv zeta in E.
    destruct (fold_right _ _ _); [|discriminate].
    match type of E with R_done _ _ (exit_code ?a ?r ?f) = _ =>
      pose proof (Proofs.C04_proofs.c04_exit_range a r f) as X; set (ec := exit_code a r f) in * end.
    injection E as _ _ <-. destruct X as [X|[X|[n [Hn X]]]]; auto. right. right. rewrite Hn, X. reflexivity.
Qed.
End Handled.
