(* C20: user-configured checks are enforced exactly. *)
From Coq Require Import List NArith Bool Lia Arith.
Import ListNotations.
Require Import FP.Model.Base FP.Model.ItsWords FP.Model.Rdh FP.Model.RdhChecks FP.Model.Alpide FP.Model.CdpRunning FP.Model.Collector.
Require Import FP.Proofs.C13_frame.
From FP Require Gen.Facts.
Open Scope N_scope.

(* ---- statistics counts: [E9001] / [E9002] ---- *)
Definition has_code (c : N) (l : list emsg) : Prop := exists m, In m l /\ m_codes m = [c].

Lemma has_code_app c l1 l2 : has_code c (l1 ++ l2) <-> has_code c l1 \/ has_code c l2.
Proof.
  unfold has_code. split.
  - intros [m [H E]]. apply in_app_iff in H. destruct H; [left|right]; exists m; auto.
  - intros [[m [H E]]|[m [H E]]]; exists m; rewrite in_app_iff; auto.
Qed.
Lemma has_code_nil c : ~ has_code c [].
Proof. intros [m [[] _]]. Qed.
Lemma has_code_one c m : has_code c [m] <-> m_codes m = [c].
Proof. unfold has_code. split; [intros [x [[<-|[]] E]]; exact E|]. intros E. exists m. split; [left; reflexivity|exact E]. Qed.

Lemma c20_cdps cc s : has_code 9001 (custom_errors cc s) <-> exists n, cc_cdps cc = Some n /\ counter s IDX_SEEN <> n.
Proof.
  unfold custom_errors. rewrite has_code_app.
  assert (B : ~ has_code 9001 (match cc_pht cc with
     | Some n => if counter s IDX_PHT =? n then [] else [{| m_off := 0; m_codes := [9002]; m_body := 9002; m_fee := None |}]
     | None => [] end)).
  { destruct (cc_pht cc) as [k|]; [destruct (counter s IDX_PHT =? k)|]; try apply has_code_nil. rewrite has_code_one. cbn. discriminate. }
  destruct (cc_cdps cc) as [n|].
  - destruct (N.eqb_spec (counter s IDX_SEEN) n) as [E|E].
    + split; [intros [H|H]; [exfalso; exact (has_code_nil _ H)|contradiction]|]. intros [n0 [X Y]]. injection X as <-. contradiction.
    + split; [intros _; exists n; auto|]. intros _. left. apply has_code_one. reflexivity.
  - split; [intros [H|H]; [exfalso; exact (has_code_nil _ H)|contradiction]|]. intros [n0 [X _]]. discriminate.
Qed.

Lemma c20_pht cc s : has_code 9002 (custom_errors cc s) <-> exists n, cc_pht cc = Some n /\ counter s IDX_PHT <> n.
Proof.
  unfold custom_errors. rewrite has_code_app.
  assert (A : ~ has_code 9002 (match cc_cdps cc with
     | Some n => if counter s IDX_SEEN =? n then [] else [{| m_off := 0; m_codes := [9001]; m_body := 9001; m_fee := None |}]
     | None => [] end)).
  { destruct (cc_cdps cc) as [k|]; [destruct (counter s IDX_SEEN =? k)|]; try apply has_code_nil. rewrite has_code_one. cbn. discriminate. }
  destruct (cc_pht cc) as [n|].
  - destruct (N.eqb_spec (counter s IDX_PHT) n) as [E|E].
    + split; [intros [H|H]; [contradiction|exfalso; exact (has_code_nil _ H)]|]. intros [n0 [X Y]]. injection X as <-. contradiction.
    + split; [intros _; exists n; auto|]. intros _. right. apply has_code_one. reflexivity.
  - split; [intros [H|H]; [contradiction|exfalso; exact (has_code_nil _ H)]|]. intros [n0 [X _]]. discriminate.
Qed.

Lemma c20_counts_default s : custom_errors {| cc_cdps := None; cc_pht := None |} s = [].
Proof. reflexivity. Qed.

Lemma c20_no_custom_errors_keeps_state s : add_custom s [] = {| k_counters := k_counters s; k_links := k_links s; k_fees := k_fees s;
  k_layer_staves := k_layer_staves s; k_version := k_version s; k_format := k_format s; k_sysid := k_sysid s; k_run_trigger := k_run_trigger s;
  k_set_twice := k_set_twice s; k_errors := k_errors s; k_fatal := k_fatal s; k_custom := k_custom s; k_total := k_total s;
  k_unique := k_unique s; k_staves_err := k_staves_err s; k_finalized := k_finalized s |}.
Proof. unfold add_custom, upd_errs. cbn. rewrite app_nil_r, N.add_0_r. reflexivity. Qed.

(* ---- RDH version ---- *)
Lemma tagif_in c t u : In u (tagif c t) <-> c = true /\ u = t.
Proof. unfold tagif. destruct c; cbn; intuition congruence. Qed.

Lemma header_id_tag st r : In T_header_id (snd (rdh_sanity st r)) <->
  r_header_id r <> match ss_header_id st with Some h => h | None => r_header_id r end.
Proof.
  unfold rdh_sanity, rdh0_check. cbn [snd]. unfold fee_id_tags, rdh1_tags, rdh2_tags, rdh3_tags.
  rewrite <- !app_assoc. rewrite in_app_iff, tagif_in, negb_true_iff, N.eqb_neq.
  split.
  - intros [[H _]|H]; [exact H|exfalso].
    repeat (apply in_app_iff in H; destruct H as [H|H]);
      try (apply tagif_in in H; destruct H as [_ H]; discriminate H).
    all: destruct (ss_system_id st); [apply tagif_in in H; destruct H as [_ H]; discriminate H|destruct H].
  - intros H. left. split; [exact H|reflexivity].
Qed.

Lemma sanity_latch st r v : ss_header_id st = Some v -> ss_header_id (fst (rdh_sanity st r)) = Some v.
Proof. intros H. unfold rdh_sanity, rdh0_check. cbn. rewrite H. reflexivity. Qed.

(* with a configured version v, each RDH of the run is flagged on its header id iff its version differs from v -- for every RDH sequence *)
Fixpoint sanity_run (st : sanity_state) (rs : list rdh) : list (list rtag) :=
  match rs with
  | [] => []
  | r :: rest => snd (rdh_sanity st r) :: sanity_run (fst (rdh_sanity st r)) rest
  end.
Lemma c20_version v its rs : Forall2 (fun r tags => In T_header_id tags <-> r_header_id r <> v) rs (sanity_run (sanity_init (Some v) its) rs).
Proof.
  assert (G : forall st, ss_header_id st = Some v -> Forall2 (fun r tags => In T_header_id tags <-> r_header_id r <> v) rs (sanity_run st rs)).
  { induction rs as [|r rs IH]; intros st Hst; cbn [sanity_run]; constructor.
    - rewrite header_id_tag, Hst. reflexivity.
    - apply IH. apply sanity_latch. exact Hst. }
  apply G. reflexivity.
Qed.
(* without one, the version of the first RDH is the reference *)
Lemma c20_version_default its r rs : Forall2 (fun x tags => In T_header_id tags <-> r_header_id x <> r_header_id r) (r :: rs) (sanity_run (sanity_init None its) (r :: rs)).
Proof.
  cbn [sanity_run]. constructor.
  - rewrite header_id_tag. cbn. tauto.
  - assert (G : forall rs st, ss_header_id st = Some (r_header_id r) -> Forall2 (fun x tags => In T_header_id tags <-> r_header_id x <> r_header_id r) rs (sanity_run st rs)).
    { induction rs0 as [|x xs IH]; intros st Hst; cbn [sanity_run]; constructor.
      - rewrite header_id_tag, Hst. reflexivity.
      - apply IH. apply sanity_latch. exact Hst. }
    apply G. reflexivity.
Qed.

(* ---- outer-barrel chip count and order ([E9004]/[E9005]) ---- *)
Lemma c20_chips ly ln cc co s a b c d : ly <> L_Inner -> ls_fatal s = false -> ls_chips s <> [] ->
  lane_checks ly ln cc co s = Ok (LO_errors a b c d) ->
  (b = true <-> exists n, cc = Some n /\ N.of_nat (length (ls_chips s)) <> n) /\
  (c = true <-> (~ (exists n, cc = Some n /\ N.of_nat (length (ls_chips s)) <> n) /\ exists os, co = Some os /\ ~ In (map fst (ls_chips s)) os)).
Proof.
  intros Hly Hf Hne E. destruct (lane_errors_iff ly ln cc co s a b c d Hf Hne E) as [_ [Hb [Hc _]]].
  unfold bad_count, bad_order in *. rewrite map_length in *. destruct ly; [contradiction| |]; tauto.
Qed.
Lemma c20_chips_default ly ln s : ly <> L_Inner -> ls_fatal s = false -> ls_chips s <> [] ->
  forall a b c d, lane_checks ly ln None None s = Ok (LO_errors a b c d) -> b = false /\ c = false.
Proof.
  intros Hly Hf Hne a b c d E. destruct (c20_chips ly ln None None s a b c d Hly Hf Hne E) as [Hb Hc].
  split.
  - destruct b; [|reflexivity]. destruct (proj1 Hb eq_refl) as [n [X _]]. discriminate.
  - destruct c; [|reflexivity]. destruct (proj1 Hc eq_refl) as [_ [os [X _]]]. discriminate.
Qed.

(* ---- trigger period ([E45]) ---- *)
Lemma c20_period_when (m : N) : m = 3563 -> m = Gen.Facts.tdh_max_bc ->
  forall cur prev, cur <= 3563 -> prev <= 3563 -> detected_period cur prev = (cur + 3564 - prev) mod 3564.
Proof.
  intros Hm Hg cur prev Hc Hp. unfold detected_period. rewrite <- Hg, Hm. unfold sub16, wrap16.
  destruct (N.ltb_spec cur prev) as [L|L].
  - replace ((3563 + 65536 - prev) mod 65536) with (3563 - prev).
    2:{ replace (3563 + 65536 - prev) with ((3563 - prev) + 1 * 65536) by lia. rewrite N.mod_add by lia. rewrite N.mod_small by lia. reflexivity. }
    rewrite (N.mod_small (3563 - prev + 1)) by lia. rewrite (N.mod_small (3563 - prev + 1 + cur)) by lia.
    rewrite (N.mod_small (cur + 3564 - prev)) by lia. lia.
  - replace (cur + 65536 - prev) with ((cur - prev) + 1 * 65536) by lia. rewrite N.mod_add by lia. rewrite N.mod_small by lia.
    replace (cur + 3564 - prev) with ((cur - prev) + 1 * 3564) by lia. rewrite N.mod_add by lia. rewrite N.mod_small by lia. reflexivity.
Qed.

(* which TDH is compared with which: the bookkeeping of StatusWordContainer over any sequence of TDHs *)
Fixpoint last_internal (l : list (list N)) (acc : option (list N)) : option (list N) :=
  match l with
  | [] => acc
  | w :: r => last_internal r (if tdh_internal_trigger w =? 1 then Some w else acc)
  end.

Lemma replace_tdh_run ws : forall s w,
  let s' := fold_left replace_tdh (ws ++ [w]) s in
  sw_tdh s' = Some w /\
  sw_prev_int_tdh s' = last_internal ((match sw_tdh s with Some o => [o] | None => [] end) ++ ws) (sw_prev_int_tdh s).
Proof.
  induction ws as [|x ws IH]; intros s w.
  - cbn [app fold_left]. unfold replace_tdh. cbn [sw_tdh sw_prev_int_tdh]. split; [reflexivity|].
    destruct (sw_tdh s) as [o|]; cbn [app last_internal]; reflexivity.
  - cbn [app fold_left]. destruct (IH (replace_tdh s x) w) as [H1 H2]. cbn zeta in *. split; [exact H1|].
    rewrite H2. unfold replace_tdh. cbn [sw_tdh sw_prev_int_tdh].
    destruct (sw_tdh s) as [o|]; cbn [app last_internal]; reflexivity.
Qed.

(* [E45] is reported at a TDH exactly when it and an earlier TDH carry the internal-trigger flag and the bunch-crossing distance of
   the two, modulo the orbit length, differs from the configured period -- the earlier one being the LAST such TDH before it *)
Lemma c20_period_pairs_when (m : N) : m = 3563 -> m = Gen.Facts.tdh_max_bc ->
  forall c s p, v_period c = Some p -> forall cur, sw_tdh (cs_words s) = Some cur ->
  tdh_trigger_bc cur <= 3563 -> (forall prev, sw_prev_int_tdh (cs_words s) = Some prev -> tdh_trigger_bc prev <= 3563) ->
  (check_tdh_trigger_interval c s <> [] <->
   tdh_internal_trigger cur = 1 /\ exists prev, sw_prev_int_tdh (cs_words s) = Some prev /\
     (tdh_trigger_bc cur + 3564 - tdh_trigger_bc prev) mod 3564 <> p).
Proof.
  intros Hm Hg c s p Hp cur Hcur Hbc Hprev. unfold check_tdh_trigger_interval. rewrite Hp, Hcur.
  destruct (sw_prev_int_tdh (cs_words s)) as [prev|].
  - rewrite (c20_period_when m Hm Hg _ _ Hbc (Hprev prev eq_refl)).
    destruct (N.eqb_spec (tdh_internal_trigger cur) 1) as [E|E]; cbn [andb].
    + destruct (N.eqb_spec ((tdh_trigger_bc cur + 3564 - tdh_trigger_bc prev) mod 3564) p) as [Q|Q]; cbn [negb].
      * split; [intros H; contradiction|]. intros [_ [pv [X Y]]]. injection X as <-. contradiction.
      * split; [intros _; split; [exact E|]; exists prev; auto|discriminate].
    + split; [intros H; contradiction|]. intros [X _]. contradiction.
  - split; [intros H; contradiction|]. intros [_ [pv [X _]]]. discriminate.
Qed.

Lemma c20_no_period c s : v_period c = None -> check_tdh_trigger_interval c s = [].
Proof. unfold check_tdh_trigger_interval. intros ->. reflexivity. Qed.

(* u16 arithmetic beyond the legal range (trigger_bc is a 12-bit field): what the shipped profile computes *)
Lemma c20_period_out_of_range : detected_period 0 4000 = 65100.
Proof. vm_compute. reflexivity. Qed.
