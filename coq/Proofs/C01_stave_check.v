(* Soundness of the stave-level membership test. *)
From Coq Require Import List NArith Bool Arith Lia.
From FP Require Import Model.Base Model.ItsWords Model.Rdh Model.Alpide Model.CdpRunning Spec.AlpideEnc Spec.Grammar Spec.GrammarIts
  Spec.GrammarItsCheck Spec.GrammarStave Spec.GrammarStaveCheck Proofs.C13_lane Proofs.C13_frame Proofs.C01_check Proofs.C01_stave.
Import ListNotations.
Open Scope N_scope.

Ltac bsp := repeat match goal with X : (_ && _) = true |- _ => apply andb_true_iff in X; destruct X end.

Lemma lane_confb_ok ly bc ws id : lane_confb ly bc ws id = true -> lane_conf ly bc ws id.
Proof.
  unfold lane_confb. destruct (parse_lane _ _) as [items|]; [|discriminate]. intros H. bsp.
  exists items. split; [assumption|]. split; [symmetry; apply list_eqb_eq; assumption|].
  repeat match goal with X : negb _ = true |- _ => apply negb_true_iff in X end.
  split; [assumption|]. split; [assumption|]. split.
  { destruct (la_chips (lane_summary items)); [discriminate|discriminate]. }
  split.
  { intros c Hc. match goal with X : forallb _ _ = true |- _ => pose proof (proj1 (forallb_forall _ _) X c Hc) as Hb end.
    apply N.eqb_eq in Hb. exact Hb. }
  intros ->. match goal with X : list_N_eqb _ _ = true |- _ => apply list_N_eqb_eq in X; exact X end.
Qed.

Lemma lanes_ruleb_ok ly ids : lanes_ruleb ly ids = true -> lanes_rule ly ids [].
Proof.
  unfold lanes_ruleb, lanes_rule. intros H. bsp. split; [apply N.eqb_eq; cbn [length]; assumption|].
  intros ->. match goal with X : existsb _ _ = true |- _ => apply existsb_exists in X; destruct X as (g & Hg & Eg) end.
  exists g. split; [exact Hg|]. apply list_N_eqb_eq. exact Eg.
Qed.

Lemma packet_stave_okb_ok ly data : packet_stave_okb ly data = true -> packet_stave_ok ly data.
Proof.
  unfold packet_stave_okb. intros H. bsp. split.
  { destruct data; [discriminate|discriminate]. }
  split; [apply N.ltb_lt; assumption|].
  exists (first_bc (lane_words data) (lane_ids data)). split; [apply lanes_ruleb_ok; assumption|].
  apply Forall_forall. intros id Hid. apply lane_confb_ok.
  match goal with X : forallb _ _ = true |- _ => exact (proj1 (forallb_forall _ _) X id Hid) end.
Qed.

Lemma stave_itemsb_ok ly : forall items acc acc', stave_itemsb ly acc items = Some acc' -> stave_items ly acc items acc'.
Proof.
  induction items as [|i items IH]; intros acc acc' H; cbn [stave_itemsb] in H.
  - injection H as <-. constructor.
  - destruct i as [t|t d e|t d e|t d e|t d e].
    + destruct acc; [|discriminate]. apply SI_nodata. apply IH. exact H.
    + destruct acc; [|discriminate]. destruct (packet_stave_okb ly d) eqn:E; [|discriminate].
      apply SI_frame; [apply packet_stave_okb_ok; exact E|apply IH; exact H].
    + destruct acc; [|discriminate]. apply SI_open. apply IH. exact H.
    + apply SI_cont. apply IH. exact H.
    + destruct (packet_stave_okb ly (acc ++ d)) eqn:E; [|discriminate].
      apply SI_close; [apply packet_stave_okb_ok; exact E|apply IH; exact H].
Qed.

Lemma stave_pagesb_ok ly : forall pages acc, stave_pagesb ly acc pages = true -> stave_pages ly acc pages.
Proof.
  induction pages as [|p pages IH]; intros acc H; cbn [stave_pagesb] in H.
  - destruct acc; [constructor|discriminate].
  - destruct (stave_itemsb ly acc (ip_items p)) as [acc'|] eqn:E; [|discriminate].
    eapply SP_page; [apply stave_itemsb_ok; exact E|apply IH; exact H].
Qed.

Theorem stave_witness_sound ld ihs ly : stave_witness ld = Some (ihs, ly) -> wf_link_stave ld ihs ly.
Proof.
  unfold stave_witness. destruct (link_witness ld) as [ihs0|] eqn:El; [|discriminate].
  destruct (layer_of_feeid (l_fee ld)) as [ly0|] eqn:Ely; [|discriminate].
  destruct (forallb _ ihs0) eqn:Ef; [|discriminate]. intros H. injection H as <- <-.
  split; [apply link_witness_sound; exact El|]. split; [exact Ely|].
  apply Forall_forall. intros ih Hin. apply stave_pagesb_ok. exact (proj1 (forallb_forall _ _) Ef ih Hin).
Qed.
