(* C06: each link is validated as if it were alone -- the dispatcher's routing. *)
From Coq Require Import List NArith Bool Lia Arith.
From FP Require Import Model.Base Model.Rdh Model.Scanner Model.CdpRunning Model.Link.
Import ListNotations.
Open Scope N_scope.

(* ids in order of first appearance *)
Fixpoint first_seen (seen : list N) (ids : list N) : list N :=
  match ids with
  | [] => []
  | x :: r => if existsb (N.eqb x) seen then first_seen seen r else x :: first_seen (seen ++ [x]) r
  end.

Definition sel (c : vcfg) (id : N) (ps : list cdp) : list cdp := filter (fun p => disp_id c p =? id) ps.

(* invariant of the dispatcher's tables after a prefix `done` of the packets *)
Definition DInv (c : vcfg) (done : list cdp) (st : list N * list (list cdp)) : Prop :=
  let '(procs, chans) := st in
  NoDup procs /\ chans = map (fun id => sel c id done) procs /\
  (forall p, In p done -> In (disp_id c p) procs) /\
  (forall id, In id procs -> exists p, In p done /\ disp_id c p = id).

Lemma position_spec id : forall l, match position id l with
  | Some i => nth_error l i = Some id /\ (forall j, (j < i)%nat -> nth_error l j <> Some id)
  | None => ~ In id l end.
Proof.
  induction l as [|x l IH]; cbn [position]; [intros []|].
  destruct (N.eqb_spec x id) as [->|Hne].
  - split; [reflexivity|intros j Hj; lia].
  - destruct (position id l) as [i|]; cbn [option_map].
    + destruct IH as [H1 H2]. split; [exact H1|]. intros [|j] Hj; cbn; [congruence|apply H2; lia].
    + intros [E|Hin]; [congruence|exact (IH Hin)].
Qed.

Lemma push_at_map {A} (f : N -> list A) (x : A) (id : N) : forall procs i,
  NoDup procs -> nth_error procs i = Some id ->
  forall g : N -> list A, (g id = f id ++ [x]) -> (forall k, k <> id -> g k = f k) ->
  push_at i x (map f procs) = map g procs.
Proof.
  induction procs as [|k procs IH]; intros i Hnd Hi g Hg Ho; [destruct i; discriminate|].
  inversion Hnd as [|? ? Hnin Hnd']; subst.
  destruct i as [|i]; cbn in Hi |- *.
  - injection Hi as ->. rewrite Hg. f_equal. apply map_ext_in. intros k Hk. symmetry. apply Ho. intros ->. contradiction.
  - rewrite (Ho k).
    + f_equal. apply IH; assumption.
    + intros ->. apply Hnin. eapply nth_error_In; eassumption.
Qed.

Lemma sel_snoc c id done p : sel c id (done ++ [p]) = sel c id done ++ (if disp_id c p =? id then [p] else []).
Proof. unfold sel. rewrite filter_app. cbn [filter]. destruct (disp_id c p =? id); reflexivity. Qed.

Lemma filter_none {A} (f : A -> bool) l : (forall q, In q l -> f q = false) -> filter f l = [].
Proof.
  induction l as [|x l IH]; intros H; [reflexivity|]. cbn [filter]. rewrite (H x (or_introl eq_refl)).
  apply IH. intros q Hq. apply H. right. exact Hq.
Qed.
Lemma NoDup_snoc {A} (l : list A) x : NoDup l -> ~ In x l -> NoDup (l ++ [x]).
Proof.
  induction l as [|y l IH]; intros Hnd Hn; cbn [app]; [constructor; [intros []|constructor]|].
  inversion Hnd as [|? ? Hy Hl]; subst. constructor.
  - intros Hin. apply in_app_or in Hin. destruct Hin as [Hin|[->|[]]]; [contradiction|]. apply Hn. left. reflexivity.
  - apply IH; [exact Hl|]. intros Hx. apply Hn. right. exact Hx.
Qed.

Lemma dispatch_step_inv c done st p : DInv c done st -> DInv c (done ++ [p]) (dispatch_step c st p).
Proof.
  destruct st as [procs chans]. intros (Hnd & Hch & Hall & Hex). unfold dispatch_step.
  pose proof (position_spec (disp_id c p) procs) as Hpos.
  destruct (position (disp_id c p) procs) as [i|].
  - destruct Hpos as [Hi _]. subst chans. cbn [DInv].
    split; [exact Hnd|]. split.
    + apply (push_at_map (fun id => sel c id done) p (disp_id c p) procs i Hnd Hi).
      * rewrite sel_snoc, N.eqb_refl. reflexivity.
      * intros k Hk. rewrite sel_snoc. destruct (N.eqb_spec (disp_id c p) k); [congruence|]. rewrite app_nil_r. reflexivity.
    + split.
      * intros q Hq. apply in_app_or in Hq. destruct Hq as [Hq|[<-|[]]]; [apply Hall; exact Hq|].
        eapply nth_error_In; eassumption.
      * intros id Hid. destruct (Hex id Hid) as (q & Hq & E). exists q. split; [apply in_or_app; left; exact Hq|exact E].
  - subst chans. cbn [DInv]. split.
    + apply NoDup_snoc; assumption.
    + split.
      * rewrite map_app. cbn [map]. f_equal.
        -- apply map_ext_in. intros k Hk. rewrite sel_snoc.
           destruct (N.eqb_spec (disp_id c p) k) as [E|_]; [subst k; contradiction|]. rewrite app_nil_r. reflexivity.
        -- rewrite sel_snoc, N.eqb_refl. f_equal.
           assert (Hn : sel c (disp_id c p) done = []).
           { unfold sel. apply filter_none. intros q Hq. destruct (N.eqb_spec (disp_id c q) (disp_id c p)) as [E|]; [|reflexivity].
             exfalso. apply Hpos. rewrite <- E. apply Hall. exact Hq. }
           rewrite Hn. reflexivity.
      * split.
        -- intros q Hq. apply in_or_app. apply in_app_or in Hq. destruct Hq as [Hq|[<-|[]]]; [left; apply Hall; exact Hq|right; left; reflexivity].
        -- intros id Hid. apply in_app_or in Hid. destruct Hid as [Hid|[<-|[]]].
           ++ destruct (Hex id Hid) as (q & Hq & E). exists q. split; [apply in_or_app; left; exact Hq|exact E].
           ++ exists p. split; [apply in_or_app; right; left; reflexivity|reflexivity].
Qed.

Lemma dispatch_fold_inv c : forall ps done st, DInv c done st -> DInv c (done ++ ps) (fold_left (dispatch_step c) ps st).
Proof.
  induction ps as [|p ps IH]; intros done st H; cbn [fold_left]; [rewrite app_nil_r; exact H|].
  replace (done ++ p :: ps) with ((done ++ [p]) ++ ps) by (rewrite <- app_assoc; reflexivity).
  apply IH, dispatch_step_inv, H.
Qed.

Lemma dinv_init c : DInv c [] ([], []).
Proof. cbn. repeat split; [constructor | intros p [] | intros id []]. Qed.

Lemma combine_map_self {A B} (f : A -> B) l : combine l (map f l) = map (fun x => (x, f x)) l.
Proof. induction l as [|x l IH]; [reflexivity|]. cbn. rewrite IH. reflexivity. Qed.

(* the dispatcher hands every validator exactly its own id's packets, in arrival order, and the
   result for an id is the sequential pass over those packets alone *)
Lemma c06_isolated c ps :
  exists procs, NoDup procs /\
    (forall id, In id procs <-> exists p, In p ps /\ disp_id c p = id) /\
    run_dispatch c ps = map (fun id => (id, run_validator c (sel c id ps))) procs.
Proof.
  unfold run_dispatch, dispatch.
  pose proof (dispatch_fold_inv c ps [] ([], []) (dinv_init c)) as H. cbn [app] in H.
  destruct (fold_left (dispatch_step c) ps ([], [])) as [procs chans].
  destruct H as (Hnd & Hch & Hall & Hex). exists procs. split; [exact Hnd|]. split.
  - intros id. split; [apply Hex|]. intros (p & Hp & <-). apply Hall, Hp.
  - subst chans. rewrite map_map. apply combine_map_self.
Qed.

Lemma c06_alone c ps id : sel c id ps <> [] -> In (id, run_validator c (sel c id ps)) (run_dispatch c ps).
Proof.
  intros Hne. destruct (c06_isolated c ps) as (procs & _ & Hin & ->).
  apply in_map_iff. exists id. split; [reflexivity|]. apply Hin.
  destruct (sel c id ps) as [|p r] eqn:E; [congruence|].
  assert (Hp : In p (sel c id ps)) by (rewrite E; left; reflexivity).
  unfold sel in Hp. apply filter_In in Hp. destruct Hp as [Hp Hid]. exists p. split; [exact Hp|]. apply N.eqb_eq, Hid.
Qed.

Lemma c06_result_unique c ps id r : In (id, r) (run_dispatch c ps) -> r = run_validator c (sel c id ps) /\ sel c id ps <> [].
Proof.
  destruct (c06_isolated c ps) as (procs & _ & Hin & ->). intros H.
  apply in_map_iff in H. destruct H as (k & E & Hk). injection E as Ek Er. subst k r. split; [reflexivity|].
  destruct (proj1 (Hin id) Hk) as (p & Hp & Hid).
  intros Hnil. assert (Hs : In p (sel c id ps)) by (unfold sel; apply filter_In; split; [exact Hp|apply N.eqb_eq, Hid]).
  rewrite Hnil in Hs. exact Hs.
Qed.

(* whatever the other links' traffic is and however it is interleaved: if a link's own packet
   sequence is the same in two inputs, so is everything reported for it *)
Lemma c06_independent c ps1 ps2 id : sel c id ps1 = sel c id ps2 ->
  forall r, In (id, r) (run_dispatch c ps1) <-> In (id, r) (run_dispatch c ps2).
Proof.
  intros E r. split; intros H.
  - destruct (c06_result_unique c ps1 id r H) as [-> Hne]. rewrite E in *. apply c06_alone, Hne.
  - destruct (c06_result_unique c ps2 id r H) as [-> Hne]. rewrite <- E in *. apply c06_alone, Hne.
Qed.

(* a file holding only that link's packets, or a filter that selects them, is the same thing *)
Lemma sel_idem c id ps : sel c id (sel c id ps) = sel c id ps.
Proof.
  unfold sel. induction ps as [|p ps IH]; [reflexivity|]. cbn [filter].
  destruct (disp_id c p =? id) eqn:E; [cbn [filter]; rewrite E, IH|]; auto.
Qed.
Lemma c06_extraction c ps id : sel c id ps <> [] ->
  run_dispatch c (sel c id ps) = [(id, run_validator c (sel c id ps))].
Proof.
  intros Hne. destruct (c06_isolated c (sel c id ps)) as (procs & Hnd & Hin & ->).
  assert (Hall : forall k, In k procs -> k = id).
  { intros k Hk. destruct (proj1 (Hin k) Hk) as (p & Hp & <-). unfold sel in Hp. apply filter_In in Hp. apply N.eqb_eq, Hp. }
  assert (Hid : In id procs).
  { apply Hin. destruct (sel c id ps) as [|p r] eqn:E; [congruence|]. exists p. split; [left; reflexivity|].
    assert (Hp : In p (sel c id ps)) by (rewrite E; left; reflexivity). unfold sel in Hp. apply filter_In in Hp. apply N.eqb_eq, Hp. }
  destruct procs as [|a [|b procs]]; [destruct Hid| |].
  - rewrite (Hall a (or_introl eq_refl)). cbn [map]. rewrite sel_idem. reflexivity.
  - exfalso. inversion Hnd as [|? ? Hn _]; subst. apply Hn. left.
    rewrite (Hall a (or_introl eq_refl)), (Hall b (or_intror (or_introl eq_refl))). reflexivity.
Qed.
