(* Every accessor of the decoded RDH is the documented bit field of the 512-bit header. *)
From Coq Require Import List NArith ZArith Bool Lia ZifyBool ZifyN Arith.
From FP Require Import Model.Base Model.Rdh Spec.RdhRules Proofs.Bits Proofs.WordFacts.
Import ListNotations.
Open Scope N_scope.
Ltac Zify.zify_post_hook ::= Z.div_mod_to_equations.

Definition rdh_bytes_ok (b : list N) : Prop := length b = 64%nat /\ Forall byte_ok b.

Ltac win k m j len :=
  match goal with
  | Hok : rdh_bytes_ok ?b |- _ =>
      rewrite (field_window b k m j len (proj2 Hok)) by
        (first [ rewrite (proj1 Hok); lia | lia ])
  end.

(* take m (drop k b) for a 64-byte header, as explicit bytes *)
Lemma td1 b k : (k < length b)%nat -> take 1 (drop k b) = [nb k b].
Proof.
  revert b; induction k as [|k IH]; intros [|x b] H; cbn in *; try lia.
  - destruct b; reflexivity.
  - rewrite IH by lia. reflexivity.
Qed.
Lemma td2 b k : (k + 1 < length b)%nat -> take 2 (drop k b) = [nb k b; nb (S k) b].
Proof.
  revert b; induction k as [|k IH]; intros [|x b] H; cbn in *; try lia.
  - destruct b as [|y b]; cbn in *; [lia|]. destruct b; reflexivity.
  - rewrite IH by lia. reflexivity.
Qed.
Lemma td3 b k : (k + 2 < length b)%nat ->
  take 3 (drop k b) = [nb k b; nb (S k) b; nb (S (S k)) b].
Proof.
  revert b; induction k as [|k IH]; intros [|x b] H; cbn in *; try lia.
  - do 2 (destruct b as [|? b]; cbn in *; [lia|]). destruct b; reflexivity.
  - rewrite IH by lia. reflexivity.
Qed.
Lemma td4 b k : (k + 3 < length b)%nat ->
  take 4 (drop k b) = [nb k b; nb (S k) b; nb (S (S k)) b; nb (S (S (S k))) b].
Proof.
  revert b; induction k as [|k IH]; intros [|x b] H; cbn in *; try lia.
  - do 3 (destruct b as [|? b]; cbn in *; [lia|]). destruct b; reflexivity.
  - rewrite IH by lia. reflexivity.
Qed.

Lemma nbk_lt b k : rdh_bytes_ok b -> nb k b < 256.
Proof.
  intros [_ Hf]. unfold nb.
  destruct (Nat.lt_ge_cases k (length b)) as [Hl|Hl].
  - apply (proj1 (Forall_forall _ _) Hf), nth_In; assumption.
  - rewrite nth_overflow by assumption. lia.
Qed.

Ltac bytes_of H :=
  repeat match goal with
  | |- context [nb ?k ?b] =>
      lazymatch goal with
      | _ : nb k b < 256 |- _ => fail
      | _ => pose proof (nbk_lt b k H)
      end;
      let v := fresh "v" in set (v := nb k b) in *
  end.

Ltac fld1 H k j len :=
  unfold hf; win k 1%nat j len; rewrite td1 by (rewrite (proj1 H); lia); cbn [le].
Ltac fld2 H k j len :=
  unfold hf; win k 2%nat j len; rewrite td2 by (rewrite (proj1 H); lia); cbn [le].
Ltac fld4 H k j len :=
  unfold hf; win k 4%nat j len; rewrite td4 by (rewrite (proj1 H); lia); cbn [le].

Ltac fin H := unfold field, le16, le32, wrap8, wrap16; pow_norm; bytes_of H; lia.


Lemma f_header_id b (H : rdh_bytes_ok b) : r_header_id (decode_rdh b) = h_header_id b.
Proof. unfold h_header_id. change 0 with (8 * N.of_nat 0 + 0) at 1. fld1 H 0%nat 0 8. cbn. fin H. Qed.
Lemma f_header_size b (H : rdh_bytes_ok b) : r_header_size (decode_rdh b) = h_header_size b.
Proof. unfold h_header_size. change 8 with (8 * N.of_nat 1 + 0) at 1. fld1 H 1%nat 0 8. cbn. fin H. Qed.
Lemma f_fee_id b (H : rdh_bytes_ok b) : r_fee_id (decode_rdh b) = h_fee_id b.
Proof. unfold h_fee_id. change 16 with (8 * N.of_nat 2 + 0) at 1. fld2 H 2%nat 0 16. cbn. fin H. Qed.
Lemma f_priority b (H : rdh_bytes_ok b) : r_priority_bit (decode_rdh b) = h_priority b.
Proof. unfold h_priority. change 32 with (8 * N.of_nat 4 + 0). fld1 H 4%nat 0 8. cbn. fin H. Qed.
Lemma f_system_id b (H : rdh_bytes_ok b) : r_system_id (decode_rdh b) = h_system_id b.
Proof. unfold h_system_id. change 40 with (8 * N.of_nat 5 + 0). fld1 H 5%nat 0 8. cbn. fin H. Qed.
Lemma f_rdh0_reserved0 b (H : rdh_bytes_ok b) : r_rdh0_reserved0 (decode_rdh b) = hf b 48 16.
Proof. change 48 with (8 * N.of_nat 6 + 0). fld2 H 6%nat 0 16. cbn. fin H. Qed.
Lemma f_offset b (H : rdh_bytes_ok b) : r_offset_new_packet (decode_rdh b) = h_offset_next b.
Proof. unfold h_offset_next. change 64 with (8 * N.of_nat 8 + 0). fld2 H 8%nat 0 16. cbn. fin H. Qed.
Lemma f_memsize b (H : rdh_bytes_ok b) : r_memory_size (decode_rdh b) = h_memory_size b.
Proof. unfold h_memory_size. change 80 with (8 * N.of_nat 10 + 0). fld2 H 10%nat 0 16. cbn. fin H. Qed.
Lemma f_link b (H : rdh_bytes_ok b) : r_link_id (decode_rdh b) = h_link_id b.
Proof. unfold h_link_id. change 96 with (8 * N.of_nat 12 + 0). fld1 H 12%nat 0 8. cbn. fin H. Qed.
Lemma f_pktcnt b (H : rdh_bytes_ok b) : r_packet_counter (decode_rdh b) = h_packet_counter b.
Proof. unfold h_packet_counter. change 104 with (8 * N.of_nat 13 + 0). fld1 H 13%nat 0 8. cbn. fin H. Qed.
Lemma f_orbit b (H : rdh_bytes_ok b) : r_orbit (decode_rdh b) = h_orbit b.
Proof. unfold h_orbit. change 160 with (8 * N.of_nat 20 + 0). fld4 H 20%nat 0 32. cbn. fin H. Qed.
Lemma f_trigger b (H : rdh_bytes_ok b) : r_trigger_type (decode_rdh b) = h_trigger_type b.
Proof. unfold h_trigger_type. change 256 with (8 * N.of_nat 32 + 0). fld4 H 32%nat 0 32. cbn. fin H. Qed.
Lemma f_pages b (H : rdh_bytes_ok b) : r_pages_counter (decode_rdh b) = h_pages_counter b.
Proof. unfold h_pages_counter. change 288 with (8 * N.of_nat 36 + 0). fld2 H 36%nat 0 16. cbn. fin H. Qed.
Lemma f_stop b (H : rdh_bytes_ok b) : r_stop_bit (decode_rdh b) = h_stop_bit b.
Proof. unfold h_stop_bit. change 304 with (8 * N.of_nat 38 + 0). fld1 H 38%nat 0 8. cbn. fin H. Qed.
Lemma f_rdh2_reserved0 b (H : rdh_bytes_ok b) : r_rdh2_reserved0 (decode_rdh b) = hf b 312 8.
Proof. change 312 with (8 * N.of_nat 39 + 0). fld1 H 39%nat 0 8. cbn. fin H. Qed.
Lemma f_detfield b (H : rdh_bytes_ok b) : r_detector_field (decode_rdh b) = h_detector_field b.
Proof. unfold h_detector_field. change 384 with (8 * N.of_nat 48 + 0). fld4 H 48%nat 0 32. cbn. fin H. Qed.
Lemma f_parbit b (H : rdh_bytes_ok b) : r_par_bit (decode_rdh b) = h_par_bit b.
Proof. unfold h_par_bit. change 416 with (8 * N.of_nat 52 + 0). fld2 H 52%nat 0 16. cbn. fin H. Qed.
Lemma f_rdh3_reserved0 b (H : rdh_bytes_ok b) : r_rdh3_reserved0 (decode_rdh b) = hf b 432 16.
Proof. change 432 with (8 * N.of_nat 54 + 0). fld2 H 54%nat 0 16. cbn. fin H. Qed.

(* derived accessors *)
Lemma f_stave b (H : rdh_bytes_ok b) : stave_number_from_feeid (r_fee_id (decode_rdh b)) = h_stave b.
Proof.
  unfold h_stave. change 16 with (8 * N.of_nat 2 + 0) at 1. fld2 H 2%nat 0 6.
  unfold stave_number_from_feeid. cbn. change 63 with (N.ones 6). rewrite N.land_ones. fin H.
Qed.
Lemma f_layer b (H : rdh_bytes_ok b) : layer_from_feeid (r_fee_id (decode_rdh b)) = h_layer b.
Proof.
  unfold h_layer. change 28 with (8 * N.of_nat 3 + 4). fld1 H 3%nat 4 3.
  unfold layer_from_feeid. cbn. change 7 with (N.ones 3). rewrite N.land_ones, N.shiftr_div_pow2. fin H.
Qed.
Lemma f_dw b (H : rdh_bytes_ok b) : rdh_dw (decode_rdh b) = h_dw b.
Proof.
  unfold h_dw. change 124 with (8 * N.of_nat 15 + 4). fld1 H 15%nat 4 4.
  unfold rdh_dw. cbn. rewrite (land_lit _ 61440 12 4 eq_refl), N.shiftr_div_pow2. fin H.
Qed.
Lemma f_cru_id b (H : rdh_bytes_ok b) : rdh_cru_id (decode_rdh b) = h_cru_id b.
Proof.
  unfold h_cru_id. change 112 with (8 * N.of_nat 14 + 0). fld2 H 14%nat 0 12.
  unfold rdh_cru_id. cbn. change 4095 with (N.ones 12). rewrite N.land_ones. fin H.
Qed.
Lemma f_bc b (H : rdh_bytes_ok b) : rdh_bc (decode_rdh b) = h_bc b.
Proof.
  unfold h_bc. change 128 with (8 * N.of_nat 16 + 0). fld2 H 16%nat 0 12.
  unfold rdh_bc. cbn. change 4095 with (N.ones 12). rewrite N.land_ones. fin H.
Qed.
Lemma f_rdh1_reserved0 b (H : rdh_bytes_ok b) : rdh1_reserved0 (decode_rdh b) = hf b 140 20.
Proof.
  change 140 with (8 * N.of_nat 17 + 4). unfold hf. win 17%nat 3%nat 4 20.
  assert (Ht : take 3 (drop 17 b) = [nb 17 b; nb 18 b; nb 19 b]) by (apply td3; rewrite (proj1 H); lia).
  rewrite Ht. cbn [le]. unfold rdh1_reserved0. cbn. rewrite N.shiftr_div_pow2. fin H.
Qed.
Lemma f_data_format b (H : rdh_bytes_ok b) : rdh_data_format (decode_rdh b) = h_data_format b.
Proof.
  unfold h_data_format. change 192 with (8 * N.of_nat 24 + 0). fld1 H 24%nat 0 8.
  unfold rdh_data_format. cbn. change 255 with (N.ones 8). rewrite N.land_ones.
  unfold le64, field, wrap8; pow_norm; bytes_of H. lia.
Qed.
