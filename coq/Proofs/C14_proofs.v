(* C14: statistics equal ground truth computed from the input. *)
From Coq Require Import List NArith ZArith Bool Lia ZifyBool ZifyN ZifyNat Arith.
From FP Require Import Model.Base Model.Rdh Model.Scanner Model.Collector Model.System Spec.RdhRules Spec.Framing Spec.GroundTruth
  Proofs.RdhFacts Proofs.C03_proofs Proofs.C05_proofs Proofs.C06_proofs Proofs.C08_proofs.
From FP Require Gen.Facts.
Import ListNotations.
Open Scope N_scope.
Ltac Zify.zify_post_hook ::= Z.div_mod_to_equations.

(* ------------------------------------------------------------------ the scanner's statistics, explicitly *)
Lemma u32max : U32_MAX = 4294967295.  Proof. reflexivity. Qed.

Lemma v_seen_small a b c d e f r : a + 1 < U32_MAX ->
  v_seen (a, b, c, d, e, f) r =
  (a + 1, b, c, addn (r_link_id r) d, addn (r_fee_id r) e,
   f ++ (if existsb (N.eqb (r_link_id r)) d then [] else [IS_link (r_link_id r)]) ++
        (if existsb (N.eqb (r_fee_id r)) e then [] else [IS_fee (r_fee_id r)])).
Proof.
  intros H. unfold v_seen, view, collect_seen, with_view, mem_N, addn. cbn [s_seen s_filt s_pay s_links s_fees s_out s_in s_mem].
  rewrite u32max in *.
  assert (E : wrap32 (a + 1) = a + 1) by (unfold wrap32; apply N.mod_small; lia). rewrite E.
  assert (E2 : (a + 1 =? 4294967295) = false) by (apply N.eqb_neq; lia). rewrite E2.
  destruct (existsb (N.eqb (r_link_id r)) d); destruct (existsb (N.eqb (r_fee_id r)) e); cbn; rewrite ?app_nil_r; reflexivity.
Qed.
Lemma v_filt_small a b c d e f : b + 1 < U32_MAX -> v_filt (a, b, c, d, e, f) = (a, b + 1, c, d, e, f).
Proof.
  intros H. unfold v_filt, view, count_filtered, with_view. cbn [s_seen s_filt s_pay s_links s_fees s_out s_in s_mem]. rewrite u32max in *.
  assert (E : wrap32 (b + 1) = b + 1) by (unfold wrap32; apply N.mod_small; lia). rewrite E.
  assert (E2 : (b + 1 =? 4294967295) = false) by (apply N.eqb_neq; lia). rewrite E2. cbn. rewrite app_nil_r. reflexivity.
Qed.
Lemma v_pay_small a b c d e f n : c + n < U32_MAX -> v_pay (a, b, c, d, e, f) n = (a, b, c + n, d, e, f).
Proof.
  intros H. unfold v_pay, view, add_payload, with_view. cbn [s_seen s_filt s_pay s_links s_fees s_out s_in s_mem]. rewrite u32max in *.
  assert (E : wrap32 (c + n) = c + n) by (unfold wrap32; apply N.mod_small; lia). rewrite E.
  assert (E2 : (c + n =? 4294967295) = false) by (apply N.eqb_neq; lia). rewrite E2. cbn. rewrite app_nil_r. reflexivity.
Qed.

(* projections of the reader's emissions *)
Definition il_links (o : list instat) : list N := flat_map (fun i => match i with IS_link l => [l] | _ => [] end) o.
Definition il_fees (o : list instat) : list N := flat_map (fun i => match i with IS_fee l => [l] | _ => [] end) o.
Definition il_first (o : list instat) : list instat :=
  filter (fun i => match i with IS_trig _ | IS_fmt _ | IS_sysid _ => true | _ => false end) o.
Definition il_plain (o : list instat) : bool :=
  forallb (fun i => match i with IS_link _ | IS_fee _ | IS_trig _ | IS_fmt _ | IS_sysid _ => true | _ => false end) o.

Definition first3 (r : rdh) : list instat := [IS_trig (r_trigger_type r); IS_fmt (rdh_data_format r); IS_sysid (r_system_id r)].
Definition pay_all (pkts : list packet) : N := sumN (map (fun p => N.of_nat (length (p_payload p))) pkts).

Lemma tup6 {A B C D E F} (a a' : A) (b b' : B) (c c' : C) (d d' : D) (e e' : E) (f f' : F) :
  a = a' -> b = b' -> c = c' -> d = d' -> e = e' -> f = f' -> (a, b, c, d, e, f) = (a', b', c', d', e', f').
Proof. intros; subst; reflexivity. Qed.

Lemma addn_app x l : exists t, addn x l = l ++ t /\ t = (if existsb (N.eqb x) l then [] else [x]).
Proof. unfold addn. destruct (existsb (N.eqb x) l); eexists; split; try reflexivity. rewrite app_nil_r. reflexivity. Qed.

Lemma v_pkts_truth c : forall pkts off a b cc d e f,
  Forall wf_pkt pkts ->
  a + N.of_nat (length pkts) < U32_MAX -> b + N.of_nat (length pkts) < U32_MAX -> cc + pay_all pkts < U32_MAX ->
  exists o,
    v_pkts c off (a, b, cc, d, e, f) pkts =
      (a + N.of_nat (length pkts),
       b + (match sc_filter c with Some _ => N.of_nat (length (filter (pmatch c) pkts)) | None => 0 end),
       cc + pay_all (filter (pmatch c) pkts),
       fold_left (fun acc x => addn x acc) (map (fun p => r_link_id (hdr p)) pkts) d,
       fold_left (fun acc x => addn x acc) (map (fun p => r_fee_id (hdr p)) pkts) e,
       f ++ o) /\
    d ++ il_links o = fold_left (fun acc x => addn x acc) (map (fun p => r_link_id (hdr p)) pkts) d /\
    e ++ il_fees o = fold_left (fun acc x => addn x acc) (map (fun p => r_fee_id (hdr p)) pkts) e /\
    il_plain o = true /\
    il_first o = (match pkts with p :: _ => if off =? 0 then first3 (hdr p) else [] | [] => [] end).
Proof.
  induction pkts as [|p r IH]; intros off a b cc d e f Hwf Ha Hb Hc.
  - exists []. cbn [v_pkts length filter map fold_left pay_all sumN fold_right]. rewrite !N.add_0_r, !app_nil_r.
    destruct (sc_filter c); rewrite ?N.add_0_r; repeat split; reflexivity.
  - pose proof (Forall_inv Hwf) as Hp; pose proof (Forall_inv_tail Hwf) as Hr.
    cbn [v_pkts]. unfold v_pkt, v_pkt0, v_first. cbn zeta. fold (hdr p).
    cbn [length] in Ha, Hb. unfold pay_all in Hc. cbn [map sumN fold_right] in Hc. fold (pay_all r) in Hc.
    set (f1 := if off =? 0 then f ++ first3 (hdr p) else f).
    assert (Ev : (if off =? 0 then v_emit (a, b, cc, d, e, f) (first3 (hdr p)) else (a, b, cc, d, e, f)) = (a, b, cc, d, e, f1)).
    { subst f1. destruct (off =? 0); reflexivity. }
    unfold first3 in Ev at 1. rewrite Ev. rewrite (v_seen_small a b cc d e f1 (hdr p)) by lia.
    set (f2 := f1 ++ _ ++ _).
    assert (Hps : rdh_payload_size (hdr p) = N.of_nat (length (p_payload p))).
    { unfold hdr. rewrite <- (wf_payload_size p Hp). lia. }
    set (d2 := addn (r_link_id (hdr p)) d). set (e2 := addn (r_fee_id (hdr p)) e).
    assert (Hoff : (off + p_size p =? 0) = false) by (apply N.eqb_neq; unfold p_size; lia).
    destruct (pmatch c p) eqn:Hm.
    + (* returned packet *)
      unfold v_hit.
      assert (Step : exists b2, (match sc_filter c with Some _ => v_filt (a + 1, b, cc, d2, e2, f2) | None => (a + 1, b, cc, d2, e2, f2) end) = (a + 1, b2, cc, d2, e2, f2) /\
                               b2 = b + (match sc_filter c with Some _ => 1 | None => 0 end)).
      { destruct (sc_filter c); eexists; split; try reflexivity; [apply v_filt_small; lia|lia]. }
      destruct Step as (b2 & E1 & Eb2). rewrite E1. rewrite Hps.
      rewrite (v_pay_small (a + 1) b2 cc d2 e2 f2) by lia.
      destruct (IH (off + p_size p) (a + 1) b2 (cc + N.of_nat (length (p_payload p))) d2 e2 f2 Hr ltac:(lia) ltac:(rewrite Eb2; destruct (sc_filter c); lia) ltac:(unfold pay_all, sumN in *; cbn [map fold_right] in *; lia))
        as (o & E & Hl & Hf & Hpl & Hfi).
      exists ((if off =? 0 then first3 (hdr p) else []) ++
              ((if existsb (N.eqb (r_link_id (hdr p))) d then [] else [IS_link (r_link_id (hdr p))]) ++
               (if existsb (N.eqb (r_fee_id (hdr p))) e then [] else [IS_fee (r_fee_id (hdr p))])) ++ o).
      subst d2 e2. rewrite E. cbn [filter map fold_left length]. rewrite Hm. cbn [length map]. unfold pay_all. cbn [map sumN fold_right]. fold (pay_all (filter (pmatch c) r)).
      split; [|split; [|split; [|split]]].
      * apply tup6; [lia | rewrite Eb2; destruct (sc_filter c); lia | unfold pay_all, sumN; cbn [map fold_right]; lia
                    | reflexivity | reflexivity | subst f2 f1; destruct (off =? 0); rewrite <- ?app_assoc; reflexivity].
      * rewrite <- Hl. unfold il_links. rewrite !flat_map_app. fold (il_links o).
        unfold addn. destruct (off =? 0); destruct (existsb (N.eqb (r_link_id (hdr p))) d); destruct (existsb (N.eqb (r_fee_id (hdr p))) e);
          cbn; rewrite ?app_nil_r, <- ?app_assoc; reflexivity.
      * rewrite <- Hf. unfold il_fees. rewrite !flat_map_app. fold (il_fees o).
        unfold addn. destruct (off =? 0); destruct (existsb (N.eqb (r_link_id (hdr p))) d); destruct (existsb (N.eqb (r_fee_id (hdr p))) e);
          cbn; rewrite ?app_nil_r, <- ?app_assoc; reflexivity.
      * unfold il_plain in *. rewrite !forallb_app, Hpl.
        destruct (off =? 0); destruct (existsb (N.eqb (r_link_id (hdr p))) d); destruct (existsb (N.eqb (r_fee_id (hdr p))) e); reflexivity.
      * unfold il_first in *. rewrite !filter_app, Hfi. destruct r as [|p2 r2]; rewrite ?Hoff;
        destruct (off =? 0); destruct (existsb (N.eqb (r_link_id (hdr p))) d); destruct (existsb (N.eqb (r_fee_id (hdr p))) e); reflexivity.
    + (* skipped packet *)
      destruct (IH (off + p_size p) (a + 1) b cc d2 e2 f2 Hr ltac:(lia) ltac:(lia) ltac:(unfold pay_all, sumN in *; cbn [map fold_right] in *; lia)) as (o & E & Hl & Hf & Hpl & Hfi).
      exists ((if off =? 0 then first3 (hdr p) else []) ++
              ((if existsb (N.eqb (r_link_id (hdr p))) d then [] else [IS_link (r_link_id (hdr p))]) ++
               (if existsb (N.eqb (r_fee_id (hdr p))) e then [] else [IS_fee (r_fee_id (hdr p))])) ++ o).
      subst d2 e2. rewrite E. cbn [filter map fold_left length]. rewrite Hm.
      split; [|split; [|split; [|split]]].
      * apply tup6; [lia | reflexivity | reflexivity | reflexivity | reflexivity
                    | subst f2 f1; destruct (off =? 0); rewrite <- ?app_assoc; reflexivity].
      * rewrite <- Hl. unfold il_links. rewrite !flat_map_app. fold (il_links o).
        unfold addn. destruct (off =? 0); destruct (existsb (N.eqb (r_link_id (hdr p))) d); destruct (existsb (N.eqb (r_fee_id (hdr p))) e);
          cbn; rewrite ?app_nil_r, <- ?app_assoc; reflexivity.
      * rewrite <- Hf. unfold il_fees. rewrite !flat_map_app. fold (il_fees o).
        unfold addn. destruct (off =? 0); destruct (existsb (N.eqb (r_link_id (hdr p))) d); destruct (existsb (N.eqb (r_fee_id (hdr p))) e);
          cbn; rewrite ?app_nil_r, <- ?app_assoc; reflexivity.
      * unfold il_plain in *. rewrite !forallb_app, Hpl.
        destruct (off =? 0); destruct (existsb (N.eqb (r_link_id (hdr p))) d); destruct (existsb (N.eqb (r_fee_id (hdr p))) e); reflexivity.
      * unfold il_first in *. rewrite !filter_app, Hfi. destruct r as [|p2 r2]; rewrite ?Hoff;
        destruct (off =? 0); destruct (existsb (N.eqb (r_link_id (hdr p))) d); destruct (existsb (N.eqb (r_fee_id (hdr p))) e); reflexivity.
Qed.

(* ------------------------------------------------------------------ the scanner statistics of a well-framed input *)
Lemma c14_scan_stats_when (b k : bool) : b = true -> forall c pkts, Forall wf_pkt pkts ->
  N.of_nat (length pkts) < U32_MAX -> pay_all pkts < U32_MAX ->
  exists o, so_stats (scan b k c (serialize pkts)) =
            o ++ [IS_seen (N.of_nat (length pkts));
                  IS_filtered (match sc_filter c with Some _ => N.of_nat (length (filter (pmatch c) pkts)) | None => 0 end);
                  IS_payload (pay_all (filter (pmatch c) pkts))] /\
    il_links o = first_seen_list (map (fun p => r_link_id (hdr p)) pkts) /\
    il_fees o = first_seen_list (map (fun p => r_fee_id (hdr p)) pkts) /\
    il_plain o = true /\
    il_first o = (match pkts with p :: _ => first3 (hdr p) | [] => [] end).
Proof.
  intros -> c pkts Hwf Hn Hp. unfold scan.
  destruct (scan_flat_spec c (length pkts) pkts TL_none (scan_fuel (serialize pkts)) (sinit (serialize pkts)) 0
              (le_n _) Hwf I (scan_fuel_enough pkts Hwf) (conj (eq_sym (app_nil_r _)) eq_refl)) as (st' & H & Hv).
  rewrite H. cbn [so_stats]. specialize (Hv eq_refl).
  destruct (v_pkts_truth c pkts 0 0 0 0 [] [] [] Hwf ltac:(lia) ltac:(lia) ltac:(lia)) as (o & E & Hl & Hf & Hpl & Hfi).
  change (view (sinit (serialize pkts))) with ((0, 0, 0, @nil N, @nil N, @nil instat)) in Hv. rewrite E in Hv.
  unfold view in Hv. injection Hv as V1 V2 V3 V4 V5 V6.
  exists o. unfold flush. rewrite V1, V2, V3, V6. cbn [app].
  rewrite !N.add_0_l. split; [reflexivity|]. cbn [app] in Hl, Hf. unfold first_seen_list.
  split; [exact Hl|]. split; [exact Hf|]. split; [exact Hpl|]. rewrite Hfi. destruct pkts; reflexivity.
Qed.

(* ------------------------------------------------------------------ the collector's counters as sums *)
Lemma length_delta x : length (delta x) = 31%nat.
Proof. destruct x; reflexivity. Qed.
Lemma vadd_length : forall a b n, length a = n -> length b = n -> length (vadd a b) = n.
Proof. induction a as [|x a IH]; intros [|y b] n Ha Hb; cbn in *; try lia. destruct n; [lia|]. rewrite (IH b n); lia. Qed.
Lemma nth_vadd : forall a b i, length a = length b -> nth i (vadd a b) 0 = nth i a 0 + nth i b 0.
Proof.
  induction a as [|x a IH]; intros [|y b] i H; cbn in *; try lia; destruct i; try reflexivity.
  apply IH. lia.
Qed.

Definition dnth (i : nat) (x : cstat) : N := nth i (delta x) 0.

Lemma update_counters_len s x : length (k_counters s) = 31%nat -> length (k_counters (update s x)) = 31%nat.
Proof.
  intros H. destruct x; cbn [update];
    first [ cbn [k_counters upd_counters]; apply vadd_length; [exact H|apply length_delta]
          | exact H
          | match goal with |- context [set_once ?o ?v] => destruct (set_once o v) end; exact H
          | destruct (k_fatal s); exact H ].
Qed.

Lemma counters_len : forall a s, length (k_counters s) = 31%nat -> length (k_counters (fold_left update a s)) = 31%nat.
Proof.
  induction a as [|x a IH]; intros s H; cbn [fold_left]; [exact H|]. apply IH, update_counters_len, H.
Qed.

Lemma nth_zeros : forall n i, nth i (zeros n) 0 = 0.
Proof. unfold zeros. induction n as [|n IH]; intros [|i]; cbn; try reflexivity. apply IH. Qed.

Lemma update_counters_nth i s x : length (k_counters s) = 31%nat ->
  nth i (k_counters (update s x)) 0 = nth i (k_counters s) 0 + dnth i x.
Proof.
  intros H. unfold dnth. destruct x; cbn [update];
    first [ cbn [k_counters upd_counters]; rewrite nth_vadd by (rewrite H, length_delta; reflexivity); reflexivity
          | cbn [delta]; rewrite nth_zeros, N.add_0_r;
            first [ reflexivity
                  | match goal with |- context [set_once ?o ?v] => destruct (set_once o v) end; reflexivity
                  | destruct (k_fatal s); reflexivity ] ].
Qed.

Lemma counters_nth i : forall a s, length (k_counters s) = 31%nat ->
  nth i (k_counters (fold_left update a s)) 0 = nth i (k_counters s) 0 + sumN (map (dnth i) a).
Proof.
  induction a as [|x a IH]; intros s H; unfold sumN; cbn [fold_left map fold_right]; [lia|].
  rewrite IH by (apply update_counters_len; exact H).
  rewrite (update_counters_nth i s x H). unfold sumN. lia.
Qed.

(* ------------------------------------------------------------------ sums over the two streams *)
Lemma sumN_app l1 l2 : sumN (l1 ++ l2) = sumN l1 + sumN l2.
Proof. unfold sumN. induction l1 as [|x l1 IH]; cbn [app fold_right]; [lia|]. rewrite IH. lia. Qed.
Lemma sumN_cons x l : sumN (x :: l) = x + sumN l.
Proof. reflexivity. Qed.
Lemma sumN_zero {A} (g : A -> N) l : (forall x, In x l -> g x = 0) -> sumN (map g l) = 0.
Proof.
  unfold sumN. induction l as [|x l IH]; intros H; cbn [map fold_right]; [reflexivity|].
  rewrite (H x (or_introl eq_refl)), IH; [reflexivity|]. intros y Hy. apply H. right. exact Hy.
Qed.
Lemma sumN_flat_map {A B} (g : B -> N) (f : A -> list B) l :
  sumN (map g (flat_map f l)) = sumN (map (fun a => sumN (map g (f a))) l).
Proof. induction l as [|x l IH]; [reflexivity|]. cbn [flat_map map]. rewrite map_app, sumN_app, IH. unfold sumN. cbn [fold_right]. reflexivity. Qed.

Lemma counter_sum i a : counter (collect_all a) i = sumN (map (dnth i) a).
Proof.
  unfold counter, collect_all. rewrite counters_nth by reflexivity. cbn [k_counters cinit]. rewrite nth_zeros. lia.
Qed.

(* the reader's plain emissions never touch a counter *)
Lemma forward_plain_dnth i x : (match x with IS_link _ | IS_fee _ | IS_trig _ | IS_fmt _ | IS_sysid _ => true | _ => false end) = true ->
  dnth i (forward x) = 0.
Proof.
  unfold dnth. destruct x; cbn [forward]; try discriminate; intros _; try (cbn [delta]; apply nth_zeros).
  destruct (known_sysid s); cbn [delta]; apply nth_zeros.
Qed.

Lemma main_counters i version o n m q : il_plain o = true ->
  sumN (map (dnth i) (main_stream version (o ++ [IS_seen n; IS_filtered m; IS_payload q]))) =
  dnth i (CS_seen n) + dnth i (CS_filtered m) + dnth i (CS_payload q).
Proof.
  intros Hp. unfold main_stream. cbn [map]. rewrite map_app, map_app. unfold sumN at 1. cbn [fold_right]. fold (sumN (map (dnth i) (map forward o) ++ map (dnth i) (map forward [IS_seen n; IS_filtered m; IS_payload q]))).
  rewrite sumN_app, map_map.
  rewrite (sumN_zero (fun x => dnth i (forward x)) o).
  - unfold dnth at 1. cbn [delta]. rewrite nth_zeros. unfold sumN. cbn [map forward fold_right]. lia.
  - intros x Hx. apply forward_plain_dnth. unfold il_plain in Hp. exact (proj1 (forallb_forall _ _) Hp x Hx).
Qed.

(* the analysis thread's messages: per-index sums over one batch *)
Definition pkt_contrib (i : nat) (its : bool) (p : cdp) : N :=
  dnth i (CS_trigger (r_trigger_type (c_rdh p))) + (if its then dnth i (layer_stave_msg (c_rdh p)) else 0).

Lemma analysis_batch_sum i its b :
  sumN (map (dnth i) (analysis_batch its b)) =
  sumN (map (pkt_contrib i its) b) + dnth i (CS_hbfs (N.of_nat (length (filter (fun p => r_stop_bit (c_rdh p) =? 1) b)))).
Proof.
  unfold analysis_batch. rewrite map_app, sumN_app, sumN_flat_map. f_equal.
  - f_equal. apply map_ext. intros p. unfold pkt_contrib. destruct its; unfold sumN; cbn [map fold_right]; lia.
  - unfold sumN. cbn [map fold_right]. lia.
Qed.

Lemma layer_stave_dnth i r : dnth i (layer_stave_msg r) = 0.
Proof. unfold dnth, layer_stave_msg. cbn [delta]. apply nth_zeros. Qed.

Lemma analysis_sum i batches :
  sumN (map (dnth i) (analysis_stream batches)) =
  sumN (map (fun p => dnth i (CS_trigger (r_trigger_type (c_rdh p)))) (concat batches)) +
  sumN (map (fun b => dnth i (CS_hbfs (N.of_nat (length (filter (fun p => r_stop_bit (c_rdh p) =? 1) b))))) batches).
Proof.
  unfold analysis_stream. set (its := match concat batches with _ :: _ => _ | [] => false end). clearbody its.
  rewrite sumN_flat_map.
  induction batches as [|b bs IH]; [reflexivity|].
  cbn [map concat]. rewrite map_app, sumN_app, !sumN_cons, IH, analysis_batch_sum.
  assert (E : sumN (map (pkt_contrib i its) b) = sumN (map (fun p => dnth i (CS_trigger (r_trigger_type (c_rdh p)))) b)).
  { f_equal. apply map_ext. intros p. unfold pkt_contrib. destruct its; rewrite ?layer_stave_dnth; lia. }
  rewrite E. lia.
Qed.

(* ------------------------------------------------------------------ ordered statistics *)
Definition link_of (x : cstat) : list N := match x with CS_link l => [l] | _ => [] end.
Definition fee_of (x : cstat) : list N := match x with CS_fee l => [l] | _ => [] end.

Lemma links_fold : forall a s, k_links (fold_left update a s) = k_links s ++ flat_map link_of a.
Proof.
  induction a as [|x a IH]; intros s; cbn [fold_left flat_map]; [rewrite app_nil_r; reflexivity|].
  rewrite IH. destruct x; cbn [update link_of app];
    first [ reflexivity
          | cbn [k_links upd_lists]; rewrite <- app_assoc; reflexivity
          | match goal with |- context [set_once ?o ?v] => destruct (set_once o v) end; reflexivity
          | destruct (k_fatal s); reflexivity ].
Qed.

Lemma fees_fold : forall a s, k_fees (fold_left update a s) = fold_left (fun acc f => add_new f acc) (flat_map fee_of a) (k_fees s).
Proof.
  induction a as [|x a IH]; intros s; cbn [fold_left flat_map]; [reflexivity|].
  rewrite IH. destruct x; cbn [update fee_of app fold_left];
    first [ reflexivity
          | match goal with |- context [set_once ?o ?v] => destruct (set_once o v) end; reflexivity
          | destruct (k_fatal s); reflexivity ].
Qed.

Lemma forward_links o : il_plain o = true -> flat_map link_of (map forward o) = il_links o.
Proof.
  unfold il_links. induction o as [|x o IH]; intros H; [reflexivity|]. cbn [il_plain forallb] in H. apply andb_prop in H. destruct H as [Hx Ho].
  cbn [map flat_map]. rewrite (IH Ho). destruct x; cbn [forward link_of app] in *; try discriminate; try reflexivity. destruct (known_sysid s); reflexivity.
Qed.
Lemma forward_fees o : il_plain o = true -> flat_map fee_of (map forward o) = il_fees o.
Proof.
  unfold il_fees. induction o as [|x o IH]; intros H; [reflexivity|]. cbn [il_plain forallb] in H. apply andb_prop in H. destruct H as [Hx Ho].
  cbn [map flat_map]. rewrite (IH Ho). destruct x; cbn [forward fee_of app] in *; try discriminate; try reflexivity. destruct (known_sysid s); reflexivity.
Qed.

Lemma analysis_no_links batches : flat_map link_of (analysis_stream batches) = [] /\ flat_map fee_of (analysis_stream batches) = [].
Proof.
  unfold analysis_stream. set (its := match concat batches with _ :: _ => _ | [] => false end). clearbody its.
  assert (B : forall b, flat_map link_of (analysis_batch its b) = [] /\ flat_map fee_of (analysis_batch its b) = []).
  { intros b. unfold analysis_batch. rewrite !flat_map_app. cbn [flat_map link_of fee_of app].
    induction b as [|p b IHb]; [split; reflexivity|]. cbn [flat_map]. rewrite !flat_map_app.
    destruct IHb as [I1 I2]. rewrite !app_nil_r in *. rewrite I1, I2. destruct its; split; reflexivity. }
  induction batches as [|b bs IH]; [split; reflexivity|]. cbn [flat_map]. rewrite !flat_map_app.
  destruct (B b) as [B1 B2]. destruct IH as [I1 I2]. rewrite B1, B2, I1, I2. split; reflexivity.
Qed.

(* first-seen lists are stable under a second pass *)
Lemma addn_is_add_new x l : add_new x l = addn x l.  Proof. reflexivity. Qed.

Lemma fold_addn_nodup : forall l acc, NoDup acc -> NoDup (fold_left (fun a x => addn x a) l acc).
Proof.
  induction l as [|x l IH]; intros acc H; cbn [fold_left]; [exact H|]. apply IH. unfold addn.
  destruct (existsb (N.eqb x) acc) eqn:E; [exact H|].
  apply NoDup_snoc; [exact H|]. intros Hin. assert (existsb (N.eqb x) acc = true) by (apply existsb_exists; exists x; split; [exact Hin|apply N.eqb_refl]). congruence.
Qed.

Lemma fold_addn_id : forall l acc, NoDup (acc ++ l) -> fold_left (fun a x => addn x a) l acc = acc ++ l.
Proof.
  induction l as [|x l IH]; intros acc H; cbn [fold_left]; [rewrite app_nil_r; reflexivity|].
  assert (Hn : existsb (N.eqb x) acc = false).
  { destruct (existsb (N.eqb x) acc) eqn:E; [|reflexivity]. exfalso.
    apply existsb_exists in E. destruct E as (y & Hy & Ey). apply N.eqb_eq in Ey. subst y.
    apply NoDup_remove_2 in H. apply H. apply in_or_app. left. exact Hy. }
  unfold addn at 2. rewrite Hn. rewrite IH; [rewrite <- app_assoc; reflexivity|]. rewrite <- app_assoc. exact H.
Qed.

Lemma first_seen_idem l : first_seen_list (first_seen_list l) = first_seen_list l.
Proof.
  unfold first_seen_list at 1. rewrite fold_addn_id; [reflexivity|]. cbn [app]. apply fold_addn_nodup. constructor.
Qed.

(* ------------------------------------------------------------------ set-once statistics *)
Lemma once_of_forward o : il_plain o = true ->
  (forall y, In (IS_sysid y) o -> known_sysid y = true) ->
  filter is_once (map forward o) = map forward (il_first o).
Proof.
  unfold il_first. induction o as [|x o IH]; intros H K; [reflexivity|]. cbn [il_plain forallb] in H. apply andb_prop in H. destruct H as [Hx Ho].
  assert (K' : forall y, In (IS_sysid y) o -> known_sysid y = true) by (intros y Hy; apply K; right; exact Hy).
  specialize (IH Ho K').
  destruct x; cbn [forward is_once map filter] in *; try discriminate; rewrite ?IH; try reflexivity.
  rewrite (K s (or_introl eq_refl)). cbn [is_once]. rewrite ?IH. reflexivity.
Qed.

Lemma analysis_no_once batches : filter is_once (analysis_stream batches) = [].
Proof.
  apply Interleave.filter_none. intros y Hy. unfold analysis_stream in Hy. apply in_flat_map in Hy. destruct Hy as (b & _ & Hy).
  unfold analysis_batch in Hy. apply in_app_or in Hy. destruct Hy as [Hy|[<-|[]]]; [|reflexivity].
  apply in_flat_map in Hy. destruct Hy as (p & _ & Hy). destruct Hy as [<-|Hy]; [reflexivity|].
  destruct (match concat batches with [] => false | _ :: _ => _ end); [destruct Hy as [<-|[]]; reflexivity|destruct Hy].
Qed.

(* ------------------------------------------------------------------ the theorem *)
Definition version_of (pkts : list packet) : N := match pkts with p :: _ => r_header_id (hdr p) | [] => 0 end.
Definition sel_pkts (c : scfg) (pkts : list packet) : list packet := filter (pmatch c) pkts.

Lemma batches_are_selected (b k : bool) : b = true -> forall c pkts, Forall wf_pkt pkts ->
  map c_rdh (concat (so_batches (scan b k c (serialize pkts)))) = map hdr (sel_pkts c pkts).
Proof.
  intros Hb c pkts Hwf. destruct (c03_scan_exact_when b k Hb c pkts Hwf) as (_ & Hc & _). rewrite Hc.
  unfold sel_pkts. rewrite <- (selected_snd c pkts 0), !map_map. reflexivity.
Qed.

Lemma sum_count {A} (f : A -> bool) (g : A -> N) l : (forall x, g x = if f x then 1 else 0) ->
  sumN (map g l) = N.of_nat (length (filter f l)).
Proof.
  intros H. induction l as [|x l IH]; [reflexivity|]. cbn [map filter]. rewrite sumN_cons, IH, H.
  destruct (f x); cbn [length]; lia.
Qed.

Lemma hbfs_sum : forall batches : list (list cdp),
  sumN (map (fun b => N.of_nat (length (filter (fun p => r_stop_bit (c_rdh p) =? 1) b))) batches) =
  N.of_nat (length (filter (fun p => r_stop_bit (c_rdh p) =? 1) (concat batches))).
Proof.
  induction batches as [|b bs IH]; [reflexivity|]. cbn [map concat]. rewrite sumN_cons, IH, filter_app, app_length. lia.
Qed.

Lemma filter_map_rdh (f : rdh -> bool) (l : list cdp) (l' : list packet) :
  map c_rdh l = map hdr l' -> length (filter (fun p => f (c_rdh p)) l) = length (filter (fun p => f (hdr p)) l').
Proof.
  revert l'. induction l as [|x l IH]; intros [|y l'] H; cbn [map] in H; try discriminate; [reflexivity|].
  injection H as Hx Hl. cbn [filter]. rewrite Hx. destruct (f (hdr y)); cbn [length]; rewrite (IH l' Hl); reflexivity.
Qed.

Lemma c14_truth_when (b k : bool) : b = true -> forall c pkts analysed, Forall wf_pkt pkts ->
  N.of_nat (length pkts) < U32_MAX -> pay_all pkts < U32_MAX ->
  let out := scan b k c (serialize pkts) in
  let s := collect_all (stats_arrival (version_of pkts) out analysed) in
  let t := truth (match sc_filter c with Some _ => true | None => false end) (pmatch c) pkts in
  counter s IDX_SEEN = gt_rdhs_seen t /\ counter s IDX_FILTERED = gt_rdhs_filtered t /\ counter s IDX_PAYLOAD = gt_payload t /\
  k_links s = gt_links t /\ k_fees s = gt_fees t /\
  (forall p r, pkts = p :: r -> known_sysid (r_system_id (hdr p)) = true ->
     k_version s = Some (r_header_id (hdr p)) /\ k_run_trigger s = Some (r_trigger_type (hdr p)) /\
     k_format s = Some (rdh_data_format (hdr p)) /\ k_sysid s = Some (r_system_id (hdr p)) /\ k_set_twice s = false) /\
  (analysed = true ->
     counter s IDX_HBFS = gt_hbfs (sel_pkts c pkts) /\
     forall j, (j < 20)%nat -> counter s (4 + j) = gt_trigger_bit (nth j trigger_bits 0) (sel_pkts c pkts)).
Proof.
  intros Hb c pkts analysed Hwf Hn Hp. cbn zeta.
  destruct (c14_scan_stats_when b k Hb c pkts Hwf Hn Hp) as (o & Eo & Hl & Hf & Hpl & Hfi).
  set (out := scan b k c (serialize pkts)) in *.
  set (an := if analysed then analysis_stream (so_batches out) else []).
  assert (Ean : forall i, sumN (map (dnth i) an) =
                 if analysed then sumN (map (fun p => dnth i (CS_trigger (r_trigger_type (c_rdh p)))) (concat (so_batches out))) +
                                  sumN (map (fun b0 => dnth i (CS_hbfs (N.of_nat (length (filter (fun p => r_stop_bit (c_rdh p) =? 1) b0))))) (so_batches out))
                 else 0).
  { intros i. subst an. destruct analysed; [apply analysis_sum|reflexivity]. }
  unfold stats_arrival. fold an. rewrite Eo.
  set (nf := match sc_filter c with Some _ => N.of_nat (length (filter (pmatch c) pkts)) | None => 0 end) in *.
  set (np := pay_all (filter (pmatch c) pkts)) in *.
  assert (CNT : forall i, counter (collect_all (main_stream (version_of pkts) (o ++ [IS_seen (N.of_nat (length pkts)); IS_filtered nf; IS_payload np]) ++ an)) i =
                dnth i (CS_seen (N.of_nat (length pkts))) + dnth i (CS_filtered nf) + dnth i (CS_payload np) + sumN (map (dnth i) an)).
  { intros i. rewrite counter_sum, map_app, sumN_app, (main_counters i _ o _ _ _ Hpl). reflexivity. }
  assert (Z012 : forall i, (i < 3)%nat -> sumN (map (dnth i) an) = 0).
  { intros i Hi. rewrite Ean. destruct analysed; [|reflexivity].
    rewrite !sumN_zero; [reflexivity| |]; intros x _; unfold dnth; destruct i as [|[|[|i]]]; try lia; reflexivity. }
  unfold IDX_SEEN, IDX_FILTERED, IDX_PAYLOAD, IDX_HBFS.
  split; [rewrite CNT, (Z012 0%nat) by lia; unfold dnth; cbn; lia|].
  split; [rewrite CNT, (Z012 1%nat) by lia; unfold dnth; cbn; subst nf; destruct (sc_filter c); lia|].
  split; [rewrite CNT, (Z012 2%nat) by lia; unfold dnth; cbn; subst np; unfold pay_all; lia|].
  assert (AL : flat_map link_of an = [] /\ flat_map fee_of an = []) by (subst an; destruct analysed; [apply analysis_no_links|split; reflexivity]).
  destruct AL as [AL AF].
  split.
  { unfold collect_all. rewrite links_fold. cbn [k_links cinit app]. unfold main_stream. rewrite flat_map_app. cbn [flat_map link_of app].
    rewrite map_app, flat_map_app, (forward_links o Hpl), AL. cbn [map forward flat_map link_of app]. rewrite !app_nil_r. exact Hl. }
  split.
  { unfold collect_all. rewrite fees_fold. cbn [k_fees cinit]. unfold main_stream. rewrite flat_map_app. cbn [flat_map fee_of app].
    rewrite map_app, flat_map_app, (forward_fees o Hpl), AF. cbn [map forward flat_map fee_of app]. rewrite !app_nil_r.
    rewrite Hf. apply first_seen_idem. }
  split.
  { intros p r -> Hk.
    assert (Ho : g_once (collect_all (main_stream (version_of (p :: r)) (o ++ [IS_seen (N.of_nat (length (p :: r))); IS_filtered nf; IS_payload np]) ++ an)) =
                 (Some (r_header_id (hdr p)), Some (rdh_data_format (hdr p)), Some (r_system_id (hdr p)), Some (r_trigger_type (hdr p)), false)).
    { unfold collect_all.
      rewrite (comp_fold g_once is_once) with (s' := cinit); [| | |reflexivity].
      - rewrite filter_app. assert (An : filter is_once an = []) by (subst an; destruct analysed; [apply analysis_no_once|reflexivity]).
        rewrite An, app_nil_r. unfold main_stream. cbn [filter is_once]. rewrite map_app, filter_app.
        rewrite (once_of_forward o Hpl).
        + rewrite Hfi. cbn [first3 map forward filter is_once app]. rewrite Hk. cbn [version_of fold_left]. reflexivity.
        + intros y Hy. assert (Hin : In (IS_sysid y) (il_first o)) by (unfold il_first; apply filter_In; split; [exact Hy|reflexivity]).
          rewrite Hfi in Hin. cbn in Hin. destruct Hin as [E|[E|[E|[]]]]; try discriminate. injection E as <-. exact Hk.
      - intros s0 x Px; destruct x; cbn in Px |- *; try discriminate; try reflexivity.
        all: unfold g_once; cbn; try reflexivity; destruct (k_fatal s0); reflexivity.
      - intros s0 s1 x E. unfold g_once in *. injection E as E1 E2 E3 E4 E5.
        destruct x; cbn; try (rewrite E1, E2, E3, E4, E5; reflexivity).
        + unfold set_once. rewrite E1. destruct (k_version s1); cbn; rewrite E2, E3, E4, E5; reflexivity.
        + unfold set_once. rewrite E2. destruct (k_format s1); cbn; rewrite E1, E3, E4, E5; reflexivity.
        + unfold set_once. rewrite E3. destruct (k_sysid s1); cbn; rewrite E1, E2, E4, E5; reflexivity.
        + unfold set_once. rewrite E4. destruct (k_run_trigger s1); cbn; rewrite E1, E2, E3, E5; reflexivity.
        + destruct (k_fatal s0); destruct (k_fatal s1); cbn; rewrite E1, E2, E3, E4, E5; reflexivity.
        + destruct (k_fatal s0); destruct (k_fatal s1); cbn; rewrite E1, E2, E3, E4, E5; reflexivity. }
    unfold g_once in Ho. injection Ho as V1 V2 V3 V4 V5. repeat split; assumption. }
  intros ->. pose proof (batches_are_selected b k Hb c pkts Hwf) as BS. fold out in BS.
  split.
  - rewrite CNT, Ean.
    rewrite (sumN_zero (fun p => dnth 3 (CS_trigger (r_trigger_type (c_rdh p))))) by (intros x _; reflexivity).
    replace (map (fun b0 => dnth 3 (CS_hbfs (N.of_nat (length (filter (fun p => r_stop_bit (c_rdh p) =? 1) b0))))) (so_batches out))
      with (map (fun b0 => N.of_nat (length (filter (fun p => r_stop_bit (c_rdh p) =? 1) b0))) (so_batches out))
      by (apply map_ext; intros; reflexivity).
    rewrite hbfs_sum. unfold gt_hbfs.
    rewrite (filter_map_rdh (fun r => r_stop_bit r =? 1) _ _ BS). unfold dnth. cbn. lia.
  - intros j Hj. rewrite CNT, Ean.
    rewrite (sumN_zero (fun b0 => dnth (4 + j) (CS_hbfs _))) by (intros x _; unfold dnth; cbn [delta]; clear -Hj; do 20 (destruct j as [|j]; [reflexivity|]); lia).
    unfold gt_trigger_bit.
    rewrite (sum_count (fun p => N.testbit (r_trigger_type (c_rdh p)) (nth j trigger_bits 0))).
    + rewrite (filter_map_rdh (fun r => N.testbit (r_trigger_type r) (nth j trigger_bits 0)) _ _ BS).
      unfold dnth. cbn [delta]. clear -Hj. do 20 (destruct j as [|j]; [cbn; lia|]). lia.
    + intros p. unfold dnth. cbn [delta]. clear -Hj. do 20 (destruct j as [|j]; [cbn; destruct (N.testbit _ _); reflexivity|]). lia.
Qed.
