(* C02/C11, calibration data words: the documented layout of a CDW and the rule of checks_list.md
   "CDW where user_field != previous CDW user_field: CDW index == 0" ([E81]), as an iff. *)
From Coq Require Import List NArith Bool Lia ZifyBool ZifyN.
Import ListNotations.
From FP Require Import Model.Base Model.ItsWords Model.ItsFsm Model.Rdh Model.CdpRunning Model.Link Spec.WordLayout.
From FP Require Import Proofs.Bits Proofs.WordFacts Proofs.C02_proofs.
From FP Require Gen.Facts.
Open Scope N_scope.

Lemma land_shiftl_small a b n : b < 2 ^ n -> N.land (N.shiftl a n) b = 0.
Proof.
  intros Hb. apply N.bits_inj. intros i. rewrite N.land_spec, N.bits_0.
  destruct (N.lt_ge_cases i n) as [L|G].
  - rewrite N.shiftl_spec_low by exact L. reflexivity.
  - assert (E : b = b mod 2 ^ n) by (symmetry; apply N.mod_small; exact Hb).
    rewrite E, N.mod_pow2_bits_high by exact G. apply andb_false_r.
Qed.
Lemma lor_shiftl_add a b n : b < 2 ^ n -> N.lor (N.shiftl a n) b = a * 2 ^ n + b.
Proof.
  intros Hb. rewrite <- N.lxor_lor by (apply land_shiftl_small; exact Hb).
  rewrite <- N.add_nocarry_lxor by (apply land_shiftl_small; exact Hb). rewrite N.shiftl_mul_pow2. reflexivity.
Qed.

(* documented layout: user fields = bits 47:0, word index = bits 71:48 *)
Lemma cdw_user_fields_spec w : word_ok w -> cdw_user_fields w = f80 w 0 48.
Proof.
  intros H; word_destruct H.
  unfold cdw_user_fields, cdw_lsb_user, le64, nb; spec_unfold.
  change 281474976710655 with (N.ones 48). rewrite N.land_ones; pow_norm. lia.
Qed.
Lemma cdw_index_spec w : word_ok w -> cdw_index w = f80 w 48 24.
Proof.
  intros H; word_destruct H.
  unfold cdw_index, cdw_lsb_user, le64, wrap32, nb; spec_unfold.
  rewrite N.shiftr_div_pow2; pow_norm.
  rewrite (lor_shiftl_add _ _ 16) by (pow_norm; lia). pow_norm. lia.
Qed.

(* ---- the rule ---- *)
Definition is_data_res (r : fres) : Prop := r = F_ok P_Data \/ r = F_ok P_CDW.
(* the documented condition for [E81], on the documented fields *)
Definition cdw_rule_broken (prev : option (list N)) (w : list N) : Prop :=
  exists p, prev = Some p /\ cdw_user_fields p <> cdw_user_fields w /\ cdw_index w <> 0.

(* the first data-phase word of a packet with identifier 0xF8 is a calibration data word: it is remembered, and under
   `check all` it is reported with [E81] exactly when the rule is broken -- nothing else is ever reported for it *)
Lemma c02_cdw_rule c s w : is_data_res (snd (advance (cs_fsm s) w)) -> cs_start_of_data s = true -> nb 9 w = Gen.Facts.cdw_id ->
  exists s1 m, cdp_check c s w = Ok (s1, m) /\
    (v_running c = true -> (has_err (pos_of s) 81 m <-> cdw_rule_broken (sw_cdw (cs_words s)) w) /\ sw_cdw (cs_words s1) = Some w) /\
    (v_running c = false -> m = []) /\
    (forall x, In x m -> err_at (pos_of s) 81 x) /\ cs_start_of_data s1 = false.
Proof.
  intros Ha Hsod Hid. unfold cdp_check. destruct (advance (cs_fsm (set_counter s _)) w) as [f' r] eqn:E.
  cbn [cs_fsm set_counter] in E. rewrite E in Ha. cbn [snd] in Ha.
  assert (G : exists s1 m, preprocess_data_word c (set_fsm (set_counter s (wrap16 (cs_counter s + 1))) f') w = Ok (s1, m) /\
    (v_running c = true -> (has_err (pos_of s) 81 m <-> cdw_rule_broken (sw_cdw (cs_words s)) w) /\ sw_cdw (cs_words s1) = Some w) /\
    (v_running c = false -> m = []) /\ (forall x, In x m -> err_at (pos_of s) 81 x) /\ cs_start_of_data s1 = false).
  { unfold preprocess_data_word. cbn [cs_start_of_data set_fsm set_counter cs_words]. rewrite Hsod, Hid, N.eqb_refl. cbn [andb].
    destruct (v_running c) eqn:Hr; cbn [negb].
    2:{ eexists. eexists. split; [reflexivity|]. split; [discriminate|]. split; [reflexivity|]. split; [intros x []|reflexivity]. }
    eexists. eexists. split; [reflexivity|]. split; [intros _; split; [|reflexivity]|split; [discriminate|split; [|reflexivity]]].
    - unfold cdw_rule_broken. destruct (sw_cdw (cs_words s)) as [p|].
      + destruct (N.eqb_spec (cdw_user_fields p) (cdw_user_fields w)) as [Eu|Nu]; cbn [negb andb].
        * split; [intros [x [[] _]]|intros [q [Hq [Hn _]]]; injection Hq as <-; contradiction].
        * destruct (N.eqb_spec (cdw_index w) 0) as [Ei|Ni]; cbn [negb].
          -- split; [intros [x [[] _]]|intros [q [_ [_ Hn]]]; contradiction].
          -- split; [intros _; exists p; auto|intros _]. eexists. split; [left; reflexivity|]. cbn. split; reflexivity.
      + split; [intros [x [[] _]]|intros [q [Hq _]]; discriminate].
    - intros x Hx. destruct (sw_cdw (cs_words s)) as [p|]; [|destruct Hx].
      destruct (negb _ && negb _); [|destruct Hx]. destruct Hx as [<-|[]]. cbn. split; reflexivity. }
  destruct Ha as [-> | ->]; exact G.
Qed.

(* anywhere else the identifier 0xF8 is no data word identifier: [E70] at the word *)
Lemma cdw_id_not_data : is_valid_any_id Gen.Facts.cdw_id = false /\ N.shiftr Gen.Facts.cdw_id 5 = 7.
Proof. split; reflexivity. Qed.
Lemma c02_cdw_elsewhere c s w : is_data_res (snd (advance (cs_fsm s) w)) -> cs_start_of_data s = false -> nb 9 w = Gen.Facts.cdw_id ->
  exists s1, cdp_check c s w = Ok (s1, [werr (set_counter s (wrap16 (cs_counter s + 1))) 70 w]) /\
             sw_cdw (cs_words s1) = sw_cdw (cs_words s).
Proof.
  intros Ha Hsod Hid. unfold cdp_check. destruct (advance (cs_fsm (set_counter s _)) w) as [f' r] eqn:E.
  cbn [cs_fsm set_counter] in E. rewrite E in Ha. cbn [snd] in Ha.
  assert (G : exists s1, preprocess_data_word c (set_fsm (set_counter s (wrap16 (cs_counter s + 1))) f') w
                         = Ok (s1, [werr (set_counter s (wrap16 (cs_counter s + 1))) 70 w]) /\ sw_cdw (cs_words s1) = sw_cdw (cs_words s)).
  { unfold preprocess_data_word. cbn [cs_start_of_data set_fsm set_counter]. rewrite Hsod. cbn [andb]. rewrite Hid.
    destruct cdw_id_not_data as [Hv Hc]. rewrite Hv, Hc. cbn [N.eqb orb negb]. rewrite orb_true_r.
    eexists. split; [reflexivity|reflexivity]. }
  destruct Ha as [-> | ->]; exact G.
Qed.
