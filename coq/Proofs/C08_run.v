(* C08 / C16 for one whole filtered-writing run: a well-framed, recognised input with a filter and an output (no check, no view) ends with
   zero errors and exit status 0 whatever any-errors exit code is configured, in every delivery order of the statistics, and the bytes
   written are exactly the selected packets (C08_exact). *)
From Coq Require Import List NArith ZArith Bool Lia ZifyBool ZifyN ZifyNat Arith Permutation.
From FP Require Import Model.Base Model.Rdh Model.RdhChecks Model.Alpide Model.Scanner Model.CdpRunning Model.Link Model.Collector Model.Views
  Model.System Model.SystemView Model.Writer Spec.RdhRules Spec.Framing Spec.GroundTruth
  Proofs.Interleave Proofs.C03_proofs Proofs.C05_proofs Proofs.C08_proofs Proofs.C14_proofs Proofs.C04_system Proofs.C05_run Proofs.C05_reportless.
From FP Require Gen.Facts.
Import ListNotations.
Open Scope N_scope.

(* a delivery that holds no error and no fatal message ends in a clean state *)
Lemma finish_rl_clean ff c a : rc_counts c = {| cc_cdps := None; cc_pht := None |} ->
  (forall x, In x a -> match x with CS_error _ | CS_fatal _ => False | _ => True end) ->
  exists s, finish_rl ff c a = R_done s [] 0 /\ k_total s = 0 /\ k_errors s = [] /\ k_fatal s = None /\ k_custom s = [].
Proof.
  intros Hcustom Hclean.
  assert (Nf : forall m, ~ In (CS_fatal m) a) by (intros m Hm; exact (Hclean _ Hm)).
  assert (Ne : flat_map msg_of a = []).
  { clear -Hclean. induction a as [|x l IH]; [reflexivity|]. cbn [flat_map].
    rewrite IH by (intros y Hy; apply Hclean; right; exact Hy). pose proof (Hclean x (or_introl eq_refl)) as Hx.
    destruct x; try reflexivity. destruct Hx. }
  destruct (errors_fold a cinit eq_refl Nf) as [X F]. destruct (total_custom_fold a cinit eq_refl Nf) as [T C].
  fold (collect_all a) in X, F, T, C. rewrite Ne in X, T. cbn [k_errors k_total k_custom cinit app length] in X, T, C.
  pose proof (rest_const a) as R. unfold g_rest in R. injection R as _ _ R. cbn [k_finalized cinit] in R.
  unfold finish_rl. cbv zeta. rewrite Hcustom. unfold custom_errors. cbn [cc_cdps cc_pht app].
  set (s0 := collect_all a) in *.
  set (s2 := finalize Gen.Facts.error_sort_when_muted (rc_mute c) (add_custom s0 [])).
  assert (P : k_total s2 = 0 /\ k_errors s2 = [] /\ k_fatal s2 = None /\ k_custom s2 = []).
  { unfold s2, finalize, add_custom. cbn [k_finalized upd_errs]. rewrite R.
    cbn [k_total k_errors k_fatal k_custom upd_errs]. rewrite T, X, F, C.
    destruct (negb (rc_mute c) || Gen.Facts.error_sort_when_muted); repeat split; reflexivity. }
  destruct P as (P1 & P2 & P3 & P4). exists s2.
  rewrite P1, P3. cbn [N.ltb N.compare]. rewrite andb_false_r. cbn [orb].
  assert (Ex : exit_code (rc_exit c) Init_ok false = 0) by (unfold exit_code; destruct (rc_exit c); reflexivity).
  rewrite Ex. repeat split; assumption.
Qed.

Section Whole.
Context (c : run_cfg) (pkts : list packet).
Context (Hoff : Gen.Facts.cdp_offset_sampled_after = true).
Context (Hsort : Gen.Facts.error_sort_when_muted = true).
Context (Hwf : Forall wf_pkt pkts).
Context (Hn : N.of_nat (length pkts) < U32_MAX).
Context (Hpay : pay_all pkts < U32_MAX).
Context (Hknown : forall p r, pkts = p :: r -> known_sysid (r_system_id (hdr p)) = true).
Context (Hne : pkts <> []).
Context (Hrec : recognised (serialize pkts) = true).
Context (Hcustom : rc_counts c = {| cc_cdps := None; cc_pht := None |}).

Let input := serialize pkts.

Lemma input_long8 : Nat.ltb (length input) 8 = false.
Proof.
  apply Nat.ltb_ge. destruct pkts as [|p r]; [congruence|]. inversion Hwf as [|? ? Hp _]; subst.
  destruct Hp as ((Hl & _) & _). unfold input, serialize, p_bytes. cbn [map concat]. rewrite !app_length, Hl. lia.
Qed.

(* every delivery order of the statistics of a writing run of a well-framed input is clean *)
Lemma write_streams_clean a : Interleave (rl_streams c RL_write input) a ->
  forall x, In x a -> match x with CS_error _ | CS_fatal _ => False | _ => True end.
Proof.
  intros Ha x Hx.
  destruct (whole_streams c pkts Hoff Hwf Hn Hpay Hknown) as (o & tl & E & Hpl & Hk & Htl & _).
  assert (Em : main_stream (nth 0 input 0) (so_stats (scan_impl (rc_scan c) input)) = main_stream (nth 0 input 0) (o ++ tl)).
  { apply (f_equal (fun l => hd [] l)) in E. exact E. }
  pose proof (Permutation_in _ (interleave_perm _ _ Ha) Hx) as Hc. unfold rl_streams in Hc. cbv zeta in Hc. cbn [analysed_mode concat] in Hc.
  rewrite !app_nil_r in Hc. fold input in Hc. rewrite Em in Hc.
  pose proof (main_stream_kind _ o tl Hpl Hk Htl _ Hc) as K. destruct x; try discriminate; exact I.
Qed.

Theorem c08_whole_run ff max a : sc_skip (rc_scan c) = false -> Interleave (rl_streams c RL_write input) a ->
  (exists s, run_reportless ff c RL_write input = R_done s [] 0 /\ finish_rl ff c a = R_done s [] 0 /\
             k_total s = 0 /\ k_errors s = [] /\ k_fatal s = None /\ k_custom s = []) /\
  written max (rc_scan c) input = serialize (filter (pmatch (rc_scan c)) pkts).
Proof.
  intros Hskip Ha. split.
  - destruct (finish_rl_clean ff c a Hcustom (write_streams_clean a Ha)) as (s & E & P).
    exists s. split; [|split; [exact E|exact P]].
    pose proof (c05_reportless_run c RL_write pkts Hoff Hsort Hwf Hn Hpay Hknown ff a input_long8 Hrec I Ha) as Q. fold input in Q.
    rewrite <- Q. exact E.
  - exact (c08_exact_when Gen.Facts.cdp_offset_sampled_after Gen.Facts.batch_kept_on_invalid_input eq_refl max (rc_scan c) pkts Hskip Hwf).
Qed.
End Whole.
