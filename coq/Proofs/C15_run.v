(* C15 for whole runs: the statistics a whole `check` run ends with, under ANY thread schedule, are accepted without a mismatch by another
   run on the same input and options under ANY other schedule (and the two runs show the same messages and exit with the same status). *)
From Coq Require Import List NArith Bool.
From FP Require Import Model.Base Model.Rdh Model.Scanner Model.CdpRunning Model.Link Model.Collector Model.System Model.StatsCmp Model.StatsTree
  Spec.Framing Spec.GroundTruth Proofs.Interleave Proofs.C03_proofs Proofs.C05_proofs Proofs.C07_run Proofs.C14_proofs Proofs.C05_run Proofs.C15_proofs.
From FP Require Gen.Facts.
Import ListNotations.
Open Scope N_scope.

Theorem c15_whole_run (ok : bool) : ok = true -> ok = (all_ok && tree_shape_ok) ->
  forall c pkts, Gen.Facts.cdp_offset_sampled_after = true -> Gen.Facts.error_sort_when_muted = true ->
  Forall wf_pkt pkts -> N.of_nat (length pkts) < U32_MAX -> pay_all pkts < U32_MAX ->
  (sc_skip (rc_scan c) = true \/ forall p, In p pkts -> layout_rp (hdr p) (p_payload p)) ->
  (forall p r, pkts = p :: r -> known_sysid (r_system_id (hdr p)) = true) ->
  forall ff a1 a2 s1 sh1 e1 s2 sh2 e2 alp,
  Interleave (sender_streams c (serialize pkts)) a1 -> Interleave (sender_streams c (serialize pkts)) a2 ->
  run_check_sched ff c (serialize pkts) a1 = R_done s1 sh1 e1 -> run_check_sched ff c (serialize pkts) a2 = R_done s2 sh2 e2 ->
  sc_validate sleaf_eqb L_sub (tree_of alp s1) (tree_of alp s2) = [] /\ sh1 = sh2 /\ e1 = e2.
Proof.
  intros H1 H2 c pkts Hoff Hsort Hwf Hn Hpay Hlay Hk ff a1 a2 s1 sh1 e1 s2 sh2 e2 alp I1 I2 R1 R2.
  rewrite H1 in H2. symmetry in H2. apply andb_true_iff in H2. destruct H2 as [Ha Ht].
  rewrite (c05_whole_run c pkts Hoff Hwf Hn Hpay Hlay Hk ff a1 Hsort I1) in R1.
  rewrite (c05_whole_run c pkts Hoff Hwf Hn Hpay Hlay Hk ff a2 Hsort I2) in R2.
  rewrite R1 in R2. injection R2 as <- <- <-. split; [|split; reflexivity].
  apply sc_refl; [exact sleaf_eqb_ok|exact Ha|apply tree_of_wf; exact Ht].
Qed.
