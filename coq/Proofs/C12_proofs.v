(* C12: payloads are cut into words correctly; padding is never a word. *)
From Coq Require Import List NArith Bool Lia Arith.
From FP Require Import Model.Base Model.Payload.
Import ListNotations.
Open Scope N_scope.

Definition word10 (w : list N) : Prop := length w = 10%nat.

Lemma take_length n l : (n <= length l)%nat -> length (take n l) = n.
Proof. revert l; induction n as [|n IH]; intros [|x l] H; cbn in *; try lia. rewrite IH; lia. Qed.
Lemma take_app_exact l r : take (length l) (l ++ r) = l.
Proof. induction l as [|x l IH]; cbn; [destruct r; reflexivity|]. rewrite IH. reflexivity. Qed.
Lemma drop_app_exact l r : drop (length l) (l ++ r) = r.
Proof. induction l as [|x l IH]; cbn; [reflexivity|]. exact IH. Qed.
Lemma take_all l : take (length l) l = l.
Proof. induction l as [|x l IH]; cbn; [reflexivity|]. rewrite IH. reflexivity. Qed.
Lemma take_app_le n l r : (n <= length l)%nat -> take n (l ++ r) = take n l.
Proof.
  revert l; induction n as [|n IH]; intros [|x l] H; cbn in *; try lia; try reflexivity.
  rewrite IH by lia. reflexivity.
Qed.
Lemma drop_app_le n l r : (n <= length l)%nat -> drop n (l ++ r) = drop n l ++ r.
Proof.
  revert l; induction n as [|n IH]; intros [|x l] H; cbn in *; try lia; try reflexivity.
  apply IH. lia.
Qed.

(* ---- chunks of a concatenation of n-byte blocks followed by a short tail ---- *)
Lemma chunks_fuel_blocks n (Hn : (0 < n)%nat) : forall (bs : list (list N)) tail fuel,
  Forall (fun b => length b = n) bs -> (length tail < n)%nat ->
  (length bs <= fuel)%nat ->
  chunks_fuel fuel n (concat bs ++ tail) = bs.
Proof.
  induction bs as [|b bs IH]; intros tail fuel Hbs Ht Hf.
  - cbn [concat app]. destruct fuel; cbn [chunks_fuel]; [reflexivity|].
    destruct (Nat.ltb_spec (length tail) n); [reflexivity|lia].
  - inversion Hbs as [|? ? Hb Hbs']; subst.
    destruct fuel as [|fuel]; [cbn in Hf; lia|]. cbn [chunks_fuel concat].
    rewrite <- app_assoc.
    destruct (Nat.ltb_spec (length (b ++ concat bs ++ tail)) (length b)) as [Hlt|_].
    { rewrite app_length in Hlt. lia. }
    rewrite take_app_exact, drop_app_exact. f_equal.
    apply IH; try assumption. cbn in Hf. lia.
Qed.

Lemma concat_length_blocks n (bs : list (list N)) : Forall (fun b => length b = n) bs ->
  length (concat bs) = (length bs * n)%nat.
Proof.
  induction 1 as [|b bs Hb _ IH]; cbn; [reflexivity|]. rewrite app_length, IH, Hb. lia.
Qed.

Lemma chunks_exact_blocks n (bs : list (list N)) tail : (0 < n)%nat ->
  Forall (fun b => length b = n) bs -> (length tail < n)%nat ->
  chunks_exact n (concat bs ++ tail) = bs.
Proof.
  intros Hn Hbs Ht. unfold chunks_exact. apply chunks_fuel_blocks; try assumption.
  rewrite app_length, (concat_length_blocks n) by assumption. nia.
Qed.

Lemma chunks_exact_blocks0 n (bs : list (list N)) : (0 < n)%nat ->
  Forall (fun b => length b = n) bs -> chunks_exact n (concat bs) = bs.
Proof.
  intros Hn Hbs. rewrite <- (app_nil_r (concat bs)). apply chunks_exact_blocks; try assumption.
Qed.

(* ---- trailing 0xFF run ---- *)
Lemma take_while_ff_repeat k r :
  (match r with [] => True | x :: _ => x <> 255 end) ->
  take_while_ff (repeat 255 k ++ r) = k.
Proof.
  intros Hr. induction k as [|k IH]; cbn [repeat app].
  - destruct r as [|x r]; [reflexivity|]. cbn [take_while_ff].
    destruct (N.eqb_spec x 255); [contradiction|reflexivity].
  - cbn [take_while_ff]. change (255 =? 255) with true. cbn iota. rewrite IH. reflexivity.
Qed.

Lemma rev_repeat {A} (x : A) k : rev (repeat x k) = repeat x k.
Proof.
  induction k as [|k IH]; [reflexivity|]. cbn. rewrite IH.
  clear IH. induction k as [|k IH]; [reflexivity|]. cbn. rewrite IH. reflexivity.
Qed.

Definition last_not_ff (l : list N) : Prop :=
  match rev l with [] => True | x :: _ => x <> 255 end.

Lemma ff_run_padded body k : last_not_ff body -> ff_run (body ++ repeat 255 k) = k.
Proof.
  intros H. unfold ff_run. rewrite rev_app_distr, rev_repeat. apply take_while_ff_repeat. exact H.
Qed.

(* ---- format 2 ---- *)
Lemma map_take10_words ws : Forall word10 ws -> map (take 10) ws = ws.
Proof.
  induction 1 as [|w ws Hw _ IH]; cbn [map]; [reflexivity|]. rewrite IH. f_equal.
  unfold word10 in Hw. rewrite <- Hw. apply take_all.
Qed.

Lemma c12_fmt2 ws p :
  Forall word10 ws -> (p <= 15)%nat -> last_not_ff (concat ws) ->
  detect_fmt0 (concat ws ++ repeat 255 p) = false ->
  words_of (concat ws ++ repeat 255 p) = Some ws /\ slot_of (concat ws ++ repeat 255 p) = 10%nat.
Proof.
  intros Hws Hp Hlast Hdet. unfold words_of, slot_of, preprocess.
  rewrite (ff_run_padded _ _ Hlast), Hdet.
  destruct (Nat.ltb_spec 15 p) as [|_]; [lia|].
  destruct (Nat.ltb_spec 9 p) as [Hp9|Hp9].
  - rewrite app_length, repeat_length. replace (length (concat ws) + p - p)%nat with (length (concat ws)) by lia.
    rewrite take_app_exact.
    rewrite (chunks_exact_blocks0 10 ws) by (try assumption; lia).
    rewrite map_take10_words by assumption. split; reflexivity.
  - rewrite (chunks_exact_blocks 10 ws (repeat 255 p)) by (try assumption; rewrite ?repeat_length; lia).
    rewrite map_take10_words by assumption. split; reflexivity.
Qed.

(* ---- format 0 ---- *)
Definition slot0 (w : list N) : list N := w ++ repeat 0 6.

Lemma detect_fmt0_slots w ws tail : word10 w ->
  detect_fmt0 (concat (map slot0 (w :: ws)) ++ tail) = true.
Proof.
  intros Hw. unfold detect_fmt0. cbn [map concat]. unfold slot0 at 1.
  rewrite <- !app_assoc. unfold word10 in Hw.
  replace 10%nat with (length w) by assumption. rewrite drop_app_exact. reflexivity.
Qed.

Lemma last_not_ff_slots ws : ws <> [] -> last_not_ff (concat (map slot0 ws)).
Proof.
  intros Hne. unfold last_not_ff.
  destruct (exists_last Hne) as (ws' & w & ->).
  rewrite map_app, concat_app. cbn [map concat]. rewrite app_nil_r. unfold slot0.
  rewrite !rev_app_distr. cbn. discriminate.
Qed.

Lemma map_take10_slots ws : Forall word10 ws -> map (take 10) (map slot0 ws) = ws.
Proof.
  induction 1 as [|w ws Hw _ IH]; cbn [map]; [reflexivity|]. rewrite IH. f_equal.
  unfold slot0, word10 in *. rewrite <- Hw. apply take_app_exact.
Qed.

Lemma c12_fmt0 ws p :
  Forall word10 ws -> ws <> [] -> (p <= 15)%nat ->
  words_of (concat (map slot0 ws) ++ repeat 255 p) = Some ws /\
  slot_of (concat (map slot0 ws) ++ repeat 255 p) = 16%nat.
Proof.
  intros Hws Hne Hp. unfold words_of, slot_of, preprocess.
  rewrite (ff_run_padded _ _ (last_not_ff_slots ws Hne)).
  destruct (Nat.ltb_spec 15 p) as [|_]; [lia|].
  destruct ws as [|w ws]; [contradiction|].
  inversion Hws as [|? ? Hw Hws']; subst.
  rewrite (detect_fmt0_slots w ws _ Hw).
  rewrite (chunks_exact_blocks 16 (map slot0 (w :: ws)) (repeat 255 p)).
  - rewrite map_take10_slots by assumption. split; reflexivity.
  - lia.
  - apply Forall_map. apply Forall_impl with (P := word10); [|assumption].
    intros a Ha. unfold slot0, word10 in *. rewrite app_length, Ha. reflexivity.
  - rewrite repeat_length. lia.
Qed.

(* ---- too much padding ---- *)
Lemma c12_too_much p : (15 < ff_run p)%nat -> words_of p = None /\ preprocess p = Prep_err (ff_run p).
Proof.
  intros H. unfold words_of, preprocess.
  destruct (Nat.ltb_spec 15 (ff_run p)); [split; reflexivity|lia].
Qed.

Lemma c12_padding_ok p : (ff_run p <= 15)%nat -> exists s cs, preprocess p = Prep_ok s cs.
Proof.
  intros H. unfold preprocess. destruct (Nat.ltb_spec 15 (ff_run p)); [lia|].
  destruct (detect_fmt0 p); [eexists; eexists; reflexivity|].
  destruct (Nat.ltb 9 (ff_run p)); eexists; eexists; reflexivity.
Qed.

(* every examined chunk is the contiguous slice at index i * slot: words are examined once,
   in order, and word i starts i * slot bytes into the payload *)
Lemma drop_nil a : drop a [] = [].
Proof. destruct a; reflexivity. Qed.
Lemma drop_drop a b l : drop a (drop b l) = drop (b + a) l.
Proof.
  revert l; induction b as [|b IH]; intros l; cbn; [reflexivity|].
  destruct l as [|x l]; [apply drop_nil|apply IH].
Qed.
Lemma drop_length n l : length (drop n l) = (length l - n)%nat.
Proof. revert l; induction n as [|n IH]; intros [|x l]; cbn; try lia. apply IH. Qed.

Lemma chunks_fuel_nth n : (0 < n)%nat -> forall fuel l i, (length l <= fuel)%nat ->
  (i < length (chunks_fuel fuel n l))%nat ->
  nth i (chunks_fuel fuel n l) [] = take n (drop (i * n) l).
Proof.
  intros Hn. induction fuel as [|fuel IH]; intros l i Hf Hi; cbn [chunks_fuel] in *; [cbn in Hi; lia|].
  destruct (Nat.ltb_spec (length l) n) as [Hlt|Hge]; cbn [length] in Hi; [lia|].
  destruct i as [|i]; cbn [nth]; [reflexivity|].
  rewrite IH.
  - rewrite drop_drop. reflexivity.
  - rewrite drop_length. lia.
  - lia.
Qed.

Lemma chunks_fuel_length n : (0 < n)%nat -> forall fuel l, (length l <= fuel)%nat ->
  length (chunks_fuel fuel n l) = (length l / n)%nat.
Proof.
  intros Hn. induction fuel as [|fuel IH]; intros l Hf; cbn [chunks_fuel].
  - replace (length l) with 0%nat by lia. symmetry. apply Nat.div_0_l. lia.
  - destruct (Nat.ltb_spec (length l) n) as [Hlt|Hge]; cbn [length].
    + symmetry. apply Nat.div_small. assumption.
    + rewrite IH by (rewrite drop_length; lia). rewrite drop_length.
      replace (length l) with ((length l - n) + 1 * n)%nat at 2 by lia.
      rewrite Nat.div_add by lia. lia.
Qed.

Lemma c12_chunk_at n l i : (0 < n)%nat -> (i < length (chunks_exact n l))%nat ->
  nth i (chunks_exact n l) [] = take n (drop (i * n) l) /\ (i * n + n <= length l)%nat.
Proof.
  intros Hn Hi. unfold chunks_exact in *. split.
  - apply chunks_fuel_nth; try assumption. lia.
  - rewrite chunks_fuel_length in Hi by (try assumption; lia).
    pose proof (Nat.div_mod (length l) n ltac:(lia)) as Hdm. nia.
Qed.

(* ---- the examined words never include padding bytes (format 2, 10..15 bytes of padding) *)
Lemma c12_count_fmt2 ws p :
  Forall word10 ws -> (p <= 15)%nat -> last_not_ff (concat ws) ->
  detect_fmt0 (concat ws ++ repeat 255 p) = false ->
  option_map (@length _) (words_of (concat ws ++ repeat 255 p)) = Some (length ws).
Proof. intros. destruct (c12_fmt2 ws p) as [-> _]; try assumption. reflexivity. Qed.

(* ---- refutations of the unguarded statement (findings F12): the slot size is chosen from
   payload bytes 10..15, not from the header's data format ---- *)
Definition w_ihw : list N := [255;63;0;0;0;0;0;0;0;224].
Definition w_zero6 : list N := [0;0;0;0;0;0;117;213;125;232].   (* starts with six zero bytes *)

Lemma c12_refuted_fmt2 :
  exists ws p, Forall word10 ws /\ (p <= 15)%nat /\ last_not_ff (concat ws) /\
               words_of (concat ws ++ repeat 255 p) <> Some ws.
Proof.
  exists [w_ihw; w_zero6; w_ihw; w_ihw], 0%nat.
  split; [repeat constructor|]. split; [lia|]. split; [vm_compute; discriminate|].
  vm_compute. discriminate.
Qed.

Lemma c12_refuted_fmt0 :
  exists ws, Forall word10 ws /\ ws <> [] /\
             words_of (concat (map (fun w => w ++ [0;0;0;0;0;1]) ws)) <> Some ws.
Proof.
  exists [w_ihw; w_ihw]. split; [repeat constructor|]. split; [discriminate|].
  vm_compute. discriminate.
Qed.
